"""C01 — one owner per host, chosen identically in every event order."""
import vlib
from props import arbgen, arbprop

PROP = "C01"
PROPS_FILES = ["Nic/Props/C01.lean", "Nic/Props/TieArb.lean", "Nic/Props/TieRes.lean"]
# Go functions translated from /repo on every run (tools/gofn) and proved equal to the model in the Tie file above
TIE_FUNCS = ['internal/k8s/configuration.go:chooseObjectMetaWinner', 'internal/k8s/configuration.go:compareObjectMetas', 'internal/k8s/configuration.go:compareObjectMetasWithAnnotations', 'internal/k8s/configuration.go:getResourceKey', 'internal/k8s/configuration.go:getResourceKeyWithKind', 'internal/k8s/utils.go:isMinion', 'internal/k8s/utils.go:isMaster', 'pkg/apis/configuration/validation/virtualserver.go:isRegexOrExactMatch', 'pkg/apis/configuration/validation/globalconfiguration.go:generatePortProtocolKey', 'internal/k8s/configuration.go:IngressConfiguration.GetObjectMeta', 'internal/k8s/configuration.go:VirtualServerConfiguration.GetObjectMeta', 'internal/k8s/configuration.go:TransportServerConfiguration.GetObjectMeta', 'internal/k8s/configuration.go:dispatch:Resource.GetObjectMeta', 'internal/k8s/configuration.go:IngressConfiguration.GetKeyWithKind', 'internal/k8s/configuration.go:VirtualServerConfiguration.GetKeyWithKind', 'internal/k8s/configuration.go:TransportServerConfiguration.GetKeyWithKind', 'internal/k8s/configuration.go:IngressConfiguration.Wins', 'internal/k8s/configuration.go:VirtualServerConfiguration.Wins', 'internal/k8s/configuration.go:TransportServerConfiguration.Wins', 'internal/k8s/configuration.go:IngressConfiguration.IsEqual', 'internal/k8s/configuration.go:VirtualServerConfiguration.IsEqual', 'internal/k8s/configuration.go:TransportServerConfiguration.IsEqual', 'internal/k8s/configuration.go:type MinionConfiguration', 'internal/k8s/configuration.go:type IngressConfiguration', 'internal/k8s/configuration.go:type VirtualServerConfiguration', 'internal/k8s/configuration.go:type TransportServerConfiguration']
HARNESS = "vh-k8s"
RULE = ("histories (2..12 ops; thorough: up to 30 and all permutations of short ones) of add/update/delete/invalidate/class-change "
        "events over regular/master/minion/challenge Ingresses, VirtualServers, VirtualServerRoutes, TransportServers (passthrough, TCP, UDP) "
        "and GlobalConfigurations; 2 namespaces x 3 names shared across kinds, 3 hosts, timestamps from {1,2,3} (ties frequent), fresh UID on "
        "re-creation. After every op the hosts served per resource (ValidHosts / VS host / passthrough TS host from GetResources) are "
        "compared with Spec.owner (champion of all claimants of the current object set); the full observation is compared with the model. "
        "Non-trivial: some host was contended (a host-taken warning or problem was produced); distinct by history text.")
TRUSTED = [
    "standalone validators' verdict and the class predicate are inputs of the model (valid/cls bits), produced by really invalid / foreign-class objects in the harness",
    "Kubernetes guarantees assumed: distinct live objects have distinct UIDs; UID strings are fixed-width so byte order = numeric order",
]
ASSUMPTIONS = ["an Ingress does not list the same host twice (validateIngressSpec rejects it)"]
LEVEL_TEXT = ("Lean 4 theorems over the arbitration model (Nic/Model/Arb.lean, a step-for-step twin of configuration.go): beats is a strict total "
              "order on distinct UIDs; the running-holder fold returns the champion; buildHosts assigns every host to Spec.owner (the claimant that "
              "beats all others) for any object set; every operation re-establishes hosts = build(objects), hence the owner map after any history "
              "depends only on the final object set (history_independent)."
              ' Source tie: chooseObjectMetaWinner, Wins, GetObjectMeta (dynamic dispatch), getResourceKey(WithKind) and isMaster/isMinion are translated from /repo on every run (tools/gofn -> Nic/Gen/Fns.lean) and proved equal to the model (TieArb.winner_is_beats, TieRes.*_wins_tie, ...); the strict-total-order facts are also proved directly about the translated comparison (winner_asymm / winner_total / winner_trans).')
LEVEL_NOTE = ("Assurance = weaker of (kernel-checked theorems about the model, differential correspondence model vs real Configuration on generated "
              "histories, every op). Validator verdicts and class predicate are parameters.")
TECHNIQUE = "Lean 4 proof (fold-is-champion, invariant over all histories) + model/implementation correspondence on event histories"


def spec_judge(kv, ops, iobs, sobs, r):
    for i, (io, so) in enumerate(zip(iobs, sobs)):
        own = arbgen.impl_owners(io["R"])
        for h, ks in own.items():
            if len(ks) > 1:
                return "after op#%d (%s) host %s is served by %s" % (i, ops[i], h, ks)
        got = dict((h, ks[0]) for h, ks in own.items())
        if got != so["O"]:
            return "after op#%d (%s) owners differ: real=%s Spec.owner=%s" % (i, ops[i], sorted(got.items()), sorted(so["O"].items()))
        if any("host-taken" in "+".join(d.get("w", [])) for d in io["R"].values()) or any("taken" in p[-1] for p in io["P"]):
            r["nontrivial"] = True
    return None


def issue_class(issue):
    return "owners" if "owners differ" in issue else "double" if "is served by" in issue else "other"


def gen(rng, tier):
    cases = []
    for _ in range(120 if tier == "quick" else 1500):
        cases.append(dict(line=arbgen.gen_replaced_contest(rng, ("ing", "vs", "pt")), tags=["replaced-object"]))
    for _ in range(120 if tier == "quick" else 1500):
        cases.append(dict(line=arbgen.gen_replaced_attached(rng), tags=["replaced-attached-object"]))
    n, maxops = (400, 12) if tier == "quick" else (3000, 30)
    for _ in range(n):
        cases.append(dict(line=arbgen.gen_history(rng, maxops=maxops), tags=["history"]))
    if tier == "thorough":
        for _ in range(30):
            base = arbgen.gen_history(rng, maxops=5, weights=dict(ing=8, vs=5, ts=3, delete=3, vsr=1, gc=1))
            for l in arbgen.permutations_same_end(base, limit=120):
                cases.append(dict(line=l, tags=["permutation"]))
    return cases


def corpus():
    return [dict(line=l, tags=["corpus"]) for l in arbgen.corpus_lines("arb") + arbgen.corpus_lines(PROP)]


def load_replay(obj):
    return [dict(line=obj["case"]["line"], tags=["replay"])]


def run_cases(cases, bins, res, tier, broken):
    import sys
    arbprop.run_cases(sys.modules[__name__], cases, bins, res, tier, broken)


def shrink(case, issue, bins):
    import sys
    return arbprop.shrink(sys.modules[__name__], case, issue, bins)


SIGNATURES = {}
