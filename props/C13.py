"""C13 — a reload is acknowledged only after NGINX serves the new configuration version."""
import itertools
import vlib

PROP = "C13"
PROPS_FILES = ["Nic/Props/C13.lean"]
TIMING_SENSITIVE = True      # real polling intervals and timeouts: a disagreement must reproduce when the case is run alone
HARNESS = "vh-nginx"
UNSHARE = True        # private mount namespace providing a fake /usr/sbin/nginx for LocalManager.Reload
PARALLEL = 12
RULE = ("wait: answer schedules (<=6 polls) over {exact version, stale, other, signed/zero-padded, whitespace/newline garbage, "
        "empty, non-numeric, out-of-range, non-200, transport error} x cost {0, 60, 120, slower than the timeout}; "
        "mgr: sequences (<=5) of Reload (fake binary ok/failing, scripted endpoint) and Update[Stream]ServersInPlus against a worker "
        "serving current/stale/failing version. Non-trivial: the verdict is reached after at least one answer that does not count "
        "(wait) / at least two operations (mgr); distinct by case text. Cases whose verdict lies within 20 ms of a timing threshold "
        "in the model are skipped (counted under skipped).")
TRUSTED = [
    "scheduler jitter and the real HTTP stack are outside the model: a poll that starts before the deadline is accepted even if answered after it (theorem waitT_elapsed_bound states the 2T+interval bound)",
    "strconv.Atoi is modelled (atoi) and compared on generated bodies; int is 64-bit",
    "fake /usr/sbin/nginx (mount namespace) stands for the binary's exit status; NGINX itself is not run",
]
ASSUMPTIONS = ["abstract time: answers cost a fixed number of ms; only schedules with >=20 ms margin to every timing threshold are compared"]


def hexs(s):
    return s.encode("latin-1").hex()


def body_pool(exp):
    return [
        (str(exp), 6), (str(exp - 1), 3), (str(exp + 1), 2), ("+" + str(exp), 1), ("0" + str(exp), 1),
        (" " + str(exp), 1), (str(exp) + "\n", 2), ("", 1), ("abc", 1), ("-0", 1), ("-" + str(exp), 1),
        ("99999999999999999999", 1), (str(exp) + "_0", 1), ("0x" + str(exp), 1), (str(exp) + ".0", 1),
    ]


def gen_poll(rng, exp, T):
    k = rng.weighted([("b", 7), ("n", 2), ("e", 2)])
    cost = rng.weighted([(0, 8), (60, 2), (120, 1), (T + 150, 1)])
    if k == "b":
        return "b:%s:%d" % (hexs(rng.weighted(body_pool(exp))), cost)
    return "%s:%d" % (k, cost)


def gen_sched(rng, exp, T, maxlen):
    n = rng.below(maxlen + 1)
    return ",".join(gen_poll(rng, exp, T) for _ in range(n)) or "-"


def nontrivial_sched(s):
    return s.count(",") >= 1


def gen(rng, tier):
    cases = []
    nwait, nmgr, natoi = (140, 40, 60) if tier == "quick" else (1200, 300, 400)
    for _ in range(nwait):
        exp = rng.choice([0, 1, 2, 7, 10, 12345])
        T = rng.choice([200, 300])
        s = gen_sched(rng, exp, T, 6)
        cases.append(dict(line="wait exp=%d timeout=%d sched=%s" % (exp, T, s), tags=["wait"], nontrivial=nontrivial_sched(s)))
    for _ in range(nmgr):
        T = 200
        ops = []
        ver = 0
        for _ in range(1 + rng.below(5)):
            k = rng.weighted([("r", 5), ("u", 2), ("s", 1), ("U", 2), ("S", 1)])
            if k in ("U", "S"):
                # real unix socket, one shared client: the i-th accepted connection belongs to a worker of that generation
                ops.append("%s/%s" % (k, rng.choice(["cur", "cur+old", "old+cur", "cur+old+old", "old", "cur+cur"])))
            elif k == "r":
                ver += 1
                b = rng.weighted([(1, 3), (0, 1)])
                ops.append("r/%d/%s" % (b, gen_sched(rng, ver, T, 3)))
            else:
                w = rng.weighted([("cur", 3), (str(max(ver - 1, 0)), 2), ("err", 1), (str(ver + 1), 1)])
                ops.append("%s/%s" % (k, w))
        cases.append(dict(line="mgr timeout=%d ops=%s" % (T, ";".join(ops)), tags=["mgr"], nontrivial=len(ops) >= 2))
    for _ in range(natoi):
        exp = rng.choice([0, 5, 42, 9223372036854775807])
        b = rng.weighted(body_pool(exp) + [("9223372036854775808", 1), ("-9223372036854775808", 1), ("-9223372036854775809", 1), ("+", 1), ("-", 1), ("1 ", 1), ("١", 1) if False else ("\xb2", 1)])
        cases.append(dict(line="atoi ans=b:%s:0" % hexs(b), tags=["atoi"], nontrivial=True))
    if tier == "thorough":
        kinds = ["b:%s:0" % hexs("3"), "b:%s:0" % hexs("2"), "b:%s:0" % hexs("3\n"), "n:0", "e:0"]
        for n in range(0, 5):
            for combo in itertools.product(kinds, repeat=n):
                s = ",".join(combo) or "-"
                cases.append(dict(line="wait exp=3 timeout=150 sched=%s" % s, tags=["wait-exhaustive"], nontrivial=n >= 2))
    return cases


def corpus():
    out = []
    for l in vlib_corpus("C13"):
        out.append(dict(line=l, tags=["corpus"], nontrivial=True))
    return out


def vlib_corpus(prop):
    import os
    d = os.path.join(vlib.VERIF, "corpus", prop)
    lines = []
    if os.path.isdir(d):
        for f in sorted(os.listdir(d)):
            for l in open(os.path.join(d, f)):
                l = l.strip()
                if l and not l.startswith("#"):
                    lines.append(l)
    return lines


def load_replay(obj):
    return [dict(line=obj["case"]["line"], tags=["replay"], nontrivial=True)]


def strip(s, key):
    return " ".join(t for t in (s or "").split() if not t.startswith(key + "="))


def margin(model):
    for t in (model or "").split():
        if t.startswith("margin="):
            return int(t[7:])
    return 10 ** 9


def judge(case, impl, model, spec):
    if impl is None or model is None:
        return dict(corr="missing output impl=%r model=%r" % (impl, model))
    if impl == "nobin":
        return dict(skip=True, tags=["skipped-no-fake-binary"])
    if impl.startswith("hang") or impl.endswith("r:hang"):
        # decided before the timing margin: no margin makes "never reported" right
        return dict(spec="the wait was reported neither successful nor failed long after the configured timeout (more than 8 x timeout + 3 s): %s" % impl)
    if margin(model) < 20:
        return dict(skip=True, tags=["skipped-timing-margin"])
    kind = case["line"].split()[0]
    m = strip(model, "margin")
    r = {}
    if kind == "wait":
        if spec and impl.split()[0] != spec:
            r["spec"] = "real WaitForCorrectVersion returned %s, the property's Spec says %s" % (impl.split()[0], spec)
            return r
    if kind == "mgr":
        # property stated directly on the real observations: tags strictly increase, file == tag, API only after confirmation
        prev = 0
        for op in impl.split(";"):
            f = op.split(":")
            if f[0] == "r":
                ver = int(f[2])
                if not (ver > prev) or f[3] != str(ver) or f[4] != str(ver):
                    r["spec"] = "reload tag/file not strictly increasing or version file differs from tag: %s" % op
                    return r
                prev = ver
            elif f[0] in ("u", "s"):
                pass
        # API called only when the worker confirmed the current version
        ops = case["line"].split("ops=")[1].split(";")
        cur = 0
        for o, op in zip(ops, impl.split(";")):
            if o.startswith("r/"):
                cur += 1
            elif o[0] in "US":
                # connection level: no API request may be served by a worker that did not answer the check with 200 on that
                # connection, and requests are sent iff the first worker runs the current version
                f = op.split(":")
                first = o.split("/")[1].split("+")[0]
                if f[2] != "0":
                    r["spec"] = "%s API request(s) reached a worker that had not confirmed the current version on that connection: %s for op %s" % (f[2], op, o)
                    return r
                if (f[3] == "1") != (first == "cur"):
                    r["spec"] = "API requests sent iff the worker answering the check runs the current version: %s for op %s" % (op, o)
                    return r
            else:
                w = o.split("/")[1]
                confirmed = (w == "cur") or (w == str(cur))
                f = op.split(":")
                if (f[3] == "1") != confirmed or f[2] != str(cur):
                    r["spec"] = "API pushed without confirmation of the current version (or wrong expected-version header): %s for op %s" % (op, o)
                    return r
    if impl != m:
        r["corr"] = "impl=%r model=%r" % (impl, m)
    return r

LEVEL_TEXT = ("Lean 4 theorems over an executable model of WaitForCorrectVersion/GetConfigVersion/strconv.Atoi and the manager's version "
              "bookkeeping: wait_ok_iff (success iff a poll issued before the deadline was answered in time with exactly the expected "
              "version and no earlier one was) for every schedule, timeout and interval; versions_strictly_increase for every sequence of "
              "reload outcomes; api_only_after_confirm. Partial: scheduler jitter and the HTTP stack are outside the model."
              ' Connection level: api_only_to_confirming_worker (updateConn).')
LEVEL_NOTE = ("Assurance = weaker of (kernel-checked theorems about the model, differential correspondence of model vs real verifyClient / "
              "LocalManager on scripted answer schedules). Trusted: Lean kernel, propext/Quot.sound/Classical.choice, harness + canonicalisation, "
              "fake nginx binary in a private mount namespace, abstract time with a 20 ms margin rule.")
TECHNIQUE = "Lean 4 proof (induction over the answer schedule) + model/implementation correspondence on scripted endpoints"
