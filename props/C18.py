"""C18 — observers running beside the control loop never race with it."""
import json
import os
import re
import subprocess
import sys
import vlib

sys.path.insert(0, os.path.join(vlib.VERIF, "lib"))
import racelog  # noqa: E402

PROP = "C18"
PROPS_FILES = ["Nic/Props/C18.lean"]
HARNESSES = []          # the race binary is built here with -race
RULE = ("for each observer role — service-insight handlers, telemetry getters, leader-election status readers, informer-side VirtualServer "
        "handlers under -weight-changes-dynamic-reload, certificate rotation — the role's production calls run in their own goroutines in a tight "
        "loop while the control-loop worker processes N rounds of store mutations (single tasks and batches: endpoints, VirtualServer / Ingress / "
        "TransportServer updates and deletions, Secret and ConfigMap changes) through the real handlers, queue and sync of a real controller; the "
        "binary is built with the Go race detector, whose reports are parsed into racing pairs of source sites. A pair is a violation unless it is a "
        "listed known finding. Non-trivial: a role whose observers made at least 1000 calls while the worker processed at least 50 tasks.")
TRUSTED = ["the Go race detector (happens-before, no false positives; it only sees the schedules that occur)",
           "tools/lockfacts: syntactic extraction of 'takes recv.lock' and of the receiver fields a method reads / writes",
           "expect/c18_roles.json: which methods other goroutines call (read off healthcheck.go, telemetry/*.go, leader.go, handlers.go)"]
ASSUMPTIONS = ["schedules: those the race detector observes in the soak (quick: 40 rounds per role, thorough: 400 and 3 repetitions)",
               "the theorem covers lock discipline of the guarded state; torn reads of unguarded state are only seen dynamically"]
LEVEL_TEXT = ("Lean 4 theorems: discipline_race_free (for every sequence of Lock/Unlock/RLock/RUnlock steps by any threads, a thread able to write a "
              "guarded location never coexists with another able to read or write it — all schedules) and observers_respect_discipline_partial, "
              "decided over a table regenerated from /repo by tools/lockfacts (every method of Configuration, Configurator, LocalSecretStore: lock "
              "mode, fields read and written): every observer-called method that is not a known finding takes the mutex in the right mode and so do "
              "all writers of what it touches. PARTIAL: the Configurator and the secret store have no lock (findings S-C18-a, S-C18-d), and the "
              "informer-side weight-change handlers run generation outside any lock (S-C18-b); those are decided by the race-detector soak only."
              " Regenerated obligations also cover no_access_before_lock (no field touched in front of the method's own Lock()) and writers_hold_exclusive_lock (no write under RLock() or without the lock, helpers included).")
LEVEL_NOTE = "Assurance = weaker of (discipline theorem + regenerated lock table, race-detector soak of each role). Partial: see level text."
TECHNIQUE = "Lean 4 proof (RW-lock discipline ⇒ no conflicting access pair, all schedules) + lock facts regenerated from source + race-detector soak of each observer role"

TYPES = ["internal/k8s/configuration.go:Configuration", "internal/configs/configurator.go:Configurator", "internal/k8s/secrets/store.go:LocalSecretStore"]
ROLES = ["insight", "telemetry", "leader", "informer", "rotation", "secrets"]


def regenerate(tier):
    tooldir = os.path.join(vlib.VERIF, "tools", "lockfacts")
    binp = os.path.join(vlib.VERIF, ".build", "lockfacts")
    gen = os.path.join(vlib.LEAN, "Nic", "Gen", "LockFacts.lean")
    p = subprocess.run(["go", "build", "-o", binp, "."], cwd=tooldir, env=vlib.goenv(), capture_output=True, text=True)
    if p.returncode != 0:
        return dict(broken=[("translator-build:lockfacts", p.stderr[-2000:])], obligations=1, discharged=0)
    p = subprocess.run([binp, vlib.REPO] + TYPES, capture_output=True, text=True)
    if p.returncode != 0:
        return dict(broken=[("translator-run:lockfacts", p.stderr[-2000:])], obligations=1, discharged=0)
    facts = json.loads(p.stdout)
    for f in facts:
        f["reads"], f["writes"], f["calls"] = f["reads"] or [], f["writes"] or [], f.get("calls") or []
    # a helper that does not lock by itself runs under the weakest lock of its same-type callers (fixpoint); exported methods and
    # helpers nobody in the type calls keep what their own body does
    rank = {"none": 0, "r": 1, "w": 2}
    names = {(f["type"], f["method"]) for f in facts}
    callers = {}
    for f in facts:
        for c in f["calls"]:
            if (f["type"], c) in names:
                callers.setdefault((f["type"], c), []).append(f)
    for _ in range(10):
        changed = False
        for f in facts:
            cs = callers.get((f["type"], f["method"]), [])
            if f["lock"] == "none" and cs and not f["method"][0].isupper():
                weakest = min((c["lock"] for c in cs), key=lambda l: rank[l])
                if weakest != "none":
                    f["lock"], changed = weakest, True
        if not changed:
            break
    roles = json.load(open(os.path.join(vlib.VERIF, "expect", "c18_roles.json")))
    broken = []
    by = {(f["type"], f["method"]): f for f in facts}
    # data fields = fields written by some method of the type
    written = {}
    for f in facts:
        written.setdefault(f["type"], set()).update(f["writes"])
    obs = []
    for t, m, role in roles["observers"]:
        if (t, m) not in by:
            broken.append(("lockfacts:observer-method-gone", "%s.%s (role %s) no longer exists: expect/c18_roles.json is stale" % (t, m, role)))
            continue
        obs.append(by[(t, m)])
    # keep only what the obligation needs: the observers, and the methods that touch a written field an observer touches
    fields = {(o["type"], f) for o in obs for f in o["reads"] + o["writes"] if f in written.get(o["type"], ())}
    keep = [f for f in facts if any((f["type"], x) in fields for x in f["reads"] + f["writes"])]
    # an access of a written field before the method's own Lock()/RLock(): not covered by the mutex although the method locks
    pre = []
    for f in facts:
        fl = [x for x in (f.get("prelock") or []) if x in written.get(f["type"], ())]
        if fl:
            pre.append((f["type"], f["method"], fl))
            broken.append(("lockfacts:access-before-lock:%s.%s" % (f["type"], f["method"]), "touches %s before taking the mutex it takes later in the same body" % ", ".join(fl)))
    # a method of the lock-carrying arbitration state that WRITES one of its fields must run under the exclusive lock (its own, or —
    # for an unexported helper — that of every caller): a lazily filled cache written under RLock() is exactly such a write
    weak = []
    for f in facts:
        if f["type"] == "Configuration" and f["writes"] and f["lock"] != "w":
            weak.append((f["type"], f["method"], f["lock"], f["writes"]))
            broken.append(("lockfacts:write-without-exclusive-lock:%s.%s" % (f["type"], f["method"]),
                           "writes %s while holding %s" % (", ".join(f["writes"]), {"r": "only the read lock", "none": "no lock"}[f["lock"]])))
    esc = lambda x: x.replace("\\", "\\\\").replace('"', '\\"')
    row = lambda f: '  ⟨"%s", "%s", "%s", [%s], [%s]⟩' % (esc(f["type"]), esc(f["method"]), f["lock"],
                                                       ", ".join('"%s"' % esc(x) for x in f["reads"] if (f["type"], x) in fields),
                                                       ", ".join('"%s"' % esc(x) for x in f["writes"] if (f["type"], x) in fields))
    with open(gen, "w") as out:
        out.write("/- GENERATED by props/C18.py (tools/lockfacts + expect/c18_roles.json) from /repo — do not edit. -/\nimport Nic.Model.Lockset\nnamespace Nic.Gen.LockFacts\nopen Nic.Lockset\n\n")
        out.write("def facts : List Fact := [\n" + ",\n".join(row(f) for f in keep) + "\n]\n\n")
        out.write("def observers : List Fact := [\n" + ",\n".join(row(f) for f in obs) + "\n]\n\n")
        out.write("def exempt : List String := [" + ", ".join('"%s"' % esc(x) for x in roles["exempt"]) + "]\n\n")
        out.write("/-- methods of the arbitration state that write a field without holding the exclusive lock -/\n")
        out.write("def weakWriters : List (String × String × String) := [" + ", ".join('("%s", "%s", "%s")' % (esc(t), esc(m), l) for t, m, l, _ in weak) + "]\n\n")
        out.write("/-- methods that take the receiver's mutex but touch a written field of the receiver BEFORE taking it -/\n")
        out.write("def prelocks : List (String × String × List String) := [" + ", ".join('("%s", "%s", [%s])' % (esc(t), esc(m), ", ".join('"%s"' % esc(x) for x in fl)) for t, m, fl in pre) + "]\n\nend Nic.Gen.LockFacts\n")
    return dict(broken=broken, obligations=len(obs) + 1, discharged=len(obs) + 1 - len(broken),
                summary=dict(methods=len(facts), table_rows=len(keep), observers=len(obs), exempt=len(roles["exempt"])))


def gen(rng, tier):
    rounds = 60 if tier == "quick" else 400
    reps = 1 if tier == "quick" else 3
    cases = []
    for rep in range(reps):
        for role in ROLES:
            for plus in (1,):
                cases.append(dict(line="race role=%s plus=%d rounds=%d dw=1 rep=%d" % (role, plus, rounds, rep), tags=[role]))
    return cases


def corpus():
    return []


def load_replay(obj):
    return [dict(line=obj["case"]["line"], tags=["replay"])]


def run_cases(cases, bins, res, tier, broken):
    ok, log, binp = vlib.build_go("vh-race", race=True)
    if not ok:
        broken.append(("harness-build:vh-race(-race)", log[-3000:]))
        return
    logdir = os.path.join(vlib.BUILD, "racelogs")
    os.makedirs(logdir, exist_ok=True)
    for i, c in enumerate(cases):
        prefix = os.path.join(logdir, "r%d" % i)
        for f in os.listdir(logdir):
            if f.startswith("r%d." % i):
                os.remove(os.path.join(logdir, f))
        env = vlib.goenv()
        env["GORACE"] = "log_path=%s halt_on_error=0" % prefix
        f = c["line"].split(" ", 1)
        p = subprocess.run([binp], input="%s %d %s\n" % (f[0], i, f[1]), env=env, capture_output=True, text=True, timeout=1800)
        out = p.stdout.strip().split(" ", 2)
        impl = out[2] if len(out) > 2 else "CRASH rc=%d %s" % (p.returncode, p.stderr[-300:].replace("\n", " "))
        res["evaluations"] += 1
        for t in c.get("tags", []):
            res["dist"][t] = res["dist"].get(t, 0) + 1
        if not impl.startswith("done#"):
            m = re.search(r"fatal error: (concurrent map [a-z ]+)", p.stderr)
            if m:
                # the Go runtime's own detector: not recoverable, the process dies (this is how such a race shows in production)
                site = racelog.site_of(p.stderr.split("goroutine ", 2)[1].splitlines()[1:]) if "goroutine " in p.stderr else None
                res["validated"] += 1
                res["spec_bad"].append((dict(line=c["line"], impl=impl[:300]), "data race (%s): R:%s <-> W:? fatal error: %s" % (c["line"].split()[1], site or "?", m.group(1))))
                continue
            res["spec_bad"].append((dict(line=c["line"], impl=impl[:500]), "the process crashed or the harness failed: " + impl[:200]))
            continue
        res["validated"] += 1
        d = dict((x.split("=", 1) + [""])[:2] for x in impl.split("#")[1:])
        if int(d.get("observer_calls", "0")) >= 1000 and int(d.get("tasks", "0")) >= 50:
            res["nontrivial"].add(vlib.sha(c["line"]))
        pairs = racelog.parse(prefix + ".")
        if len(res["samples"]) < 6:
            res["samples"].append(dict(case=c["line"], impl=impl, model="-", spec="%d distinct racing pairs" % len(pairs)))
        for pair, n in sorted(pairs.items()):
            res["spec_bad"].append((dict(line=c["line"], impl=impl, pair=list(pair), reports=n), "data race (%s): %s" % (c["line"].split()[1], " <-> ".join(pair))))


CNF_OBS = r"configs\.\(\*Configurator\)\.(UpstreamsForHost|StreamUpstreamsForName|virtualServerForHost|transportServerForActionName|upstreamsForVirtualServer|streamUpstreamsForTransportServer|GetIngressCounts|GetVirtualServerCounts|GetTransportServerCounts|GetIngressAnnotations|getStandardIngressAnnotations|getMinionIngressAnnotations)@"


def sig_configurator(case, issue):
    """S-C18-a: a service-insight / telemetry reader of the Configurator's maps (no lock exists) against any writer."""
    if not ("role=insight" in issue or "role=telemetry" in issue):
        return False
    # the readers are the Configurator's observer methods; through them also cnf.CfgParams (its logger context), which updateAllConfigs replaces
    if re.search(r"R:harness\(inlined-callee\) <-> W:configs\.\(\*Configurator\)\.", issue):
        return True      # a getter small enough to be inlined into the observer loop (GetTransportServerCounts: len(cnf.transportServers))
    return re.search(r"R:" + CNF_OBS, issue) is not None or re.search(r"R:logger\.LoggerFromContext@.*W:(logger\.ContextWithLogger|k8s\.\(\*LoadBalancerController\)\.updateAllConfigs|configs\.NewDefaultConfigParams)@", issue) is not None


def sig_informer(case, issue):
    """S-C18-b: with -weight-changes-dynamic-reload the informer goroutine rebuilds the arbitration state (under its lock) while the
    worker's createVirtualServerEx / createTransportServerEx read it, and the objects it hands out, without the lock."""
    return "role=informer" in issue and re.search(r"R:k8s\.\(\*LoadBalancerController\)\.create(VirtualServer|TransportServer|Ingress)Ex@|R:k8s\.\(\*Configuration\)\.GetTransportServerMetrics@|R:k8s\.\(\*LoadBalancerController\)\.(processChanges|updateVirtualServerMetrics|updateTransportServerMetrics)@", issue) is not None \
        and re.search(r"W:k8s\.(\(\*Configuration\)\.|New\w+Configuration@)", issue) is not None


def sig_secretstore(case, issue):
    """S-C18-d: telemetry takes len() of the secret store's map, which the worker writes; the store has no lock."""
    # exactly that pair: the len() is evaluated by the caller of GetSecretReferenceMap (the collector; here the harness' observer), the
    # write is inside the store. A read INSIDE the store (an iteration, a lookup) or the runtime's own fatal error is another race (seed C18-5).
    return ("role=telemetry" in issue or "role=secrets" in issue) and "fatal error" not in issue and \
        re.search(r"R:(harness\(inlined-callee\)|telemetry\.\(\*Collector\)\.Secrets@\S*) <-> W:secrets\.\(\*LocalSecretStore\)\.", issue) is not None


SIGNATURES = {"configurator-maps-read-by-observers-without-lock": sig_configurator,
              "informer-side-weight-handler-vs-unlocked-worker-reads": sig_informer,
              "secret-store-map-read-by-telemetry-without-lock": sig_secretstore}
