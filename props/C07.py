"""C07 — generated configuration always loads: well formed, no identifier defined twice."""
import json
import os
import vlib

PROP = "C07"
PROPS_FILES = ["Nic/Props/C07.lean", "Nic/Props/C07Tmpl.lean", "Nic/Props/TieNames.lean"]
# Go functions translated from /repo on every run (tools/gofn) and proved equal to the model in the Tie file above
TIE_FUNCS = ['internal/configs/configurator.go:keyToFileName', 'internal/configs/configurator.go:objectMetaToFileName', 'internal/configs/configurator.go:generateNamespaceNameKey', 'internal/configs/configurator.go:getFileNameForVirtualServer', 'internal/configs/configurator.go:getFileNameForTransportServer', 'internal/configs/configurator.go:getFileNameForVirtualServerFromKey', 'internal/configs/configurator.go:getFileNameForTransportServerFromKey', 'internal/configs/virtualserver.go:NewUpstreamNamerForVirtualServer', 'internal/configs/virtualserver.go:NewUpstreamNamerForVirtualServerRoute', 'internal/configs/virtualserver.go:upstreamNamer.GetNameForUpstream', 'internal/configs/virtualserver.go:upstreamNamer.GetNameForUpstreamFromAction', 'internal/configs/virtualserver.go:NewVSVariableNamer', 'internal/configs/virtualserver.go:rfc1123ToSnake', 'internal/configs/virtualserver.go:type upstreamNamer', 'internal/configs/virtualserver.go:type VariableNamer', 'internal/configs/virtualserver.go:generateStatusMatchName', 'internal/configs/virtualserver.go:generateErrorPageName', 'internal/configs/configurator.go:appProtectDosPolicyFileName']
HARNESS = "vh-k8s"
PARALLEL = 16
RULE = ("sets of accepted resources rendered through a real LoadBalancerController (all features on) and the real templates into a recording "
        "Manager: (a) the whole fixture set of C06 (Ingress regular / master / minions, VirtualServer + VirtualServerRoute with every policy "
        "kind, TransportServer TCP / UDP / TLS passthrough) instantiated in several namespaces with name prefixes and host tags drawn from a "
        "separator-rich alphabet (a-b/c- against a/b-c-, …); (b) minimal Ingress / VirtualServer / TransportServer resources, all pairs (quick: "
        "all Ingress pairs + a sample of the rest) over namespaces {a, a-b}, names {b, c, b-c, b-x, x}, hosts {x-y.ex, y.ex, c.ex, h.ex}, "
        "services {svc, c-svc}; each set × dependency state (everything present / Secrets absent / Secrets invalid / Services without ready "
        "endpoints / Policies and routes absent) × {NGINX, NGINX Plus}. Every file the Manager holds is read by the Go twin of the NGINX "
        "tokenizer: lexical errors, directives with an illegal number of arguments (table of the directives the templates write), and the "
        "definitions of upstream, zone, limit_req / keyval / cache zones, match blocks, named locations per server, server names per listen "
        "address, key-value and JWT-claim variables are collected across all files and checked for duplicates. Non-trivial: at least two "
        "resources rendered and at least 10 identifier definitions. The identifier constructors are compared with their Lean twins on generated "
        "component tuples.")
TRUSTED = ["the transcription of NGINX's tokenizer (shared with C06, checked against the Lean model there)",
           "the arity table of the directives the templates write and the list of identifier kinds NGINX requires to be unique (from the NGINX documentation; no NGINX binary in the sandbox)",
           "that the templates are compositions of the builder's directives and blocks is not proved; the rendered output of every generated set is checked instead"]
ASSUMPTIONS = ["names and namespaces are DNS-1123 (no underscore), upstream names DNS-1035 (API server / validators)",
               "Secrets / endpoints / policies may be absent or invalid; the resources themselves are accepted by validation"]
LEVEL_TEXT = ("Lean 4 theorems. Identifiers: joinS_inj (components free of the separator ⇒ the joined name determines the components), hence "
              "vs_/vsr_/ts_upstream_inj and vs_vsr_/vs_ts_disjoint over the whole DNS alphabet; ing_upstream_not_injective and "
              "safeNsName_not_injective (decided witnesses: S-C07-a, S-C07-b) with ing_upstream_inj_partial. Well-formedness: closed_renderDir, "
              "closed_renderBlock, closed_append, closed_ws, closed_wellFormed — every configuration built from directives and blocks whose words "
              "are token-safe is lexically well formed (tokens closed, braces balanced at every depth, every directive terminated), for all words "
              "and all sizes; C06's theorems supply token-safety of what the validators admit."
              ' Source tie: the upstream / variable namers and file-name functions are translated from /repo on every run and proved equal to the naming model the injectivity theorems are stated over (Props/TieNames.lean); the template analysis of the two TransportServer templates is also evaluated by the kernel (Props/C07Tmpl.lean); the hole-site table (lexical context of every interpolation site) is regenerated and pinned.')
LEVEL_NOTE = "Assurance = weaker of (theorems on the naming twins and on the tokenizer model, naming correspondence, the whole-output oracle on generated resource sets)."
TECHNIQUE = "Lean 4 proof (separator-join injectivity; verified configuration builder: closed pieces compose into well-formed files) + model/implementation correspondence on identifier constructors + whole-output duplicate/arity/lexical oracle on generated resource sets"

TEMPLATES = ["internal/configs/version1/nginx.ingress.tmpl", "internal/configs/version1/nginx-plus.ingress.tmpl",
             "internal/configs/version2/nginx.virtualserver.tmpl", "internal/configs/version2/nginx-plus.virtualserver.tmpl",
             "internal/configs/version2/nginx.transportserver.tmpl", "internal/configs/version2/nginx-plus.transportserver.tmpl",
             "internal/configs/version1/nginx.tmpl", "internal/configs/version1/nginx-plus.tmpl"]
TNAMES = []


def regenerate(tier):
    """tools/templates on /repo's template files -> lean/Nic/Gen/Templates.lean (terms of Nic.Tmpl.TL). The analysis
    `wellFormedForAll` is run on them by the driver in run_cases."""
    import subprocess
    tooldir = os.path.join(vlib.VERIF, "tools", "templates")
    binp = os.path.join(vlib.VERIF, ".build", "templates")
    gen = os.path.join(vlib.LEAN, "Nic", "Gen", "Templates.lean")
    os.makedirs(os.path.dirname(gen), exist_ok=True)
    with vlib.Lock("tr-templates"):
        e = vlib.goenv()
        e["GOFLAGS"] = ""
        p = subprocess.run(["go", "build", "-o", binp, "."], cwd=tooldir, env=e, capture_output=True, text=True)
        if p.returncode != 0:
            return dict(broken=[("translator-build:templates", p.stderr[-2000:])], obligations=1, discharged=0)
        p = subprocess.run([binp] + [os.path.join(vlib.REPO, t) for t in TEMPLATES], capture_output=True, text=True)
        if p.returncode != 0:
            return dict(broken=[("translator-run:templates", "a template no longer parses: " + p.stderr[-1500:])], obligations=len(TEMPLATES), discharged=0)
        ts = json.loads(p.stdout)
        body = ["import Nic.Model.Tmpl", "/- GENERATED by props/C07.py (tools/templates) from /repo — do not edit. -/", "namespace Nic.Gen.Templates", "open Nic.Tmpl", ""]
        for t in ts:
            body.append("/-- %s -/\ndef %s : TL :=\n  %s\n" % (os.path.relpath(t["file"], vlib.REPO), t["name"], t["lean"]))
        body.append("def table : List (String × TL) := [" + ", ".join('("%s", %s)' % (t["name"], t["name"]) for t in ts) + "]\n\nend Nic.Gen.Templates\n")
        text = "\n".join(body)
        if not os.path.exists(gen) or open(gen).read() != text:
            open(gen, "w").write(text)
    global TNAMES
    TNAMES = [t["name"] for t in ts]
    return dict(broken=[], obligations=0, discharged=0,
                summary=dict(templates={t["name"]: dict(holes=t["holes"], texts=t["texts"], ifs=t["ifs"], ranges=t["loops"]) for t in ts}))


NS = ["a", "a-b"]
NAMES = ["b", "c", "b-c", "b-x", "x"]
HOSTS = ["x-y.ex", "y.ex", "c.ex", "h.ex"]
SVCS = ["svc", "c-svc"]
DEPS = ["ok", "nosecrets", "badsecrets", "wrongsecrets", "noendpoints", "nopolicies"]


def hx(s):
    return s.encode().hex()


def leaves():
    import subprocess
    binp = os.path.join(vlib.BUILD, HARNESS)
    p = subprocess.run([binp], input="injlist 0\n", capture_output=True, text=True, env=vlib.goenv())
    got = vlib.parse_out(p.stdout, "impl").get("0", "")
    if not got.startswith("leaves="):
        return []
    out = []
    for x in got.split("#")[0][len("leaves="):].split(","):
        if x:
            fx_, path, hv = x.split("|")
            out.append((fx_, path, bytes.fromhex(hv).decode("utf-8", "replace")))
    return out


def gen(rng, tier):
    cases = []
    # (a) rich fixture sets in several namespaces
    fx = sorted(f for f in os.listdir(os.path.join(vlib.VERIF, "harness", "fixtures", "c06")) if f.endswith(".yaml") and not f.startswith(("policy-", "vsr-", "_")))
    combos = [[("d", "", "t1")], [("a-b", "c-", "t1"), ("a", "b-c-", "t2")], [("a", "b-", "t1"), ("a", "b-x-", "t2"), ("a-b", "", "t3")],
              [("n1", "", "t1"), ("n2", "", "t1x"), ("n1", "p-", "t2")]]
    for plus in (0, 1):
        for ci, combo in enumerate(combos):
            for deps in DEPS:
                if tier == "quick" and ci > 1 and deps not in ("ok", "nosecrets", "wrongsecrets"):
                    continue
                objs = ";".join("fx:%s:%s:%s:%s" % (f, ns, pre, tag) for (ns, pre, tag) in combo for f in fx)
                cases.append(dict(line="wf plus=%d deps=%s objs=%s" % (plus, deps, objs), tags=["fixture-set", deps, "instances=%d" % len(combo)]))
    # (b) minimal resources: pairs over the separator-rich alphabet
    items = [(k, ns, n, h, s) for k in ("ing", "vs", "ts") for ns in NS for n in NAMES for h in HOSTS for s in SVCS]
    pairs = []
    for i in range(len(items)):
        for j in range(i + 1, len(items)):
            a, b = items[i], items[j]
            if a[3] == b[3] or (a[1], a[2], a[0]) == (b[1], b[2], b[0]):
                continue        # same host: one of them is not active (C01); same key: the same object
            pairs.append((a, b))
    if tier == "quick":
        ing = [p for p in pairs if p[0][0] == "ing" and p[1][0] == "ing" and p[0][4] == p[1][4]]
        rest = [p for p in pairs if not (p[0][0] == "ing" and p[1][0] == "ing")]
        pairs = ing + [rng.choice(rest) for _ in range(600)]
    for a, b in pairs:
        plus = (sum(map(ord, "".join(a + b))) & 1) if tier == "quick" else None
        for pl in ((plus,) if plus is not None else (0, 1)):
            cases.append(dict(line="wf plus=%d deps=ok objs=min:%s;min:%s" % (pl, ":".join(a), ":".join(b)), tags=["minimal-pair", a[0] + "+" + b[0]]))
    # cross-namespace delegation: a route in another namespace with a policy of its own + a same-named VirtualServer there
    for plus in (0, 1):
        for ns1, ns2 in (("a", "b"), ("a-b", "c"), ("b", "a")):
            for name in ("web", "a-b"):
                for kind in ("rl", "rlkey"):
                    cases.append(dict(line="wf plus=%d deps=ok objs=xd:%s:%s:%s:%s" % (plus, ns1, ns2, name, kind), tags=["cross-namespace-delegation"]))
    # triples (a third resource shifts return-location / split indices)
    for _ in range(100 if tier == "quick" else 2000):
        t = [rng.choice(items) for _ in range(3)]
        if len({x[3] for x in t}) < 3:
            continue
        cases.append(dict(line="wf plus=%d deps=%s objs=%s" % (rng.below(2), rng.choice(DEPS), ";".join("min:" + ":".join(x) for x in t)), tags=["minimal-triple"]))
    # (c) benign value variations of every string leaf of the fixtures: empty items, stray separators, empty string
    for (fx_, path, base) in leaves():
        flavours = [1] if fx_.endswith(".plus.yaml") else [0, 1]
        vals = [base + ",", "," + base, base + ",," + base, base + "," + base, "", " ", base + " ", base + ";", base + ";" + base, base + ";;" + base]
        for v in sorted(set(vals)):
            for plus in flavours:
                if tier == "quick" and len(flavours) == 2 and (len(cases) + plus) % 2:
                    continue
                cases.append(dict(line="injwf fx=%s plus=%d path=%s val=%s" % (fx_, plus, path, hx(v)), tags=["value-variation"]))
    # template analysis on the regenerated template terms
    for n in TNAMES:
        cases.append(dict(line="tmpl name=%s" % n, tags=["template-analysis"], nontrivial=True))
        # the hole-site table: in which lexical contexts every interpolation site can be reached (reviewed: expect/c07_holesites.json)
        cases.append(dict(line="tmplsites name=%s" % n, tags=["hole-site-table"], nontrivial=True))
    # naming correspondence
    alpha = ["a", "b", "c", "a-b", "b-c", "x.y", "a.b-c", "vsr", "vs", "ts", "pol", "0", "a--b"]
    for _ in range(400 if tier == "quick" else 5000):
        f = rng.choice(["vsup", "vsrup", "tsup", "ingup", "safe"])
        n = dict(vsup=3, vsrup=5, tsup=3, ingup=5, safe=2)[f]
        cases.append(dict(line="nm f=%s a=%s" % (f, ",".join(hx(rng.choice(alpha)) for _ in range(n))), tags=["naming", f]))
    return cases


def corpus():
    d = os.path.join(vlib.VERIF, "corpus", PROP)
    out = []
    if os.path.isdir(d):
        for f in sorted(os.listdir(d)):
            for l in open(os.path.join(d, f)):
                l = l.strip()
                if l and not l.startswith("#"):
                    out.append(dict(line=l, tags=["corpus"], nontrivial=True))
    return out


def load_replay(obj):
    return [dict(line=obj["case"]["line"], tags=["replay"], nontrivial=True)]


def judge(case, impl, model, spec):
    if impl is None and not case["line"].startswith("tmpl"):
        return dict(corr="missing output")
    if case["line"].startswith("tmplsites "):
        name = case["line"].split("name=", 1)[1].split()[0]
        exp = json.load(open(os.path.join(vlib.VERIF, "expect", "c07_holesites.json"))).get(name)
        got = dict(x.split("=", 1) for x in (model or "").split(",") if "=" in x)
        if exp is None or not got:
            return dict(corr="hole-site table: no expectation / no table for template %s (%r)" % (name, (model or "")[:100]))
        diffs = ["%s: reviewed in [%s], now in [%s]" % (k, exp.get(k, "absent"), got.get(k, "absent")) for k in sorted(set(exp) | set(got)) if exp.get(k) != got.get(k)]
        if diffs:
            return dict(corr="hole-site table of %s changed (the lexical context a value is written in decides what its validator must guarantee): %s" % (name, "; ".join(diffs[:6])))
        return dict(nontrivial=True)
    if case["line"].startswith("tmpl "):
        if model != "ok":
            return dict(corr="template analysis (all branch combinations, any number of iterations, any values of the expected classes): %s" % model)
        return dict(nontrivial=True)
    if case["line"].startswith("nm "):
        if impl != model:
            return dict(corr="identifier constructor: code %r, Lean twin %r" % (impl, model))
        return dict(nontrivial=True)
    if impl == "rej":
        return dict(tags=["rejected by validation"])
    if not (impl.startswith("objs=") or impl.startswith("acc#")):
        return dict(corr="harness: " + impl[:300])
    d = dict((x.split("=", 1) + [""])[:2] for x in impl.split("#"))
    r = {}
    if int(d.get("files", "0")) >= 3 and int(d.get("defs", "0")) >= 10:
        r["nontrivial"] = True
    r["tags"] = []
    if d.get("rejected", "0") != "0":
        r["tags"].append("some resources rejected by validation")
    if d.get("locdups"):
        r["tags"].append("duplicate regular location (not in the property's list)")
    problems = []
    if d.get("malformed"):
        problems.append("lexically malformed: " + d["malformed"])
    if d.get("arity"):
        problems.append("illegal number of arguments: " + d["arity"])
    if d.get("dups"):
        problems.append("defined twice: " + d["dups"])
    if problems:
        r["spec"] = "; ".join(problems)[:1500]
    return r


def sig_ingress_upstream(case, issue):
    """S-C07-a: only upstream / zone names of Ingress files (no vs_ / ts_ prefix) collide, nothing else is wrong."""
    impl = case.get("impl") or ""
    d = dict((x.split("=", 1) + [""])[:2] for x in impl.split("#"))
    if d.get("malformed") or d.get("arity") or not d.get("dups"):
        return False
    for e in d["dups"].split(","):
        if not (e.startswith("upstream:") or e.startswith("zone:")):
            return False
        files = e.split("in:", 1)[1].split("+")
        if any("/vs_" in f or "/ts_" in f or not f.startswith("conf/") for f in files):
            return False
    return True


def sig_jwks_zone(case, issue):
    """S-C07-c: only JWKS cache zones (named after the VirtualServer's name alone) collide."""
    impl = case.get("impl") or ""
    d = dict((x.split("=", 1) + [""])[:2] for x in impl.split("#"))
    if d.get("malformed") or d.get("arity") or not d.get("dups"):
        return False
    return all(e.startswith("cache_zone:jwks_uri_") for e in d["dups"].split(","))


def generalise(path):
    out, i = [], 0
    while i < len(path):
        if path[i] == "[":
            j = path.index("]", i)
            inner = path[i + 1:j]
            out.append("[]" if inner.isdigit() else "[" + inner + "]")
            i = j + 1
        else:
            out.append(path[i])
            i += 1
    return "".join(out)


def sig_site(fid):
    def f(case, issue):
        line = case.get("line", "")
        if not line.startswith("injwf"):
            return False
        kv = dict(x.split("=", 1) for x in line.split()[1:] if "=" in x)
        site = kv.get("fx", "").split("-", 1)[0] + ":" + generalise(kv.get("path", ""))
        for fd in vlib.load_findings():
            if fd.get("id") == fid:
                return site in fd.get("sites", [])
        return False
    return f


SIGNATURES = {"c07-site:" + i: sig_site(i) for i in ("S-C07-d", "S-C07-e", "S-C07-f", "S-C07-g")}
SIGNATURES.update({"ingress-upstream-name-collision": sig_ingress_upstream, "jwks-cache-zone-without-namespace": sig_jwks_zone})
