"""C05 — every resource not serving traffic has been told why; active ones are not."""
import sys
import vlib
from props import arbgen, arbprop, C04

PROP = "C05"
PROPS_FILES = ["Nic/Props/C05.lean", "Nic/Props/TieProblems.lean"]
# Go functions translated from /repo on every run (tools/gofn) and proved equal to the model in the Tie file above
TIE_FUNCS = ['internal/k8s/configuration.go:compareConfigurationProblems', 'internal/k8s/configuration.go:detectChangesInProblems']
HARNESS = "vh-k8s"
RULE = ("GlobalConfiguration events (valid, partly invalid in five ways, deletion) through the real syncGlobalConfiguration with a recording event recorder: a TransportServer that is served before and not after must get a warning in that event. " +
        "histories over all kinds (as C01/C04). After every event the harness drives the controller's real reporting functions "
        "(updateResourcesStatusAndEvents, Update*StatusAndEventsOnDelete, processProblems) with a recording EventRecorder on the returned "
        "changes and problems; the events are accumulated per object the way they accumulate in the cluster. Checked after every event "
        "against Spec.status of the current object set: a known, not-applied object has a rejection/warning naming its cause as latest "
        "report; an object that becomes active gets a fresh AddedOrUpdated report in that event and its latest report is not a rejection; "
        "an Ingress that lost some hosts / a minion that lost some paths has a with-warning report naming them; an invalid object of our "
        "class gets a Rejected report in the very event. Non-trivial: some object was not applied or was rejected at some point.")
TRUSTED = ["status sub-resource writes (status.go) are not exercised: leader election is reported as lost so that only events are produced",
           "the configurator calls between the reports are left out (every apply succeeds)"]
ASSUMPTIONS = ["distinct live objects have distinct UIDs"]
LEVEL_TEXT = ("Lean 4 theorems over the arbitration + reporting model: the problem table is recomputed from the object set on every rebuild "
              "(so a cause that persists stays recorded), the emitted delta contains exactly the new-or-changed problems (delta_sound), a "
              "validation error of the processed object is always reported in that event (attached to its Delete change or raised as a problem), "
              "a Delete change is silent only if it carries neither error nor warning, every AddOrUpdate change yields a positive report for the "
              "resource and its attached minions/routes. The accumulated-last-report statement over whole histories is decided by the direct "
              "Spec check on the real reporting functions."
              ' Source tie: compareConfigurationProblems and detectChangesInProblems — the accumulating loop with its continue, statement for statement — are translated from /repo on every run and proved equal to the model delta (Props/TieProblems.lean: compareConfigurationProblems_tie, detectChangesInProblems_tie).')
LEVEL_NOTE = "Assurance = weaker of (theorems about the model, correspondence incl. the event stream, direct accumulated-report oracle on the real code)."
TECHNIQUE = "Lean 4 proof (problem delta soundness, error always reported) + accumulated-report oracle and model/implementation correspondence"

CAUSE = {
    "all-hosts-taken": lambda c: c == "all-hosts-taken" or c.startswith("host-taken"),
    "host-taken": lambda c: c.startswith("host-taken"),
    "no-master": lambda c: c == "no-master",
    "no-vs": lambda c: c == "no-vs",
    "ignored": lambda c: c.startswith("ignored-by:"),
    "listener-missing": lambda c: c.startswith("listener-missing:"),
    "listener-taken": lambda c: c.startswith("listener-taken:"),
}


def polarity(e):
    if e["typ"] == "Normal":
        return "ok"
    if e["reason"].startswith("AddedOrUpdated"):
        return "warn"
    return "neg"


def op_target(o):
    f = o.split("|")
    kinds = {"ing": "Ingress", "vs": "VirtualServer", "vsr": "VirtualServerRoute", "ts": "TransportServer"}
    if f[0] in kinds:
        idx_cls, idx_valid = (7, 8) if f[0] == "ing" else (6, 7)
        cls = f[idx_cls]
        own = cls in ("1", "a") if f[0] == "ing" else cls in ("1", "n")
        return kinds[f[0]] + "/" + f[1] + "/" + f[2], own, f[idx_valid] == "1"
    return None, None, None


def spec_judge(kv, ops, iobs, sobs, r):
    last = {}
    prev = {}
    for i, (io, so) in enumerate(zip(iobs, sobs)):
        now = {}
        for e in io["EV"]:
            last[e["key"]] = (polarity(e), e["codes"], e["reason"])
            now.setdefault(e["key"], []).append((polarity(e), e["codes"], e["reason"]))
        key, own, valid = op_target(ops[i])
        if key and own and not valid:
            r["nontrivial"] = True
            if not any(p == "neg" and "validation-error" in c for p, c, _ in now.get(key, [])):
                return "op#%d (%s): the validation error of %s was not reported for this event; events=%s" % (i, ops[i], key, io["EV"])
        S = so["S"]
        for k, st in S.items():
            if st == "unknown":
                continue
            if st == "active":
                if prev.get(k) != "active" and not any(p in ("ok", "warn") for p, _, _ in now.get(k, [])):
                    return "op#%d (%s): %s became active but received no AddedOrUpdated report in this event; events=%s" % (i, ops[i], k, io["EV"])
                if last.get(k, ("ok",))[0] == "neg":
                    return "op#%d (%s): %s is active but its latest report is a rejection %s" % (i, ops[i], k, last[k])
            else:
                r["nontrivial"] = True
                l = last.get(k)
                if l is None or l[0] != "neg":
                    return "op#%d (%s): %s is not applied (%s) but its latest report is %s" % (i, ops[i], k, st, l)
                if not any(CAUSE[st](c) for c in l[1]):
                    return "op#%d (%s): %s is not applied (%s) but its latest report %s does not name that cause" % (i, ops[i], k, st, l)
        # partially applied resources: lost hosts / lost paths are named in a warning
        owners = so["O"]
        for k, d in io["R"].items():
            if d["kind"] == "Ingress" and not d.get("master") and S.get(k) == "active":
                lost = sorted(h for h, v in d.get("vh", {}).items() if v == "0")
                if lost:
                    l = last.get(k)
                    if l is None or l[0] != "warn" or not all(("host-taken:" + h) in l[1] for h in lost):
                        return "op#%d (%s): %s lost hosts %s but its latest report is %s" % (i, ops[i], k, lost, l)
        for mk, v in so["M"].items():
            if mk.startswith("Ingress/"):
                for m, ps in C04.parse_m(v):
                    lostp = sorted(p for p, vv in (ps or {}).items() if vv == "0")
                    if lostp:
                        l = last.get("Ingress/" + m)
                        if l is None or l[0] != "warn" or not all(("path-taken:" + p) in l[1] for p in lostp):
                            return "op#%d (%s): minion %s lost paths %s but its latest report is %s" % (i, ops[i], m, lostp, l)
        prev = S
        # objects that left the cluster or the controller's class take their reports with them
        for k in list(last):
            if k not in S and not (k == key and own and not valid):
                if k == key or ops[i].startswith("del|"):
                    last.pop(k, None)
    return None


def issue_class(issue):
    for k in ("validation error", "became active", "is active but", "is not applied", "lost hosts", "lost paths"):
        if k in issue:
            return k
    return "other"


SIGNATURES = {}


def gen_shared_names(rng, maxops=10):
    """All kinds share the names {x, y} in one namespace, one or two hosts: problem keys, change keys and
    event targets of different kinds collide unless the kind is part of the key."""
    w = arbgen.World(rng)
    ops = []
    hosts = ["a.ex", "b.ex"]
    for _ in range(3 + rng.below(maxops - 2)):
        name = rng.choice(["x", "y"])
        k = rng.weighted([("ing", 3), ("vs", 4), ("vsr", 4), ("ts", 2), ("delete", 2)])
        valid = "0" if rng.chance(1, 10) else "1"
        if k == "ing":
            o = w.ident("ing", "d", name)
            typ = rng.choice(["r", "r", "M", "m"])
            rules = {"r": "%s>/x" % rng.choice(hosts), "M": "%s>" % rng.choice(hosts), "m": "%s>/p" % rng.choice(hosts)}[typ]
            ops.append("ing|d|%s|%s|%d|%d|_|1|%s|%s|0|%s" % (name, o["uid"], o["ts"], o["gen"], valid, typ, rules))
        elif k == "vs":
            o = w.ident("vs", "d", name)
            ops.append("vs|d|%s|%s|%d|%d|1|%s|%s|/r>%s|-|-" % (name, o["uid"], o["ts"], o["gen"], valid, rng.choice(hosts), rng.choice(["x", "y", "_"])))
        elif k == "vsr":
            o = w.ident("vsr", "d", name)
            ops.append("vsr|d|%s|%s|%d|%d|1|%s|%s|%s" % (name, o["uid"], o["ts"], o["gen"], valid, rng.choice(hosts), rng.choice(["/r/a", "/s"])))
        elif k == "ts":
            o = w.ident("ts", "d", name)
            ops.append("ts|d|%s|%s|%d|%d|1|%s|tls-passthrough|TLS_PASSTHROUGH|%s" % (name, o["uid"], o["ts"], o["gen"], valid, rng.choice(hosts)))
        else:
            d = arbgen.gen_del(rng, w)
            if d:
                ops.append(d)
    if not ops:        # only deletes of objects that do not exist were drawn: an empty history is not a case
        o = w.ident("vs", "d", "x")
        ops.append("vs|d|x|%s|%d|%d|1|1|a.ex|/r>_|-|-" % (o["uid"], o["ts"], o["gen"]))
    return arbgen.line(True, False, ops)


def gen_validity_flip(rng):
    """Two or three resources of any kinds contend for one host; then one of them (loser or holder) is edited into an invalid
    spec and back, with nothing else happening in between — the only events that can refresh what was reported about it."""
    w = arbgen.World(rng, tsvals=(1, 2, 3))
    host = rng.choice(["a.ex", "b.ex"])

    def op(kind, name, valid):
        o = w.ident(kind, "d", name)
        if kind == "ing":
            return "ing|d|%s|%s|%d|%d|_|1|%s|r|0|%s>/x" % (name, o["uid"], o["ts"], o["gen"], valid, host)
        if kind == "vs":
            return "vs|d|%s|%s|%d|%d|1|%s|%s|/r>_|-|-" % (name, o["uid"], o["ts"], o["gen"], valid, host)
        return "ts|d|%s|%s|%d|%d|1|%s|tls-passthrough|TLS_PASSTHROUGH|%s" % (name, o["uid"], o["ts"], o["gen"], valid, host)

    objs = [(rng.choice(["ing", "vs", "ts"]), n) for n in rng.shuffle(["x", "y", "z"])[: 2 + rng.below(2)]]
    ops = [op(k, n, "1") for k, n in objs]
    for _ in range(1 + rng.below(3)):
        k, n = rng.choice(objs)
        ops.append(op(k, n, "0"))
        if rng.chance(1, 4):
            ops.append(op(k, n, "0"))
        ops.append(op(k, n, "1"))
    return arbgen.line(True, False, ops)


def gen(rng, tier):
    cases = []
    for l in gen_gcreport(tier):
        cases.append(dict(line=l, tags=["globalconfiguration-event"]))
    for _ in range(120 if tier == "quick" else 1500):
        cases.append(dict(line=arbgen.gen_replaced_contest(rng, ("ing", "vs", "ts", "pt")), tags=["replaced-object"]))
    for _ in range(120 if tier == "quick" else 1500):
        cases.append(dict(line=arbgen.gen_replaced_attached(rng), tags=["replaced-attached-object"]))
    for _ in range(150 if tier == "quick" else 1500):
        cases.append(dict(line=gen_validity_flip(rng), tags=["validity-flip"]))
    for _ in range(200 if tier == "quick" else 2000):
        cases.append(dict(line=gen_shared_names(rng), tags=["shared-names"]))
    for _ in range(100 if tier == "quick" else 1000):
        cases.append(dict(line=C04.gen_minion_contention(rng), tags=["minion-contention"]))
    n1, n2, n3 = (250, 150, 100) if tier == "quick" else (2500, 1500, 1000)
    for _ in range(n1):
        cases.append(dict(line=arbgen.gen_history(rng, maxops=12 if tier == "quick" else 30), tags=["history"]))
    for _ in range(n2):
        cases.append(dict(line=C04.gen_composition(rng, 12), tags=["composition"]))
    for _ in range(n3):
        cases.append(dict(line=arbgen.gen_listener_history(rng, maxops=10).replace("rep=8", "rep=1"), tags=["listener-history"]))
    return cases


def corpus():
    return [dict(line=l, tags=["corpus"]) for l in arbgen.corpus_lines("arb") + arbgen.corpus_lines(PROP)]


def load_replay(obj):
    return [dict(line=obj["case"]["line"], tags=["replay"])]


GC_BASE = "tcp1>5000>TCP&tcp2>5001>TCP&tcp3>5002>TCP"
GC_EDITS = ["tcp2>5001>TCP&tcp3>5002>TCP",                               # valid: the listener is gone
            "tcp0>5000>TCP&tcp1>5000>TCP&tcp2>5001>TCP&tcp3>5002>TCP",    # partly invalid: a new listener in front takes tcp1's ip:port, tcp1 is dropped
            "tcp1>5000>BAD&tcp2>5001>TCP&tcp3>5002>TCP",                  # partly invalid: the used listener's protocol is not one
            "tcp1>70000>TCP&tcp2>5001>TCP&tcp3>5002>TCP",                 # partly invalid: port out of range
            "tcp1>5001>TCP&tcp2>5001>TCP&tcp3>5002>TCP",                  # tcp1 moves onto tcp2's port: the later entry (tcp2) is dropped
            "tcp1>5000>UDP&tcp2>5001>TCP&tcp3>5002>TCP",                  # valid, but the protocol no longer matches the TransportServer's
            "-"]                                                          # the GlobalConfiguration is deleted


def gen_gcreport(tier):
    """A GlobalConfiguration event through the real syncGlobalConfiguration (validation, arbitration, apply, reports): every
    TransportServer that it takes the listener from must be told in that very event — also when the GlobalConfiguration itself is
    reported with an error (seed C05-7)."""
    out = []
    for plus in (0, 1):
        for e in GC_EDITS:
            for ts in ("a@tcp1+b@tcp2", "a@tcp1+b@tcp1+c@tcp3", "a@tcp2+b@tcp3"):
                out.append("gcreport plus=%d gc0=%s gc1=%s ts=%s" % (plus, GC_BASE, e, ts))
    return out


def run_cases(cases, bins, res, tier, broken):
    arbprop.run_cases(sys.modules[__name__], [c for c in cases if not c["line"].startswith("gcreport ")], bins, res, tier, broken)
    gcs = [c for c in cases if c["line"].startswith("gcreport ")]
    binpath = bins.get(HARNESS)
    if not gcs or not binpath:
        return
    impl, _ = vlib.run_harness(binpath, ["gcreport %d %s" % (i, c["line"].split(" ", 1)[1]) for i, c in enumerate(gcs)], parallel=4)
    for i, c in enumerate(gcs):
        res["evaluations"] += 1
        res["dist"]["globalconfiguration-event"] = res["dist"].get("globalconfiguration-event", 0) + 1
        o = impl.get(str(i))
        if not o or "#gc=" not in o:
            res["corr_bad"].append((dict(line=c["line"]), "harness: %s" % (o or "no output")[:200]))
            continue
        res["validated"] += 1
        for ent in o.split("#")[0].split(","):
            name, before, after, evs = ent.split(":", 3)
            if before == "1" and after == "0":
                res["nontrivial"].add(vlib.sha(c["line"]))
                if not any(e.startswith("Warning~") for e in evs.split("+") if e):
                    res["spec_bad"].append((dict(line=c["line"], impl=o), "TransportServer d/%s was served before the GlobalConfiguration event and is not served after it, "
                                            "but the event reported nothing about it (events about it: [%s]; about the GlobalConfiguration: %s)" % (name, evs, o.split("#gc=")[1])))
                    break


def shrink(case, issue, bins):
    if case.get("line", "").startswith("gcreport "):
        return case
    return arbprop.shrink(sys.modules[__name__], case, issue, bins)
