"""C11 — secret material on disk is always the latest valid version, and vanishes with it."""
import vlib

PROP = "C11"
PROPS_FILES = ["Nic/Props/C11.lean"]
HARNESS = "vh-configs"
PARALLEL = 8
RULE = ("histories (3..15 ops) of add/update/delete/lookup over Secrets (each object with a metadata.uid; a re-created object has a new one, also when the delete never reached the store) of every supported type (TLS, JWK, htpasswd, CA, OIDC, API key) and an "
        "unsupported one, with real payloads generated offline (valid key pairs, mismatched pairs, non-PEM data, missing keys, duplicate API "
        "keys), names over {a,b,c,b-c,b-ca.crt,...} in namespaces {a,a-b} so that derived file names collide whenever the scheme allows; driven "
        "through the real LocalSecretStore + Configurator + LocalManager on a temporary secrets directory. After every op the directory "
        "(names, modes, which secret version each file's content is) and the lookup result are compared with the model and with the Spec "
        "evaluated from the history. Non-trivial: at least one lookup materialised a file and a later op changed or removed that secret.")
TRUSTED = ["ValidateSecret's verdict is an input of the model (the harness prints the real verdict, the correspondence compares it with the generator's expectation)",
           "atomicity of rename(2)"]
ASSUMPTIONS = ["secret type is immutable for the life of an object (another type under the same key is a re-created object; generated as such)"]
LEVEL_TEXT = ("Lean 4 theorems over the store+directory model for all add/update/delete/lookup histories: a derived file is written only by a "
              "lookup of a valid secret or an update of an already materialised valid one, always from the current version (lazy_write, written_is_current); an "
              "update that makes a materialised TLS/JWK/htpasswd secret invalid, its deletion, or its replacement by an object of another type (retype_removes), removes its file; a lookup of a missing or "
              "invalid secret reports an error and writes nothing (lookup_reports_error); secrets without file representation never create one. "
              "Negative results proved with witnesses: CA files survive deletion (S-C11-a) and file names collide (S-C11-b).")
LEVEL_NOTE = "Assurance = weaker of (theorems about the model, correspondence with the real store/configurator/manager on a real directory)."
TECHNIQUE = "Lean 4 proof (invariant over all store histories) + model/implementation correspondence on a real directory"

KEYS = [("a", "b"), ("a", "c"), ("a-b", "c"), ("a", "b-c"), ("a", "b-ca.crt"), ("a", "s.1"), ("a", "b.tmp"), ("a", "b.bak")]
TYPES = ["tls", "tls", "jwk", "htp", "ca", "oidc", "api", "opaque"]
PAYLOADS = {"tls": ["ok", "ok", "ok", "mismatch", "nonpem", "missing"], "jwk": ["ok", "ok", "missing"], "htp": ["ok", "ok", "missing"],
            "ca": ["ok", "ok", "nonpem", "missing"], "oidc": ["ok", "missing"], "api": ["ok", "dup"], "opaque": ["ok"]}


def valid(typ, payload):
    if typ == "opaque":
        return False
    if typ == "api":
        return payload != "dup"
    if typ in ("jwk", "htp", "oidc"):
        return payload != "missing"
    return payload == "ok"


def gen_case(rng, maxops=15):
    live = {}     # key -> typ
    ver = {}
    lastok = {}   # key -> (typ, version) of the last valid content
    ops = []
    uid = {}      # key -> metadata.uid of the current object
    nuid = [0]

    def obj(k):
        # a new object (new metadata.uid) after a delete, and — one update in four — a delete and re-create under the same name
        # that reaches the store as ONE update (the delete event was coalesced away by the queue or a relist): seed C11-6
        if k not in live or rng.chance(1, 4):
            nuid[0] += 1
            uid[k] = "u%d" % nuid[0]
        return uid[k]

    for _ in range(3 + rng.below(maxops - 2)):
        r = rng.below(10)
        k = rng.choice(KEYS)
        if live and rng.chance(3, 4):
            k = rng.choice(sorted(live))      # mostly operate on secrets that exist
        ks = "%s/%s" % k
        if r < 4:
            typ = live.get(k) or rng.choice(TYPES)
            if k in lastok and lastok[k][0] == typ and rng.chance(1, 3):
                # the earlier valid content comes back byte for byte (a bad update is reverted, or the same manifest is applied
                # again after a delete): the file has to be there again (seed C11-4)
                u = obj(k)
                live[k] = typ
                ops.append("a|%s|%s|%s|ok|%d|%s" % (k[0], k[1], typ, lastok[k][1], u))
                continue
            u = obj(k)
            live[k] = typ
            ver[k] = ver.get(k, -1) + 1
            pl = rng.choice(PAYLOADS[typ])
            if pl == "ok":
                lastok[k] = (typ, ver[k])
            ops.append("a|%s|%s|%s|%s|%d|%s" % (k[0], k[1], typ, pl, ver[k], u))
        elif r < 8:
            ops.append("g|%s" % ks)
        else:
            live.pop(k, None)
            ops.append("d|%s" % ks)
    return "sec ops=%s" % ";".join(ops)


def gen_replaced_case(rng):
    """A materialised secret is deleted and re-created under the same name (new metadata.uid) and the store sees that as a single
    update: the new object is valid (the file must carry the new content) or invalid (the file must go); then it is deleted."""
    k = rng.choice(KEYS)
    typ = rng.choice(["tls", "jwk", "htp", "ca"])
    bad = {"tls": ["mismatch", "nonpem", "missing"], "jwk": ["missing"], "htp": ["missing"], "ca": ["nonpem", "missing"]}[typ]
    ops = ["a|%s|%s|%s|ok|0|u1" % (k[0], k[1], typ), "g|%s/%s" % k]
    if rng.chance(1, 2):
        ops.append("a|%s|%s|%s|ok|1|u1" % (k[0], k[1], typ))
    pl = rng.choice(["ok", rng.choice(bad)])
    ops.append("a|%s|%s|%s|%s|2|u2" % (k[0], k[1], typ, pl))
    if rng.chance(1, 2):
        ops.append("g|%s/%s" % k)
    if rng.chance(2, 3):
        ops.append("d|%s/%s" % k)
    return "sec ops=%s" % ";".join(ops)


def gen_prefix_case(rng):
    """Two or three materialised secrets whose file names are in a prefix relation; then the shorter one is
    deleted, invalidated or updated, and the others are looked up again."""
    group = rng.choice([[("a", "b"), ("a", "b-c")], [("a", "b"), ("a", "b-ca.crt")], [("a", "s"), ("a", "s.1"), ("a", "s-x")],
                        [("a", "b"), ("a-b", "c")],
                        # names that look like the scratch / backup files a writer might use next to the real one
                        [("a", "b"), ("a", "b.tmp")], [("a", "b"), ("a", "b.bak"), ("a", "b.new")], [("a", "s"), ("a", "s~"[:1] + ".swp")]])
    types = ["tls", "jwk", "htp"]
    ops, typ = [], {}
    for k in group:
        typ[k] = rng.choice(types)
        ops.append("a|%s|%s|%s|ok|0" % (k[0], k[1], typ[k]))
    for k in rng.shuffle(group):
        ops.append("g|%s/%s" % k)
    short = group[0]
    what = rng.below(3)
    if what == 0:
        ops.append("d|%s/%s" % short)
    elif what == 1:
        ops.append("a|%s|%s|%s|%s|1" % (short[0], short[1], typ[short], "missing" if typ[short] != "tls" else "mismatch"))
    else:
        ops.append("a|%s|%s|%s|ok|1" % (short[0], short[1], typ[short]))
    for k in group[1:]:
        ops.append("g|%s/%s" % k)
    return "sec ops=%s" % ";".join(ops)


def gen_revert_case(rng):
    """A materialised secret loses its file (invalid update, or delete), then the very same content comes back and is looked up
    again; other secrets are touched in between. The file must be back, with that content."""
    k = rng.choice(KEYS)
    typ = rng.choice(["tls", "jwk", "htp", "ca"])
    bad = {"tls": ["mismatch", "nonpem", "missing"], "jwk": ["missing"], "htp": ["missing"], "ca": ["nonpem", "missing"]}[typ]
    other = rng.choice([x for x in KEYS if x != k])
    ops = ["a|%s|%s|%s|ok|0" % (k[0], k[1], typ)]
    if rng.chance(1, 2):
        ops.append("a|%s|%s|%s|ok|0" % (other[0], other[1], rng.choice(["tls", "jwk", "htp"])))
    ops.append("g|%s/%s" % k)
    for _ in range(1 + rng.below(2)):
        if rng.chance(1, 2):
            ops.append("a|%s|%s|%s|%s|1" % (k[0], k[1], typ, rng.choice(bad)))
        else:
            ops.append("d|%s/%s" % k)
        if rng.chance(1, 3):
            ops.append("g|%s/%s" % k)
        if rng.chance(1, 3):
            ops.append("g|%s/%s" % other)
        ops.append("a|%s|%s|%s|ok|0" % (k[0], k[1], typ))
        ops.append("g|%s/%s" % k)
    return "sec ops=%s" % ";".join(ops)


def gen_retyped_case(rng):
    """A materialised secret is deleted and re-created under the same name WITH ANOTHER TYPE and the store sees one update (the type
    of an object is immutable, so only a re-created object can arrive like this): the files of the old type must go (S-C11-c)."""
    k = rng.choice(KEYS)
    t1, t2 = rng.shuffle(["tls", "jwk", "htp", "oidc", "api", "ca"])[:2]
    if t1 == "ca":
        t1, t2 = t2, t1     # away from CA is the recorded finding S-C11-a (its files survive every removal)
    ops = ["a|%s|%s|%s|ok|0|u1" % (k[0], k[1], t1), "g|%s/%s" % k]
    pl = "ok" if rng.chance(3, 4) else rng.choice(PAYLOADS[t2])
    ops.append("a|%s|%s|%s|%s|1|u2" % (k[0], k[1], t2, pl))
    if rng.chance(2, 3):
        ops.append("g|%s/%s" % k)
    if rng.chance(1, 2):
        ops.append("a|%s|%s|%s|ok|2|u2" % (k[0], k[1], t2))
    if rng.chance(2, 3):
        ops.append("d|%s/%s" % k)
    return "sec ops=%s" % ";".join(ops)


def gen(rng, tier):
    n = 300 if tier == "quick" else 3000
    cases = [dict(line=gen_case(rng, 15 if tier == "quick" else 25), tags=["history"]) for _ in range(n)]
    cases += [dict(line=gen_revert_case(rng), tags=["revert"]) for _ in range(n // 4)]
    cases += [dict(line=gen_replaced_case(rng), tags=["replaced-object"]) for _ in range(n // 6)]
    cases += [dict(line=gen_retyped_case(rng), tags=["retyped-object"]) for _ in range(n // 6)]
    cases += [dict(line=gen_prefix_case(rng), tags=["prefix-names"]) for _ in range(n // 3)]
    return cases


def corpus():
    import os
    d = os.path.join(vlib.VERIF, "corpus", PROP)
    out = []
    if os.path.isdir(d):
        for f in sorted(os.listdir(d)):
            for l in open(os.path.join(d, f)):
                l = l.strip()
                if l and not l.startswith("#"):
                    out.append(dict(line=l, tags=["corpus"]))
    return out


def load_replay(obj):
    return [dict(line=obj["case"]["line"], tags=["replay"])]


def files_of(key, typ):
    base = key.replace("/", "-")
    if typ == "ca":
        return [base + "-ca.crt", base + "-ca.crl"]
    if typ in ("tls", "jwk", "htp"):
        return [base]
    return []


def spec_check(line, impl, r):
    ops = line.split("ops=")[1].split(";")
    obs = impl.split(";;")
    if len(obs) != len(ops):
        return "observation count differs"
    cur = {}        # key -> (typ, ver, valid)
    asked = set()   # keys looked up while valid since they last became valid
    for i, (o, ob) in enumerate(zip(ops, obs)):
        f = o.split("|")
        res, listing = ob.split("#", 1)
        if f[0] == "a":
            key = f[1] + "/" + f[2]
            v = valid(f[3], f[4])
            if (res == "valid") != v:
                return "op#%d (%s): real validation verdict %s, expected %s" % (i, o, res, "valid" if v else "invalid")
            if not v:
                asked.discard(key)
                if key in cur:
                    r["nontrivial"] = True
            if key in cur and cur[key][0] != f[3]:
                # another type under the same key: a re-created object (the type is immutable) — nobody has asked for THIS secret yet
                if key in asked:
                    r["nontrivial"] = True
                asked.discard(key)
            cur[key] = (f[3], int(f[5]), v)
        elif f[0] == "d":
            if f[1] in asked:
                r["nontrivial"] = True
            cur.pop(f[1], None)
            asked.discard(f[1])
        elif f[0] == "g":
            c = cur.get(f[1])
            want_err = c is None or not c[2]
            if (res.split("+")[1] == "error") != want_err:
                return "op#%d (%s): lookup reported %s but the secret is %s" % (i, o, res, "missing or invalid" if want_err else "valid")
            if not want_err:
                asked.add(f[1])
        owners = {}
        for key in sorted(asked):
            typ = cur[key][0]
            for fn in files_of(key, typ):
                if fn in owners:
                    return "after op#%d (%s): secrets %s and %s share the file %s" % (i, o, owners[fn], key, fn)
                owners[fn] = key
        for ent in (listing.split(",") if listing else []):
            fn, rest = ent.split("=", 1)
            label, mode = rest.rsplit("!", 1)
            if label == "?":
                return "after op#%d (%s): file %s holds content that is not derived from any version of any secret" % (i, o, fn)
            key, vpart = label.split("@", 1)
            ver = int(vpart.split(":")[0])
            c = cur.get(key)
            if c is None:
                return "after op#%d (%s): file %s of deleted secret %s is still on disk" % (i, o, fn, key)
            if not c[2]:
                return "after op#%d (%s): file %s of invalid secret %s is still on disk" % (i, o, fn, key)
            if key not in asked:
                return "after op#%d (%s): file %s of secret %s exists although no resource asked for the secret since it became valid" % (i, o, fn, key)
            if ver != c[1]:
                return "after op#%d (%s): file %s holds version %d of %s, the current version is %d" % (i, o, fn, ver, key, c[1])
            if fn not in files_of(key, c[0]):
                return "after op#%d (%s): file %s holds material of secret %s (expected files %s)" % (i, o, fn, key, files_of(key, c[0]))
        present = set(e.split("=", 1)[0] for e in listing.split(",")) if listing else set()
        for fn in owners:
            if fn not in present:
                return "after op#%d (%s): secret %s was handed out with a path but its file %s is not on disk" % (i, o, owners[fn], fn)
    return None


def judge(case, impl, model, spec):
    if impl is None or model is None:
        return dict(corr="missing output")
    r = dict(nontrivial=False)
    sv = spec_check(case["line"], impl, r)
    if sv:
        r["spec"] = sv
        return r
    def canon(o):
        res, listing = o.split("#", 1)
        return res + "#" + ",".join(sorted(listing.split(",")))
    impl = ";;".join(canon(o) for o in impl.split(";;"))
    model = ";;".join(canon(o) for o in model.split(";;"))
    if impl != model:
        a, b = impl.split(";;"), model.split(";;")
        for i in range(max(len(a), len(b))):
            if i >= len(a) or i >= len(b) or a[i] != b[i]:
                r["corr"] = "op#%d impl=%s model=%s" % (i, a[i] if i < len(a) else None, b[i] if i < len(b) else None)
                break
    return r


def sig_ca_survives(case, issue):
    """S-C11-a: DeleteSecret removes <ns>-<name>, CA material lives in <ns>-<name>-ca.crt/.crl."""
    import re
    m = re.search(r"file (\S+) of (?:deleted|invalid) secret (\S+) is still on disk", issue)
    return bool(m) and (m.group(1).endswith("-ca.crt") or m.group(1).endswith("-ca.crl")) and m.group(1).startswith(m.group(2).replace("/", "-"))


def sig_collision(case, issue):
    """S-C11-b: distinct secrets share a derived file name."""
    return " share the file " in issue


SIGNATURES = {"ca-files-survive-delete": sig_ca_survives, "secret-file-collision": sig_collision}
