"""C20 — derived Certificates / DNSEndpoints track their VirtualServer and spare foreign ones."""
import vlib

PROP = "C20"
PROPS_FILES = ["Nic/Props/C20.lean"]
HARNESS = "vh-derived"
PARALLEL = 8
RULE = ("sequences (1..6) of VirtualServer edits that change one cert-manager field at a time (secret, host, issuer, common-name, duration, "
        "renew-before, usages, issuer-group, issuer-kind, issue-temp-cert, labels, removal of the block) resp. one ExternalDNS field (host, "
        "TTL, record type, labels, provider labels, external endpoints, disable), against clusters that already contain a same-named object "
        "with no owner / a foreign owner / nothing, with one API fault (conflict, already-exists, generic) injected into the first write of a "
        "chosen step and the synchronisation retried; driven through the real SyncFnFor of both packages on the fake clientsets. Per step the "
        "harness itself measures on the real code: writes of a second synchronisation (must be 0), equality of the stored object with what a "
        "first-time synchronisation of the same VirtualServer creates on an empty cluster, whether the pre-existing foreign object is intact, "
        "and which objects are owned. Non-trivial: a step whose edit requires a write.")
TRUSTED = ["fake clientsets instead of an API server (conflicts are injected, not emergent); the lister is refreshed from the client after every call"]
ASSUMPTIONS = ["the informer cache is current when a synchronisation starts"]
LEVEL_TEXT = ("Lean 4 theorems over the synchronisation model (create / refuse non-owned / update-if-different / collect unneeded), for every cluster "
              "content: the cluster after one whole synchronisation is described key by key (syncCert_result); a second synchronisation after a "
              "successful one performs no write (syncCert_idempotent, syncDns_idempotent); the needed object equals what a first-time "
              "synchronisation into an empty cluster creates whenever the name was free or owned (syncCert_as_first_time, syncDns_as_first_time); "
              "an object not controlled by the VirtualServer is never updated or deleted (syncCert_foreign_untouched, syncDns_foreign_untouched), "
              "also when only an arbitrary sub-sequence of the writes is carried out because of API errors (syncCert_targets, "
              "interrupted_sync_foreign_untouched); afterwards the VirtualServer controls nothing but the needed object (syncCert_nothing_left).")
LEVEL_NOTE = "Assurance = weaker of (theorems about the model, correspondence of write actions with the real SyncFnFor, direct measurements on the real code)."
TECHNIQUE = "Lean 4 proof (idempotence, freshness, frame conditions of the sync function) + model/implementation correspondence on fake clientsets"

CERT_FIELDS = ["secret", "host", "issuer", "cn", "dur", "renew", "usages", "group", "kind", "temp", "label", "cm"]
CERT_VALUES = {"secret": ["s1", "s2"], "host": ["a.ex", "b.ex"], "issuer": ["iss", "iss2"], "cn": ["_", "cn1"], "dur": ["_", "2h", "3h"],
               "renew": ["_", "30m"], "usages": ["_", "signing", "any+signing"], "group": ["_", "example.io"],
               "kind": ["_", "ClusterIssuer"], "temp": ["0", "1"], "label": ["_", "x", "y"], "cm": ["1", "1", "1", "0"]}
DNS_FIELDS = ["host", "ttl", "rtype", "label", "plabel", "targets", "enable"]
DNS_VALUES = {"host": ["a.ex", "b.ex"], "ttl": ["300", "600"], "rtype": ["_", "A"], "label": ["_", "x"], "plabel": ["_", "p"],
              "targets": ["10.0.0.1", "10.0.0.1+10.0.0.2", "10.0.0.9"], "enable": ["1", "1", "1", "0"]}


def gen_seq(rng, fields, values, start):
    cur = dict(start)
    seq = [",".join(cur[f] for f in fields)]
    for _ in range(rng.below(6)):
        f = rng.choice(fields)
        cur[f] = rng.choice(values[f])
        seq.append(",".join(cur[f] for f in fields))
    return seq


def gen(rng, tier):
    cases = []
    n = 200 if tier == "quick" else 2000
    for _ in range(n):
        seq = gen_seq(rng, CERT_FIELDS, CERT_VALUES, dict(secret="s1", host="a.ex", issuer="iss", cn="_", dur="_", renew="_", usages="_",
                                                            group="_", kind="_", temp="0", label="_", cm="1"))
        fault = "-" if rng.chance(1, 2) else "%d:%s" % (rng.below(len(seq)), rng.choice(["conflict", "exists", "fail"]))
        cases.append(dict(line="crt pre=%s fault=%s seq=%s" % (rng.choice(["none", "none", "unowned", "foreign", "ownedstale"]), fault, ";".join(seq)), tags=["cert"]))
    # a labelled VirtualServer that inherits an owned Certificate with other labels under an old secret name
    for _ in range(n // 4):
        seq = gen_seq(rng, CERT_FIELDS, CERT_VALUES, dict(secret=rng.choice(["s1", "s2"]), host="a.ex", issuer="iss", cn="_", dur="_", renew="_", usages="_",
                                                            group="_", kind="_", temp="0", label=rng.choice(["x", "y"]), cm="1"))
        cases.append(dict(line="crt pre=ownedstale fault=- seq=%s" % ";".join(seq), tags=["cert", "owned-stale-labels"]))
    for _ in range(n):
        seq = gen_seq(rng, DNS_FIELDS, DNS_VALUES, dict(host="a.ex", ttl="300", rtype="_", label="_", plabel="_", targets="10.0.0.1", enable="1"))
        fault = "-" if rng.chance(1, 2) else "%d:%s" % (rng.below(len(seq)), rng.choice(["conflict", "exists", "fail"]))
        cases.append(dict(line="dns pre=%s fault=%s seq=%s" % (rng.choice(["none", "none", "unowned", "foreign"]), fault, ";".join(seq)), tags=["dns"]))
    # renames onto / away from a name held by someone else, with a fault on a step that writes
    for _ in range(n // 2):
        base = dict(secret="s1", host="a.ex", issuer="iss", cn="_", dur="_", renew="_", usages="_", group="_", kind="_", temp="0", label="_", cm="1")
        seq = [",".join(base[x] for x in CERT_FIELDS)]
        for sname in rng.shuffle(["s2", "s1", "s2"])[: 1 + rng.below(3)]:
            base["secret"] = sname
            if rng.chance(1, 2):
                base["cn"] = rng.choice(["_", "cn1", "cn2"])
            seq.append(",".join(base[x] for x in CERT_FIELDS))
        fault = "-" if rng.chance(1, 3) else "%d:%s" % (1 + rng.below(len(seq) - 1), rng.choice(["conflict", "fail"]))
        cases.append(dict(line="crt pre=%s prename=%s fault=%s seq=%s" % (rng.choice(["none", "unowned", "foreign"]), rng.choice(["s1", "s2"]), fault, ";".join(seq)), tags=["cert-rename"]))
    for _ in range(n // 2):
        base = dict(host="a.ex", ttl="300", rtype="_", label="_", plabel="_", targets="10.0.0.1", enable="1")
        seq = [",".join(base[x] for x in DNS_FIELDS)]
        for _ in range(1 + rng.below(3)):
            f = rng.choice(["ttl", "targets", "host", "label"])
            base[f] = rng.choice([v for v in DNS_VALUES[f] if v != base[f]])
            seq.append(",".join(base[x] for x in DNS_FIELDS))
        fault = "%d:%s" % (1 + rng.below(len(seq) - 1), rng.choice(["conflict", "fail", "exists"]))
        cases.append(dict(line="dns pre=none fault=%s seq=%s" % (fault, ";".join(seq)), tags=["dns-fault-on-update"]))
    # one field of the Certificate-relevant part edited at a time, and the write that follows fails once (generic error / conflict):
    # the retry must still bring the stored object to what a first-time synchronization creates
    base0 = dict(secret="s1", host="a.ex", issuer="iss", cn="_", dur="_", renew="_", usages="_", group="_", kind="_", temp="1", label="_", cm="1")
    for f in CERT_FIELDS:
        if f in ("secret", "cm"):
            continue
        for v in CERT_VALUES[f]:
            if v == base0[f]:
                continue
            b2 = dict(base0); b2[f] = v
            for fk in ("fail", "conflict"):
                cases.append(dict(line="crt pre=none fault=1:%s seq=%s;%s" % (fk, ",".join(base0[x] for x in CERT_FIELDS), ",".join(b2[x] for x in CERT_FIELDS)), tags=["cert-single-field-fault"]))
    if tier == "thorough":
        # every single-field edit of every field, exhaustively
        base = dict(secret="s1", host="a.ex", issuer="iss", cn="_", dur="_", renew="_", usages="_", group="_", kind="_", temp="0", label="_", cm="1")
        for f in CERT_FIELDS:
            for v in CERT_VALUES[f]:
                b2 = dict(base); b2[f] = v
                cases.append(dict(line="crt pre=none fault=- seq=%s;%s" % (",".join(base[x] for x in CERT_FIELDS), ",".join(b2[x] for x in CERT_FIELDS)), tags=["cert-single-field"]))
        base = dict(host="a.ex", ttl="300", rtype="_", label="_", plabel="_", targets="10.0.0.1", enable="1")
        for f in DNS_FIELDS:
            for v in DNS_VALUES[f]:
                b2 = dict(base); b2[f] = v
                cases.append(dict(line="dns pre=none fault=- seq=%s;%s" % (",".join(base[x] for x in DNS_FIELDS), ",".join(b2[x] for x in DNS_FIELDS)), tags=["dns-single-field"]))
    return cases


def corpus():
    import os
    d = os.path.join(vlib.VERIF, "corpus", PROP)
    out = []
    if os.path.isdir(d):
        for f in sorted(os.listdir(d)):
            for l in open(os.path.join(d, f)):
                l = l.strip()
                if l and not l.startswith("#"):
                    out.append(dict(line=l, tags=["corpus"]))
    return out


def load_replay(obj):
    return [dict(line=obj["case"]["line"], tags=["replay"])]


def sec(o):
    return dict(x.split("=", 1) for x in o.split("#") if "=" in x)


def judge(case, impl, model, spec):
    if impl is None or model is None:
        return dict(corr="missing output")
    kind = case["line"].split()[0]
    kv = dict(x.split("=", 1) for x in case["line"].split()[1:])
    seq = kv["seq"].split(";")
    io, mo = impl.split(";;"), model.split(";;")
    r = dict(nontrivial=False)
    if len(io) != len(seq):
        return dict(corr="observation count differs")
    held_by_foreign = kv["pre"] in ("unowned", "foreign")
    for i, (s, a) in enumerate(zip(seq, io)):
        d = sec(a)
        f = s.split(",")
        enabled = (f[11] == "1") if kind == "crt" else (f[6] == "1")
        name = f[0] if kind == "crt" else "vs"
        first_name = (kv.get("prename") or seq[0].split(",")[0]) if kind == "crt" else "vs"
        blocked = held_by_foreign and name == first_name
        if d.get("a"):
            r["nontrivial"] = True
        if d["err"] == "1":
            r["spec"] = "step#%d (%s): synchronisation still failing after retries" % (i, s)
            return r
        if d["idem"] != "0":
            r["spec"] = "step#%d (%s): a second synchronisation performed %s writes" % (i, s, d["idem"])
            return r
        if d["foreign"] == "0":
            r["spec"] = "step#%d (%s): an object not controlled by the VirtualServer was modified or deleted" % (i, s)
            return r
        if enabled:
            want_fresh = "notours" if blocked else "1"
            if d["fresh"] != want_fresh:
                r["spec"] = "step#%d (%s): stored object vs first-time synchronisation: %s (expected %s)" % (i, s, d["fresh"], want_fresh)
                return r
        owned = set(x for x in d.get("owned", "").split("+") if x)
        want_owned = set() if (not enabled or blocked) else {name}
        if owned != want_owned:
            r["spec"] = "step#%d (%s): objects owned by the VirtualServer are %s, needed %s" % (i, s, sorted(owned), sorted(want_owned))
            return r
    # correspondence: the set of write actions per step when no fault is injected (a retried step repeats work)
    if kv["fault"] == "-":
        for i, (a, m) in enumerate(zip(io, mo)):
            da, dm = sec(a), sec(m)
            if sorted(da.get("a", "").split("+")) != sorted(dm.get("a", "").split("+")) or da.get("owned", "") != dm.get("owned", ""):
                r["corr"] = "step#%d impl=%s model=%s" % (i, a, m)
                break
    return r


def sig_feature_removed(case, issue):
    """S-C20-b: after the cert-manager block is removed / ExternalDNS disabled the sync returns at once; the owned object stays."""
    import re
    m = re.search(r"step#\d+ \(([^)]*)\): objects owned by the VirtualServer are \[(.+)\], needed \[\]$", issue)
    if not m:
        return False
    f = m.group(1).split(",")
    kind = case.get("line", "").split()[0]
    return (kind == "crt" and f[11] == "0") or (kind == "dns" and f[6] == "0")


SIGNATURES = {"owned-object-survives-feature-removal": sig_feature_removed}
