"""Common run loop for the six properties decided on the arbitration model."""
import os
import vlib
from props import arbgen

HARNESS = "vh-k8s"


def eval_lines(binpath, lines, parallel=8):
    ls = []
    for i, l in enumerate(lines):
        f = l.split(" ", 1)
        ls.append("%s %d %s" % (f[0], i, f[1]))
    impl, crashes = vlib.run_harness(binpath, ls, parallel=parallel)
    model, spec, (rc, err) = vlib.run_driver(ls)
    out = []
    for i in range(len(lines)):
        out.append((impl.get(str(i)), model.get(str(i)), spec.get(str(i))))
    return out, rc, err


def first_diff(a, b):
    pa, pb = (a or "").split(";;"), (b or "").split(";;")
    for i in range(max(len(pa), len(pb))):
        x = pa[i] if i < len(pa) else None
        y = pb[i] if i < len(pb) else None
        if x != y:
            return "op#%d impl=%s model=%s" % (i, x, y)
    return None


def judge_one(mod, line, impl, model, spec):
    """-> dict(corr=msg|None, spec=msg|None, nontrivial=bool, tags=[...])"""
    r = dict(corr=None, spec=None, nontrivial=False, tags=[])
    if impl is None or model is None:
        r["corr"] = "missing output impl=%r model=%r" % (impl and impl[:80], model and model[:80])
        return r
    if impl.startswith("PANIC") or impl.startswith("CRASH"):
        r["spec" if getattr(mod, "PANIC_IS_VIOLATION", False) else "corr"] = "real code panicked: " + impl[:300]
        return r
    if impl.startswith("NONDET"):
        r["spec"] = "real code gave different results for the same history under different map iteration orders: " + impl[:600]
        return r
    kv, ops = arbgen.parse_line(line)
    try:
        iobs = [arbgen.parse_obs(o) for o in impl.split(";;")]
        sobs = [arbgen.parse_spec(o) for o in (spec or "").split(";;")]
    except Exception as e:  # noqa
        r["corr"] = "unparsable observation: %r" % e
        return r
    if len(iobs) != len(ops) or len(sobs) != len(ops):
        r["corr"] = "observation count differs from op count"
        return r
    sv = mod.spec_judge(kv, ops, iobs, sobs, r)
    if sv:
        r["spec"] = sv
        return r
    if impl != model:
        r["corr"] = first_diff(impl, model)
    return r


def run_cases(mod, cases, bins, res, tier, broken):
    binpath = bins.get(HARNESS)
    exe = os.path.join(vlib.LEAN, ".lake", "build", "bin", "driver")
    if not binpath or not os.path.exists(binpath) or not os.path.exists(exe):
        return
    lines = [c["line"] for c in cases]
    outs, rc, err = eval_lines(binpath, lines)
    if rc != 0:
        res["corr_bad"].append((dict(line="(driver)"), "driver exited %d: %s" % (rc, err[-400:])))
    for c, (impl, model, spec) in zip(cases, outs):
        res["evaluations"] += 1
        for t in c.get("tags", []):
            res["dist"][t] = res["dist"].get(t, 0) + 1
        j = judge_one(mod, c["line"], impl, model, spec)
        for t in j["tags"]:
            res["dist"][t] = res["dist"].get(t, 0) + 1
        res["validated"] += 1
        if j["nontrivial"]:
            res["nontrivial"].add(vlib.sha(c["line"]))
            if len(res["samples"]) < 4:
                res["samples"].append(dict(case=c["line"], impl=(impl or "")[:600], spec=(spec or "")[:400]))
        if j["spec"]:
            res["spec_bad"].append((dict(line=c["line"]), j["spec"]))
        elif j["corr"]:
            res["corr_bad"].append((dict(line=c["line"]), j["corr"]))


def shrink(mod, case, issue, bins):
    binpath = bins.get(HARNESS)
    if not binpath or "line" not in case or case["line"].startswith("("):
        return case
    sig = mod.issue_class(issue) if hasattr(mod, "issue_class") else None

    def still(l):
        (impl, model, spec), = eval_lines(binpath, [l], parallel=1)[0]
        j = judge_one(mod, l, impl, model, spec)
        if not j["spec"]:
            return False
        return sig is None or mod.issue_class(j["spec"]) == sig
    try:
        small = arbgen.shrink_ops(case["line"], still)
        (impl, model, spec), = eval_lines(binpath, [small], parallel=1)[0]
        j = judge_one(mod, small, impl, model, spec)
        return dict(line=small, impl=impl, spec=spec, issue=j["spec"])
    except Exception as e:  # noqa
        return dict(case, shrink_error=repr(e))
