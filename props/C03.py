"""C03 — emitted change batches keep "applied" equal to the arbitrated state."""
import sys
import vlib
from props import arbgen, arbprop

PROP = "C03"
PROPS_FILES = ["Nic/Props/C03.lean", "Nic/Props/TieArb.lean", "Nic/Props/TieRes.lean"]
# Go functions translated from /repo on every run (tools/gofn) and proved equal to the model in the Tie file above
TIE_FUNCS = ['internal/k8s/configuration.go:chooseObjectMetaWinner', 'internal/k8s/configuration.go:compareObjectMetas', 'internal/k8s/configuration.go:compareObjectMetasWithAnnotations', 'internal/k8s/configuration.go:getResourceKey', 'internal/k8s/configuration.go:getResourceKeyWithKind', 'internal/k8s/utils.go:isMinion', 'internal/k8s/utils.go:isMaster', 'pkg/apis/configuration/validation/virtualserver.go:isRegexOrExactMatch', 'pkg/apis/configuration/validation/globalconfiguration.go:generatePortProtocolKey', 'internal/k8s/configuration.go:IngressConfiguration.GetObjectMeta', 'internal/k8s/configuration.go:VirtualServerConfiguration.GetObjectMeta', 'internal/k8s/configuration.go:TransportServerConfiguration.GetObjectMeta', 'internal/k8s/configuration.go:dispatch:Resource.GetObjectMeta', 'internal/k8s/configuration.go:IngressConfiguration.GetKeyWithKind', 'internal/k8s/configuration.go:VirtualServerConfiguration.GetKeyWithKind', 'internal/k8s/configuration.go:TransportServerConfiguration.GetKeyWithKind', 'internal/k8s/configuration.go:IngressConfiguration.Wins', 'internal/k8s/configuration.go:VirtualServerConfiguration.Wins', 'internal/k8s/configuration.go:TransportServerConfiguration.Wins', 'internal/k8s/configuration.go:IngressConfiguration.IsEqual', 'internal/k8s/configuration.go:VirtualServerConfiguration.IsEqual', 'internal/k8s/configuration.go:TransportServerConfiguration.IsEqual', 'internal/k8s/configuration.go:type MinionConfiguration', 'internal/k8s/configuration.go:type IngressConfiguration', 'internal/k8s/configuration.go:type VirtualServerConfiguration', 'internal/k8s/configuration.go:type TransportServerConfiguration']
HARNESS = "vh-k8s"
RULE = ("histories as for C01/C02 plus GlobalConfiguration edits that change one listener field at a time (port, IPv4, IPv6 of HTTP, HTTPS, TCP, UDP "
        "listeners). The []ResourceChange returned by every call is applied in order to a shadow map (Delete removes the key, AddOrUpdate stores "
        "the resource's attributes = everything the generator reads: winning hosts, minions and their valid paths, attached routes, ports, "
        "addresses, generation, annotations); after every op the shadow must equal GetResources(), and no Delete may follow an AddOrUpdate "
        "within a batch. Non-trivial: at least one batch with two or more changes, or a listener-only edit.")
TRUSTED = ["'attributes a configuration is rendered from' = the fields printed by the harness snapshot (verifSnap); what createXEx additionally reads from stores (secrets, endpoints) is C15's subject"]
ASSUMPTIONS = ["a spec change bumps metadata.generation (Kubernetes); the cert-manager challenge route content is not part of the snapshot"]
LEVEL_TEXT = ("Lean 4 theorems over the arbitration model: squash keeps at most one change per resource and orders deletes first; each rebuild's "
              "batch is deletes-first; rebuilding an unchanged object set emits no change and no problem (rebuild_quiescent); and the reflection "
              "lemma: the diff's equality test reflects equality of the rendered attributes except for the fields named in the known findings. "
              "The full applied=active statement is checked directly on the real code on every generated history (search oracle)."
              " Source tie: the three IsEqual methods, compareObjectMetas(WithAnnotations) and GetKeyWithKind are translated from /repo on every run (tools/gofn) and proved equal to the model's Res.isEqual / metaEq / Res.key (Props/TieRes.lean, Props/TieArb.lean).")
LEVEL_NOTE = ("Assurance = weaker of (theorems about the model, correspondence, direct shadow-apply oracle on the real code). Known findings are listed in "
              "known_findings.json by signature; any other mismatch is a violation.")
TECHNIQUE = "Lean 4 proof (batch ordering, quiescence, reflection of attribute equality) + shadow-apply oracle and model/implementation correspondence"


def spec_judge(kv, ops, iobs, sobs, r):
    applied = {}
    for i, io in enumerate(iobs):
        seen_update = False
        for op, snap, err in io["C"]:
            if op == "D":
                if seen_update:
                    return "batch of op#%d (%s): Delete %s ordered after an AddOrUpdate: %s" % (i, ops[i], snap["key"], [(o, s["key"]) for o, s, _ in io["C"]])
                applied.pop(snap["key"], None)
            else:
                seen_update = True
                applied[snap["key"]] = arbgen.attrs(snap)
        active = dict((k, arbgen.attrs(d)) for k, d in io["R"].items())
        if set(applied) != set(active):
            return "after op#%d (%s): applied set %s != active set %s" % (i, ops[i], sorted(applied), sorted(active))
        for k in active:
            if applied[k] != active[k]:
                diff = sorted(f for f in set(applied[k]) | set(active[k]) if applied[k].get(f) != active[k].get(f))
                return "after op#%d (%s): applied %s is stale in %s: applied=%s current=%s" % (
                    i, ops[i], k, diff, dict((f, applied[k].get(f)) for f in diff), dict((f, active[k].get(f)) for f in diff))
        if len(io["C"]) >= 2:
            r["nontrivial"] = True
    return None


def issue_class(issue):
    if "ordered after" in issue:
        return "order"
    if "applied set" in issue:
        return "set"
    if "is stale in ['ip']" in issue:
        return "stale-ip"
    if "is stale" in issue:
        return "stale"
    return "other"


def sig_https_ip(case, issue):
    return "is stale in ['ip']" in issue and "VirtualServer/" in issue.split("applied ")[1].split(" is stale")[0]


def sig_ts_ip(case, issue):
    return "is stale in ['ip']" in issue and "TransportServer/" in issue.split("applied ")[1].split(" is stale")[0]


def sig_ts_pt_to_listener(case, issue):
    return ("ordered after" in issue or "applied set" in issue) and "TransportServer" in issue


SIGNATURES = {"vs-https-ip-not-compared": sig_https_ip, "ts-ip-not-compared": sig_ts_ip, "ts-passthrough-to-listener-batch": sig_ts_pt_to_listener}


def gen_gc_edit(rng):
    """GlobalConfiguration + VS/TS using its listeners, then edits of one listener field at a time."""
    base = {"h1": ["h1", 8081, "HTTP", "0", "_", "_"], "s1": ["s1", 8443, "HTTP", "1", "_", "_"],
            "tcp1": ["tcp1", 5000, "TCP", "0", "_", "_"], "udp1": ["udp1", 5353, "UDP", "0", "_", "_"]}
    def gc():
        return "gc|" + "&".join("%s>%d>%s>%s>%s>%s" % tuple(base[k]) for k in sorted(base))
    ops = [gc(),
           "vs|d|a|u001|1|1|1|1|a.ex|/>_|h1|s1",
           "ts|d|b|u002|1|1|1|1|tcp1|TCP|_",
           "ts|d|c|u003|1|1|1|1|udp1|UDP|_"]
    ops = [ops[0]] + rng.shuffle(ops[1:])
    for _ in range(1 + rng.below(4)):
        k = rng.choice(sorted(base))
        f = rng.choice(["port", "v4", "v6"])
        if f == "port":
            base[k][1] = rng.choice([8081, 8082, 8443, 8444, 5000, 5001, 5353, 5354])
        elif f == "v4":
            base[k][4] = rng.choice(["_", "127.0.0.1", "10.0.0.9"])
        else:
            base[k][5] = rng.choice(["_", "::1", "fd00::1"])
        ops.append(gc())
    return arbgen.line(True, False, ops)


def gen_ts_retype(rng):
    """A TransportServer edited between TLS passthrough and a TCP/UDP listener (both directions), with contenders."""
    ops = ["gc|tcp1>5000>TCP>0>_>_&udp1>5353>UDP>0>_>_"]
    forms = [("tls-passthrough", "TLS_PASSTHROUGH", rng.choice(["a.ex", "b.ex"])), ("tcp1", "TCP", rng.choice(["_", "a.ex"])),
             ("udp1", "UDP", "_"), ("tcp2", "TCP", "_")]
    gen_ = 0
    extra = ["vs|d|v|u009|%d|1|1|1|a.ex|/>_|-|-" % rng.choice([1, 2, 3]),
             "ts|d|o|u008|%d|1|1|1|tcp1|TCP|_" % rng.choice([1, 2, 3]),
             "ts|d|p|u007|%d|1|1|1|tls-passthrough|TLS_PASSTHROUGH|a.ex" % rng.choice([1, 2, 3])]
    for _ in range(2 + rng.below(4)):
        if rng.chance(1, 3):
            ops.append(rng.choice(extra))
            continue
        gen_ += 1
        ln, pr, h = rng.choice(forms)
        ops.append("ts|d|t|u001|2|%d|1|%s|%s|%s|%s" % (gen_, "1" if rng.chance(5, 6) else "0", ln, pr, h))
    return arbgen.line(True, False, ops)


def gen(rng, tier):
    cases = []
    for _ in range(120 if tier == "quick" else 1500):
        cases.append(dict(line=arbgen.gen_gc_single_edits(rng), tags=["gc-single-attribute-edit"]))
    for _ in range(150 if tier == "quick" else 2000):
        cases.append(dict(line=arbgen.gen_listener_handover(rng), tags=["listener-handover"]))
    for _ in range(120 if tier == "quick" else 1500):
        cases.append(dict(line=arbgen.gen_replaced_contest(rng, ("ing", "vs", "ts", "pt")), tags=["replaced-object"]))
    for _ in range(120 if tier == "quick" else 1500):
        cases.append(dict(line=arbgen.gen_replaced_attached(rng), tags=["replaced-attached-object"]))
    for _ in range(100 if tier == "quick" else 1000):
        cases.append(dict(line=gen_ts_retype(rng), tags=["ts-retype"]))
    n1, n2, n3 = (300, 150, 200) if tier == "quick" else (3000, 1500, 2000)
    for _ in range(n1):
        cases.append(dict(line=arbgen.gen_history(rng, maxops=12 if tier == "quick" else 25), tags=["history"]))
    for _ in range(n2):
        cases.append(dict(line=arbgen.gen_listener_history(rng, maxops=10).replace("rep=8", "rep=1"), tags=["listener-history"]))
    for _ in range(n3):
        cases.append(dict(line=gen_gc_edit(rng), tags=["gc-single-field-edit"]))
    return cases


def corpus():
    return [dict(line=l, tags=["corpus"]) for l in arbgen.corpus_lines("arb") + arbgen.corpus_lines(PROP)]


def load_replay(obj):
    return [dict(line=obj["case"]["line"], tags=["replay"])]


def run_cases(cases, bins, res, tier, broken):
    arbprop.run_cases(sys.modules[__name__], cases, bins, res, tier, broken)


def shrink(case, issue, bins):
    return arbprop.shrink(sys.modules[__name__], case, issue, bins)
