"""C15 — a change to anything a served resource depends on reaches that resource."""
import vlib

PROP = "C15"
PROPS_FILES = ["Nic/Props/C15.lean"]
HARNESS = "vh-k8s"
PARALLEL = 8
RULE = ("every reference-bearing position of every served resource kind, exhaustively: VirtualServer (TLS secret, upstream service, backup "
        "service, ClusterIP upstream, DoS reference in spec and route, each of the 7 secret/App-Protect carrying Policy kinds in spec and in a "
        "route), VirtualServerRoute attached to a VirtualServer (upstream, backup, subroute DoS, each Policy kind in a subroute; route in the "
        "VirtualServer's namespace and in another one), Ingress and minion of a mergeable Ingress (TLS, backend, default backend, JWT and "
        "basic-auth annotations, App Protect policy / log-conf / DoS annotations), TransportServer (upstream, backup, TLS); each with a bare and "
        "a namespace-qualified reference, and for Policy positions a list naming two same-named Policies of different namespaces. For each case "
        "the harness admits the resource into the real Configuration, runs the real create*Ex with recording listers / secret store / App Protect "
        "configuration, and asks the real reverse lookups (FindResourcesFor*, getPoliciesForSecret, getWAFPoliciesForAppProtect*) for every object "
        "that was consulted. Non-trivial: every case (each consults at least one object).")
TRUSTED = ["recording wrappers around the listers, the secret store and the App Protect configuration (harness code, verif tag)",
           "DoS protected resources are resolved through a concrete type that cannot be wrapped: the declared reference is checked instead of a recorded lookup"]
ASSUMPTIONS = ["the composition of reverse lookups performed by the sync handlers (secret -> policy -> resource, App Protect -> WAF policy -> resource) "
               "is reproduced by the harness; the handlers themselves are driven by the C12/C15 controller harness (kind lbc)"]
LEVEL_TEXT = ("Lean 4 theorems over the model of the two traversals (forward: what create*Ex consults; reverse: reference checkers + secret/App-Protect "
              "-> policy hop): forward_subset_reverse_vs / _ts / _ing — for every VirtualServer with any routes, any policy lists and any policy table, "
              "every TransportServer and every Ingress with any minions, each consulted dependency is found by the reverse lookup.")
LEVEL_NOTE = ("Assurance = weaker of (theorems about the model, correspondence of the model's forward set with the lookups recorded in the real create*Ex, "
              "direct check that the real reverse lookups find every recorded lookup).")
TECHNIQUE = "Lean 4 proof (forward ⊆ reverse inclusion for all resources) + model/implementation correspondence on recorded dependency lookups"

POLKINDS = ["jwt", "basic", "imtls", "emtls", "oidc", "apikey", "waf"]


def positions():
    out = []
    for form in ("bare", "qual"):
        for pos in ["tls", "upstream", "backup", "clusterip", "dos", "routedos"]:
            out.append(("vs", pos, form, None))
        for pos in ["vsrupstream", "vsrbackup", "subroutedos"]:
            for ns in ("d", "e"):
                out.append(("vsr", pos, form, ns))
        for pos in ["tls", "backend", "defaultbackend", "jwt", "basic", "appolicy", "aplogconf", "dos"]:
            out.append(("ing", pos, form, None))
        for pos in ["backend", "jwt", "basic"]:
            out.append(("minion", pos, form, None))
        for pos in ["upstream", "backup", "tls"]:
            out.append(("ts", pos, form, None))
    for form in ("bare", "qual", "both"):
        for k in POLKINDS:
            out.append(("vs", "specpolicy." + k, form, None))
            out.append(("vs", "routepolicy." + k, form, None))
            out.append(("vsr", "subroutepolicy." + k, form, "d"))
            if form != "both":
                out.append(("vsr", "subroutepolicy." + k, form, "e"))
    return out


def gen(rng, tier):
    cases = []
    for kind, pos, form, ns in positions():
        line = "refs kind=%s pos=%s form=%s" % (kind, pos, form)
        if ns:
            line += " vsrns=" + ns
        cases.append(dict(line=line, tags=[kind, pos.split(".")[0], form]))
    return cases


def corpus():
    import os
    d = os.path.join(vlib.VERIF, "corpus", PROP)
    out = []
    if os.path.isdir(d):
        for f in sorted(os.listdir(d)):
            for l in open(os.path.join(d, f)):
                l = l.strip()
                if l and not l.startswith("#"):
                    out.append(dict(line=l, tags=["corpus"]))
    return out


def load_replay(obj):
    return [dict(line=obj["case"]["line"], tags=["replay"])]


def sec(o):
    return dict((x.split("=", 1) + [""])[:2] for x in o.split("#") if "=" in x)


def judge(case, impl, model, spec):
    if impl is None or model is None:
        return dict(corr="missing output")
    if impl.startswith("setup="):
        return dict(corr="fixture not served: " + impl)
    d, m = sec(impl), sec(model)
    r = dict(nontrivial=bool(d.get("consulted")))
    if d.get("missing"):
        r["spec"] = "consulted during generation but not found by the reverse lookup: " + d["missing"]
        return r
    if m.get("missing"):
        r["corr"] = "model reverse lookup misses " + m["missing"]
        return r
    ic, mc = set(filter(None, d.get("consulted", "").split(","))), set(filter(None, m.get("consulted", "").split(",")))
    # the model's forward set must cover everything the real generation consults (then forward_model ⊆ reverse carries over);
    # it may only exceed it by the documented over-approximation: the model lets every ingressMTLS policy contribute its secret,
    # the real code reads it for the first ingressMTLS policy of spec.policies only
    extra = mc - ic
    slack = set(x for x in extra if x.startswith("secret:") and "/ca-p1" in x and ".imtls" in case["line"])
    if ic - mc:
        r["corr"] = "consulted by the real generation but absent from the model's forward set: %s" % ",".join(sorted(ic - mc))
    elif extra - slack:
        r["corr"] = "model's forward set exceeds the real one by %s" % ",".join(sorted(extra - slack))
    return r


SIGNATURES = {}
