"""C15 — a change to anything a served resource depends on reaches that resource."""
import vlib
from props import lbcgen

PROP = "C15"
PROPS_FILES = ["Nic/Props/C15.lean", "Nic/Props/TieMisc.lean"]
# Go functions translated from /repo on every run (tools/gofn) and proved equal to the model in the Tie file above
TIE_FUNCS = ['internal/k8s/appprotect_waf.go:isMatchingResourceRef', 'internal/k8s/appprotectdos/app_protect_dos_configuration.go:getNsName']
HARNESS = "vh-k8s"
PARALLEL = 8
RULE = ("(refs) every reference-bearing position of every served resource kind, exhaustively: VirtualServer (TLS secret, upstream service, backup "
        "service, ClusterIP upstream, DoS reference in spec and route, each of the 7 secret/App-Protect carrying Policy kinds in spec and in a "
        "route), VirtualServerRoute attached to a VirtualServer (upstream, backup, subroute DoS, each Policy kind in a subroute; route in the "
        "VirtualServer's namespace and in another one), Ingress and minion of a mergeable Ingress (TLS, backend, default backend, JWT and "
        "basic-auth annotations, App Protect policy / log-conf / DoS annotations), TransportServer (upstream, backup, TLS); each with a bare and "
        "a namespace-qualified reference, and for Policy positions a list naming two same-named Policies of different namespaces. For each case "
        "the harness admits the resource into the real Configuration, runs the real create*Ex with recording listers / secret store / App Protect "
        "configuration, and asks the real reverse lookups (FindResourcesFor*, getPoliciesForSecret, getWAFPoliciesForAppProtect*) for every object "
        "that was consulted. (lbc) store mutations (Services, EndpointSlices, Secrets of 5 types, Policies of 7 kinds, Ingresses, VirtualServers, "
        "TransportServers, ConfigMap) delivered through the real event handlers, the real work queue and the real sync of a LoadBalancerController built by its "
        "real constructor over a recording nginx.Manager: after every burst the files of every served resource are compared, item by item, with a fresh "
        "regeneration from the current stores. Non-trivial: every case (each consults at least one object / writes at least one file).")
TRUSTED = ["recording wrappers around the listers, the secret store and the App Protect configuration (harness code, verif tag)",
           "DoS protected resources are resolved through a concrete type that cannot be wrapped: the declared reference is checked instead of a recorded lookup"]
ASSUMPTIONS = ["the composition of reverse lookups performed by the sync handlers (secret -> policy -> resource, App Protect -> WAF policy -> resource) "
               "is reproduced by the harness; the handlers themselves are driven by the C12/C15 controller harness (kind lbc)"]
LEVEL_TEXT = ("Lean 4 theorems over the model of the two traversals (forward: what create*Ex consults; reverse: reference checkers + secret/App-Protect "
              "-> policy hop): forward_subset_reverse_vs / _ts / _ing — for every VirtualServer with any routes, any policy lists and any policy table, "
              "every TransportServer and every Ingress with any minions, each consulted dependency is found by the reverse lookup.")
LEVEL_NOTE = ("Assurance = weaker of (theorems about the model, correspondence of the model's forward set with the lookups recorded in the real create*Ex, "
              "direct check that the real reverse lookups find every recorded lookup).")
TECHNIQUE = "Lean 4 proof (forward ⊆ reverse inclusion for all resources) + model/implementation correspondence on recorded dependency lookups"

POLKINDS = ["jwt", "basic", "imtls", "emtls", "oidc", "apikey", "waf", "wafold", "wafboth"]


def positions():
    out = []
    for form in ("bare", "qual"):
        for pos in ["tls", "upstream", "backup", "clusterip", "dos", "routedos"]:
            out.append(("vs", pos, form, None))
        for pos in ["vsrupstream", "vsrbackup", "subroutedos"]:
            for ns in ("d", "e"):
                out.append(("vsr", pos, form, ns))
        for pos in ["tls", "backend", "defaultbackend", "jwt", "basic", "appolicy", "aplogconf", "dos"]:
            out.append(("ing", pos, form, None))
        for pos in ["backend", "jwt", "basic"]:
            out.append(("minion", pos, form, None))
        for pos in ["upstream", "backup", "tls"]:
            out.append(("ts", pos, form, None))
    for form in ("bare", "qual", "both"):
        for k in POLKINDS:
            out.append(("vs", "specpolicy." + k, form, None))
            out.append(("vs", "routepolicy." + k, form, None))
            out.append(("vsr", "subroutepolicy." + k, form, "d"))
            if form != "both":
                out.append(("vsr", "subroutepolicy." + k, form, "e"))
    return out


def gen(rng, tier):
    cases = []
    for kind, pos, form, ns in positions():
        line = "refs kind=%s pos=%s form=%s" % (kind, pos, form)
        if ns:
            line += " vsrns=" + ns
        cases.append(dict(line=line, tags=[kind, pos.split(".")[0], form]))
        if kind == "ing":
            # the same Ingress claiming two hosts, alone or having lost its first / its second host to a rival
            for ctx in ("twohosts", "losefirst", "loselast"):
                cases.append(dict(line=line + " ctx=" + ctx, tags=[kind, pos.split(".")[0], form, ctx]))
    # end-to-end: store mutations delivered through the real event handlers and the real sync; after every burst each served
    # resource's files are compared with a fresh regeneration from the current stores
    m = 150 if tier == "quick" else 1500
    for i in range(m):
        plus = rng.below(2)
        cases.append(dict(line=lbcgen.gen_case(rng, plus, 3 + rng.below(6), faults=False, batchy=(i % 4 == 0)), tags=["lbc", "plus" if plus else "oss"]))
    # one dependency changed or deleted at a time, for each kind of dependency and each way of depending on it
    base = ("+s1/0&+s2/0&+e1.0/s1/a&+e1.1/s1/b&+e2.0/s2/a&+k1/htpasswd/0&+k2/jwk/0&+k3/apikey/0&+k4/ca/0&+k5/tls/0&+p1/basic/k1/0&+p2/jwt/k2/0&"
            "+p3/apikey/k3/0&+p4/rl/_/0&+p5/emtls/k4/0&+p6/imtls/k4/0&+v1/s1/0/pol=p6/tls=k5&+v2/s1/0/rpol=%s&+i1/s2/0/basic=k1&+i2/s1/0%s&+t1/s2/0")
    changes = ["+s1/0/tp=9090&+e1.0/s1/a/port=9090", "+e1.0/s1/a/port=9090",      # only the slice's port changes (a targetPort edit): same endpoints
               "+e1.0/s1/a+c", "-e1.0", "-e1.1", "+e2.0/s2/_", "-e2.0", "+s1/1", "-s1", "-s2", "+k1/htpasswd/1", "-k1", "+k2/jwk/1", "-k2", "+k3/apikey/1", "-k3",
               "+k4/ca/1", "-k4", "+k5/tls/1", "-k5", "+p1/basic/k1/1", "-p1", "+p2/jwt/k2/1", "-p2", "+p3/apikey/k3/1", "-p3", "+p4/rl/_/1", "-p4",
               "+p5/emtls/k4/1", "-p5", "+p6/imtls/k4/1", "-p6", "+k1/bad/1",
               # the Policy goes to another controller's class (the generation then drops it) and comes back
               "+p1/basic/k1/0/cls=other", "+p3/apikey/k3/0/cls=other", "+p4/rl/_/0/cls=other", "+p5/emtls/k4/0/cls=other", "+p6/imtls/k4/0/cls=other"]
    for plus in (0, 1):
        for rpol in ["p1", "p3", "p4", "p5"] + (["p2"] if plus else []):
            b = base % (rpol, "/jwt=k2" if plus else "")
            for ch in changes:
                if tier == "quick" and (len(ch) + len(rpol) + plus + ord(ch[2])) % 2:
                    continue
                # the change alone, then undone / re-added, then inside a batch
                redo = ch[1:] if ch.startswith("-") else (ch[1:].split("/")[0] if "/cls=other" in ch else None)
                seq = [ch]
                if redo:
                    orig = [t for t in b.split("&") if t.startswith("+" + redo + "/")]
                    seq += orig[:1]
                cases.append(dict(line="lbc plus=%d dssl=1 rf=_ af=_ bursts=%s;%s" % (plus, b, ";".join(seq)), tags=["lbc", "single-dependency"]))
                cases.append(dict(line="lbc plus=%d dssl=1 rf=_ af=_ bursts=%s;+e3.0/s3/a&%s&+e3.1/s3/b&+e3.2/s3/c" % (plus, b, ch), tags=["lbc", "dependency-in-batch"]))
    return cases


def corpus():
    import os
    d = os.path.join(vlib.VERIF, "corpus", PROP)
    out = []
    if os.path.isdir(d):
        for f in sorted(os.listdir(d)):
            for l in open(os.path.join(d, f)):
                l = l.strip()
                if l and not l.startswith("#"):
                    out.append(dict(line=l, tags=["corpus"]))
    return out


def load_replay(obj):
    return [dict(line=obj["case"]["line"], tags=["replay"])]


def sec(o):
    return dict((x.split("=", 1) + [""])[:2] for x in o.split("#") if "=" in x)


def driver_line(case, impl):
    if case["line"].startswith("lbc ") and impl and not impl.startswith("CRASH"):
        return case["line"] + " trace=" + impl
    return case["line"]


def judge(case, impl, model, spec):
    if impl is None or model is None:
        return dict(corr="missing output")
    if case["line"].startswith("lbc "):
        if impl.startswith("CRASH") or impl.startswith("setup") or spec is None:
            return dict(corr="harness: " + impl[:200])
        r = dict(nontrivial="S|" in impl)
        mine = [c for c in spec.split(";") if ":stale:" in c]
        if mine:
            r["spec"] = mine[0]
        return r
    if impl.startswith("setup="):
        return dict(corr="fixture not served: " + impl)
    d, m = sec(impl), sec(model)
    r = dict(nontrivial=bool(d.get("consulted")))
    if d.get("missing"):
        r["spec"] = "consulted during generation but not found by the reverse lookup: " + d["missing"]
        return r
    if m.get("missing"):
        r["corr"] = "model reverse lookup misses " + m["missing"]
        return r
    ic, mc = set(filter(None, d.get("consulted", "").split(","))), set(filter(None, m.get("consulted", "").split(",")))
    # the model's forward set must cover everything the real generation consults (then forward_model ⊆ reverse carries over);
    # it may only exceed it by the documented over-approximation: the model lets every ingressMTLS policy contribute its secret,
    # the real code reads it for the first ingressMTLS policy of spec.policies only
    extra = mc - ic
    slack = set(x for x in extra if x.startswith("secret:") and "/ca-p1" in x and ".imtls" in case["line"])
    if ic - mc:
        r["corr"] = "consulted by the real generation but absent from the model's forward set: %s" % ",".join(sorted(ic - mc))
    elif extra - slack:
        r["corr"] = "model's forward set exceeds the real one by %s" % ",".join(sorted(extra - slack))
    return r


SIGNATURES = {}
