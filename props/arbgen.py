"""Generator, observation parser and shrinker for arbitration histories (C01-C05, C16).

A history is `arb pt=<0|1> cm=<0|1> forb=<ports> rep=<n> ops=<op>;<op>;...`; the op
encoding is documented in harness/internal/k8s/zz_verif_arb.go."""
import re
import itertools
import os
import vlib

HOSTS = ["a.ex", "b.ex", "c.ex"]
NSS = ["d", "e"]
NAMES = ["a", "b", "c"]
FORB = "80+443+8080+9113+9114"


class World:
    """Tracks live objects the way the API server would: a re-created object gets
    a fresh UID and timestamp, an edit bumps the generation."""

    def __init__(self, rng, tsvals=(1, 1, 2, 2, 3)):
        self.rng = rng
        self.uid = 0
        self.live = {}     # (kind, ns, name) -> dict(uid, ts, gen, spec...)
        self.tsvals = tsvals

    def ident(self, kind, ns, name, respec=True):
        k = (kind, ns, name)
        o = self.live.get(k)
        if o is None:
            self.uid += 1
            o = dict(uid="u%03d" % self.uid, ts=self.rng.choice(self.tsvals), gen=1)
            self.live[k] = o
        elif respec and self.rng.chance(1, 10):
            # the object was deleted and re-created under the same name and the controller saw the pair as ONE update (informer
            # relist after a dropped watch, coalesced queue entry): new UID and creation time, generation starts again at 1
            self.uid += 1
            o.update(uid="u%03d" % self.uid, ts=self.rng.choice(self.tsvals), gen=1)
        elif respec:
            o["gen"] += 1
        return o

    def forget(self, kind, ns, name):
        self.live.pop((kind, ns, name), None)


def enc(s):
    return s if s != "" else "_"


def gen_ing(rng, w, cm, mergeable=True, force=None):
    ns, name = rng.choice(NSS), rng.choice(NAMES)
    prev = w.live.get(("ing", ns, name))
    typ = rng.weighted([("r", 6), ("M", 2 if mergeable else 0), ("m", 3 if mergeable else 0)])
    if prev and "typ" in prev and rng.chance(3, 4):
        typ = prev["typ"]
    chal = "1" if (cm and typ == "r" and rng.chance(1, 4)) else "0"
    if typ == "r":
        if chal == "1":
            rules = "%s>%s" % (rng.choice(HOSTS), rng.choice(["/ch", "/.well-known/x"]))
        else:
            hs = rng.shuffle(HOSTS)[: 1 + rng.below(3)]
            rules = "&".join("%s>%s" % (h, "+".join(rng.shuffle(["/x", "/y", "/z"])[: rng.below(3)])) for h in hs)
    elif typ == "M":
        rules = "%s>" % rng.choice(HOSTS)
    else:
        ps = [rng.choice(["/p", "/q", "/r", "/p", "/q", "/r", "E", "/"]) for _ in range(1 + rng.below(3))]      # E = the empty path
        if not rng.chance(1, 6):
            ps = list(dict.fromkeys(ps))      # mostly distinct; sometimes a path listed twice
        rules = "%s>%s" % (rng.choice(HOSTS[:2]), "+".join(ps))
    respec = True
    ann = "_"
    if prev and rng.chance(1, 5):
        # annotation-only edit: generation unchanged
        respec = False
        ann = "x%d" % rng.below(3)
        rules = prev.get("rules", rules)
        typ = prev.get("typ", typ)
        chal = prev.get("chal", chal)
    o = w.ident("ing", ns, name, respec)
    o.update(typ=typ, rules=rules, chal=chal)
    cls = rng.weighted([("1", 12), ("0", 2), ("n", 1), ("a", 1), ("b", 1)])
    valid = "0" if rng.chance(1, 8) else "1"
    return "ing|%s|%s|%s|%d|%d|%s|%s|%s|%s|%s|%s" % (ns, name, o["uid"], o["ts"], o["gen"], ann, cls, valid, typ, chal, rules)


def gen_vs(rng, w):
    ns, name = rng.choice(NSS), rng.choice(NAMES)
    o = w.ident("vs", ns, name)
    host = rng.choice(HOSTS)
    routes = []
    for _ in range(1 + rng.below(3)):
        path = rng.choice(["/", "/r", "/s", "=/e", "~^/x"])
        ref = rng.weighted([("_", 3), ("r1", 2), ("r2", 1), ("d/r1", 1), ("e/r1", 1), ("e/r2", 1)])
        if path == "/" and ref != "_":
            path = "/r"
        routes.append((path, ref))
    seen, rts = set(), []
    for p, r in routes:
        if p not in seen:
            seen.add(p)
            rts.append("%s>%s" % (p, r))
    lh, ls = "-", "-"
    if rng.chance(1, 3):
        lh = rng.choice(["h1", "h2", "s1", "tcp1", "nope", "_"])
        ls = rng.choice(["s1", "h1", "nope", "_"])
    cls = rng.weighted([("1", 10), ("0", 2), ("n", 2)])
    valid = "0" if rng.chance(1, 8) else "1"
    return "vs|%s|%s|%s|%d|%d|%s|%s|%s|%s|%s|%s" % (ns, name, o["uid"], o["ts"], o["gen"], cls, valid, host, "&".join(rts), lh, ls)


def gen_vsr(rng, w):
    ns, name = rng.choice(NSS), rng.choice(["r1", "r2"])
    o = w.ident("vsr", ns, name)
    host = rng.choice(HOSTS)
    kind = rng.below(6)
    if kind == 0:
        subs = ["=/e"]
    elif kind == 1:
        subs = ["~^/x"]
    elif kind == 5:
        # no subroutes at all: valid on its own and for a prefix route, not for an exact / regex route (which wants exactly one)
        subs = []
    else:
        subs = rng.shuffle(["/r", "/r/a", "/r/b", "/s", "/s/a", "/t"])[: 1 + rng.below(3)]
    cls = rng.weighted([("1", 10), ("0", 2), ("n", 2)])
    valid = "0" if rng.chance(1, 8) else "1"
    return "vsr|%s|%s|%s|%d|%d|%s|%s|%s|%s" % (ns, name, o["uid"], o["ts"], o["gen"], cls, valid, host, "+".join(subs))


def gen_ts(rng, w, pt):
    ns, name = rng.choice(NSS), rng.choice(NAMES)
    o = w.ident("ts", ns, name)
    k = rng.weighted([("pt", 4 if pt else 1), ("tcp", 4), ("udp", 2)])
    if k == "pt":
        lname, proto, host = "tls-passthrough", "TLS_PASSTHROUGH", rng.choice(HOSTS)
    elif k == "tcp":
        lname, proto, host = rng.choice(["tcp1", "tcp2", "udp1", "h1"]), "TCP", rng.choice(["_", "_", "a.ex", "b.ex"])
    else:
        lname, proto, host = rng.choice(["udp1", "tcp1"]), "UDP", "_"
    cls = rng.weighted([("1", 10), ("0", 2), ("n", 2)])
    valid = "0" if rng.chance(1, 8) else "1"
    if k == "pt" and not pt:
        valid = "0"      # the real validator rejects passthrough TransportServers when the feature is off
    return "ts|%s|%s|%s|%d|%d|%s|%s|%s|%s|%s" % (ns, name, o["uid"], o["ts"], o["gen"], cls, valid, lname, proto, host)


def gen_listener(rng, messy):
    name = rng.choice(["tcp1", "tcp2", "udp1", "h1", "h2", "s1"])
    proto = {"tcp1": "TCP", "tcp2": "TCP", "udp1": "UDP", "h1": "HTTP", "h2": "HTTP", "s1": "HTTP"}[name]
    ssl = "1" if name == "s1" else "0"
    port = rng.choice([5000, 5001, 5353, 8081, 8443])
    v4 = rng.choice(["_", "_", "127.0.0.1", "10.0.0.9"])
    v6 = rng.choice(["_", "_", "::1"])
    if messy:
        r = rng.below(10)
        if r == 0:
            proto = rng.choice(["TCP", "UDP", "HTTP"])
        elif r == 1:
            port = rng.choice([80, 443, 8080, 0, 70000])
        elif r == 2:
            name = rng.choice(["tls-passthrough", "Bad_Name", "9x", "_"])
        elif r == 3:
            v4 = rng.choice(["1.2.3", "300.1.1.1", "::1"])
        elif r == 4:
            v6 = rng.choice(["zz::1", "1.2.3.4x"])
        elif r == 5:
            proto = rng.choice(["TLS_PASSTHROUGH", "tcp", "_"])
        elif r == 6:
            ssl = rng.choice(["0", "1"])
    return "%s>%d>%s>%s>%s>%s" % (name, port, proto, ssl, v4, v6)


def gen_gc(rng, messy=True):
    n = rng.below(6)
    return "gc|" + "&".join(gen_listener(rng, messy) for _ in range(n))


def gen_del(rng, w):
    if not w.live:
        return None
    kind, ns, name = rng.choice(sorted(w.live.keys()))
    w.forget(kind, ns, name)
    return "del|%s|%s/%s" % (kind, ns, name)


def gen_history(rng, maxops=12, weights=None, pt=None, cm=None, rep=1):
    pt = rng.chance(3, 4) if pt is None else pt
    cm = rng.chance(1, 4) if cm is None else cm
    w = World(rng)
    ops = []
    wt = weights or dict(ing=8, vs=5, vsr=4, ts=4, gc=2, delete=4, delgc=1)
    n = 2 + rng.below(maxops - 1)
    for _ in range(n):
        k = rng.weighted(sorted(wt.items()))
        if k == "ing":
            ops.append(gen_ing(rng, w, cm))
        elif k == "vs":
            ops.append(gen_vs(rng, w))
        elif k == "vsr":
            ops.append(gen_vsr(rng, w))
        elif k == "ts":
            ops.append(gen_ts(rng, w, pt))
        elif k == "gc":
            ops.append(gen_gc(rng))
        elif k == "delete":
            d = gen_del(rng, w)
            if d:
                ops.append(d)
        elif k == "delgc":
            ops.append("delgc")
    if not ops:
        ops.append(gen_ing(rng, w, cm))
    return line(pt, cm, ops, rep)


def gen_listener_history(rng, maxops=10):
    """TransportServer / GlobalConfiguration histories with listener rename, protocol, port and IP edits."""
    return gen_history(rng, maxops=maxops, weights=dict(ing=1, vs=2, ts=8, gc=6, delete=3, delgc=1), rep=8)


def gen_replaced_contest(rng, kinds=("ing", "vs", "ts", "pt")):
    """Two or three resources of one kind contend for the same host / listener; then one of them is REPLACED — deleted and re-created
    under the same name, seen as a single update: new UID, a creation time that may reverse the age order, generation 1 again, and
    one time in three a different claim or an invalid spec — and an unrelated event follows. Ownership, the emitted changes and the
    reports must be those of the objects that exist now."""
    kind = rng.choice(list(kinds))
    names = rng.shuffle(["a", "b", "c"])[: 2 + rng.below(2)]
    uid = [0]

    def obj(name, ts, what, valid="1"):
        uid[0] += 1
        u = "u%03d" % uid[0]
        if kind == "ing":
            return "ing|d|%s|%s|%d|1|_|1|%s|r|0|%s>/x" % (name, u, ts, valid, what)
        if kind == "vs":
            return "vs|d|%s|%s|%d|1|1|%s|%s|/>_|-|-" % (name, u, ts, valid, what)
        if kind == "pt":
            return "ts|d|%s|%s|%d|1|1|%s|tls-passthrough|TLS_PASSTHROUGH|%s" % (name, u, ts, valid, what)
        return "ts|d|%s|%s|%d|1|1|%s|%s|TCP|_" % (name, u, ts, valid, what)
    things = ["tcp1", "tcp2"] if kind == "ts" else ["a.ex", "b.ex"]
    ops = ["gc|tcp1>5000>TCP>0>_>_&tcp2>5001>TCP>0>_>_"] if kind == "ts" else []
    tss = rng.shuffle([1, 2, 3, 4])
    for i, n in enumerate(names):
        ops.append(obj(n, tss[i], things[0]))
    victim = rng.choice(names)
    what = things[0] if rng.chance(2, 3) else things[1]
    ops.append(obj(victim, rng.choice([0, 5, tss[0]]), what, "0" if rng.chance(1, 6) else "1"))
    tail = rng.below(4)
    if tail == 0:
        ops.append("ing|e|z|u900|1|1|_|1|1|r|0|z.ex>/x")
    elif tail == 1:
        ops.append("del|%s|d/%s" % ({"ing": "ing", "vs": "vs"}.get(kind, "ts"), rng.choice(names)))
    elif tail == 2 and kind == "ts":
        ops.append("gc|tcp1>5000>TCP>0>_>_&tcp2>5002>TCP>0>_>_")
    return line(True, False, ops, rep=4)


def gen_replaced_attached(rng):
    """A resource that is ATTACHED to another one — a VirtualServerRoute to a host-holding VirtualServer, a minion to its master — is
    REPLACED (deleted and re-created under the same name, seen as one update: new UID, generation 1 again) with different content.
    The holder's configuration changed, although neither its own metadata nor the route's name and generation did (seed C03-5)."""
    ops = []
    ts = rng.shuffle([1, 2, 3, 4])
    if rng.chance(1, 2):
        ops.append("vs|d|v|u001|%d|1|1|1|a.ex|/r>r1%s|-|-" % (ts[0], rng.choice(["", "&/s>r2", "&/t>_"])))
        subs = rng.shuffle(["/r", "/r/a", "/r/b", "/r/c"])
        ops.append("vsr|d|r1|u002|%d|1|1|1|a.ex|%s" % (ts[1], subs[0]))
        if rng.chance(1, 2):
            ops.append("vsr|d|r2|u003|%d|1|1|1|a.ex|/s/a" % ts[2])
        what = rng.below(4)
        if what == 3:
            ops.append("vsr|d|r1|u004|%d|1|1|1|b.ex|%s" % (rng.choice(ts), subs[0]))      # other host: no longer fits
        else:
            ops.append("vsr|d|r1|u004|%d|1|1|%s|a.ex|%s" % (rng.choice(ts), "0" if what == 2 else "1", subs[1] if what else subs[0]))
    else:
        ops.append("ing|d|m|u001|%d|1|_|1|1|M|0|a.ex>" % ts[0])
        ps = rng.shuffle(["/p", "/q", "/r"])
        ops.append("ing|d|n1|u002|%d|1|_|1|1|m|0|a.ex>%s" % (ts[1], ps[0]))
        if rng.chance(1, 2):
            ops.append("ing|d|n2|u003|%d|1|_|1|1|m|0|a.ex>%s" % (ts[2], ps[2]))
        what = rng.below(3)
        ops.append("ing|d|n1|u004|%d|1|_|1|%s|m|0|a.ex>%s" % (rng.choice(ts), "0" if what == 2 else "1", ps[1] if what else ps[0]))
    if rng.chance(1, 2):
        ops.append("ing|e|z|u900|1|1|_|1|1|r|0|z.ex>/x")
    return line(True, False, ops, rep=4)


def gen_listener_handover(rng):
    """3..5 TransportServers with hosts on ONE TCP listener (TLS-terminated), distinct ages; then one or two of them are edited to
    another host, so that a single event changes the holder of two (listener, host) keys at once: the mover takes one key from its
    holder and leaves another to a waiting claimant. The batch must delete before it adds and must not squash the mover away."""
    hosts = ["a.ex", "b.ex", "c.ex"]
    names = rng.shuffle(["a", "b", "c", "d", "e"])[: 3 + rng.below(3)]
    ages = rng.shuffle([1, 2, 3, 4, 5, 6])
    ops = ["gc|tcp1>5000>TCP>0>_>_"]
    cur = {}
    for i, n in enumerate(names):
        cur[n] = dict(uid="u%03d" % (i + 1), ts=ages[i], gen=1, host=rng.choice(hosts[:2] if i < 3 else hosts))
        ops.append("ts|d|%s|%s|%d|1|1|1|tcp1|TCP|%s" % (n, cur[n]["uid"], cur[n]["ts"], cur[n]["host"]))
    for _ in range(1 + rng.below(2)):
        n = rng.choice(names)
        o = cur[n]
        o["gen"] += 1
        o["host"] = rng.choice([h for h in hosts if h != o["host"]])
        ops.append("ts|d|%s|%s|%d|%d|1|1|tcp1|TCP|%s" % (n, o["uid"], o["ts"], o["gen"], o["host"]))
    if rng.chance(1, 2):
        ops.append("ing|e|z|u900|1|1|_|1|1|r|0|z.ex>/x")
    return line(True, False, ops, rep=4)


def gen_gc_single_edits(rng):
    """A GlobalConfiguration with a TCP, a UDP, an HTTP and an HTTPS listener, TransportServers and a VirtualServer bound to them,
    then one to three GlobalConfiguration updates that each change exactly ONE attribute of ONE listener (port, IPv4 or IPv6) and
    nothing else — same names, protocols, order and count: every bound resource must follow at once."""
    ls = {"tcp1": [5000, "TCP", "0", "_", "_"], "udp1": [5353, "UDP", "0", "_", "_"], "h1": [8081, "HTTP", "0", "_", "_"], "s1": [8443, "HTTP", "1", "_", "_"]}
    order = ["tcp1", "udp1", "h1", "s1"]
    for n in order:       # some listeners start with addresses
        if rng.chance(1, 3):
            ls[n][3] = rng.choice(["127.0.0.1", "10.0.0.9"])
        if rng.chance(1, 4):
            ls[n][4] = "::1"

    def gc():
        return "gc|" + "&".join("%s>%d>%s>%s>%s>%s" % (n, ls[n][0], ls[n][1], ls[n][2], ls[n][3], ls[n][4]) for n in order)
    ops = [gc(),
           "ts|d|a|u001|1|1|1|1|tcp1|TCP|_", "ts|d|b|u002|2|1|1|1|udp1|UDP|_",
           "vs|d|v|u003|1|1|1|1|a.ex|/>_|h1|s1"]
    if rng.chance(1, 2):
        ops = [ops[1], ops[3], ops[0], ops[2]]          # resources first, the listeners arrive later
    for _ in range(1 + rng.below(3)):
        n = rng.choice(order)
        what = rng.below(3)
        if what == 0:
            ls[n][0] = rng.choice([p for p in (5000, 5001, 5353, 8081, 8443, 9000) if p != ls[n][0] and all(p != ls[m][0] or ls[m][1] != ls[n][1] for m in order)])
        elif what == 1:
            ls[n][3] = rng.choice([x for x in ("_", "127.0.0.1", "127.0.0.2", "10.0.0.9") if x != ls[n][3]])
        else:
            ls[n][4] = rng.choice([x for x in ("_", "::1", "fd00::1") if x != ls[n][4]])
        ops.append(gc())
    return line(True, False, ops, rep=4)


def gen_admission(rng):
    """A single GlobalConfiguration with up to 7 entries biased to clashes, duplicate and bad names, reserved ports."""
    names = ["a", "b", "c"]
    ls = []
    for _ in range(1 + rng.below(7)):
        name = rng.choice(names)
        proto = rng.choice(["TCP", "UDP", "HTTP", "HTTP", "TCP"])
        port = rng.choice([5000, 5000, 5001, 5353])
        v4 = rng.choice(["_", "_", "10.0.0.9", "127.0.0.1"])
        v6 = rng.choice(["_", "_", "::1"])
        ssl = rng.choice(["0", "1"]) if proto == "HTTP" else "0"
        r = rng.below(14)
        if r == 0:
            port = rng.choice([80, 443, 8080, 9113, 0, 65536])
        elif r == 1:
            name = rng.choice(["tls-passthrough", "A", "-a", "_"])
        elif r == 2:
            v4 = rng.choice(["1.2.3", "256.1.1.1"])
        elif r == 3:
            v6 = "zz::1"
        elif r == 4:
            proto = rng.choice(["TLS_PASSTHROUGH", "SCTP"])
        ls.append("%s>%d>%s>%s>%s>%s" % (name, port, proto, ssl, v4, v6))
    return line(True, False, ["gc|" + "&".join(ls)])


def line(pt, cm, ops, rep=1):
    return "arb pt=%d cm=%d forb=%s rep=%d ops=%s" % (1 if pt else 0, 1 if cm else 0, FORB, rep, ";".join(ops))


def parse_line(l):
    f = l.split()
    kv = dict(x.split("=", 1) for x in f[1:] if "=" in x)
    return kv, kv.get("ops", "").split(";")


def with_ops(l, ops):
    kv, _ = parse_line(l)
    return "arb pt=%s cm=%s forb=%s rep=%s%s ops=%s" % (kv["pt"], kv["cm"], kv["forb"], kv.get("rep", "1"), " fail=1" if kv.get("fail") == "1" else "", ";".join(ops))


# ---------------------------------------------------------------- observation parsing

def split_top(s, sep):
    """split on sep outside {...} and (...)"""
    out, depth, cur = [], 0, []
    for ch in s:
        if ch in "{(":
            depth += 1
        elif ch in "})":
            depth -= 1
        if ch == sep and depth == 0:
            out.append("".join(cur))
            cur = []
        else:
            cur.append(ch)
    if cur or out:
        out.append("".join(cur))
    return [x for x in out if x != ""]


def parse_snap(s):
    key, rest = s.split("{", 1)
    rest = rest[:-1]
    d = dict(key=key, kind=key.split("/")[0], raw=s)
    for f in split_top(rest, "!"):
        if re.fullmatch(r"g\d+u\d+", f):
            d["gen"] = int(f[1:f.index("u")])
            d["uid"] = int(f[f.index("u") + 1:])
        elif f.startswith("a") and ":" not in f:
            d["ann"] = f[1:]
        elif f.startswith("M") and len(f) == 2:
            d["master"] = f[1] == "1"
        elif f.startswith("vh:"):
            d["vh"] = dict(x.rsplit("=", 1) for x in f[3:].split("+") if x)
        elif f.startswith("min:"):
            mins = []
            for m in split_top(f[4:], "+"):
                mk, ps = m.split("(", 1)
                mins.append((mk, dict(x.rsplit("=", 1) for x in ps[:-1].split("+") if x)))
            d["min"] = mins
        elif f.startswith("w:"):
            d["w"] = [x for x in f[2:].split("+") if x]
        elif f.startswith("cw:"):
            d["cw"] = f[3:]
        elif f.startswith("h:"):
            d["host"] = f[2:]
        elif f.startswith("l:"):
            d["lname"] = f[2:]
        elif f.startswith("vsr:"):
            d["vsr"] = [x for x in f[4:].split("+") if x]
        elif f.startswith("p:"):
            d["port"] = f[2:]
        elif f.startswith("ip:"):
            d["ip"] = f[3:]
    return d


def attrs(d):
    """What the generated NGINX configuration of a resource is rendered from (C03): everything but warnings."""
    return dict((k, v) for k, v in d.items() if k not in ("w", "cw", "raw"))


def parse_obs(o):
    parts = {}
    for sec in o.split("#"):
        if "=" in sec:
            k, v = sec.split("=", 1)
            parts[k] = v
    C = []
    for c in split_top(parts.get("C", ""), ","):
        op, rest = c.split("~", 1)
        snap, e = rest.rsplit("~", 1)
        C.append((op, parse_snap(snap), e == "e1"))
    P = []
    for p in split_top(parts.get("P", ""), ","):
        f = p.split("~")
        P.append(tuple(f))
    R = {}
    for r in split_top(parts.get("R", ""), ","):
        d = parse_snap(r)
        R[d["key"]] = d
    EV = []
    for e in split_top(parts.get("EV", ""), ","):
        f = e.split("~")
        EV.append(dict(key=f[0], typ=f[1], reason=f[2], codes=[c for c in f[3].split("+") if c]))
    return dict(C=C, P=P, R=R, L=parts.get("L"), E=parts.get("E"), EV=EV)


def parse_spec(o):
    parts = {}
    for sec in o.split("#"):
        if "=" in sec:
            k, v = sec.split("=", 1)
            parts[k] = v
    O = dict(x.split("=", 1) for x in parts.get("O", "").split(",") if x)
    LO = {}
    for x in parts.get("LO", "").split(","):
        if x:
            k, v = x.split("=", 1)
            LO[k] = v
    M = {}
    for x in split_top(parts.get("M", ""), ","):
        k, v = x.split(":", 1)
        M[k] = v
    S = dict(x.rsplit("=", 1) for x in parts.get("S", "").split(",") if x)
    return dict(O=O, LO=LO, M=M, S=S, A=parts.get("A"))


def impl_owners(R):
    """host -> [resource keys that the real code marks as serving the host]"""
    own = {}
    for k, d in R.items():
        if d["kind"] == "Ingress":
            for h, v in d.get("vh", {}).items():
                if v == "1":
                    own.setdefault(h, []).append(k)
        elif d["kind"] == "VirtualServer":
            own.setdefault(d.get("host", ""), []).append(k)
        elif d["kind"] == "TransportServer" and d.get("lname") == "tls-passthrough":
            own.setdefault(d.get("host", ""), []).append(k)
    return own


def corpus_lines(prop):
    d = os.path.join(vlib.VERIF, "corpus", prop)
    lines = []
    if os.path.isdir(d):
        for f in sorted(os.listdir(d)):
            for l in open(os.path.join(d, f)):
                l = l.strip()
                if l and not l.startswith("#"):
                    lines.append(l)
    return lines


def shrink_ops(line_, still_fails):
    """Delta-debugging over the op list of a history; still_fails(line) -> bool."""
    kv, ops = parse_line(line_)
    changed = True
    while changed and len(ops) > 1:
        changed = False
        for i in range(len(ops)):
            cand = ops[:i] + ops[i + 1:]
            l2 = with_ops(line_, cand)
            if still_fails(l2):
                ops = cand
                changed = True
                break
    return with_ops(line_, ops)


def permutations_same_end(line_, limit=720):
    """All permutations of a history's ops (the caller keeps those that end in the same object set)."""
    kv, ops = parse_line(line_)
    out = []
    for p in itertools.islice(itertools.permutations(ops), limit):
        out.append(with_ops(line_, list(p)))
    return out
