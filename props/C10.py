"""C10 — files on disk are in one-to-one correspondence with the resources being served."""
import vlib

PROP = "C10"
PROPS_FILES = ["Nic/Props/C10.lean", "Nic/Props/TieNames.lean"]
# Go functions translated from /repo on every run (tools/gofn) and proved equal to the model in the Tie file above
TIE_FUNCS = ['internal/configs/configurator.go:keyToFileName', 'internal/configs/configurator.go:objectMetaToFileName', 'internal/configs/configurator.go:generateNamespaceNameKey', 'internal/configs/configurator.go:getFileNameForVirtualServer', 'internal/configs/configurator.go:getFileNameForTransportServer', 'internal/configs/configurator.go:getFileNameForVirtualServerFromKey', 'internal/configs/configurator.go:getFileNameForTransportServerFromKey', 'internal/configs/virtualserver.go:NewUpstreamNamerForVirtualServer', 'internal/configs/virtualserver.go:NewUpstreamNamerForVirtualServerRoute', 'internal/configs/virtualserver.go:upstreamNamer.GetNameForUpstream', 'internal/configs/virtualserver.go:upstreamNamer.GetNameForUpstreamFromAction', 'internal/configs/virtualserver.go:NewVSVariableNamer', 'internal/configs/virtualserver.go:rfc1123ToSnake', 'internal/configs/virtualserver.go:type upstreamNamer', 'internal/configs/virtualserver.go:type VariableNamer', 'internal/configs/virtualserver.go:generateStatusMatchName', 'internal/configs/virtualserver.go:generateErrorPageName', 'internal/configs/configurator.go:appProtectDosPolicyFileName']
HARNESS = "vh-configs"
PARALLEL = 8
RULE = ("operation sequences (3..15 ops) of AddOrUpdate/Delete/BatchDelete for Ingresses, VirtualServers and TransportServers (TCP and TLS "
        "passthrough; the batch path of TransportServers is UpdateTransportServers(nil, keys), taken when a namespace stops being watched) through the real Configurator and LocalManager on a temporary configuration root with the real templates; namespaces and "
        "names over the alphabet {a,b,-,.} so that file names collide whenever the naming scheme allows it; a restart (new Configurator and "
        "LocalManager on the same root) at a random point followed by re-adding a random subset of what was served. After every op the "
        "directory listings, the resource each file was generated from (read back from the file) and the passthrough map are compared with "
        "the model, and with the Spec: exactly one file per served resource, carrying that resource, and exactly the served passthrough hosts. "
        "Non-trivial: at least one delete or restart after at least two adds.")
TRUSTED = ["filesystem semantics of os.Create/Rename/Remove", "generated file content is identified by a unique upstream server address per resource"]
ASSUMPTIONS = ["namespaces and names are DNS-1123 (no '_' and no '/')"]
LEVEL_TEXT = ("Lean 4 theorems: VirtualServer and TransportServer file names are injective in (namespace, name) over names without '_' and the two "
              "families (and Ingress files) are disjoint; delete-by-key addresses exactly the file written by-meta; for every operation sequence "
              "(restarts included) and every file name the content of that file in conf.d / stream-conf.d is the fold of the effects of exactly the operations "
              "that map to that name — the last add that maps to it, absent after a later delete that maps to it (files_eq_served, no_file_without_add), which with the "
              "injectivity theorems is one file per served resource as long as the names involved do not collide; deleting a resource removes its own file and nothing else; "
              "the batch path of TransportServers removes what the single delete removes (batchTs_removes). The Ingress file name ns-name is proved NOT "
              "injective (witness a-b/c vs a/b-c) — a recorded finding — and injective for a fixed namespace."
              ' Source tie: the six file-name functions are translated from /repo on every run and proved equal to the file-name model (Props/TieNames.lean: ingFile_tie … tsFileKey_tie, vs_key_meta_agree).')
LEVEL_NOTE = "Assurance = weaker of (theorems about the model, correspondence with the real Configurator+LocalManager on a real directory)."
TECHNIQUE = "Lean 4 proof (separator injectivity, directory invariant over all op sequences) + model/implementation correspondence on a real directory"

# what the harness' restart reproduces by hand: cmd/nginx-ingress/main.go writes the passthrough hosts map empty before NGINX starts
STARTUP_PIN = r"if \*enableTLSPassthrough \{\s*var emptyFile \[\]byte\s*nginxManager\.CreateTLSPassthroughHostsConfig\(emptyFile\)\s*\}"


def regenerate(tier):
    import os, re
    src = open(os.path.join(vlib.REPO, "cmd", "nginx-ingress", "main.go")).read()
    broken = []
    if not re.search(STARTUP_PIN, src):
        broken.append(("startup-pin:passthrough-map-written-empty", "cmd/nginx-ingress/main.go no longer contains the start-up block that writes an empty "
                       "TLS-passthrough hosts map when -enable-tls-passthrough is set; the restart step of the harness and of the model (Files.step .restart) assume it"))
    m = re.search(r"func \(lm \*LocalManager\) CreateTLSPassthroughHostsConfig\(content \[\]byte\) bool \{(.*?)\n\}", open(os.path.join(vlib.REPO, "internal", "nginx", "manager.go")).read(), re.S)
    return dict(broken=broken, obligations=1, discharged=1 - len(broken), summary=dict(startup_pin="present" if not broken else "missing"))


NSS = ["a", "b", "a-b", "a.b"]
NAMES = ["a", "b", "c", "b-c", "a.b", "c.v2", "a-b"]


def gen_case(rng, maxops=15, restart=True):
    uid = [0]
    served = {}      # (kind, ns, name) -> (uid, host)
    ops = []

    last = {}        # (kind, ns, name) -> (uid, host) of the most recent add, served or not

    def add(kind, ns, name):
        # one add in three of a resource seen before is a re-apply of the very same object (same uid, hence byte-identical
        # generated content): delete-then-re-add and idempotent re-apply must leave the file in place (seed C10-3)
        if (kind, ns, name) in last and rng.chance(1, 3):
            u, host = last[(kind, ns, name)]
        else:
            uid[0] += 1
            u = uid[0]
            host = (("h%d.ex" % u) if rng.chance(1, 2) else "_") if kind == "t" else None
        last[(kind, ns, name)] = (u, host)
        if kind == "t":
            ops.append("at|%s|%s|%d|%s" % (ns, name, u, host))
        else:
            ops.append("a%s|%s|%s|%d" % (kind, ns, name, u))
        served[(kind, ns, name)] = (u, host)

    n = 3 + rng.below(maxops - 2)
    rs_at = rng.below(n) if restart and rng.chance(1, 3) else -1
    for i in range(n):
        if i == rs_at:
            ops.append("rs")
            old = sorted(served)
            served.clear()
            for k in old:
                if rng.chance(2, 3):
                    add(*k)
            continue
        r = rng.below(10)
        gone = sorted(k for k in last if k not in served)
        if gone and rng.chance(1, 4):
            add(*rng.choice(gone))                      # bring back something that was deleted
        elif r < 6 or not served:
            add(rng.choice(["i", "v", "t"]), rng.choice(NSS), rng.choice(NAMES))
        elif r < 9:
            k = rng.choice(sorted(served))
            served.pop(k)
            ops.append("d%s|%s/%s" % (k[0], k[1], k[2]))
        else:
            kind = rng.choice(["i", "v", "t"])
            ks = [k for k in rng.shuffle(sorted(served)) if k[0] == kind][: 1 + rng.below(3)]
            if ks:
                for k in ks:
                    served.pop(k)
                ops.append("b%s|%s" % (kind, "+".join("%s/%s" % (k[1], k[2]) for k in ks)))
    return "files plus=%d ops=%s" % (rng.below(2), ";".join(ops))


def gen_restart_pt(rng):
    """Passthrough TransportServers are served, the controller restarts on the surviving volume, and some — or all — of them were
    deleted while it was down: the hosts map must list exactly the passthrough TransportServers that are served again."""
    ops, uid = [], 0
    tss = []
    for name in rng.shuffle(["a", "b", "c"])[: 1 + rng.below(3)]:
        uid += 1
        tss.append((name, uid, "h%d.ex" % uid))
        ops.append("at|a|%s|%d|h%d.ex" % (name, uid, uid))
    if rng.chance(1, 2):
        uid += 1
        ops.append("av|a|v|%d" % uid)
    ops.append("rs")
    back = [t for t in tss if rng.chance(1, 3)]
    for name, u, host in back:
        ops.append("at|a|%s|%d|%s" % (name, u, host))
    if rng.chance(1, 2):
        uid += 1
        ops.append("at|b|t|%d|_" % uid)          # a TCP TransportServer only
    if rng.chance(1, 2):
        uid += 1
        ops.append("ai|a|i|%d" % uid)
    return "files plus=%d ops=%s" % (rng.below(2), ";".join(ops))


def gen_batch_ts(rng):
    """A namespace stops being watched: its TransportServers — TLS passthrough ones among them — are deleted in one
    UpdateTransportServers(nil, keys) batch; afterwards an unrelated TransportServer is added (the hosts map is regenerated)."""
    ops, uid, tss = [], 0, []
    for ns in ["a", "b"]:
        for name in rng.shuffle(["a", "b", "c"])[: 1 + rng.below(3)]:
            uid += 1
            host = ("h%d.ex" % uid) if rng.chance(2, 3) else "_"
            tss.append((ns, name))
            ops.append("at|%s|%s|%d|%s" % (ns, name, uid, host))
    gone = [t for t in tss if t[0] == "a"]
    if rng.chance(1, 3):
        gone = gone[: 1 + rng.below(len(gone))]
    ops.append("bt|" + "+".join("%s/%s" % t for t in rng.shuffle(gone)))
    uid += 1
    ops.append("at|b|z|%d|%s" % (uid, ("h%d.ex" % uid) if rng.chance(1, 2) else "_"))
    if rng.chance(1, 2):
        ops.append("dt|b/z")
    return "files plus=%d ops=%s" % (rng.below(2), ";".join(ops))


def gen(rng, tier):
    n = 300 if tier == "quick" else 3000
    return ([dict(line=gen_batch_ts(rng), tags=["batch-transportservers"]) for _ in range(n // 6)] +[dict(line=gen_case(rng, 15 if tier == "quick" else 25), tags=["sequence"]) for _ in range(n)] +
            [dict(line=gen_restart_pt(rng), tags=["restart-passthrough"]) for _ in range(n // 6)])


def corpus():
    import os
    d = os.path.join(vlib.VERIF, "corpus", PROP)
    out = []
    if os.path.isdir(d):
        for f in sorted(os.listdir(d)):
            for l in open(os.path.join(d, f)):
                l = l.strip()
                if l and not l.startswith("#"):
                    out.append(dict(line=l, tags=["corpus"]))
    return out


def load_replay(obj):
    return [dict(line=obj["case"]["line"], tags=["replay"])]


def fname(kind, ns, name):
    return {"i": "%s-%s.conf" % (ns, name), "v": "vs_%s_%s.conf" % (ns, name), "t": "ts_%s_%s.conf" % (ns, name)}[kind]


def spec_check(line, impl):
    kv = dict(x.split("=", 1) for x in line.split()[1:])
    ops = kv["ops"].split(";")
    obs = impl.split(";;")
    if len(obs) != len(ops):
        return "observation count differs"
    served = {}
    first_files = None
    for i, (o, ob) in enumerate(zip(ops, obs)):
        f = o.split("|")
        if f[0] in ("ai", "av"):
            served[(f[0][1], f[1], f[2])] = (f[3], None)
        elif f[0] == "at":
            served[("t", f[1], f[2])] = (f[3], f[4])
        elif f[0] in ("di", "dv", "dt"):
            ns, name = f[1].split("/")
            served.pop((f[0][1], ns, name), None)
        elif f[0] in ("bi", "bv", "bt"):
            for k in f[1].split("+"):
                ns, name = k.split("/")
                served.pop((f[0][1], ns, name), None)
        elif f[0] == "rs":
            served = {}
        sec = dict(x.split("=", 1) for x in ob.split("#")[1:])
        want_conf, want_stream, want_pt = {}, {}, {}
        for (kind, ns, name), (uid, host) in served.items():
            tgt = want_stream if kind == "t" else want_conf
            fn = fname(kind, ns, name)
            if fn in tgt:
                return "after op#%d (%s): served resources %s/%s (uid %s) and uid %s share the file %s" % (i, o, ns, name, uid, tgt[fn], fn)
            tgt[fn] = uid
            if kind == "t" and host not in (None, "_"):
                want_pt[host] = "%s_%s" % (ns, name)
        got_conf = dict(x.rsplit("@", 1) for x in sec.get("conf", "").split(",") if x)
        got_stream = dict(x.rsplit("@", 1) for x in sec.get("stream", "").split(",") if x)
        pt = sec.get("pt", "")
        got_pt = {} if pt in ("", "nofile") else dict(x.split("=", 1) for x in pt.split(","))
        # the hosts map first: stale configuration files after a restart are a recorded finding (S-C10-b) and must not hide it
        if got_pt != want_pt:
            return "after op#%d (%s): TLS-passthrough host map %s differs from the served passthrough TransportServers %s" % (i, o, sorted(got_pt.items()), sorted(want_pt.items()))
        if (got_conf != want_conf or got_stream != want_stream) and first_files is None:
            # remembered, not returned: a stale file after a restart (S-C10-b) at an early op must not hide a wrong hosts map at a later one (seed C10-6)
            first_files = "after op#%d (%s): files on disk %s / %s differ from the served resources %s / %s" % (i, o, sorted(got_conf.items()), sorted(got_stream.items()), sorted(want_conf.items()), sorted(want_stream.items()))
    return first_files


def judge(case, impl, model, spec):
    if impl is None or model is None:
        return dict(corr="missing output impl=%r model=%r" % (impl and impl[:80], model and model[:80]))
    ops = case["line"].split("ops=")[1].split(";")
    r = dict(nontrivial=(sum(1 for o in ops if o[0] == "a") >= 2 and any(o[0] in "dbr" for o in ops)))
    sv = spec_check(case["line"], impl)
    if sv:
        r["spec"] = sv
        return r
    def canon(o):
        # directory listings are sets: the order (Go sorts "x.conf" names, the model sorts names) is irrelevant
        out = []
        for part in o.split("#"):
            if "=" in part:
                k, v = part.split("=", 1)
                part = k + "=" + ",".join(sorted(v.split(",")))
            out.append(part)
        return "#".join(out)
    impl = ";;".join(canon(o) for o in impl.split(";;"))
    model = ";;".join(canon(o) for o in model.split(";;"))
    if impl != model:
        a, b = impl.split(";;"), model.split(";;")
        for i in range(max(len(a), len(b))):
            if i >= len(a) or i >= len(b) or a[i] != b[i]:
                r["corr"] = "op#%d impl=%s model=%s" % (i, a[i] if i < len(a) else None, b[i] if i < len(b) else None)
                break
    return r


def sig_ing_collision(case, issue):
    """S-C10-a: two served Ingresses whose ns+'-'+name are equal share one file."""
    import re
    m = re.search(r"share the file (\S+)$", issue)
    return bool(m) and not m.group(1).startswith("vs_") and not m.group(1).startswith("ts_")


def sig_restart_stale(case, issue):
    """S-C10-b: after a restart, configuration files of resources that were not re-added stay on the surviving volume (the passthrough
    hosts map is NOT part of it: start-up writes it empty)."""
    if "rs" not in case.get("line", "").split("ops=")[-1].split(";"):
        return False
    if "differ from the served resources" in issue:
        # only *extra* files/hosts on disk: everything served must be present and right
        import ast, re
        m = re.search(r"files on disk (\[.*\]) / (\[.*\]) differ from the served resources (\[.*\]) / (\[.*\])$", issue)
        if m:
            gc, gs, wc, ws = (dict(ast.literal_eval(x)) for x in m.groups())
            return all(gc.get(k) == v for k, v in wc.items()) and all(gs.get(k) == v for k, v in ws.items())
    return False


def sig_pt_retype(case, issue):
    """S-C10-c: AddOrUpdateTransportServer of a TransportServer that was TLS passthrough and no longer is leaves its host in the passthrough map."""
    if "TLS-passthrough host map" not in issue:
        return False
    import ast, re
    m = re.search(r"after op#\d+ \((at\|[^)]*)\): TLS-passthrough host map (\[.*\]) differs from the served passthrough TransportServers (\[.*\])$", issue)
    if not m:
        return False
    f = m.group(1).split("|")
    g, w = dict(ast.literal_eval(m.group(2))), dict(ast.literal_eval(m.group(3)))
    extra = {k: v for k, v in g.items() if k not in w}
    return f[4] == "_" and all(g.get(k) == v for k, v in w.items()) and list(extra.values()) == ["%s_%s" % (f[1], f[2])]


SIGNATURES = {"ingress-file-collision": sig_ing_collision, "restart-leaves-stale-files": sig_restart_stale,
              "passthrough-pair-survives-retype": sig_pt_retype}
