"""C14 — upstream servers are exactly the ready endpoints of the referenced service port."""
import vlib

PROP = "C14"
PROPS_FILES = ["Nic/Props/C14.lean"]
HARNESS = "vh-k8s"
PARALLEL = 8
RULE = ("generated clusters: a Service with 1..3 ports (named/unnamed, numeric / named / defaulted target ports, ExternalName), 0..4 "
        "EndpointSlices of this and of another Service / namespace with 1..2 ports each (nil ports included), 0..4 endpoints per slice with "
        "ready in {true,false,unknown}, duplicate and IPv6 addresses, pods with named container ports and labels; backend references by "
        "number and by name (matching, missing, wrong-number-on-unnamed-port), NGINX and NGINX Plus; plus the sub-selector variant. The "
        "sorted server list / error class of the real controller code is compared with the model, and with the Spec computed independently in "
        "Python from the property's words. (resource) one Ingress / VirtualServer / VirtualServerRoute / TransportServer with 2..5 backends "
        "(default backend, paths over two rules, upstreams with backups) over 2..4 Services that are ready, not ready, without slices, ExternalName "
        "or missing with a stale slice left behind, use-cluster-ip included, through the real createIngressEx / createVirtualServerEx / "
        "createTransportServerEx: every backend must be given the ready endpoints of its own Service. Non-trivial: at least one slice of the "
        "service carries the target port.")
TRUSTED = ["net.JoinHostPort twin (brackets iff the address contains ':')", "lister order: a named target port is resolved on the first pod; generated pods agree on their named ports"]
ASSUMPTIONS = ["a multi-port Service names all its ports (Kubernetes validation)"]
LEVEL_TEXT = ("Lean 4 theorems over the model of getEndpointsForPortFromEndpointSlices/getTargetPort/findPort/selectEndpointSlicesForPort/"
              "filterReadyEndpointsFrom: a returned address is exactly join(addr, targetPort) of a ready endpoint of a slice of this Service "
              "carrying the target port (soundness and completeness), each address once, IPv6 bracketed; not-ready / unknown endpoints, other "
              "ports and other Services contribute nothing; the service port is the one the backend refers to; an empty result is an error, never an empty list; "
              "the backends of one resource are resolved independently (backends_resolved_independently) and a backend whose Service is missing gets no servers (missing_service_no_servers).")
LEVEL_NOTE = "Assurance = weaker of (theorems about the model, correspondence with the real code on store-backed listers)."
TECHNIQUE = "Lean 4 proof (set characterisation of the server list) + model/implementation correspondence"

ADDRS = ["10.0.0.1", "10.0.0.2", "10.0.0.3", "fd00::1", "fd00::2"]


def spec_eval(kv):
    """Independent evaluation of the property's words (used as the direct Spec check)."""
    sf = kv["svc"].split("|")
    name, ns, ext, sel, ports = sf
    sports = []
    for p in ports.split("&"):
        f = p.split(">")
        sports.append(dict(name="" if f[0] == "_" else f[0], port=int(f[1]), tp=f[2], proto=f[3]))
    bname = "" if kv["bname"] == "_" else kv["bname"]
    bnum = int(kv["bnum"])
    if kv.get("sub") == "1":
        sp = next((s for s in sports if s["port"] == bnum), None)
    elif bname == "":
        sp = next((s for s in sports if s["port"] == bnum), None)
    else:
        sp = next((s for s in sports if s["name"] == bname), None)
    return sp


def gen_case(rng, sub=False):
    nports = rng.weighted([(1, 5), (2, 3), (3, 1)])
    ports = []
    pool = rng.shuffle([80, 8080, 443, 9000])
    for i in range(nports):
        pname = "_" if (nports == 1 and rng.chance(1, 2)) else ["http", "https", "adm"][i]
        tp = rng.weighted([("-", 2), ("i%d" % rng.choice([8080, 8443, 9090]), 4), ("sweb", 2), ("smissing", 1)])
        ports.append("%s>%d>%s>TCP" % (pname, pool[i], tp))
    sel = "app=a"
    ext = "-"
    if rng.chance(1, 12):
        ext = "ext.example.com"
    svc = "svc|d|%s|%s|%s" % (ext, sel, "&".join(ports))
    tps = []
    for p in ports:
        f = p.split(">")
        tps.append(int(f[1]) if f[2] == "-" else int(f[2][1:]) if f[2].startswith("i") else 7070)
    slices = []
    for _ in range(rng.below(5) if ext == "-" else rng.below(2)):
        owner, ons = rng.weighted([(("svc", "d"), 6), (("other", "d"), 1), (("svc", "e"), 1)])
        sp = []
        for _ in range(1 + rng.below(2)):
            sp.append(rng.weighted([(str(rng.choice(tps)), 6), (str(rng.choice([1234, 8080])), 2), ("nil", 1)]))
        eps = []
        for _ in range(rng.below(5)):
            addrs = [rng.choice(ADDRS)]
            if rng.chance(1, 6):
                addrs.append(rng.choice(ADDRS))
            eps.append("%s!%s" % (",".join(addrs), rng.weighted([("t", 5), ("f", 2), ("n", 1)])))
        if not eps:
            eps = ["%s!t" % rng.choice(ADDRS)]
        slices.append("%s>%s>%s>%s" % (owner, ons, "+".join(sp), "+".join(eps)))
    pods = []
    sidecar = rng.chance(1, 3)
    for i in range(rng.below(4)):
        labels = "app=a" + (",v=1" if rng.chance(1, 2) else ",v=2")
        if rng.chance(1, 6):
            labels = "app=b"
        # one pod set in three has a sidecar container that reuses the port names under the other protocol, listed first (seed C14-6)
        cports = "web/UDP/5353+adm/TCP/5354~web/TCP/7070+adm/UDP/7071" if sidecar else "web/TCP/7070+adm/UDP/7071"
        pods.append("p%d>%s>%s>%s" % (i, ADDRS[i % len(ADDRS)], labels, cports))
    # backend reference
    f0 = ports[rng.below(len(ports))].split(">")
    r = rng.below(10)
    if sub:
        bname, bnum = "_", int(f0[1]) if r < 8 else 81
    elif r < 5:
        bname, bnum = "_", int(f0[1])
    elif r < 7 and f0[0] != "_":
        bname, bnum = f0[0], 0
    elif r < 8:
        bname, bnum = "nosuch", 0
    else:
        bname, bnum = "_", rng.choice([81, 8081])      # a number no service port has
    line = "eps plus=%d bname=%s bnum=%d sub=%d subsel=%s svc=%s slices=%s pods=%s" % (
        rng.below(2), bname, bnum, 1 if sub else 0, "v=1" if sub and rng.chance(2, 3) else "_", svc, "&".join(slices) or "_", "&".join(pods) or "_")
    return line


def running_cases(rng, tier):
    """The servers NGINX is *running* with (last written file, overridden by NGINX Plus API pushes) after endpoint changes, through
    the real controller over the recording Manager: after every burst the harness regenerates every served resource from the stores
    with a fresh Configurator and reports the upstreams whose running server list differs (`END|u:<upstream>`)."""
    cases = []
    seqs = ["+e1.0/s1/a+b;-e1.0;+e1.0/s1/c", "+e1.0/s1/a;+e1.0/s1/_;+e1.0/s1/b", "+e1.0/s1/a+b;+e1.1/s1/c;-e1.0;-e1.1", "+e1.0/s1/a;+e1.0/s1/a+c;+e1.0/s1/c",
            # the Service's targetPort is edited in place: Kubernetes rewrites the slice's port, the endpoints stay as they are
            "+e1.0/s1/a+b;+s1/0/tp=9090&+e1.0/s1/a+b/port=9090", "+e1.0/s1/a+b;+s1/0/tp=9090;+e1.0/s1/a+b/port=9090",
            "+e1.0/s1/a+b;+e1.0/s1/a+b/port=9090;+s1/0/tp=9090", "+e1.0/s1/a+b;+s1/0/tp=9090&+e1.0/s1/a+b/port=9090;+s1/0&+e1.0/s1/a+b"]
    for plus in (0, 1):
        for res in ("+v1/s1/0", "+i1/s1/0", "+t1/s1/0", "+v1/s1/0&+i1/s1/0"):
            for sq in seqs:
                cases.append(dict(line="lbc plus=%d dssl=1 rf=_ af=_ bursts=+s1/0&%s;%s" % (plus, res, sq), tags=["running-upstream", "plus" if plus else "oss"], nontrivial=True))
    return cases


RES_STATES = ["r1", "r2", "r3", "n", "e", "m", "x"]


def gen_resource_case(rng, kind=None):
    """One resource with several backends / upstreams over a small cluster in which some Services are missing (with a stale slice
    left behind), have no slices, nothing ready, or are ExternalName: through the real createIngressEx / createVirtualServerEx /
    createTransportServerEx. Every backend must get the ready endpoints of ITS Service and port, whatever its neighbours are."""
    kind = kind or rng.choice(["ing", "ing", "vs", "vsr", "ts"])
    nsvc = 2 + rng.below(3)
    states = [rng.choice(RES_STATES) for _ in range(nsvc)]
    if not any(s.startswith("r") for s in states):
        states[rng.below(nsvc)] = "r2"
    cip = 1 if (kind == "ing" and rng.chance(1, 5)) else 0
    if cip:
        states = [("e" if s == "x" else s) for s in states]
    names = ["s%d" % i for i in range(nsvc)]
    bes = []
    for n in range(2 + rng.below(4)):
        b = rng.choice(names)
        if kind == "ing":
            if n == 0 and rng.chance(1, 2):
                b = "D:" + b
        elif rng.chance(1, 4):
            ext = [names[i] for i, s in enumerate(states) if s == "x"]
            b = b + "+" + (rng.choice(ext) if ext and rng.chance(2, 3) else rng.choice(names))
        bes.append(b)
    return "reseps plus=%d kind=%s cip=%d svcs=%s be=%s" % (rng.below(2), kind, cip, "&".join("%s:%s" % (n, s) for n, s in zip(names, states)), ",".join(bes))


def spec_resource(kv):
    """The property from its words: per backend, the ready endpoints of the referenced Service's port; nothing if the Service is
    gone or has nothing ready; the external name under NGINX Plus; the cluster IP under use-cluster-ip."""
    states = dict(x.split(":") for x in kv["svcs"].split("&"))
    out = []
    for b in kv["be"].split(","):
        b = b[2:] if b.startswith("D:") else b
        for name in (b.split("+") if kv["kind"] != "ing" else [b]):
            st, i = states[name], int(name[1:])
            if st == "m":
                out.append([])
            elif kv["cip"] == "1" and kv["kind"] == "ing" and st != "x":
                out.append(["10.96.0.%d:80" % (i + 1)])
            elif st == "x":
                out.append(["ext%d.example.com:80" % i] if kv["plus"] == "1" else [])
            elif st.startswith("r"):
                out.append(sorted("10.%d.0.%d:8080" % (i + 1, j + 1) for j in range(int(st[1:]))))
            else:
                out.append([])
    return ";".join("b%d=%s" % (n, ",".join(l)) for n, l in enumerate(out))


def gen(rng, tier):
    n = 1000 if tier == "quick" else 20000
    cases = [dict(line=gen_case(rng), tags=["backend"], nontrivial=True) for _ in range(n)]
    cases += [dict(line=gen_case(rng, sub=True), tags=["subselector"], nontrivial=True) for _ in range(n // 4)]
    cases += [dict(line=gen_resource_case(rng), tags=["resource"], nontrivial=True) for _ in range(n // 2)]
    return cases + running_cases(rng, tier)


def corpus():
    import os
    d = os.path.join(vlib.VERIF, "corpus", PROP)
    out = []
    if os.path.isdir(d):
        for f in sorted(os.listdir(d)):
            for l in open(os.path.join(d, f)):
                l = l.strip()
                if l and not l.startswith("#"):
                    out.append(dict(line=l, tags=["corpus"], nontrivial=True))
    return out


def load_replay(obj):
    return [dict(line=obj["case"]["line"], tags=["replay"], nontrivial=True)]


def spec_servers(kv):
    """The property evaluated from scratch: (ok, sorted list) | (err, class) | None if the named-port lookup is involved and undecidable here."""
    sp = spec_eval(kv)
    if kv["svc"].split("|")[2] != "-" and kv.get("sub") != "1":
        own = [s for s in ([] if kv["slices"] == "_" else kv["slices"].split("&")) if s.split(">")[0] == "svc" and s.split(">")[1] == "d"]
        if not own:
            return None
    if sp is None:
        return ("err", "noPort")
    if sp["tp"] == "-":
        tp = sp["port"]
    elif sp["tp"].startswith("i"):
        tp = int(sp["tp"][1:])
    else:
        return None      # named target port: needs the pod lookup, left to the model correspondence
    servers = set()
    own_slices = 0
    for s in ([] if kv["slices"] == "_" else kv["slices"].split("&")):
        f = s.split(">")
        if f[0] != "svc" or f[1] != "d":
            continue
        own_slices += 1
        if str(tp) not in f[2].split("+"):
            continue
        for e in f[3].split("+"):
            a, r = e.split("!")
            if r != "t":
                continue
            for addr in a.split(","):
                servers.add(("[%s]:%d" % (addr, tp)) if ":" in addr else "%s:%d" % (addr, tp))
    if kv.get("sub") == "1":
        if own_slices == 0:
            return ("err", "noSlices")
        pods = [] if kv["pods"] == "_" else kv["pods"].split("&")
        want = dict(x.split("=") for x in ("app=a" + ("," + kv["subsel"] if kv["subsel"] != "_" else "")).split(","))
        ips = set()
        for p in pods:
            f = p.split(">")
            lab = dict(x.split("=") for x in f[2].split(","))
            if all(lab.get(k) == v for k, v in want.items()):
                ips.add(f[1])
        servers = set(s for s in servers if any(s == (("[%s]:%d" % (ip, tp)) if ":" in ip else "%s:%d" % (ip, tp)) for ip in ips))
        return ("ok", sorted(servers))
    if own_slices == 0:
        return ("err", "noSlices")
    if not servers:
        return ("err", "noSlices")
    return ("ok", sorted(servers))


def judge(case, impl, model, spec):
    if case["line"].startswith("lbc "):
        if impl is None or "END|" not in impl:
            return dict(corr="harness: %r" % (impl or "")[:200])
        stale = [x for seg in impl.split(",") if seg.startswith("END|") for x in seg[4:].split("+") if x.startswith("u:")]
        if stale:
            return dict(spec="after an endpoint change the written server list differs from the ready endpoints for " + ",".join(sorted(set(stale))))
        # what NGINX runs with: the files as of the last successful reload, overridden by successful NGINX Plus API pushes
        written, running = {}, {}
        for seg in impl.split(","):
            f = seg.split("|")
            if f[0] == "S" and f[1].startswith("u:"):
                written[f[1]] = f[2] if len(f) > 2 else ""
            elif f[0] == "X" and f[1].startswith("u:"):
                written.pop(f[1], None)
            elif f[0] == "R" and f[1] == "ok":
                running = dict(written)
            elif f[0] == "A" and f[-1] == "ok":
                running[f[1]] = f[2]
            elif f[0] == "END":
                bad = sorted(u for u in written if running.get(u) != written[u])
                if bad:
                    return dict(spec="NGINX keeps running with servers [%s] for %s while the ready endpoints are [%s]" % (running.get(bad[0]), bad[0], written[bad[0]]))
        return dict(nontrivial=True)
    if impl is None or model is None:
        return dict(corr="missing output impl=%r model=%r" % (impl, model))
    kv = dict(x.split("=", 1) for x in case["line"].split()[1:])
    if case["line"].startswith("reseps "):
        want = spec_resource(kv)
        if impl != want:
            bad = [a for a, b in zip(impl.split(";"), want.split(";")) if a != b]
            return dict(spec="a backend of the resource is not given the ready endpoints of its own Service: real %s, property %s (first difference %s)" % (impl, want, bad[:1]))
        if impl != model:
            return dict(corr="impl=%r model=%r" % (impl, model))
        return {}
    want = spec_servers(kv)
    r = {}
    if want is not None:
        got = impl.split(" ", 1)
        g = (got[0], sorted(x for x in (got[1].split(",") if len(got) > 1 and got[1] else [])) if got[0] == "ok" else (got[1] if len(got) > 1 else ""))
        # which error is reported first is not part of the property: an error is an error
        if (want[0] == "err" and g[0] != "err") or (want[0] == "ok" and g != (want[0], want[1])):
            r["spec"] = "real servers/error %s differ from the property's evaluation %s" % (g, want)
            return r
    if impl != model:
        r["corr"] = "impl=%r model=%r" % (impl, model)
    return r


def sig_tp_edit(case, issue):
    """S-C14-b: a Service targetPort edit delivered in a burst of its own (not together with the EndpointSlice rewrite) is ignored by the
    Service handler; the staleness that follows is this finding."""
    import re
    if "written server list differs from the ready endpoints" not in issue and "keeps running with servers" not in issue:
        return False
    bursts = case.get("line", "").split("bursts=")[-1].split(";")
    return any(re.fullmatch(r"\+s\d+/\d+/tp=\d+", b) for b in bursts)


def sig_unnamed_port(case, issue):
    """S-C14-a: numeric reference to a number the single unnamed service port does not have is wired to that port."""
    return False


SIGNATURES = {"service-targetport-edit-not-synced": sig_tp_edit}
