"""C16 — the controller acts only on resources of its own class."""
import sys
import vlib
from props import arbgen, arbprop, C05

PROP = "C16"
PROPS_FILES = ["Nic/Props/C16.lean", "Nic/Props/TieClass.lean"]
# Go functions translated from /repo on every run (tools/gofn) and proved equal to the model in the Tie file above
TIE_FUNCS = ['internal/k8s/controller.go:LoadBalancerController.HasCorrectIngressClass']
HARNESS = "vh-k8s"
RULE = ("Policies through the real controller (informer handlers, sync, Configurator on a temporary root): a Policy used by served VirtualServers "
        "changes only its class to another controller's, alone, inside a burst, and back; every served resource's files must equal a fresh generation. " +
        "(a) class predicate: exhaustive over kind {Ingress, VirtualServer, VirtualServerRoute, TransportServer, Policy, other} x annotation "
        "{absent, empty, ours, foreign} x field {absent, empty, ours, foreign}, real HasCorrectIngressClass vs the Lean decision table. "
        "(b) non-interference: histories in which classes are set, unset and flipped (annotation and field) are run on the real Configuration "
        "together with their projection (every foreign-class event replaced by a delete of that key); changes, problems, GetResources and the "
        "events produced by the real reporting functions must be identical op by op, in particular a foreign-class event produces no event "
        "for its object. Non-trivial: the history contains a foreign-class event for an object that was stored before (class changed away).")
TRUSTED = ["status writes are not exercised (events only); Policy class handling is covered by the predicate table here and by C08's getPolicies model"]
ASSUMPTIONS = ["distinct live objects have distinct UIDs"]
LEVEL_TEXT = ("Lean 4 theorems: the class decision table (annotation precedence for Ingress, empty class accepted for custom resources only); a "
              "foreign-class event is processed exactly like a delete of the key (same state, same changes, same problems) in every settled "
              "state, hence a history and its projection without foreign-class events are indistinguishable (non_interference); a foreign-class "
              "object is never stored, so it never claims a host, listener or path; when a served resource's class changes away its hosts pass "
              "to the next claimant in the same batch (consequence of C01's rebuild invariant)."
              ' Source tie: LoadBalancerController.HasCorrectIngressClass is translated from /repo on every run (type switch -> match) and proved equal to the decision table kind by kind (Props/TieClass.lean).')
LEVEL_NOTE = "Assurance = weaker of (theorems about the model, paired-run oracle on the real Configuration + reporting functions, correspondence)."
TECHNIQUE = "Lean 4 proof (decision table; foreign event = delete, by quiescence) + paired-history oracle and model/implementation correspondence"

KINDS = {"ing": (7,), "vs": (6,), "vsr": (6,), "ts": (6,)}


def is_foreign(o):
    f = o.split("|")
    if f[0] == "ing":
        return f[7] not in ("1", "a")
    if f[0] in ("vs", "vsr", "ts"):
        return f[6] not in ("1", "n")
    return False


def project(line_):
    kv, ops = arbgen.parse_line(line_)
    out = []
    for o in ops:
        if is_foreign(o):
            f = o.split("|")
            out.append("del|%s|%s/%s" % (f[0], f[1], f[2]))
        else:
            out.append(o)
    return arbgen.with_ops(line_, out)


def sections(o):
    d = {}
    for sec in o.split("#"):
        if "=" in sec:
            k, v = sec.split("=", 1)
            d[k] = v
    return d


def sig_class_away_warnings(case, issue):
    """S-C16-a: the Delete change of a resource whose class changed away carries the warnings of the
    previous build, so exactly one extra Rejected event (no validation error) is sent to that very object."""
    import re
    m = re.match(r"op#\d+ \(([^)]*)\): events differ between the history \[(.*)\] and its projection without foreign-class events \[(.*)\]$", issue)
    if not m:
        return False
    f = m.group(1).split("|")
    kinds = {"ing": "Ingress", "vs": "VirtualServer", "vsr": "VirtualServerRoute", "ts": "TransportServer"}
    if f[0] not in kinds or not is_foreign(m.group(1)):
        return False
    key = "%s/%s/%s" % (kinds[f[0]], f[1], f[2])
    base = [e for e in m.group(2).split(",") if e]
    proj = [e for e in m.group(3).split(",") if e]
    extra = list(base)
    for e in proj:
        if e in extra:
            extra.remove(e)
        else:
            return False
    if len(extra) != 1:
        return False
    e = extra[0].split("~")
    if e[0] != key or e[1] != "Warning" or "validation-error" in e[3]:
        return False
    if " fail=1 " in case.get("line", ""):
        # the same finding while the apply fails: the event becomes RejectedWithError and the error text is appended to the stale
        # warnings; an event that carries ONLY the error (no stale warning) is not this finding
        stale = [c for c in e[3].split("+") if c and not c.startswith("other:but_was_not_applied")]
        return e[2] in ("Rejected", "RejectedWithError") and bool(stale)
    return e[2] == "Rejected" and e[3] != ""


SIGNATURES = {"class-away-delete-carries-old-warnings": sig_class_away_warnings}


def gen_class_flip(rng):
    """Contended hosts, then the class of stored resources is flipped away (and sometimes back)."""
    w = arbgen.World(rng)
    ops = []
    objs = []
    for _ in range(2 + rng.below(3)):
        k = rng.choice(["ing", "ing", "vs", "ts"])
        ns, name = rng.choice(arbgen.NSS), rng.choice(arbgen.NAMES)
        if k == "ing":
            o = w.ident("ing", ns, name)
            hs = rng.shuffle(["a.ex", "b.ex"])[: 1 + rng.below(2)]
            body = "ing|%s|%s|%s|%d|%d|_|%%s|1|r|0|%s" % (ns, name, o["uid"], o["ts"], o["gen"], "&".join(h + ">/x" for h in hs))
            objs.append((body, ["1", "a"], ["0", "n", "b"]))
        elif k == "vs":
            o = w.ident("vs", ns, name)
            body = "vs|%s|%s|%s|%d|%d|%%s|1|%s|/r>%s|%s" % (ns, name, o["uid"], o["ts"], o["gen"], rng.choice(["a.ex", "b.ex"]),
                                                         rng.choice(["_", "r1"]), rng.choice(["-|-", "h1|s1"]))
            objs.append((body, ["1", "n"], ["0"]))
        else:
            o = w.ident("ts", ns, name)
            body = "ts|%s|%s|%s|%d|%d|%%s|1|tls-passthrough|TLS_PASSTHROUGH|%s" % (ns, name, o["uid"], o["ts"], o["gen"], rng.choice(["a.ex", "b.ex"]))
            objs.append((body, ["1", "n"], ["0"]))
    for body, ours, foreign in objs:
        ops.append(body % rng.choice(ours))
    for _ in range(1 + rng.below(3)):
        body, ours, foreign = rng.choice(objs)
        ops.append(body % rng.choice(foreign))
        if rng.chance(1, 3):
            ops.append(body % rng.choice(ours))
    return arbgen.line(True, False, ops)


LBC_BASE = ("+s1/0&+s2/0&+e1.0/s1/a&+e1.1/s1/b&+e2.0/s2/a&+k1/htpasswd/0&+k2/jwk/0&+k3/apikey/0&+k4/ca/0&+k5/tls/0&+p1/basic/k1/0&+p2/jwt/k2/0&"
            "+p3/apikey/k3/0&+p4/rl/_/0&+p5/emtls/k4/0&+p6/imtls/k4/0&+v1/s1/0/pol=p6/tls=k5&+v2/s1/0/rpol=%s&+i1/s2/0/basic=k1&+i2/s1/0&+t1/s2/0")
LBC_POLS = {"p1": "+p1/basic/k1/0", "p3": "+p3/apikey/k3/0", "p4": "+p4/rl/_/0", "p5": "+p5/emtls/k4/0", "p6": "+p6/imtls/k4/0"}


def gen_policy_class_away(rng, tier):
    """A Policy that served VirtualServers use goes to another controller's class (only its class changes), alone or in the middle of a
    burst of unrelated events, and sometimes comes back: through the real informer handlers and the real sync. A foreign Policy never
    contributes configuration — the files of every served resource must equal a fresh generation from the current stores (seed C16-6)."""
    out = []
    for plus in (0, 1):
        for rpol in ("p1", "p3", "p4", "p5"):
            b = LBC_BASE % rpol
            for pol, spec in sorted(LBC_POLS.items()):
                ch = spec + "/cls=other"
                seqs = [[ch], [ch, spec], ["+e3.0/s3/a&%s&+e3.1/s3/b" % ch], [ch, "+e1.0/s1/a+c"]]
                for sq in seqs:
                    if tier == "quick" and rng.chance(1, 2):
                        continue
                    out.append("lbc plus=%d dssl=1 rf=_ af=_ bursts=%s;%s" % (plus, b, ";".join(sq)))
    return out


def gen(rng, tier):
    cases = []
    for l in gen_policy_class_away(rng, tier):
        cases.append(dict(line=l, tags=["policy-class-away"]))
    for i in range(200 if tier == "quick" else 2000):
        cases.append(dict(line=gen_class_flip(rng), tags=["class-flip"]))
        if i % 3 == 0:
            # the same kind of history while every apply fails (the NGINX reload returns an error): whatever is reported about the
            # controller's own resources, a resource that went to another class must still not be touched
            cases.append(dict(line=gen_class_flip(rng).replace(" ops=", " fail=1 ops="), tags=["class-flip-apply-fails"]))
    for kind in ("ing", "vs", "vsr", "ts", "pol", "other"):
        for ann in ("-", "_", "nginx", "other"):
            for field in ("-", "_", "nginx", "other"):
                cases.append(dict(line="cls kind=%s ann=%s field=%s" % (kind, ann, field), tags=["class-table"]))
    for arg in ("1", "0", "n"):
        for stored in ("1", "0", "n", "-"):
            cases.append(dict(line="polst arg=%s stored=%s" % (arg, stored), tags=["policy-status-write"]))
    n = 300 if tier == "quick" else 3000
    for _ in range(n):
        cases.append(dict(line=arbgen.gen_history(rng, maxops=12 if tier == "quick" else 25), tags=["history"]))
    for _ in range(n // 3):
        cases.append(dict(line=C05.gen_shared_names(rng).replace("|1|1|", "|1|1|"), tags=["shared-names"]))
    return cases


def corpus():
    return [dict(line=l, tags=["corpus"]) for l in arbgen.corpus_lines("arb") + arbgen.corpus_lines(PROP)]


def load_replay(obj):
    return [dict(line=obj["case"]["line"], tags=["replay"])]


def compare_pair(line_, base, proj):
    """-> issue or None"""
    kv, ops = arbgen.parse_line(line_)
    bo, po = base.split(";;"), proj.split(";;")
    if len(bo) != len(po):
        return "op count differs between history and projection"
    for i, (b, p) in enumerate(zip(bo, po)):
        sb, sp = sections(b), sections(p)
        for sec, what in (("C", "changes"), ("P", "problems"), ("R", "resources"), ("EV", "events")):
            if sb.get(sec, "") != sp.get(sec, ""):
                return "op#%d (%s): %s differ between the history [%s] and its projection without foreign-class events [%s]" % (
                    i, ops[i], what, sb.get(sec, ""), sp.get(sec, ""))
    return None


def run_cases(cases, bins, res, tier, broken):
    binpath = bins.get(HARNESS)
    if not binpath:
        return
    # class table through the generic path
    table = [c for c in cases if c["line"].startswith("cls ") or c["line"].startswith("polst ")]
    hist = [c for c in cases if c["line"].startswith("arb ")]
    outs, rc, err = arbprop.eval_lines(binpath, [c["line"] for c in table])
    for c, (impl, model, spec) in zip(table, outs):
        res["evaluations"] += 1
        res["validated"] += 1
        tg = c["tags"][0]
        res["dist"][tg] = res["dist"].get(tg, 0) + 1
        res["nontrivial"].add(vlib.sha(c["line"]))
        if impl != model:
            # the Lean table is the Spec here (it is the property's own decision table)
            res["spec_bad"].append((dict(line=c["line"], impl=impl, spec=model), "class decision: real=%s decision table=%s for %s" % (impl, model, c["line"])))
    # Policies through the real controller: the generated files against a fresh generation from the current stores
    lbc = [c for c in cases if c["line"].startswith("lbc ")]
    if lbc:
        ls = ["lbc %d %s" % (i, c["line"].split(" ", 1)[1]) for i, c in enumerate(lbc)]
        impl, _ = vlib.run_harness(binpath, ls, parallel=8)
        dl = ["lbc %d %s trace=%s" % (i, c["line"].split(" ", 1)[1], impl.get(str(i))) for i, c in enumerate(lbc)
              if impl.get(str(i)) and not impl.get(str(i)).startswith(("CRASH", "setup", "PANIC"))]
        _, spec, _ = vlib.run_driver(dl)
        for i, c in enumerate(lbc):
            res["evaluations"] += 1
            for t in c.get("tags", []):
                res["dist"][t] = res["dist"].get(t, 0) + 1
            im, sp = impl.get(str(i)), spec.get(str(i))
            if im is None or sp is None:
                res["corr_bad"].append((dict(line=c["line"]), "harness: %s" % (im or "no output")[:200]))
                continue
            res["validated"] += 1
            if "S|" in im:
                res["nontrivial"].add(vlib.sha(c["line"]))
            stale = [x for x in sp.split(";") if ":stale:" in x]
            if stale:
                res["spec_bad"].append((dict(line=c["line"], impl=im[:2000]), "a Policy that went to another class still contributes configuration: " + stale[0]))
    lines = [c["line"] for c in hist]
    plines = [project(l) for l in lines]
    outs, rc, err = arbprop.eval_lines(binpath, lines)
    pouts, _, _ = arbprop.eval_lines(binpath, plines)
    for c, (impl, model, spec), (pimpl, _, _) in zip(hist, outs, pouts):
        res["evaluations"] += 1
        res["validated"] += 1
        for t in c.get("tags", []):
            res["dist"][t] = res["dist"].get(t, 0) + 1
        if impl is None or pimpl is None or model is None:
            res["corr_bad"].append((dict(line=c["line"]), "missing output"))
            continue
        _, ops = arbgen.parse_line(c["line"])
        seen = set()
        away = False
        for o in ops:
            f = o.split("|")
            if f[0] in KINDS:
                k = (f[0], f[1], f[2])
                if is_foreign(o):
                    if k in seen:
                        away = True
                    seen.discard(k)
                else:
                    seen.add(k)
            elif f[0] == "del":
                seen.discard((f[1],) + tuple(f[2].split("/")))
        if away:
            res["nontrivial"].add(vlib.sha(c["line"]))
            res["dist"]["class-changed-away"] = res["dist"].get("class-changed-away", 0) + 1
            if len(res["samples"]) < 4:
                res["samples"].append(dict(history=c["line"], projection=project(c["line"])))
        issue = compare_pair(c["line"], impl, pimpl)
        if issue:
            res["spec_bad"].append((dict(line=c["line"]), issue))
        elif impl != model and " fail=1 " not in c["line"]:      # the model knows no apply faults: those lines are judged by the pair only
            res["corr_bad"].append((dict(line=c["line"]), arbprop.first_diff(impl, model)))


def shrink(case, issue, bins):
    binpath = bins.get(HARNESS)
    line_ = case.get("line", "")
    if not binpath or not line_.startswith("arb "):
        return case
    cls_ = "events" if "events differ" in issue else "other"

    def still(l):
        (a, _, _), = arbprop.eval_lines(binpath, [l], parallel=1)[0]
        (b, _, _), = arbprop.eval_lines(binpath, [project(l)], parallel=1)[0]
        if a is None or b is None:
            return False
        i2 = compare_pair(l, a, b)
        return bool(i2) and (("events differ" in i2) == (cls_ == "events"))
    try:
        small = arbgen.shrink_ops(line_, still)
        (a, _, _), = arbprop.eval_lines(binpath, [small], parallel=1)[0]
        (b, _, _), = arbprop.eval_lines(binpath, [project(small)], parallel=1)[0]
        return dict(line=small, projection=project(small), issue=compare_pair(small, a, b))
    except Exception as e:  # noqa
        return dict(case, shrink_error=repr(e))
