"""C12 — no change left unapplied; no reload while reloads are held back."""
import re
import vlib
from props import lbcgen

PROP = "C12"
PROPS_FILES = ["Nic/Props/C12.lean"]
HARNESSES = ["vh-configs", "vh-k8s"]
BIN_OF_KIND = {"rel": "vh-configs", "lbc": "vh-k8s"}
PARALLEL = 8
RULE = ("(rel) sequences of 3..12 real Configurator operations — AddOrUpdate{Ingress,MergeableIngress,VirtualServer,VirtualServers,TransportServer,"
        "Resources}, Delete* with and without skipReload, UpdateEndpoints{,MergeableIngress,ForVirtualServers,ForTransportServers}, UpdateConfig, "
        "Update{VirtualServers,TransportServers}, BatchDelete*, ReloadForBatchUpdates, Enable/DisableReloads — on NGINX and NGINX Plus, with and "
        "without dynamic weight changes, over a recording nginx.Manager (real templates; every write is abstracted to a static hash plus the server "
        "list of each upstream), with Reload and Plus-API failures injected at random call indices. (lbc) task sequences through the real "
        "LoadBalancerController.sync with a real work queue pre-loaded to choose batch boundaries — see the harness. The Spec (Lean, "
        "Nic/Spec/Reload.lean) replays the recorded trace over NGINX's view (loaded items vs items on disk) and demands: no reload or API push "
        "while held back; a failed reload is returned; after a successful operation with reloads enabled every item the operation touched is what "
        "NGINX runs. Non-trivial: a case in which some write changed a file while reloads were enabled.")
TRUSTED = ["recording nginx.Manager (harness, verif tag) in place of LocalManager: its abstraction of a file into static part + upstream server lists "
           "defines what 'the same change through the API' means",
           "the harness's fixtures decide which files an operation writes; the model takes the 'changed' bit of each write from the recorded trace"]
ASSUMPTIONS = ["an endpoints operation is only issued for resources already configured with the same spec (the controller's contract)",
               "queue length at dequeue time is chosen by the harness (pre-loaded queue); informer timing is not modelled"]
LEVEL_TEXT = ("Lean 4 theorems over the model of every Configurator operation (write*, then reload / API push / neither) for all resource lists, upstream "
              "counts and fault placements: no_change_left_unapplied (enabled ∧ success → every changed write is followed by a successful reload or by "
              "successful pushes of all upstreams of that resource), reload_failure_returned, held_no_reload_partial (gate-respecting operations are "
              "quiet while held; the exception is proved as held_reload_by_weight_updates = finding S-C12-a), resources_unchanged_quiet; and over the "
              "controller's start-up / batch machine for batches of any length: startup_held, single_task_open, batch_no_reload_inside_and_drain (exactly "
              "one reload decision, after the last handler, = flagged), drain_reloads_if_changed; the 'only if' half is refuted by drain_reload_without_change "
              "(finding S-C12-b)."
              ' Gate theorems: gate_not_closed_by_operation, gate_opened_only_by_enable_or_weights.')
LEVEL_NOTE = "Assurance = weaker of (theorems about the model, correspondence of the model's reload/API/return decisions with the real code's trace, Spec replay of the real trace)."
TECHNIQUE = "Lean 4 proof (trace theorems for all operation/fault sequences, batch-machine invariant) + model/implementation correspondence on recorded Manager-boundary traces"

ING, MRG, VS, WVS, TS, PTS = ["i1", "i2"], ["m1"], ["v1", "v2"], ["w1"], ["t1", "t2"], ["p1"]
EPS = ["a", "b", "a+b", "_", "c"]


def files_of(rid):
    if rid == "main":
        return ["main"]
    if rid[0] in "im":
        return ["conf/d-" + rid]
    if rid[0] in "vw":
        return ["conf/vs_d_" + rid]
    return ["stream/ts_d_" + rid] + (["pt"] if rid[0] == "p" else [])


def res_ids(op):
    f = op.split("|")
    k = f[0]
    ids = lambda s: [] if s in ("_", "") else s.split("+")
    if k in ("ai", "am", "av", "at", "di", "dv", "dt"):
        return [f[1]]
    if k in ("avs", "ei", "em", "ev", "et", "ar", "bv", "bi"):
        return ids(f[1])
    if k == "uc":
        return ["main"] + ids(f[1])
    if k in ("uv", "ut"):
        return ids(f[1]) + ids(f[2])
    if k in ("sec", "dsec"):
        return ["secret:" + f[1]]
    return []


def gen_seq(rng, plus, dw):
    have = {}       # id -> ver
    ops = []
    enabled = False
    if rng.chance(5, 6):
        ops.append("en")
        enabled = True
    n = 3 + rng.below(10)
    allids = ING + MRG + VS + (WVS if dw else []) + TS + PTS
    for _ in range(n):
        kind = rng.weighted([("add", 6), ("ep", 6 if have else 0), ("ar", 3), ("del", 2 if have else 0), ("uc", 1), ("multi", 2), ("gate", 2), ("br", 1)])
        eps = rng.choice(EPS)
        if kind == "add":
            rid = rng.choice(allids)
            ver = rng.below(2)
            have[rid] = ver
            op = {"i": "ai", "m": "am", "v": "av", "w": "av", "t": "at", "p": "at"}[rid[0]]
            if rid[0] in "vw" and rng.chance(1, 4):
                ops.append("avs|%s|%s|%d" % (rid, eps, ver))
            else:
                ops.append("%s|%s|%s|%d" % (op, rid, eps, ver))
        elif kind == "ep":
            grp = rng.choice([g for g in ("i", "m", "vw", "tp") if any(r[0] in g for r in have)])
            ids = [r for r in sorted(have) if r[0] in grp]
            ids = rng.shuffle(ids)[: 1 + rng.below(len(ids))]
            vers = set(have[r] for r in ids)
            if len(vers) > 1:   # one ver per op in the harness: keep the ids that share it
                v0 = have[ids[0]]
                ids = [r for r in ids if have[r] == v0]
            ops.append("%s|%s|%s|%d" % ({"i": "ei", "m": "em", "vw": "ev", "tp": "et"}[grp], "+".join(ids), eps, have[ids[0]]))
        elif kind == "ar":
            ids = rng.shuffle(allids)[: 1 + rng.below(3)]
            ver = rng.below(2)
            for r in ids:
                have[r] = ver
            ops.append("ar|%s|%s|%d|%d" % ("+".join(ids), eps, ver, rng.below(2)))
        elif kind == "del":
            rid = rng.choice(sorted(have))
            del have[rid]
            if rid[0] in "im":
                ops.append("di|%s|0" % rid)
            elif rid[0] in "vw":
                ops.append("dv|%s|0" % rid)
            else:
                ops.append("dt|%s" % rid)
        elif kind == "uc":
            ids = [r for r in sorted(have)][:3]
            vers = set(have[r] for r in ids)
            ids = [r for r in ids if have[r] == (have[ids[0]] if ids else 0)]
            ops.append("uc|%s|%s|%d|%s" % ("+".join(ids) or "_", eps, have[ids[0]] if ids else 0, rng.choice(["1024", "2048"])))
        elif kind == "multi":
            which = rng.choice(["uv", "ut", "bv", "bi"])
            if which == "uv":
                upd = rng.shuffle(VS)[: rng.below(3)]
                dele = [r for r in VS if r not in upd and r in have][: rng.below(2)]
                ver = rng.below(2)
                for r in upd:
                    have[r] = ver
                for r in dele:
                    have.pop(r, None)
                ops.append("uv|%s|%s|%s|%d" % ("+".join(upd) or "_", "+".join(dele) or "_", eps, ver))
            elif which == "ut":
                upd = rng.shuffle(TS + PTS)[: rng.below(3)]
                dele = [r for r in TS + PTS if r not in upd and r in have][: rng.below(2)]
                ver = rng.below(2)
                for r in upd:
                    have[r] = ver
                for r in dele:
                    have.pop(r, None)
                ops.append("ut|%s|%s|%s|%d" % ("+".join(upd) or "_", "+".join(dele) or "_", eps, ver))
            elif which == "bv":
                dele = [r for r in VS + WVS if r in have] or ["v1"]
                for r in dele:
                    have.pop(r, None)
                ops.append("bv|" + "+".join(dele))
            else:
                dele = [r for r in ING + MRG if r in have] or ["i1"]
                for r in dele:
                    have.pop(r, None)
                ops.append("bi|" + "+".join(dele))
        elif kind == "gate":
            if enabled:
                ops.append("dis")
            else:
                ops.append("en")
                if rng.chance(2, 3):
                    ops.append("br|%d" % rng.below(2))
            enabled = not enabled
        else:
            ops.append("br|%d" % rng.below(2))
    return ops


def gen(rng, tier):
    cases = []
    n = 400 if tier == "quick" else 4000
    for _ in range(n):
        plus = rng.below(2)
        dw = 1 if rng.chance(1, 4) else 0
        ops = gen_seq(rng, plus, dw)
        nops = len(ops)
        rf = sorted(set(1 + rng.below(nops) for _ in range(rng.below(3)))) if rng.chance(1, 2) else []
        af = sorted(set(1 + rng.below(2 * nops) for _ in range(1 + rng.below(3)))) if plus and rng.chance(2, 3) else []
        cases.append(dict(line="rel plus=%d dw=%d dssl=1 rf=%s af=%s ops=%s" % (plus, dw, "+".join(map(str, rf)) or "_", "+".join(map(str, af)) or "_", ";".join(ops)),
                          tags=["rel", "plus" if plus else "oss"] + (["reload-faults"] if rf else []) + (["api-faults"] if af else [])))
    # endpoints pushes for several resources with an API failure at each position (NGINX Plus)
    for k in range(1, 5):
        for eps in ("b", "_"):
            cases.append(dict(line="rel plus=1 dw=0 dssl=1 rf=_ af=%d ops=en;av|v1|a|0;av|v2|a|0;ai|i1|a|0;ai|i2|a|0;ev|v1+v2|%s|0;ei|i1+i2|%s|0" % (k, eps, eps),
                              tags=["rel", "plus", "api-fault-position"]))
    m = 150 if tier == "quick" else 1500
    for i in range(m):
        plus = rng.below(2)
        cases.append(dict(line=lbcgen.gen_case(rng, plus, 2 + rng.below(5), faults=True, batchy=(i % 3 == 0)),
                          tags=["lbc", "plus" if plus else "oss"] + (["batchy"] if i % 3 == 0 else [])))
    # batch shapes: exactly one task of the batch changes what NGINX reads, at each position, the others are EndpointSlices no resource uses
    base = "+s1/0&+s2/0&+e1.0/s1/a&+k1/htpasswd/0&+k4/ca/0&+p1/basic/k1/0&+p5/emtls/k4/0&+v1/s1/0/pol=p1&+v2/s1/0/rpol=p5&+i1/s2/0&+t1/s1/0"
    changers = ["+v1/s1/1/pol=p1", "-v2", "+i1/s2/1", "+t1/s1/1", "+s1/1", "+k4/ca/1", "+p1/basic/k1/1", "-p5", "+e1.0/s1/a+b", "-i1", "+i2/s2/0"]
    for plus in (0, 1):
        for ch in changers:
            for n in (2, 3, 4):
                for pos in range(n + 1):
                    idle = ["+e3.%d/s3/%s" % (j, rng.choice(["a", "b", "c"])) for j in range(n)]
                    burst = idle[:pos] + [ch] + idle[pos:]
                    if tier == "quick" and (n + pos + len(ch) + plus) % 3:
                        continue
                    cases.append(dict(line="lbc plus=%d dssl=1 rf=_ af=_ bursts=%s;%s" % (plus, base, "&".join(burst)), tags=["lbc", "batch-shape"]))
    return cases


def corpus():
    import os
    d = os.path.join(vlib.VERIF, "corpus", PROP)
    out = []
    if os.path.isdir(d):
        for f in sorted(os.listdir(d)):
            for l in open(os.path.join(d, f)):
                l = l.strip()
                if l and not l.startswith("#"):
                    out.append(dict(line=l, tags=["corpus"]))
    return out


def load_replay(obj):
    return [dict(line=obj["case"]["line"], tags=["replay"])]


def kvs(line):
    return dict(x.split("=", 1) for x in line.split()[1:] if "=" in x)


def facts_of(ops, segs):
    """per operation: the 'changed' bit of each of its resources, read off the W markers of the recorded trace"""
    out = []
    for op, seg in zip(ops, segs):
        marks = {}
        for e in seg.split(","):
            f = e.split("|")
            if f[0] == "W":
                marks[f[1]] = marks.get(f[1], False) or f[2] == "1"
        bits = []
        for rid in res_ids(op):
            if rid.startswith("secret:"):
                bits.append(any(v for k, v in marks.items() if k.startswith("secret/")))
            else:
                bits.append(any(marks.get(fl, False) for fl in files_of(rid)))
        out.append(".".join("1" if b else "0" for b in bits))
    return out


def driver_line(case, impl):
    kv = kvs(case["line"])
    kind = case["line"].split()[0]
    if impl is None or impl.startswith("CRASH") or impl.startswith("setup"):
        return case["line"] + " facts=_ trace=_"
    if kind == "rel":
        ops = kv["ops"].split(";")
        segs = impl.split(";;")
        return case["line"] + " facts=%s trace=%s" % (";".join(facts_of(ops, segs)), impl)
    return case["line"] + " trace=" + impl


def tokens(seg):
    out = []
    for e in seg.split(","):
        f = e.split("|")
        if f[0] == "R":
            out.append("r1" if f[1] == "ok" else "r0")
        elif f[0] == "A":
            out.append("a1" if f[3] == "ok" else "a0")
        elif f[0] == "RET":
            out.append("ret1" if f[1] == "ok" else "ret0")
    return ".".join(out)


def judge(case, impl, model, spec):
    if impl is None or spec is None:
        return dict(corr="missing output")
    if impl.startswith("CRASH") or impl.startswith("setup"):
        return dict(corr="harness: " + impl[:200])
    kind = case["line"].split()[0]
    kv = kvs(case["line"])
    r = dict(nontrivial=False)
    if kind == "rel":
        segs = impl.split(";;")
        en = False
        for seg in segs:
            if en and "|1," in seg and "W|" in seg:
                r["nontrivial"] = True
            m = re.search(r"RET\|\w+\|([01])\|", seg)
            en = bool(m and m.group(1) == "1")
        if spec != "ok":
            r["spec"] = spec
            return r
        it = [tokens(s) for s in segs]
        mt = (model or "").split(";")
        if it != mt:
            for i, (a, b) in enumerate(zip(it, mt)):
                if a != b:
                    r["corr"] = "op#%d (%s): real code %s, model %s" % (i, kv["ops"].split(";")[i], a, b)
                    break
            else:
                r["corr"] = "operation count differs"
    else:
        r["nontrivial"] = "S|" in impl
        mine = [c for c in spec.split(";") if c != "ok" and ":stale:" not in c]   # staleness is C15's
        if mine:
            r["spec"] = mine[0]
    return r


def sig_weight_updates(case, issue):
    """S-C12-a: AddOrUpdateVirtualServer with weight updates (dynamic weight changes) switches reloads on while they are held back."""
    return bool(re.search(r"\(av\|w\d+\|[^)]*\):reload-while-held$", issue)) and " dw=1 " in case.get("line", "")


def sig_batch_flag(case, issue):
    """S-C12-b: a batch that contains a task which is not an EndpointSlice is reloaded at the drain even when nothing changed."""
    m = re.match(r"task#(\d+):needless-reload-at-drain$", issue)
    if not m or not case.get("impl"):
        return False
    kinds = lbcgen.batch_of(case["impl"], int(m.group(1)))
    return any(k != "endpointslice" for k in kinds)


def sig_batch_flag_slice(case, issue):
    """S-C12-e: a batch of EndpointSlices only, at least one of them referenced (its handler rewrote files, all unchanged)."""
    m = re.match(r"task#(\d+):needless-reload-at-drain$", issue)
    if not m or not case.get("impl"):
        return False
    no = int(m.group(1))
    kinds = lbcgen.batch_of(case["impl"], no)
    if not kinds or any(k != "endpointslice" for k in kinds):
        return False
    # the tasks of this window: did any of them write (i.e. was it referenced)?
    n, wrote = 0, False
    first = no - len(kinds) + 1
    for e in case["impl"].split(","):
        if e.startswith("T|"):
            n += 1
        elif first <= n <= no and e.startswith("W|"):
            wrote = True
    return wrote


def sig_plus_endpoints_static(case, issue):
    """S-C12-f: an EndpointSlice task on NGINX Plus rewrote the static part of a conf file (a queued Policy/Service change leaked in)."""
    m = re.match(r"task#(\d+):unapplied:f:(conf|stream)/", issue)
    if not m or not case.get("impl") or " plus=1 " not in case.get("line", ""):
        return False
    n = 0
    for e in case["impl"].split(","):
        if e.startswith("T|"):
            n += 1
            if n == int(m.group(1)):
                return e.split("|")[1] == "endpointslice"
    return False


SIGNATURES = {"weight-updates-enable-reloads-while-held": sig_weight_updates, "plus-endpoints-task-carries-static-change": sig_plus_endpoints_static, "batch-reload-flag-set-by-referenced-endpointslice": sig_batch_flag_slice, "batch-reload-flag-set-without-change": sig_batch_flag}
