"""C02 — one TransportServer per (listener, host); active only on a valid matching listener; listener admission."""
import sys
import vlib
from props import arbgen, arbprop

PROP = "C02"
PROPS_FILES = ["Nic/Props/C02.lean", "Nic/Props/TieArb.lean"]
# Go functions translated from /repo on every run (tools/gofn) and proved equal to the model in the Tie file above
TIE_FUNCS = ['internal/k8s/configuration.go:chooseObjectMetaWinner', 'internal/k8s/configuration.go:compareObjectMetas', 'internal/k8s/configuration.go:compareObjectMetasWithAnnotations', 'internal/k8s/configuration.go:getResourceKey', 'internal/k8s/configuration.go:getResourceKeyWithKind', 'internal/k8s/utils.go:isMinion', 'internal/k8s/utils.go:isMaster', 'pkg/apis/configuration/validation/virtualserver.go:isRegexOrExactMatch', 'pkg/apis/configuration/validation/globalconfiguration.go:generatePortProtocolKey']
HARNESS = "vh-k8s"
RULE = ("(a) listener lists (1..7 entries) over 3 names x 3 ports x 3 protocols x {default, 2 IPv4} x {default, 1 IPv6}, with reserved ports, "
        "reserved/ill-formed names, bad IPs and protocols mixed in; the admitted entries (indices) of the real validator are compared with "
        "Spec.admitSpec. (b) TransportServer/GlobalConfiguration histories (listener rename, protocol, port, IP edits, duplicate and malformed "
        "entries), each run 8x in-process for Go map order; after every op the active TCP/UDP TransportServers and their port/IPs are compared "
        "with Spec.lowner / the matching valid listener. Non-trivial: an entry was dropped, or a (listener,host) pair was contended.")
TRUSTED = [
    "IsValidIPv4Address / IsValidIPv6Address / DNS-1035 verdicts are inputs (the driver uses a simple twin on the generator's pool)",
    "reserved ports: the harness passes the same table to the real validator and to the model (80, 443 from createGlobalConfigurationValidator plus the default status/metrics/insight ports)",
]
ASSUMPTIONS = ["distinct live TransportServers have distinct UIDs"]
LEVEL_TEXT = ("Lean 4 theorems: the (listener,host) owner computed by the holder fold equals Spec.lowner for *every* iteration order of the "
              "TransportServer map (the Go code ranges over an unsorted map there); an active TransportServer is bound to exactly the listener with "
              "its name and protocol; admitted listeners are a sublist of the input, each valid on its own, names unique, never on a reserved port, "
              "pairwise free of ip:port/protocol conflicts; and admission equals the greedy Spec (an entry is dropped only for its own fault or "
              "against an admitted earlier entry)."
              ' Source tie: the winner comparison and generatePortProtocolKey are translated from /repo on every run and proved equal to the model (Props/TieArb.lean).')
LEVEL_NOTE = ("Assurance = weaker of (kernel-checked theorems about the model, differential correspondence with the real validator and Configuration). "
              "IP/DNS-label validators are parameters.")
TECHNIQUE = "Lean 4 proof (permutation-invariant champion fold; admission invariants by induction) + model/implementation correspondence"


def spec_judge(kv, ops, iobs, sobs, r):
    given = {}      # TransportServer key -> (listener|host) as NGINX was last given it: the emitted changes applied in order
    for i, (io, so) in enumerate(zip(iobs, sobs)):
        for op, snap, err in io["C"]:
            if snap["kind"] != "TransportServer" or snap.get("lname") == "tls-passthrough":
                continue
            if op == "D":
                given.pop(snap["key"], None)
            else:
                given[snap["key"]] = "%s|%s" % (snap.get("lname"), snap.get("host", ""))
        act = {}
        for k, d in io["R"].items():
            if d["kind"] == "TransportServer" and d.get("lname") != "tls-passthrough":
                lk = "%s|%s" % (d.get("lname"), d.get("host", ""))
                if lk in act:
                    return "after op#%d (%s) listener/host %s is served by %s and %s" % (i, ops[i], lk, act[lk][0], k)
                ip = d.get("ip", ",").split(",")
                act[lk] = (k, d.get("port"), ip[0], ip[1])
        want = {}
        for lk, v in so["LO"].items():
            f = v.split(":", 3)
            want[lk] = (f[0], f[1], f[2], f[3])
        if act != want:
            return "after op#%d (%s) active TransportServers differ: real=%s Spec=%s" % (i, ops[i], sorted(act.items()), sorted(want.items()))
        # "served by": what the emitted changes have given NGINX, pair by pair, must be the Spec's owners too (seed C02-6: the owner is
        # reported active while the batch deleted its configuration)
        served = dict((lk, k) for k, lk in given.items())
        if len(served) != len(given):
            return "after op#%d (%s) the emitted changes leave two TransportServers configured on one listener/host: %s" % (i, ops[i], sorted(given.items()))
        wantk = dict((lk, v[0]) for lk, v in want.items())
        if served != wantk:
            return "after op#%d (%s) the TransportServers NGINX was given differ from the owners: given=%s Spec=%s" % (i, ops[i], sorted(served.items()), sorted(wantk.items()))
        if ops[i].startswith("gc|") or ops[i] == "gc":
            if io["L"] is None or so["A"] is None:
                return "missing admission output"
            if io["L"] != so["A"]:
                return "admission differs on %s: real admits entries [%s], Spec.admitSpec admits [%s]" % (ops[i], io["L"], so["A"])
            if io["E"] == "1":
                r["nontrivial"] = True
        if any("listener-taken" in p[-1] for p in io["P"]):
            r["nontrivial"] = True
    return None


def issue_class(issue):
    return "admission" if issue.startswith("admission") else "active" if "active TransportServers differ" in issue else "double" if "is served by" in issue else "other"


def sig_name_reserved(case, issue):
    """S-C02-a: an entry dropped for an ip:port clash still reserves its name."""
    return issue.startswith("admission differs")


SIGNATURES = {"listener-name-reserved-by-dropped-entry": sig_name_reserved}


def gen(rng, tier):
    cases = []
    for _ in range(120 if tier == "quick" else 1500):
        cases.append(dict(line=arbgen.gen_gc_single_edits(rng), tags=["gc-single-attribute-edit"]))
    for _ in range(150 if tier == "quick" else 2000):
        cases.append(dict(line=arbgen.gen_listener_handover(rng), tags=["listener-handover"]))
    for _ in range(120 if tier == "quick" else 1500):
        cases.append(dict(line=arbgen.gen_replaced_contest(rng, ("ts", "pt")), tags=["replaced-object"]))
    na, nh = (400, 300) if tier == "quick" else (6000, 3000)
    for _ in range(na):
        cases.append(dict(line=arbgen.gen_admission(rng), tags=["admission"]))
    for _ in range(nh):
        cases.append(dict(line=arbgen.gen_listener_history(rng, maxops=10 if tier == "quick" else 20), tags=["history"]))
    return cases


def corpus():
    return [dict(line=l, tags=["corpus"]) for l in arbgen.corpus_lines("arb") + arbgen.corpus_lines(PROP)]


def load_replay(obj):
    return [dict(line=obj["case"]["line"], tags=["replay"])]


def run_cases(cases, bins, res, tier, broken):
    arbprop.run_cases(sys.modules[__name__], cases, bins, res, tier, broken)


def shrink(case, issue, bins):
    return arbprop.shrink(sys.modules[__name__], case, issue, bins)
