"""C09 — generation is a pure function: same inputs, byte-identical files."""
import json
import os
import subprocess
import vlib

PROP = "C09"
PROPS_FILES = ["Nic/Props/C09.lean"]
HARNESS = "vh-configs"
PARALLEL = 8
RULE = ("every rendering is followed by a rendering of the VERY SAME extended-resource objects (as the Configurator does on ConfigMap / GlobalConfiguration / endpoints updates) and by one of freshly built equal ones: no file may be rewritten; endpoint lists also with one address listed twice. " +
        "fixtures whose rendering passes through every unordered collection of the generation path — an API-key Secret with n clients, n API-key "
        "policies in different scopes, n tiered rate-limit groups, a VirtualServer with n upstreams / routes / header lists / error pages / splits / "
        "matches, an Ingress with n hosts × n paths and every list-valued annotation, a mergeable Ingress with n minions, a TransportServer with n "
        "upstreams; every endpoint list rotated from one rendering to the next — each rendered `reps` times through the real Configurator and "
        "templates with a fresh Configurator per rendering, on NGINX and NGINX Plus, n in 2..7. Observed: number of distinct byte contents per "
        "file, and whether a second identical call reports a change. Non-trivial: every case.")
TRUSTED = ["tools/mapranges (go/packages + go/types): finds every range over a map-typed expression and classifies its body syntactically",
           "text/template iterates maps in sorted key order (Go standard library)"]
ASSUMPTIONS = ["order dependence can only enter through ranges over maps (and maps.Keys/Values); goroutines and time are not used by the generators"]
LEVEL_TEXT = ("Lean 4 theorems: sorted_site_order_free (a site that sorts by key what it collected returns the same list for any two iteration orders "
              "of a map with distinct keys), set_site_order_free (a site that only writes another map builds the same content), "
              "api_key_clients_order_free (the fixed generateAPIKeyClients) with the pre-fix witness api_key_clients_unsorted_order_dependent, and "
              "all_file_sites_order_free, decided over a table of every map range in internal/configs that tools/mapranges regenerates from /repo on "
              "every run and that must equal the reviewed expectation expect/mapranges.json."
              ' The sort calls of the generators and their comparators are a second regenerated table (expect/c09_sorts.json).')
LEVEL_NOTE = "Assurance = weaker of (theorems per site class, the regenerated classification of every site, repeated real renderings)."
TECHNIQUE = "Lean 4 proof (order-independence per site class) + model regenerated from source by a map-range translator + repeated-rendering correspondence"

FIXTURES = ["apikey-clients", "apikey-two-policies", "rl-groups", "vs-rich", "ingress-rich", "mergeable", "ts-rich", "batch-mixed"]


def regenerate(tier):
    """Run the translator on /repo, compare with the reviewed expectation, and write lean/Nic/Gen/MapRanges.lean."""
    tooldir = os.path.join(vlib.VERIF, "tools", "mapranges")
    binp = os.path.join(vlib.VERIF, ".build", "mapranges")
    gen = os.path.join(vlib.LEAN, "Nic", "Gen", "MapRanges.lean")
    broken = []
    p = subprocess.run(["go", "build", "-o", binp, "."], cwd=tooldir, env=vlib.goenv(), capture_output=True, text=True)
    if p.returncode != 0:
        return dict(broken=[("translator-build:mapranges", p.stderr[-2000:])], obligations=1, discharged=0)
    p = subprocess.run([binp, vlib.REPO, "./internal/configs/..."], cwd=vlib.REPO, env=vlib.goenv(), capture_output=True, text=True)
    if p.returncode != 0:
        return dict(broken=[("translator-run:mapranges", p.stderr[-2000:])], obligations=1, discharged=0)
    sites = json.loads(p.stdout)
    expect = json.load(open(os.path.join(vlib.VERIF, "expect", "mapranges.json")))
    key = lambda s: (s["file"], s["func"], s["expr"])
    emap = {key(s): s for s in expect}
    rows = []
    for s in sites:
        e = emap.pop(key(s), None)
        if e is None:
            broken.append(("mapranges:new-site", "%s %s: range %s (class %s: %s) is not in expect/mapranges.json" % (s["file"], s["func"], s["expr"], s["class"], s["why"])))
            reach = "files"
        else:
            reach = e["reach"]
            if e["class"] != s["class"]:
                broken.append(("mapranges:class-changed", "%s %s: range %s is now %s (%s%s), reviewed as %s" % (s["file"], s["func"], s["expr"], s["class"], s["why"], (": " + s["cmp"]) if s.get("cmp") else "", e["class"])))
            elif e.get("cmp", "") != s.get("cmp", ""):
                broken.append(("mapranges:comparator-changed", "%s %s: what is collected from range %s is now ordered by [%s], reviewed as [%s] (a total order on the map keys)" % (s["file"], s["func"], s["expr"], s.get("cmp", ""), e.get("cmp", ""))))
        rows.append((s["file"], s["func"], s["expr"], s["class"], reach, s.get("cmp", "")))
    for k in emap:
        broken.append(("mapranges:site-gone", "%s %s: range %s no longer exists" % k))
    esc = lambda x: x.replace("\\", "\\\\").replace('"', '\\"')
    with open(gen, "w") as f:
        f.write("/- GENERATED by props/C09.py (tools/mapranges) from /repo — do not edit. -/\nnamespace Nic.Gen.MapRanges\n\n")
        f.write("structure Site where\n  file : String\n  func : String\n  expr : String\n  cls : String\n  reach : String\n  cmp : String\n  deriving Repr\n\n")
        f.write("def sites : List Site := [\n")
        f.write(",\n".join('  ⟨"%s", "%s", "%s", "%s", "%s", "%s"⟩' % tuple(esc(x) for x in r) for r in rows))
        f.write("\n]\n\nend Nic.Gen.MapRanges\n")
    # second regenerated table: the sort calls themselves (lists that reach the generators in the controller's map order — endpoints,
    # backup endpoints, upstreams — are made canonical by them); a sort that vanished or whose order changed is a broken obligation
    p2 = subprocess.run([binp, "-sorts", vlib.REPO, "./internal/configs/..."], cwd=vlib.REPO, env=vlib.goenv(), capture_output=True, text=True)
    nsorts = 0
    if p2.returncode != 0:
        broken.append(("translator-run:mapranges-sorts", p2.stderr[-1500:]))
    else:
        got = {(x["file"], x["func"], x["expr"]): x["cmp"] for x in json.loads(p2.stdout)}
        exp = {(x["file"], x["func"], x["expr"]): x["cmp"] for x in json.load(open(os.path.join(vlib.VERIF, "expect", "c09_sorts.json")))}
        nsorts = len(exp)
        for k, c in exp.items():
            if k not in got:
                broken.append(("sorts:gone:%s:%s" % (k[1], k[2]), "%s %s no longer sorts %s (reviewed order: %s): what is written then follows the arrival order" % (k[0], k[1], k[2], c)))
            elif got[k] != c:
                broken.append(("sorts:comparator-changed:%s:%s" % (k[1], k[2]), "%s %s sorts %s by [%s], reviewed as [%s]" % (k[0], k[1], k[2], got[k], c)))
        for k, c in got.items():
            if k not in exp and c.startswith("custom:"):
                broken.append(("sorts:new-custom:%s:%s" % (k[1], k[2]), "%s %s sorts %s by an unreviewed comparator %s" % (k[0], k[1], k[2], c)))
    return dict(broken=broken, obligations=len(sites) + 1 + nsorts, discharged=len(sites) + 1 + nsorts - len(broken),
                summary=dict(map_range_sites=len(sites), classes={c: sum(1 for r in rows if r[3] == c) for c in sorted(set(r[3] for r in rows))}))


def gen(rng, tier):
    cases = []
    reps = 12 if tier == "quick" else 64
    for fx in FIXTURES:
        for plus in (0, 1):
            for n in ((3, 5) if tier == "quick" else (2, 3, 4, 5, 6, 7)):
                cases.append(dict(line="det fx=%s n=%d reps=%d plus=%d" % (fx, n, reps, plus), tags=[fx, "plus" if plus else "oss"], nontrivial=True))
            # one address listed twice in every endpoint list (two EndpointSlice entries resolving to the same ip:port)
            cases.append(dict(line="det fx=%s n=%d reps=%d plus=%d dup=1" % (fx, 3, max(4, reps // 3), plus), tags=[fx, "duplicate-address"], nontrivial=True))
    return cases


def corpus():
    d = os.path.join(vlib.VERIF, "corpus", PROP)
    out = []
    if os.path.isdir(d):
        for f in sorted(os.listdir(d)):
            for l in open(os.path.join(d, f)):
                l = l.strip()
                if l and not l.startswith("#"):
                    out.append(dict(line=l, tags=["corpus"], nontrivial=True))
    return out


def load_replay(obj):
    return [dict(line=obj["case"]["line"], tags=["replay"], nontrivial=True)]


def judge(case, impl, model, spec):
    if impl is None:
        return dict(corr="missing output")
    if not impl.startswith("files="):
        return dict(corr="harness: " + impl[:200])
    d = dict((x.split("=", 1) + [""])[:2] for x in impl.split("#"))
    if d.get("unstable"):
        return dict(spec="the same inputs rendered to different bytes: " + d["unstable"] + " (file:distinct contents)")
    if d.get("changed2") != "0":
        return dict(spec="re-processing the unchanged resources reported %s changed writes" % d["changed2"])
    if d.get("files") == "0":
        return dict(corr="fixture rendered no file")
    return dict(nontrivial=True)


SIGNATURES = {}
