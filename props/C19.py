"""C19 — App Protect arbitration: one signature set per tag, policy valid iff satisfiable."""
import itertools
import vlib

PROP = "C19"
PROPS_FILES = ["Nic/Props/C19.lean", "Nic/Props/TieMisc.lean"]
# Go functions translated from /repo on every run (tools/gofn) and proved equal to the model in the Tie file above
TIE_FUNCS = ['internal/k8s/utils.go:isChallengeIngress', 'internal/k8s/appprotectdos/app_protect_dos_configuration.go:getNsName', 'internal/k8s/appprotect_waf.go:isMatchingResourceRef']
HARNESS = "vh-ap"
PARALLEL = 8
RULE = ("histories (3..12 ops) of add/update/delete of APUserSig (tags from {t1,t2,none}, creation times from {1,2} so ties occur, with and "
        "without revisionDatetime, malformed specs, unparsable timestamps, tag edits), APPolicy (0..2 signature requirements with min/max/no "
        "bounds, malformed, unparsable bounds) and APLogConf, on the real ConfigurationImpl, each history 4x in-process for Go map order "
        "(thorough: all permutations of short histories). After every op the validity flags of all objects are compared with the model and "
        "with Spec.sigUsable / Spec.polUsable computed from scratch on the current objects; every change of a policy's usability must appear "
        "in the returned change lists. Non-trivial: a tag had two or more claimants or a policy had a requirement.")
TRUSTED = ["App Protect schema validation verdict and RFC 3339 parsing are inputs of the model"]
ASSUMPTIONS = ["distinct live objects have distinct UIDs"]
LEVEL_TEXT = ("Lean 4 theorems over the model of ConfigurationImpl: after every signature event the validity flags equal the from-scratch Spec — "
              "the in-force signature set of a tag is the claimant that beats all others (winner_is_champion, reconcile_flags, reconcile_untouched), a policy stored as usable/unusable "
              "agrees with Spec.polUsable after verifyPolicies (verifyPolicies_flags: flags recomputed, not patched); the result does not depend on map iteration "
              "order; every flip of a policy is in the returned lists (flips_reported); a requirement that only names a tag accepts any revision.")
LEVEL_NOTE = "Assurance = weaker of (theorems about the model, correspondence with the real ConfigurationImpl, direct Spec comparison on every op)."
TECHNIQUE = "Lean 4 proof (champion per tag group; flags = spec after every operation) + model/implementation correspondence"

NAMES = ["a", "b", "c"]


def gen_case(rng, maxops=12, rep=4):
    uid = [0]
    live = {}
    lastspec = {}
    ops = []
    for _ in range(3 + rng.below(maxops - 2)):
        r = rng.below(12)
        if r < 5:
            name = rng.choice(NAMES)
            k = ("sig", name)
            replaced = k in live and rng.chance(1, 5)
            if k not in live or replaced:
                # `replaced`: the object was deleted and re-created under the same name and the controller sees ONE update of the
                # known key — new UID and creation time; half of the time with the very same tag and revision as before
                uid[0] += 1
                live[k] = ("u%03d" % uid[0], rng.choice([1, 1, 2, 3]))
            u, ts = live[k]
            tag = rng.weighted([("t1", 5), ("t2", 3), ("_", 1)])
            rev = rng.weighted([("-", 2), ("10", 2), ("20", 1), ("30", 1)])
            form = rng.weighted([("ok", 8), ("nosigs", 1), ("badts", 1)])
            if replaced and k in lastspec and rng.chance(1, 2):
                tag, rev, form = lastspec[k]
            lastspec[k] = (tag, rev, form)
            ops.append("sig|d|%s|%s|%d|%s|%s|%s" % (name, u, ts, tag, rev, form))
        elif r < 8:
            name = rng.choice(["p", "q"])
            reqs = []
            for _ in range(rng.below(3)):
                t = rng.choice(["t1", "t2", "t3"])
                mn = rng.weighted([("-", 2), ("5", 1), ("15", 1)])
                mx = rng.weighted([("-", 2), ("25", 1), ("12", 1)])
                reqs.append("%s:%s:%s" % (t, mn, mx))
            form = rng.weighted([("ok", 8), ("nopolicy", 1), ("badts", 1)])
            ops.append("pol|d|%s|%s|%s" % (name, form, "+".join(reqs) or "_"))
            live[("pol", name)] = 1
        elif r < 9:
            ops.append("log|d|l|%s" % rng.choice(["ok", "bad"]))
        elif r < 11 and live:
            k = rng.choice(sorted(live))
            live.pop(k)
            ops.append("d%s|d/%s" % (k[0], k[1]))
        else:
            ops.append("get|%s|d/%s" % (rng.choice(["APPolicy", "APUserSig", "APLogConf"]), rng.choice(["p", "a", "l"])))
    return "ap rep=%d ops=%s" % (rep, ";".join(ops))


def gen_dos(rng, maxops=12):
    ops = []
    nss = ["d", "e"]
    for _ in range(3 + rng.below(maxops - 2)):
        r = rng.below(12)
        ns = rng.choice(nss)
        if r < 3:
            ops.append("pol|%s|%s|%s" % (ns, rng.choice(["p", "q"]), rng.weighted([("ok", 4), ("bad", 1)])))
        elif r < 5:
            ops.append("log|%s|%s|%s" % (ns, "l", rng.weighted([("ok", 4), ("bad", 1)])))
        elif r < 8:
            pr = rng.choice(["_", "p", "q", "d/p", "e/p"])
            lr = rng.choice(["_", "_", "l", "d/l", "e/l"])
            ops.append("prot|%s|%s|%s|%s|%s" % (ns, rng.choice(["r", "s"]), rng.weighted([("ok", 6), ("bad", 1)]), pr, lr))
        elif r < 10:
            k = rng.choice(["pol", "log", "prot"])
            name = {"pol": rng.choice(["p", "q"]), "log": "l", "prot": rng.choice(["r", "s"])}[k]
            ops.append("d%s|%s/%s" % (k, ns, name))
        else:
            ops.append("get|%s|%s" % (ns, rng.choice(["r", "s", "d/r", "e/r", "d/s"])))
    return "dos ops=%s" % ";".join(ops)


def judge_dos(case, impl, model):
    if impl is None or model is None:
        return dict(corr="missing output")
    ops = case["line"].split("ops=")[1].split(";")
    io = impl.split(";;")
    r = dict(nontrivial=any(o.startswith("prot|") for o in ops))
    pols, logs, prots, reported = {}, {}, {}, {}

    def res(ns, ref):
        return ref if "/" in ref else ns + "/" + ref

    def usable(p):
        ns, valid, pr, lr = p
        return valid and (pr == "_" or pols.get(res(ns, pr), False)) and (lr == "_" or logs.get(res(ns, lr), False))
    for i, (o, a) in enumerate(zip(ops, io)):
        f = o.split("|")
        if f[0] == "pol":
            pols[f[1] + "/" + f[2]] = f[3] == "ok"
        elif f[0] == "log":
            logs[f[1] + "/" + f[2]] = f[3] == "ok"
        elif f[0] == "prot":
            prots[f[1] + "/" + f[2]] = (f[1], f[3] == "ok", f[4], f[5])
        elif f[0] == "dpol":
            pols.pop(f[1], None)
        elif f[0] == "dlog":
            logs.pop(f[1], None)
        elif f[0] == "dprot":
            prots.pop(f[1], None)
            reported.pop(f[1], None)
        elif f[0] == "get":
            key = res(f[1], f[2])
            p = prots.get(key)
            want = "G=0"
            if p and usable(p):
                want = "G=1:%s:%s:%s" % (key, "_" if p[2] == "_" else res(p[0], p[2]), "_" if p[3] == "_" else res(p[0], p[3]))
            if a != want:
                r["spec"] = "op#%d (%s): GetValidDosEx answered %s, the current objects say %s" % (i, o, a, want)
                return r
            continue
        d = sec(a)
        for c in (x for x in d.get("CH", "").split("+") if x):
            if c[1:].startswith("prot:"):
                reported[c[6:]] = c[0] == "U"
        for k, p in prots.items():
            if k in reported and reported[k] != usable(p):
                r["spec"] = "after op#%d (%s): DosProtectedResource %s is %s but the last report about it said %s" % (
                    i, o, k, "usable" if usable(p) else "unusable", "usable" if reported[k] else "unusable")
                return r
    if impl != model:
        for i, (a, b) in enumerate(zip(io, model.split(";;"))):
            if a != b:
                r["corr"] = "op#%d impl=%s model=%s" % (i, a, b)
                break
    return r


def gen(rng, tier):
    n = 400 if tier == "quick" else 3000
    cases = [dict(line=gen_case(rng, 12 if tier == "quick" else 20), tags=["history"]) for _ in range(n)]
    cases += [dict(line=gen_dos(rng, 12 if tier == "quick" else 20), tags=["dos-history"]) for _ in range(n // 2)]
    if tier == "thorough":
        for _ in range(25):
            base = gen_case(rng, 5, rep=1)
            ops = base.split("ops=")[1].split(";")
            for p in itertools.islice(itertools.permutations(ops), 120):
                cases.append(dict(line="ap rep=1 ops=%s" % ";".join(p), tags=["permutation"]))
    return cases


def corpus():
    import os
    d = os.path.join(vlib.VERIF, "corpus", PROP)
    out = []
    if os.path.isdir(d):
        for f in sorted(os.listdir(d)):
            for l in open(os.path.join(d, f)):
                l = l.strip()
                if l and not l.startswith("#"):
                    out.append(dict(line=l, tags=["corpus"]))
    return out


def load_replay(obj):
    return [dict(line=obj["case"]["line"], tags=["replay"])]


def sec(o):
    d = {}
    for part in o.split("#"):
        if "=" in part:
            k, v = part.split("=", 1)
            d[k] = v
    return d


def judge(case, impl, model, spec):
    if case["line"].startswith("dos "):
        return judge_dos(case, impl, model)
    if impl is None or model is None:
        return dict(corr="missing output")
    if impl.startswith("NONDET"):
        return dict(spec="the real code gave different results for the same history under different map iteration orders: " + impl[:500])
    ops = case["line"].split("ops=")[1].split(";")
    io, so = impl.split(";;"), (spec or "").split(";;")
    r = dict(nontrivial=any(o.startswith("pol|") and not o.endswith("|_") for o in ops) or sum(1 for o in ops if o.startswith("sig|")) >= 2)
    if len(io) != len(ops) or len(so) != len(ops):
        return dict(corr="observation count differs")
    prev_pol = {}
    for i, (o, a, s) in enumerate(zip(ops, io, so)):
        da, ds = sec(a), sec(s)
        got_s = dict((x.split(":")[0], x.split(":")[1]) for x in da.get("S", "").split(",") if x)
        got_p = dict((x.split(":")[0], x.split(":")[1]) for x in da.get("P", "").split(",") if x)
        want_s = dict(x.split(":") for x in ds.get("S", "").split(",") if x)
        want_p = dict(x.split(":") for x in ds.get("P", "").split(",") if x)
        if got_s != want_s:
            r["spec"] = "after op#%d (%s): signature sets in force %s differ from the Spec %s" % (i, o, sorted(got_s.items()), sorted(want_s.items()))
            return r
        if got_p != want_p:
            r["spec"] = "after op#%d (%s): usable policies %s differ from the Spec %s" % (i, o, sorted(got_p.items()), sorted(want_p.items()))
            return r
        # every change of usability is reported
        if o.startswith("sig|") or o.startswith("dsig|"):
            on = set(k for k, v in got_p.items() if v == "1" and prev_pol.get(k) == "0")
            off = set(k for k, v in got_p.items() if v == "0" and prev_pol.get(k) == "1")
            pa = set(x for x in da.get("PA", "").split("+") if x)
            pd = set(x for x in da.get("PD", "").split("+") if x)
            if on != pa or off != pd:
                r["spec"] = "op#%d (%s): policies that became usable %s / unusable %s are not what was reported (adds %s, deletions %s)" % (
                    i, o, sorted(on), sorted(off), sorted(pa), sorted(pd))
                return r
        prev_pol = got_p
    if impl != model:
        for i, (a, b) in enumerate(zip(io, model.split(";;"))):
            if a != b:
                r["corr"] = "op#%d impl=%s model=%s" % (i, a, b)
                break
    return r


SIGNATURES = {}
