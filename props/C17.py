"""C17 — no object the API server can admit makes the controller crash."""
import json
import os
import subprocess
import vlib

PROP = "C17"
PROPS_FILES = ["Nic/Props/C17.lean", "Nic/Props/TieMisc.lean"]
# Go functions translated from /repo on every run (tools/gofn) and proved equal to the model in the Tie file above
TIE_FUNCS = ['internal/k8s/utils.go:isChallengeIngress', 'internal/k8s/appprotectdos/app_protect_dos_configuration.go:getNsName', 'internal/k8s/appprotect_waf.go:isMatchingResourceRef']
HARNESS = "vh-k8s"
PARALLEL = 12
RULE = ("shape-directed objects — Ingress (1-2 per case; rules 0..2, http nil / paths 0..2, service / resource backends, default backend, TLS, "
        "mergeable master / minion / invalid type, cert-manager challenge label, 24 annotations), VirtualServer (+ attached VirtualServerRoute), "
        "VirtualServerRoute, TransportServer, Policy — built from one seed by a reflective filler over the real Go types (every pointer nil one "
        "time in three, slices of 0..2, per-field pools of mostly valid values, one value in sixty invalid) and repaired to satisfy the API "
        "server's cross-field rules (exactly one of service/resource, pathType set, one policy kind, ...). Each object is added through the real "
        "event handler, queue and sync of a real LoadBalancerController (NGINX and NGINX Plus) on top of a small valid world, then an "
        "EndpointSlice change and a ConfigMap change regenerate everything, then the object is deleted; a panic anywhere is caught and located. "
        "Non-trivial: a case whose object was accepted and written to a file.")
TRUSTED = ["the reflective generator + repairs stand for 'what the API server admits'; for Ingress the repairs implement the built-in validation rules, "
           "for the custom resources a panic would additionally be checked against the CRD schema by hand before it is called a finding"]
ASSUMPTIONS = ["feature flags fixed to: custom resources on, TLS passthrough on, snippets / App Protect / DoS / cert-manager / external-dns off",
               "the theorems cover the Ingress path; VirtualServer / TransportServer / Policy code is covered by the search only (partial)"]
LEVEL_TEXT = ("Lean 4 theorems over a model of the Ingress path in which every Go pointer is an Option and every dereference can fail: "
              "validate_never_panics (validation of ANY Ingress returns a verdict), accepted_then_safe (an admissible Ingress accepted by validation is "
              "arbitrated and generated — every Backend.Service, Rules[0], Rules[0].HTTP.Paths[0] site — without a nil dereference, for any number of "
              "rules and paths, any mergeable type, challenge or not), old_validation_panics (the pre-fix validateChallengeIngress, finding S-C17-a) "
              "and inadmissible_backend_breaks (why the admissibility hypothesis is needed). The modelled Go functions are pinned by source hash "
              "(tools/funcsrc, regenerated every run).")
LEVEL_NOTE = "Assurance = weaker of (theorems about the Ingress model, correspondence of its verdict with the real controller on generated shapes, crash search for the other kinds)."
TECHNIQUE = "Lean 4 proof (explicit-panic model of the Ingress path: accepted ⇒ no nil dereference) + model/implementation correspondence + shape-directed crash search"

FUNCS = ["internal/k8s/validation.go:validateIngress", "internal/k8s/validation.go:validateChallengeIngress", "internal/k8s/validation.go:validateIngressSpec",
         "internal/k8s/validation.go:validateBackend", "internal/k8s/validation.go:validateMasterSpec", "internal/k8s/validation.go:validateMinionSpec",
         "internal/k8s/controller.go:LoadBalancerController.createIngressEx", "internal/k8s/configuration.go:Configuration.buildMinionConfigs",
         "internal/k8s/configuration.go:Configuration.convertIngressToVSR", "internal/k8s/reference_checkers.go:serviceReferenceChecker.IsReferencedByIngress"]


def regenerate(tier):
    tooldir = os.path.join(vlib.VERIF, "tools", "funcsrc")
    binp = os.path.join(vlib.VERIF, ".build", "funcsrc")
    p = subprocess.run(["go", "build", "-o", binp, "."], cwd=tooldir, env=vlib.goenv(), capture_output=True, text=True)
    if p.returncode != 0:
        return dict(broken=[("translator-build:funcsrc", p.stderr[-2000:])], obligations=1, discharged=0)
    p = subprocess.run([binp, vlib.REPO] + FUNCS, capture_output=True, text=True)
    if p.returncode != 0:
        return dict(broken=[("translator-run:funcsrc", p.stderr[-2000:])], obligations=1, discharged=0)
    got = json.loads(p.stdout)
    want = json.load(open(os.path.join(vlib.VERIF, "expect", "c17_funcs.json")))
    broken = []
    for f in FUNCS:
        if got.get(f) != want.get(f):
            broken.append(("model-source-pin:" + f, "the Go function the Lean model (Nic/Model/Shapes.lean) was written from has changed (%s -> %s): the model may no longer describe it" % (want.get(f), got.get(f))))
    return dict(broken=broken, obligations=len(FUNCS), discharged=len(FUNCS) - len(broken), summary=dict(pinned_functions=len(FUNCS)))


def gen(rng, tier):
    cases = []
    per = dict(ing=1500, vs=700, vsr=300, ts=400, pol=900) if tier == "quick" else dict(ing=20000, vs=8000, vsr=3000, ts=4000, pol=9000)
    base = rng.below(1 << 30)
    for kind, n in per.items():
        for i in range(n):
            cases.append(dict(line="crash kind=%s seed=%d plus=%d cm=%d" % (kind, base + i, i % 2, (i // 2) % 2), tags=[kind]))
    return cases


def corpus():
    d = os.path.join(vlib.VERIF, "corpus", PROP)
    out = []
    if os.path.isdir(d):
        for f in sorted(os.listdir(d)):
            for l in open(os.path.join(d, f)):
                l = l.strip()
                if l and not l.startswith("#"):
                    out.append(dict(line=l, tags=["corpus"]))
    return out


def load_replay(obj):
    return [dict(line=obj["case"]["line"], tags=["replay"])]


def driver_line(case, impl):
    sh = "_"
    if impl and "#ishape=" in impl:
        sh = impl.split("#ishape=", 1)[1]
    return case["line"] + " ishape=" + sh


def judge(case, impl, model, spec):
    if impl is None:
        return dict(corr="missing output")
    if impl.startswith("CRASH") or impl.startswith("PANIC"):   # outside the harness's own recover: the process died / setup panicked
        return dict(spec="the controller crashed: " + impl[:200])
    verdict = impl.split("#", 1)[0]
    r = dict(nontrivial=verdict == "served", tags=[verdict.split("@")[0]])
    if verdict.startswith("PANIC"):
        r["spec"] = "panic at " + verdict.split("@", 1)[1]
        return r
    if verdict not in ("served", "rejected"):
        return dict(corr="harness: " + impl[:200])
    if case["line"].split()[1] == "kind=ing" and model and model != "-":
        ms = model.split("+")
        # correspondence: the model never predicts a panic for what the real code handled; a served case needs a structurally accepted Ingress
        if any(m.startswith("panic") for m in ms):
            r["corr"] = "model predicts %s, the real controller handled the object (%s)" % (model, verdict)
        elif verdict == "served" and not any(m == "accepted" for m in ms):
            r["corr"] = "the real controller serves an Ingress that the model's validation rejects (%s)" % model
    return r


SIGNATURES = {}
