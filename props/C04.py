"""C04 — master/minion and VirtualServer/Route composition is exactly as declared."""
import sys
import vlib
from props import arbgen, arbprop

PROP = "C04"
PROPS_FILES = ["Nic/Props/C04.lean", "Nic/Props/C04Paths.lean", "Nic/Props/TieArb.lean"]
# Go functions translated from /repo on every run (tools/gofn) and proved equal to the model in the Tie file above
TIE_FUNCS = ['internal/k8s/configuration.go:chooseObjectMetaWinner', 'internal/k8s/configuration.go:compareObjectMetas', 'internal/k8s/configuration.go:compareObjectMetasWithAnnotations', 'internal/k8s/configuration.go:getResourceKey', 'internal/k8s/configuration.go:getResourceKeyWithKind', 'internal/k8s/utils.go:isMinion', 'internal/k8s/utils.go:isMaster', 'pkg/apis/configuration/validation/virtualserver.go:isRegexOrExactMatch', 'pkg/apis/configuration/validation/globalconfiguration.go:generatePortProtocolKey']
HARNESS = "vh-k8s"
RULE = ("histories biased to masters, minions (1..3 paths from {/p,/q,/r}, sometimes a path listed twice, 2 hosts), VirtualServers whose routes "
        "reference VirtualServerRoutes by bare name and by namespace/name (2 namespaces) with prefix, exact (=) and regex (~) paths, and "
        "VirtualServerRoutes with matching / non-matching hosts and subroutes; parents lose and regain their host. After every op the minions "
        "and per-path verdicts of every serving master and the routes attached to every serving VirtualServer (GetResources) are compared with "
        "Spec.minionsOf / Spec.routesOf of the current object set. Non-trivial: some master has >= 1 minion or some VirtualServer references a route.")
TRUSTED = ["standalone validity of VirtualServerRoutes is an input; the relational check (host equality, path rule) is modelled"]
ASSUMPTIONS = ["distinct live objects have distinct UIDs"]
LEVEL_TEXT = ("Lean 4 theorems over the arbitration model: the minions attached to a master are exactly the stored minions of its host in key "
              "order; every path listed by a minion of the host is marked valid for exactly one minion, that minion lists it, and no minion listing it "
              "beats that one (path_served_by_oldest_claimant, by an invariant over the two nested folds of buildMinionConfigs and a log of the claims; with distinct UIDs "
              "it beats every other claimant: path_holder_beats_others); a VirtualServer's routes are exactly the referenced stored routes that fit (host equal, subroutes under the "
              "referencing path), each attached once at its first fitting reference (attached_routes_distinct, fitting_route_attached), followed by the challenge routes of its host; composition is a function of the object set."
              ' Source tie: the winner comparison, isMaster / isMinion and isRegexOrExactMatch are translated from /repo on every run and proved equal to the model (Props/TieArb.lean).')
LEVEL_NOTE = "Assurance = weaker of (theorems about the model, correspondence with the real Configuration on generated histories)."
TECHNIQUE = "Lean 4 proof (path-holder fold = champion; route selection by structural induction) + model/implementation correspondence"


def parse_m(v):
    out = []
    for m in arbgen.split_top(v, "+"):
        if "(" in m:
            k, ps = m.split("(", 1)
            out.append((k, dict(x.rsplit("=", 1) for x in ps[:-1].split("+") if x)))
        else:
            out.append((m, None))
    return out


def spec_judge(kv, ops, iobs, sobs, r):
    for i, (io, so) in enumerate(zip(iobs, sobs)):
        got = {}
        for k, d in io["R"].items():
            if d["kind"] == "Ingress" and d.get("master"):
                # a path missing from ValidPaths is a path not served (Go map default): compare the served sets
                got[k] = [(m.split("@")[0], sorted(p for p, v in ps.items() if v == "1")) for m, ps in d.get("min", [])]
            elif d["kind"] == "VirtualServer":
                got[k] = [(x.split("@")[0], None) for x in d.get("vsr", [])]
        want = dict((k, [(m, None if ps is None else sorted(p for p, v in ps.items() if v == "1")) for m, ps in parse_m(v)]) for k, v in so["M"].items())
        if got != want:
            ks = sorted(k for k in set(got) | set(want) if got.get(k) != want.get(k))
            return "after op#%d (%s) composition differs for %s: real=%s Spec=%s" % (i, ops[i], ks, [got.get(k) for k in ks], [want.get(k) for k in ks])
        if any(v for v in got.values()):
            r["nontrivial"] = True
    return None


def issue_class(issue):
    return "composition" if "composition differs" in issue else "other"


def sig_dup_path(case, issue):
    """S-C04-a: a minion that lists a path twice loses the path to itself."""
    _, ops = arbgen.parse_line(case.get("line", ""))
    for o in ops:
        f = o.split("|")
        if f[0] == "ing" and f[9] == "m":
            ps = f[11].split(">", 1)[1].split("+")
            if len(ps) != len(set(ps)):
                return "composition differs" in issue
    return False


SIGNATURES = {"minion-duplicate-path-beats-itself": sig_dup_path}

W = dict(ing=10, vs=6, vsr=7, ts=1, gc=1, delete=4, delgc=0)


def gen_composition(rng, maxops=12):
    """Masters with several minions, VirtualServers with several route references, parents losing their host."""
    w = arbgen.World(rng)
    hosts = ["a.ex", "b.ex"]
    ops = []
    for _ in range(3 + rng.below(maxops - 2)):
        k = rng.weighted([("master", 3), ("minion", 6), ("vs", 4), ("vsr", 6), ("rival", 2), ("delete", 3)])
        if k == "master":
            ns, name = rng.choice(arbgen.NSS), rng.choice(["ma", "mb"])
            o = w.ident("ing", ns, name)
            ops.append("ing|%s|%s|%s|%d|%d|_|1|%s|M|0|%s>" % (ns, name, o["uid"], o["ts"], o["gen"], "0" if rng.chance(1, 10) else "1", rng.choice(hosts)))
        elif k == "minion":
            ns, name = rng.choice(arbgen.NSS), rng.choice(["m1", "m2", "m3"])
            o = w.ident("ing", ns, name)
            ps = [rng.choice(["/p", "/q", "/r", "/p", "/q", "/r", "E", "/"]) for _ in range(1 + rng.below(3))]      # E = the empty path
            if not rng.chance(1, 8):
                ps = list(dict.fromkeys(ps))
            ops.append("ing|%s|%s|%s|%d|%d|_|%s|%s|m|0|%s>%s" % (ns, name, o["uid"], o["ts"], o["gen"], "0" if rng.chance(1, 12) else "1",
                                                              "0" if rng.chance(1, 10) else "1", rng.choice(hosts), "+".join(ps)))
        elif k == "vs":
            ns, name = rng.choice(arbgen.NSS), rng.choice(["v1", "v2"])
            o = w.ident("vs", ns, name)
            rts, seen = [], set()
            for _ in range(1 + rng.below(3)):
                path = rng.choice(["/r", "/s", "=/e", "~^/x"])
                if path in seen:
                    continue
                seen.add(path)
                rts.append("%s>%s" % (path, rng.choice(["_", "r1", "r2", "d/r1", "e/r1", "d/r2", "e/r2"])))
            ops.append("vs|%s|%s|%s|%d|%d|1|%s|%s|%s|-|-" % (ns, name, o["uid"], o["ts"], o["gen"], "0" if rng.chance(1, 10) else "1", rng.choice(hosts), "&".join(rts)))
        elif k == "vsr":
            ns, name = rng.choice(arbgen.NSS), rng.choice(["r1", "r2"])
            o = w.ident("vsr", ns, name)
            subs = rng.choice([["/r"], ["/r/a", "/r/b"], ["/s"], ["/s/x", "/r/y"], ["=/e"], ["~^/x"], ["/t"], ["/r", "/s"], []])
            ops.append("vsr|%s|%s|%s|%d|%d|%s|%s|%s|%s" % (ns, name, o["uid"], o["ts"], o["gen"], "0" if rng.chance(1, 12) else "1",
                                                        "0" if rng.chance(1, 10) else "1", rng.choice(hosts), "+".join(subs)))
        elif k == "rival":
            ns, name = "d", rng.choice(["x1", "x2"])
            o = w.ident("ing", ns, name)
            ops.append("ing|%s|%s|%s|%d|%d|_|1|1|r|0|%s>/x" % (ns, name, o["uid"], 0, o["gen"], rng.choice(hosts)))
        else:
            d = arbgen.gen_del(rng, w)
            if d:
                ops.append(d)
    if not ops:
        ops.append("delgc")
    return arbgen.line(True, False, ops)


def gen_minion_contention(rng):
    """One master and 3..5 minions on the same host fighting over two paths, all age orders, ties included."""
    w = arbgen.World(rng, tsvals=(1, 2, 3, 4))
    ops = []
    o = w.ident("ing", "d", "ma")
    master = "ing|d|ma|%s|%d|%d|_|1|1|M|0|a.ex>" % (o["uid"], o["ts"], o["gen"])
    mins = []
    for name in rng.shuffle(["m1", "m2", "m3", "m4", "m5"])[: 3 + rng.below(3)]:
        ns = rng.choice(arbgen.NSS)
        o = w.ident("ing", ns, name)
        ps = rng.shuffle(["/p", "/q", "E"])[: 1 + rng.below(2)]
        mins.append("ing|%s|%s|%s|%d|%d|_|1|1|m|0|a.ex>%s" % (ns, name, o["uid"], o["ts"], o["gen"], "+".join(ps)))
    ops = rng.shuffle([master] + mins)
    if rng.chance(1, 2):
        d = arbgen.gen_del(rng, w)
        if d:
            ops.append(d)
    return arbgen.line(True, False, ops)


def gen_shared_route(rng):
    """Several VirtualServers (different hosts and namespaces) referencing the same VirtualServerRoutes under the same paths."""
    w = arbgen.World(rng)
    ops = []
    for ns, name in rng.shuffle([("d", "v1"), ("e", "v2"), ("d", "v3")])[: 2 + rng.below(2)]:
        o = w.ident("vs", ns, name)
        host = rng.choice(["a.ex", "b.ex"])
        refs = rng.shuffle(["r1", "d/r1", "e/r1", "d/r2"])[: 1 + rng.below(2)]
        rts = "&".join("%s>%s" % (p_, r_) for p_, r_ in zip(rng.shuffle(["/r", "/s"]), refs))
        ops.append("vs|%s|%s|%s|%d|%d|1|1|%s|%s|-|-" % (ns, name, o["uid"], o["ts"], o["gen"], host, rts))
    for ns, name in rng.shuffle([("d", "r1"), ("e", "r1"), ("d", "r2")])[: 2 + rng.below(2)]:
        o = w.ident("vsr", ns, name)
        ops.append("vsr|%s|%s|%s|%d|%d|1|1|%s|%s" % (ns, name, o["uid"], o["ts"], o["gen"], rng.choice(["a.ex", "b.ex"]),
                                                   rng.choice(["/r/a", "/s/a", "/r/a+/r/b", "/r", "/s"])))
    return arbgen.line(True, False, rng.shuffle(ops))


SUB_SHAPES = [[], ["/r"], ["/r/a"], ["/r/a", "/r/b"], ["/s"], ["=/e"], ["~^/x"], ["=/f"], ["/r", "/s"], ["/r/a", "=/e"]]


def gen_double_reference(rng):
    """One VirtualServer references the SAME VirtualServerRoute from two routes — by name and by namespace/name, under nested
    paths — and the route fits both, the first only, the second only, or neither. It is attached at most once (S-C07-i)."""
    refs = rng.shuffle([("/r", "r1"), ("/r/a", "d/r1")])
    if rng.chance(1, 3):
        refs.append(("/s", rng.choice(["_", "r2", "r1"])))
    subs = rng.choice(["/r/a/x", "/r/b", "/r/a/x+/r/b", "", "/r/a/x+/r/a/y", "/t"])
    ops = ["vs|d|v|u001|1|1|1|1|a.ex|%s|-|-" % "&".join("%s>%s" % x for x in refs),
           "vsr|d|r1|u002|2|1|1|1|a.ex|%s" % subs]
    if rng.chance(1, 2):
        ops.append("vsr|d|r2|u003|3|1|1|1|a.ex|/s/a")
    ops = rng.shuffle(ops)
    if rng.chance(1, 2):
        ops.append("vsr|d|r1|u002|2|2|1|1|a.ex|%s" % rng.choice(["/r/a/x", "/r/b", ""]))
    return arbgen.line(True, False, ops)


def gen_route_shapes():
    """Exhaustive: one VirtualServer route of each path kind (prefix, exact, regex) delegating to one VirtualServerRoute with each
    shape of subroute list (none, matching, not matching, several), in both arrival orders, then the route edited to every other
    shape: which routes are attached must follow the declaration exactly at every step."""
    out = []
    for path in ("/r", "=/e", "~^/x"):
        for ref in ("r1", "e/r1"):
            rns = "d" if ref == "r1" else "e"
            vs = "vs|d|v1|u001|1|1|1|1|a.ex|%s>%s|-|-" % (path, ref)
            for i, s1 in enumerate(SUB_SHAPES):
                vsr1 = "vsr|%s|r1|u002|1|1|1|1|a.ex|%s" % (rns, "+".join(s1))
                out.append(arbgen.line(True, False, [vs, vsr1]))
                for j, s2 in enumerate(SUB_SHAPES):
                    if i == j or ref != "r1":
                        continue
                    vsr2 = "vsr|%s|r1|u002|1|2|1|1|a.ex|%s" % (rns, "+".join(s2))
                    out.append(arbgen.line(True, False, [vsr1, vs, vsr2]))
    return out


def gen(rng, tier):
    cases = []
    for l in gen_route_shapes():
        cases.append(dict(line=l, tags=["route-shapes"]))
    for _ in range(150 if tier == "quick" else 2000):
        cases.append(dict(line=gen_shared_route(rng), tags=["shared-route"]))
    for _ in range(150 if tier == "quick" else 2000):
        cases.append(dict(line=gen_minion_contention(rng), tags=["minion-contention"]))
    for _ in range(100 if tier == "quick" else 1000):
        cases.append(dict(line=arbgen.gen_replaced_attached(rng), tags=["replaced-attached-object"]))
    for _ in range(80 if tier == "quick" else 800):
        cases.append(dict(line=gen_double_reference(rng), tags=["double-reference"]))
    for _ in range(400 if tier == "quick" else 4000):
        cases.append(dict(line=gen_composition(rng, 12 if tier == "quick" else 24), tags=["composition"]))
    n = 150 if tier == "quick" else 2000
    for _ in range(n):
        cases.append(dict(line=arbgen.gen_history(rng, maxops=12 if tier == "quick" else 25, weights=W), tags=["history"]))
    if tier == "thorough":
        for _ in range(30):
            base = arbgen.gen_history(rng, maxops=5, weights=W)
            for l in arbgen.permutations_same_end(base, limit=120):
                cases.append(dict(line=l, tags=["permutation"]))
    return cases


def corpus():
    return [dict(line=l, tags=["corpus"]) for l in arbgen.corpus_lines("arb") + arbgen.corpus_lines(PROP)]


def load_replay(obj):
    return [dict(line=obj["case"]["line"], tags=["replay"])]


def run_cases(cases, bins, res, tier, broken):
    arbprop.run_cases(sys.modules[__name__], cases, bins, res, tier, broken)


def shrink(case, issue, bins):
    return arbprop.shrink(sys.modules[__name__], case, issue, bins)
