"""C08 — fail closed: an unusable policy or certificate never yields unprotected service."""
import json
import os
import subprocess
import vlib

PROP = "C08"
PROPS_FILES = ["Nic/Props/C08.lean"]
HARNESS = "vh-configs"
PARALLEL = 8
RULE = ("the full product, exhaustively: policy kind (accessControl, rateLimit, jwt, basicAuth, ingressMTLS, egressMTLS, oidc, apiKey, waf) × scope "
        "(VirtualServer spec, route, VirtualServerRoute subroute, subroute inheriting the delegating route's policies) × failure mode (policy absent "
        "from the table = missing / invalid / foreign class; each dependency missing, invalid, of the wrong type; App Protect policy or log "
        "configuration missing; plus the usable control) × neighbours (alone, after / before / between valid policies) × route shape (pass, "
        "splits, matches) × {NGINX, NGINX Plus}; and Ingress (regular, mergeable master) and VirtualServer hosts × TLS Secret state × Ingress "
        "JWT / basic-auth annotation × Secret state. Each case is rendered by the real Configurator and templates; the harness parses the "
        "rendered text into the server level and its location blocks and reports whether `return 5xx;` stands at server level and, for every "
        "location that passes to the upstream of the scope under test, whether `return 5xx;` precedes the pass directive; for TLS whether "
        "`ssl_reject_handshake on;` is there and which certificate is named; for Ingress auth whether the auth directives are there. "
        "Non-trivial: a case with a failure mode.")
TRUSTED = ["NGINX's rewrite-phase semantics: a `return` at server level, or in a location before the pass directive, answers every request of that scope",
           "a key file that does not exist makes auth_jwt / auth_basic deny (NGINX)",
           "the harness's block parser (brace depth; the fixtures have no braces inside strings)"]
ASSUMPTIONS = ["the extended resource carries a SecretReference with Error set for a missing / invalid Secret, as the secret store produces (C11)",
               "TransportServer TLS termination is excluded, as the property says"]
LEVEL_TEXT = ("Lean 4 theorems over the model of generatePolicies and the scope wiring: unusable_policy_500 (for every reference list, table and "
              "context: an unusable reference anywhere ⇒ ErrorReturn 500; the only hypothesis is that no single-instance kind is referenced twice, "
              "and the example shows why), scope_covers_spec / _location / _inherited, unusable_iff_bad_dependency (which dependency states make "
              "each kind unusable), tls_fail_rejects, ingress_auth_always_on. The modelled Go functions are pinned by source hash (tools/funcsrc).")
LEVEL_NOTE = "Assurance = weaker of (theorems about the model, correspondence of the model's verdict with the rendered configuration on the full product, direct Spec check of the rendered text)."
TECHNIQUE = "Lean 4 proof (first unusable reference ⇒ 500 for the scope; TLS reject; auth always on) + model/implementation correspondence on rendered NGINX text over the exhaustive product"

KINDS = ["acl", "rl", "jwt", "basic", "imtls", "emtls", "oidc", "apikey", "waf"]
MODES = {"acl": [], "rl": [], "jwt": ["secret-missing", "secret-invalid", "secret-wrongtype"], "basic": ["secret-missing", "secret-invalid", "secret-wrongtype"],
         "imtls": ["secret-missing", "secret-invalid", "secret-wrongtype"], "emtls": ["secret-missing", "secret-invalid", "secret-wrongtype", "dep2-missing", "dep2-invalid", "dep2-wrongtype"],
         "oidc": ["secret-missing", "secret-invalid", "secret-wrongtype"], "apikey": ["secret-missing", "secret-invalid", "secret-wrongtype"], "waf": ["ap-missing", "aplog-missing"]}
WAF_VARIANTS = ["pl", "p", "b", "bl", "bg", "plg", "pgl", "bll", "po", "bo"]
WAF_DEP_MODE = [("p", "ap-missing"), ("l", "aplog-missing"), ("o", "aplog-missing"), ("b", "bundle-missing"), ("g", "logbundle-missing")]
FUNCS = ["internal/configs/ingress.go:generateJWTConfig", "internal/configs/ingress.go:generateBasicAuthConfig", "internal/configs/virtualserver.go:virtualServerConfigurator.generatePolicies", "internal/configs/virtualserver.go:policiesCfg.addJWTAuthConfig",
         "internal/configs/virtualserver.go:policiesCfg.addBasicAuthConfig", "internal/configs/virtualserver.go:policiesCfg.addIngressMTLSConfig",
         "internal/configs/virtualserver.go:policiesCfg.addEgressMTLSConfig", "internal/configs/virtualserver.go:policiesCfg.addOIDCConfig",
         "internal/configs/virtualserver.go:policiesCfg.addAPIKeyConfig", "internal/configs/virtualserver.go:policiesCfg.addWAFConfig",
         "internal/configs/virtualserver.go:virtualServerConfigurator.generateSSLConfig", "internal/configs/ingress.go:addSSLConfig",
         "internal/configs/virtualserver.go:addPoliciesCfgToLocation"]


def regenerate(tier):
    tooldir = os.path.join(vlib.VERIF, "tools", "funcsrc")
    binp = os.path.join(vlib.VERIF, ".build", "funcsrc")
    p = subprocess.run(["go", "build", "-o", binp, "."], cwd=tooldir, env=vlib.goenv(), capture_output=True, text=True)
    if p.returncode != 0:
        return dict(broken=[("translator-build:funcsrc", p.stderr[-2000:])], obligations=1, discharged=0)
    p = subprocess.run([binp, vlib.REPO] + FUNCS, capture_output=True, text=True)
    got = json.loads(p.stdout) if p.returncode == 0 else {}
    want = json.load(open(os.path.join(vlib.VERIF, "expect", "c08_funcs.json")))
    broken = []
    for f in FUNCS:
        if got.get(f) != want.get(f):
            broken.append(("model-source-pin:" + f, "the Go function the Lean model (Nic/Model/Policies.lean) was written from has changed (%s -> %s)" % (want.get(f), got.get(f))))
    return dict(broken=broken, obligations=len(FUNCS), discharged=len(FUNCS) - len(broken), summary=dict(pinned_functions=len(FUNCS)))


def gen(rng, tier):
    cases = []
    for plus in (0, 1):
        for kind in KINDS:
            if kind in ("jwt", "oidc", "waf") and not plus:
                continue      # NGINX Plus only
            for scope in ("spec", "route", "subroute", "inherit"):
                if kind == "imtls" and scope != "spec":
                    modes = ["context"]      # not allowed outside the spec: itself an unusable policy
                else:
                    modes = ["ok", "policy-missing"] + MODES[kind]
                for mode in modes:
                    for nb in ("none", "before", "after", "both"):
                        for shape in ("pass", "splits", "matches"):
                            if kind == "waf":
                                # every shape of a WAF policy (policy or bundle; log configuration, log bundle, the deprecated single
                                # securityLog, several logs) x each of its dependencies missing: addWAFConfig goes on after most failures
                                if shape != "pass" and tier == "quick":
                                    continue
                                for variant in WAF_VARIANTS:
                                    wmodes = ["ok", "policy-missing"] + [m for c, m in WAF_DEP_MODE if c in variant]
                                    for wmode in dict.fromkeys(wmodes):
                                        if wmode != mode and not (mode == "ok" and wmode not in modes):
                                            continue
                                        cases.append(dict(line="fc plus=%d kind=waf scope=%s mode=%s nb=%s shape=%s waf=%s" % (plus, scope, wmode, nb, shape, variant),
                                                          tags=["policy", kind, scope, wmode, "waf-" + variant], nontrivial=wmode != "ok"))
                                continue
                            if tier == "quick" and (len(kind) + len(scope) + len(mode) + len(nb) + len(shape) + plus) % 3:
                                continue
                            cases.append(dict(line="fc plus=%d kind=%s scope=%s mode=%s nb=%s shape=%s" % (plus, kind, scope, mode, nb, shape),
                                              tags=["policy", kind, scope, mode], nontrivial=mode != "ok"))
                            if scope == "inherit" and shape == "pass":
                                cases.append(dict(line="fc plus=%d kind=%s scope=%s mode=%s nb=%s shape=%s vsrns=e" % (plus, kind, scope, mode, nb, shape),
                                                  tags=["policy", kind, "inherit-other-namespace", mode], nontrivial=mode != "ok"))
    # the Secret of the policy goes through the real secret store first: valid / invalid versions and look-ups in every order of
    # length <= 3; what the generation is given is what the store hands out at the end
    for plus in (0, 1):
        for kind in ("jwt", "basic", "imtls", "emtls", "oidc", "apikey"):
            if kind in ("jwt", "oidc") and not plus:
                continue
            for hist in ("v", "i", "vi", "iv", "vgi", "vig", "gvi", "viv", "ivi", "vgiv", "vvi"):
                final = [c for c in hist if c != "g"][-1]
                mode = "ok" if final == "v" else "secret-invalid"
                scope = "spec" if kind == "imtls" else ("route" if (len(hist) + plus) % 2 else "spec")
                cases.append(dict(line="fc plus=%d kind=%s scope=%s mode=%s nb=none shape=pass store=%s" % (plus, kind, scope, mode, hist),
                                  tags=["policy", kind, "secret-through-the-store", mode], nontrivial=mode != "ok"))
    modes = ["ok", "secret-missing", "secret-invalid", "secret-wrongtype"]
    for plus in (0, 1):
        for res in ("ing", "master", "vs"):
            for mode in modes:
                for auth in (("none", "jwt", "basic") if plus else ("none", "basic")):
                    for amode in (modes if auth != "none" else ["ok"]):
                        if res == "vs" and auth != "none":
                            continue
                        cases.append(dict(line="fctls plus=%d res=%s mode=%s auth=%s amode=%s" % (plus, res, mode, auth, amode),
                                          tags=["tls", res, mode], nontrivial=mode != "ok" or amode != "ok"))
                        if res == "ing" and auth != "none":
                            cases.append(dict(line="fctls plus=%d res=%s mode=%s auth=%s amode=%s direct=1" % (plus, res, mode, auth, amode),
                                              tags=["tls", "generator-direct", mode], nontrivial=True))
    return cases


def corpus():
    d = os.path.join(vlib.VERIF, "corpus", PROP)
    out = []
    if os.path.isdir(d):
        for f in sorted(os.listdir(d)):
            for l in open(os.path.join(d, f)):
                l = l.strip()
                if l and not l.startswith("#"):
                    out.append(dict(line=l, tags=["corpus"], nontrivial=True))
    return out


def load_replay(obj):
    return [dict(line=obj["case"]["line"], tags=["replay"], nontrivial=True)]


def kvs(s, sep):
    return dict((x.split("=", 1) + [""])[:2] for x in s.split(sep) if "=" in x)


def judge(case, impl, model, spec):
    if impl is None or model is None:
        return dict(corr="missing output")
    if "=" not in impl or impl.startswith("PANIC") or impl.startswith("render-error") or impl.startswith("setup"):
        return dict(corr="harness: " + impl[:200])
    kv = kvs(" ".join(case["line"].split()[1:]), " ")
    d, m = kvs(impl, "#"), kvs(model, "#")
    r = {}
    if case["line"].startswith("fc "):
        failing = kv["mode"] != "ok"
        if kv["kind"] in ("acl", "rl") and kv["mode"] != "policy-missing":
            failing = False
        if int(d["bad"]) == 0:
            return dict(corr="fixture: no location passes to the upstream of the scope under test")
        if failing:
            if kv["scope"] == "spec":
                if d["srv500"] != "1":
                    r["spec"] = "unusable policy in the spec but the server does not answer with an error (%s)" % impl
            elif d["bad500"] != d["bad"]:
                r["spec"] = "unusable policy in the %s scope but %s of %s locations of that scope pass without an error return (%s)" % (kv["scope"], int(d["bad"]) - int(d["bad500"]), d["bad"], impl)
        if not r:
            isrv, iloc = d["srv500"], ("1" if d["bad500"] == d["bad"] else "0")
            if isrv != m["srv"] or iloc != m["loc"]:
                r["corr"] = "rendered srv=%s loc=%s, model srv=%s loc=%s" % (isrv, iloc, m["srv"], m["loc"])
            elif not failing and d["good500"] != "0":
                r["corr"] = "the untouched route answers with an error"
    else:
        if kv["mode"] != "ok":
            if d["reject"] != "1":
                r["spec"] = "unusable TLS Secret but handshakes are not rejected (%s)" % impl
            elif d["cert"] != "-":
                r["spec"] = "unusable TLS Secret and a certificate is served: %s" % d["cert"]
        if not r and kv["auth"] != "none" and kv["res"] != "vs" and d["auth"] != "1":
            r["spec"] = "authentication configured on the Ingress is not enforced (Secret %s): %s" % (kv["amode"], impl)
        if not r and (d["reject"] != m["reject"] or d["cert"] != m["cert"] or d["auth"] != m["auth"]):
            r["corr"] = "rendered %s, model %s" % (impl, model)
    return r


SIGNATURES = {}
