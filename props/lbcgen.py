"""Bursts of store mutations for the controller harness (kind `lbc`), shared by C12 and C15."""

SECRETS = {"k1": "htpasswd", "k2": "jwk", "k3": "apikey", "k4": "ca", "k5": "tls"}
POLICIES = {"p1": ("basic", "k1"), "p2": ("jwt", "k2"), "p3": ("apikey", "k3"), "p4": ("rl", "_"), "p5": ("emtls", "k4"), "p6": ("imtls", "k4")}
EPS = ["a", "b", "a+b", "_", "c", "a+c"]


class World:
    def __init__(self, rng, plus):
        self.rng, self.plus = rng, plus
        self.svc = {}     # name -> ver
        self.slices = {}  # name -> (svc, eps)
        self.sec = {}     # name -> ver
        self.pol = {}     # name -> ver
        self.res = {}     # id -> token tail
        self.cm = None

    def res_token(self, rid):
        rng = self.rng
        svc = rng.choice(["s1", "s1", "s2"])
        ver = rng.below(2)
        tok = "+%s/%s/%d" % (rid, svc, ver)
        if rid[0] == "v" and rng.chance(2, 3):
            pols = ["p1", "p3", "p4", "p5"] + (["p2"] if self.plus else [])
            where = rng.choice(["pol", "rpol"])
            if where == "pol" and rng.chance(1, 5):
                tok += "/pol=p6/tls=k5"     # ingressMTLS needs TLS termination and is allowed in spec only
            else:
                tok += "/%s=%s" % (where, rng.choice(pols))
        if rid[0] == "i" and rng.chance(1, 3):
            tok += rng.choice(["/basic=k1"] + (["/jwt=k2"] if self.plus else []))
        return tok

    def mutation(self, focus=None):
        rng = self.rng
        kinds = [("slice", 8), ("svc", 3), ("sec", 4), ("pol", 3), ("res", 5), ("cm", 1)]
        k = focus or rng.weighted(kinds)
        if k == "slice":
            name = rng.choice(["e1.0", "e1.1", "e2.0", "e3.0"])
            svc = "s" + name[1]
            if name in self.slices and rng.chance(1, 4):
                del self.slices[name]
                return "-" + name
            eps = rng.choice(EPS)
            self.slices[name] = (svc, eps)
            return "+%s/%s/%s" % (name, svc, eps)
        if k == "svc":
            name = rng.choice(["s1", "s2", "s3"])
            if name in self.svc and rng.chance(1, 4):
                del self.svc[name]
                return "-" + name
            ver = rng.below(2)
            self.svc[name] = ver
            return "+%s/%d" % (name, ver)
        if k == "sec":
            name = rng.choice(sorted(SECRETS))
            if name in self.sec and rng.chance(1, 3):
                del self.sec[name]
                return "-" + name
            ver = rng.below(3)
            self.sec[name] = ver
            typ = SECRETS[name] if rng.chance(9, 10) else "bad"
            return "+%s/%s/%d" % (name, typ, ver)
        if k == "pol":
            name = rng.choice(sorted(POLICIES))
            if name in self.pol and rng.chance(1, 3):
                del self.pol[name]
                return "-" + name
            ver = rng.below(2)
            self.pol[name] = ver
            kind, sec = POLICIES[name]
            return "+%s/%s/%s/%d" % (name, kind, sec, ver)
        if k == "res":
            rid = rng.choice(["i1", "i2", "v1", "v2", "t1"])
            if rid in self.res and rng.chance(1, 4):
                del self.res[rid]
                return "-" + rid
            self.res[rid] = 1
            return self.res_token(rid)
        ver = rng.below(3)
        return "+c/%d" % ver

    def startup(self):
        rng = self.rng
        ms = []
        for s in ("s1", "s2"):
            self.svc[s] = 0
            ms.append("+%s/0" % s)
        for e, svc in (("e1.0", "s1"), ("e2.0", "s2")):
            eps = rng.choice(["a", "a+b", "b"])
            self.slices[e] = (svc, eps)
            ms.append("+%s/%s/%s" % (e, svc, eps))
        for k, t in SECRETS.items():
            if rng.chance(3, 4):
                self.sec[k] = 0
                ms.append("+%s/%s/0" % (k, t))
        for p, (kind, sec) in POLICIES.items():
            if rng.chance(3, 4):
                self.pol[p] = 0
                ms.append("+%s/%s/%s/0" % (p, kind, sec))
        for rid in ("i1", "v1", "v2", "t1", "i2"):
            if rng.chance(2, 3):
                self.res[rid] = 1
                ms.append(self.res_token(rid))
        return rng.shuffle(ms) if rng.chance(1, 3) else ms


def gen_case(rng, plus, nbursts, faults=True, batchy=False):
    w = World(rng, plus)
    bursts = ["&".join(w.startup())]
    for _ in range(nbursts):
        size = rng.choice([1, 1, 1, 2, 3, 4, 5]) if not batchy else rng.choice([3, 4, 5, 6])
        bursts.append("&".join(w.mutation() for _ in range(size)))
    rf = sorted(set(1 + rng.below(3 * nbursts + 2) for _ in range(rng.below(3)))) if faults and rng.chance(1, 3) else []
    af = sorted(set(1 + rng.below(2 * nbursts + 2) for _ in range(1 + rng.below(3)))) if faults and plus and rng.chance(1, 2) else []
    return "lbc plus=%d dssl=1 rf=%s af=%s bursts=%s" % (plus, "+".join(map(str, rf)) or "_", "+".join(map(str, af)) or "_", ";".join(bursts))


def batch_of(trace, task_no):
    """kinds of the tasks of the window (start-up or batch) that ends with task number `task_no` (1-based)"""
    kinds, cur = [], []
    n = 0
    for e in trace.split(","):
        f = e.split("|")
        if f[0] == "T":
            n += 1
            cur.append(f[1])
            if n == task_no:
                return cur
            if f[2] == "0":   # not held: the window closed (single task or drain)
                cur = []
    return cur
