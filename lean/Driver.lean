import Nic.Drv.C13
import Nic.Drv.Arb
import Nic.Drv.Cls
import Nic.Drv.Eps
import Nic.Drv.Files
import Nic.Drv.AP
import Nic.Drv.Derived
import Nic.Drv.Refs
import Nic.Drv.Reload
import Nic.Drv.Shapes
import Nic.Drv.Policies
import Nic.Drv.Lex
import Nic.Drv.Re
import Nic.Drv.Name
import Nic.Drv.Tmpl
/-!
  Model driver: one case per input line `<kind> <id> k=v ...`; for each it
  prints `model <id> <observation>` and `spec <id> <verdict>`.
-/
open Nic

def dispatch (kind : String) (fs : List String) : Option (String × String) :=
  (Drv.C13.run kind fs) <|> (Drv.Arb.run kind fs) <|> (Drv.Cls.run kind fs) <|> (Drv.Eps.run kind fs) <|> (Drv.Files.run kind fs) <|> (Drv.AP.run kind fs) <|> (Drv.Derived.run kind fs) <|> (Drv.Refs.run kind fs) <|> (Drv.Reload.run kind fs) <|> (Drv.Shapes.run kind fs) <|> (Drv.Policies.run kind fs) <|> (Drv.Lex.run kind fs) <|> (Drv.Re.run kind fs) <|> (Drv.Name.run kind fs) <|> (Drv.Tmpl.run kind fs)

partial def loop (h : IO.FS.Stream) (out : IO.FS.Stream) : IO Unit := do
  let line ← h.getLine
  if line.isEmpty then return ()
  let l := line.trimAscii.toString
  if l.isEmpty || l.startsWith "#" then loop h out else
  match l.splitOn " " |>.filter (· ≠ "") with
  | kind :: id :: fs =>
    match dispatch kind fs with
    | some (m, s) =>
      out.putStrLn s!"model {id} {m}"
      out.putStrLn s!"spec {id} {s}"
    | none => out.putStrLn s!"model {id} bad-kind"
    loop h out
  | _ => loop h out

def main : IO Unit := do
  let out ← IO.getStdout
  loop (← IO.getStdin) out
  out.flush
