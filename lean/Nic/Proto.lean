/-
  Line-protocol helpers shared by all model drivers (core Lean only).
  A case line is `<kind> <id> k=v k=v ...`; values never contain spaces.
-/
namespace Nic.Proto

def splitOn (s : String) (sep : String) : List String :=
  if s.isEmpty then [] else s.splitOn sep

/-- Look up `k=` among fields. -/
def kv (fs : List String) (k : String) : String :=
  let pre := k ++ "="
  match fs.find? (fun f => f.startsWith pre) with
  | some f => (f.drop pre.length).toString
  | none => ""

def nat (s : String) : Nat := s.toNat?.getD 0
def int (s : String) : Int := s.toInt?.getD 0

def hexVal (c : Char) : Nat :=
  if '0' ≤ c ∧ c ≤ '9' then c.toNat - 48
  else if 'a' ≤ c ∧ c ≤ 'f' then c.toNat - 87
  else if 'A' ≤ c ∧ c ≤ 'F' then c.toNat - 55
  else 0

/-- Decode a hex string into bytes-as-chars (each byte one `Char` < 256). -/
def unhex : List Char → List Char
  | a :: b :: r => Char.ofNat (hexVal a * 16 + hexVal b) :: unhex r
  | _ => []

def joinWith (sep : String) (l : List String) : String := sep.intercalate l

end Nic.Proto
