/-
  C02 — one TransportServer per (listener, host); active only on a valid
  matching listener; listener admission.  Property theorems only.
-/
import Nic.Lemmas.Listener
import Nic.Lemmas.Admission

namespace Nic.Arb
open Spec

/-! ### (listener, host) ownership -/

/-- Kubernetes' guarantee: the TransportServers claiming one (listener, host) pair have distinct UIDs. -/
def DistinctLClaims (o : Objs) : Prop :=
  ∀ lk, ((Spec.lclaims o).filter (fun c => c.host = lk)).Pairwise (fun a b => a.md.uid ≠ b.md.uid)

/-- **One TransportServer per (listener, host), independent of map iteration order.**
`buildListenerHostsAndTSConfigurations` ranges over the Go map `transportServers` in an
unspecified order; for *every* order `ord` (any permutation of the stored
TransportServers) the holder of each pair is `Spec.lowner`: the oldest claimant
(ties broken by UID) among the TransportServers whose listener name *and* protocol
match a listener of the GlobalConfiguration. -/
theorem listenerOwner_eq_spec (o : Objs) (ord : List (String × TS)) (hperm : ord.Perm o.tss)
    (hd : DistinctLClaims o) (lk : String) :
    (buildListenerHosts o ord).holderKey lk = Spec.lowner o lk := by
  unfold LBuild.holderKey Spec.lowner Spec.lclaims
  rw [buildListenerHosts_lhosts, get?_fold_ostep]
  have hp : ((Spec.lclaimsOf o.gc ord).filter (fun c => c.host = lk)).Perm
      ((Spec.lclaimsOf o.gc o.tss).filter (fun c => c.host = lk)) := by
    unfold Spec.lclaimsOf
    exact (hperm.filterMap _).filter _
  have hd' : ((Spec.lclaimsOf o.gc ord).filter (fun c => c.host = lk)).Pairwise (fun a b => a.md.uid ≠ b.md.uid) :=
    (hp.pairwise_iff (fun {a b} (h : a.md.uid ≠ b.md.uid) => fun e => h e.symm)).mpr (hd lk)
  have := fold_eq_champion _ hd'
  simp only [Map.get?] at this ⊢
  rw [this]
  exact champion_perm_key hp hd'

/-- Hence two iteration orders always agree on every owner. -/
theorem listenerHosts_perm_invariant (o : Objs) (ord₁ ord₂ : List (String × TS))
    (h₁ : ord₁.Perm o.tss) (h₂ : ord₂.Perm o.tss) (hd : DistinctLClaims o) (lk : String) :
    (buildListenerHosts o ord₁).holderKey lk = (buildListenerHosts o ord₂).holderKey lk := by
  rw [listenerOwner_eq_spec o ord₁ h₁ hd, listenerOwner_eq_spec o ord₂ h₂ hd]

/-- **Active only on a matching listener.** A (listener, host) pair has an owner only if that
owner is a stored TransportServer and the GlobalConfiguration defines a listener with exactly
its name and protocol; the pair is that listener's name with the TransportServer's host. -/
theorem active_needs_listener (o : Objs) (lk k : String) (h : Spec.lowner o lk = some k) :
    ∃ kv ∈ o.tss, ∃ l, listenerFor o.gc kv.2 = some l ∧ tsKey kv.2 = k ∧ lk = lkey l.name kv.2.host ∧
      kv.2.lname = l.name ∧ kv.2.proto = l.proto ∧ (∃ ls, o.gc = some ls ∧ l ∈ ls) := by
  unfold Spec.lowner at h
  cases hc : Spec.champion ((Spec.lclaims o).filter (fun c => c.host = lk)) with
  | none => simp [hc] at h
  | some c =>
    simp [hc] at h
    have hm := (champion_spec hc).1
    have hm' := List.mem_filter.mp hm
    unfold Spec.lclaims Spec.lclaimsOf at hm'
    obtain ⟨kv, hkv, he⟩ := List.mem_filterMap.mp hm'.1
    by_cases hp : kv.2.proto = "TLS_PASSTHROUGH"
    · simp [hp] at he
    · simp only [hp, if_false] at he
      cases hl : listenerFor o.gc kv.2 with
      | none => simp [hl] at he
      | some l =>
        simp [hl] at he
        refine ⟨kv, hkv, l, hl, ?_, ?_, ?_⟩
        · rw [← h, ← he]
        · have := hm'.2; simp at this; rw [← this, ← he]
        · unfold listenerFor at hl
          cases hg : o.gc with
          | none => simp [hg] at hl
          | some ls =>
            simp [hg] at hl
            have hf := List.find?_some hl
            simp only [Bool.and_eq_true, decide_eq_true_eq] at hf
            exact ⟨hf.1, hf.2, ls, rfl, List.mem_of_find?_eq_some hl⟩

/-- **Bound to exactly that listener.** Every TransportServerConfiguration produced by the build
(in any iteration order) carries the port and addresses of the listener with its name and
protocol — and zero values if there is none. -/
theorem binding_exact (o : Objs) (ord : List (String × TS)) (k : String) (c : TSCfg)
    (h : (buildListenerHosts o ord).cfgs.get? k = some c) : Bound o.gc c :=
  buildListenerHosts_allBound o ord k c h

/-! ### listener admission -/

/-- **`getValidListeners` = the greedy admission spec**, for every listener list, reserved-port
table and IP validator verdicts. -/
theorem admission_eq_spec (forb : List Nat) (ok4 ok6 : String → Bool) (ls : List Listener) :
    (admitAll forb ok4 ok6 ls).out = Spec.admitSpec forb ok4 ok6 ls := by
  unfold admitAll
  rw [admitSpec_eq]
  exact (fold_admitOne ls {} (admInv_init forb ok4 ok6)).2

private theorem spec_fold_props (forb ok4 ok6) (ls : List Listener) (acc : List Listener) :
    (∀ l ∈ acc, selfOk forb ok4 ok6 l = true) →
    acc.Pairwise (fun a b => a.name ≠ b.name ∧ clash a b = false) →
    (∀ l ∈ ls.foldl (specStep forb ok4 ok6) acc, selfOk forb ok4 ok6 l = true) ∧
    (ls.foldl (specStep forb ok4 ok6) acc).Pairwise (fun a b => a.name ≠ b.name ∧ clash a b = false) := by
  induction ls generalizing acc with
  | nil => intro h1 h2; exact ⟨h1, h2⟩
  | cons l r ih =>
    intro h1 h2
    simp only [List.foldl_cons]
    apply ih
    · unfold specStep
      split
      · rename_i hc
        simp only [Bool.and_eq_true] at hc
        intro x hx
        rcases List.mem_append.mp hx with hx | hx
        · exact h1 x hx
        · simp at hx; subst hx; exact hc.1
      · exact h1
    · unfold specStep
      split
      · rename_i hc
        simp only [Bool.and_eq_true] at hc
        rw [List.pairwise_append]
        refine ⟨h2, by simp, ?_⟩
        intro a ha b hb
        simp at hb; subst hb
        have := (List.all_eq_true.mp hc.2) a ha
        simp only [Bool.and_eq_true, decide_eq_true_eq, Bool.not_eq_true'] at this
        exact ⟨by simpa using this.1, this.2⟩
      · exact h2

/-- Every admitted listener is valid on its own: legal name that is not the built-in
`tls-passthrough`, **not a reserved port**, port in range, known protocol, valid IPs. -/
theorem admission_each_valid (forb ok4 ok6) (ls : List Listener) :
    ∀ l ∈ (admitAll forb ok4 ok6 ls).out, selfOk forb ok4 ok6 l = true ∧ l.port ∉ forb := by
  rw [admission_eq_spec, admitSpec_eq]
  intro l hl
  have h := (spec_fold_props forb ok4 ok6 ls [] (by simp) (by simp)).1 l hl
  refine ⟨h, ?_⟩
  unfold selfOk at h
  simp only [Bool.and_eq_true, Bool.not_eq_true', decide_eq_true_eq] at h
  have := h.1.1.1.1.2
  intro hm
  have : forb.contains l.port = true := by simpa using hm
  simp_all

/-- **No two admitted listeners share a name or reuse an ip:port for conflicting protocols**
({HTTP, TCP} mutually, UDP with UDP; IPv4 and IPv6 separately, defaults 0.0.0.0 and ::). -/
theorem admission_no_conflict (forb ok4 ok6) (ls : List Listener) :
    ((admitAll forb ok4 ok6 ls).out).Pairwise (fun a b => a.name ≠ b.name ∧ clash a b = false) := by
  rw [admission_eq_spec, admitSpec_eq]
  exact (spec_fold_props forb ok4 ok6 ls [] (by simp) (by simp)).2

private theorem specStep_sublist (forb ok4 ok6) (ls : List Listener) (acc pre : List Listener)
    (h : acc.Sublist pre) : (ls.foldl (specStep forb ok4 ok6) acc).Sublist (pre ++ ls) := by
  induction ls generalizing acc pre with
  | nil => simpa using h
  | cons l r ih =>
    simp only [List.foldl_cons]
    have : pre ++ l :: r = (pre ++ [l]) ++ r := by simp
    rw [this]
    apply ih
    unfold specStep
    split
    · exact List.Sublist.append h (List.Sublist.refl _)
    · exact h.trans (List.sublist_append_left _ _)

/-- Admitted listeners are a subsequence of the input: nothing is invented or reordered. -/
theorem admission_sublist (forb ok4 ok6) (ls : List Listener) :
    ((admitAll forb ok4 ok6 ls).out).Sublist ls := by
  rw [admission_eq_spec, admitSpec_eq]
  simpa using specStep_sublist forb ok4 ok6 ls [] [] (List.Sublist.refl _)

/-- **An invalid entry never disables a valid one.** Whether an entry is admitted depends only on
itself and on the entries *admitted* before it: it is kept iff it is valid on its own, no admitted
earlier entry has its name, and it clashes with no admitted earlier entry. Entries that were
dropped (for any reason) leave no trace. -/
theorem admission_greedy (forb ok4 ok6) (pre : List Listener) (l : Listener) :
    (admitAll forb ok4 ok6 (pre ++ [l])).out =
      if selfOk forb ok4 ok6 l &&
          ((admitAll forb ok4 ok6 pre).out).all (fun a => a.name ≠ l.name && !(clash a l))
      then (admitAll forb ok4 ok6 pre).out ++ [l] else (admitAll forb ok4 ok6 pre).out := by
  rw [admission_eq_spec, admission_eq_spec, admitSpec_eq, admitSpec_eq, List.foldl_append]
  rfl

/-! ### non-vacuity -/

private def la : Listener := ⟨"a", 5000, "HTTP", false, "", ""⟩
private def lb1 : Listener := ⟨"b", 5000, "TCP", false, "", ""⟩     -- clashes with `a` on 0.0.0.0:5000
private def lb2 : Listener := ⟨"b", 5001, "TCP", false, "", ""⟩     -- same name as the dropped entry: must be kept
private def lu : Listener := ⟨"u", 5000, "UDP", false, "", ""⟩      -- UDP may share the port

example : ((admitAll [80, 443] (fun _ => true) (fun _ => true) [la, lb1, lb2, lu]).out).map (·.name) = ["a", "b", "u"] := by decide
example : ((admitAll [80, 443] (fun _ => true) (fun _ => true) [⟨"r", 443, "TCP", false, "", ""⟩, lb2]).out).map (·.name) = ["b"] := by decide

private def tA : TS := { md := { ns := "d", name := "a", uid := 1, ts := 7, gen := 1 }, lname := "b", proto := "TCP", host := "" }
private def tB : TS := { md := { ns := "d", name := "b", uid := 2, ts := 3, gen := 1 }, lname := "b", proto := "TCP", host := "" }
private def oL : Objs := { tss := [("d/a", tA), ("d/b", tB)], gc := some [lb2] }
example : (buildListenerHosts oL oL.tss).holderKey "b|" = some "TransportServer/d/b" ∧
          (buildListenerHosts oL oL.tss.reverse).holderKey "b|" = some "TransportServer/d/b" := by decide

end Nic.Arb
