/-
  C04 — the per-path arbitration among the minions of one master host:
  **every path claimed under the host is served by exactly one minion, and no claimant beats it**
  (the oldest claimant; on equal creation times the one with the greater UID).

  `buildMinions` is a fold over the Ingresses (key order) of a fold over each minion's paths.
  The invariant below is stated over the accumulator and a *log* of the claims (minion index, path)
  processed so far; the theorems at the end read it off for the result of `buildMinions`.
-/
import Nic.Props.C04

namespace Nic.Arb

/-- What minion `j` says about path `p`: `some true` = serves it, `some false` = lost it, `none` = never held it. -/
def vp (cfgs : List MinionCfg) (j : Nat) (p : String) : Option Bool :=
  match cfgs[j]? with
  | some c => c.validPaths.get? p
  | none => none

def mdAt (cfgs : List MinionCfg) (j : Nat) : Meta := (cfgs[j]?.map (·.md)).getD default

theorem beats_ge_trans {a b c : Meta} (h1 : beats b a = false) (h2 : beats c b = false) : beats c a = false := by
  cases h : beats c a with
  | false => rfl
  | true =>
    have h1' : ¬ (beats b a = true) := by simp [h1]
    have h2' : ¬ (beats c b = true) := by simp [h2]
    rw [beats_iff] at h h1' h2'
    omega

theorem vp_setValid (cfgs : List MinionCfg) (i : Nat) (p : String) (v : Bool) (j : Nat) (q : String) :
    vp (setValid cfgs i p v) j q = if j = i ∧ q = p ∧ i < cfgs.length then some v else vp cfgs j q := by
  unfold vp setValid
  rw [List.getElem?_mapIdx]
  cases hc : cfgs[j]? with
  | none =>
    have hlen : cfgs.length ≤ j := List.getElem?_eq_none_iff.mp hc
    have : ¬ (j = i ∧ q = p ∧ i < cfgs.length) := by omega
    simp [this]
  | some c =>
    have hlen : j < cfgs.length := (List.getElem?_eq_some_iff.mp hc).1
    by_cases hji : j = i
    · subst hji
      simp only [Option.map_some, if_true, true_and, hlen, and_true]
      rw [Map.get?_set]
    · simp [hji]

theorem mdAt_setValid (cfgs : List MinionCfg) (i : Nat) (p : String) (v : Bool) (j : Nat) :
    mdAt (setValid cfgs i p v) j = mdAt cfgs j := by
  unfold mdAt setValid
  rw [List.getElem?_mapIdx]
  cases cfgs[j]? with
  | none => rfl
  | some c => simp only [Option.map_some]; split <;> rfl

theorem length_setValid (cfgs : List MinionCfg) (i : Nat) (p : String) (v : Bool) :
    (setValid cfgs i p v).length = cfgs.length := by simp [setValid]

/-- The invariant of `buildMinionConfigs`. `log` = the claims processed so far. -/
structure PInv (a : MinAcc) (log : List (Nat × String)) : Prop where
  held : ∀ p i, a.paths.get? p = some i →
    i < a.cfgs.length ∧ (i, p) ∈ log ∧ vp a.cfgs i p = some true ∧
    (∀ j, j ≠ i → vp a.cfgs j p ≠ some true) ∧
    (∀ j, (j, p) ∈ log → beats (mdAt a.cfgs j) (mdAt a.cfgs i) = false)
  free : ∀ p, a.paths.get? p = none → (∀ j, vp a.cfgs j p ≠ some true) ∧ (∀ j, (j, p) ∉ log)
  bound : ∀ j p, (j, p) ∈ log → j < a.cfgs.length

theorem PInv.init : PInv {} [] :=
  ⟨by intro p i h; simp [Map.get?] at h, by intro p _; exact ⟨by intro j; simp [vp], by simp⟩, by simp⟩

private theorem mdAt_self (cfgs : List MinionCfg) (j : Nat) : beats (mdAt cfgs j) (mdAt cfgs j) = false := beats_irrefl _

/-- One claim. -/
theorem PInv.step (a : MinAcc) (log : List (Nat × String)) (self : Nat) (m : Meta) (p : String)
    (h : PInv a log) (hs : self < a.cfgs.length) (hm : mdAt a.cfgs self = m) :
    PInv (minionPath self m a p) (log ++ [(self, p)]) := by
  unfold minionPath
  cases hp : a.paths.get? p with
  | none =>
    -- nobody holds the path: the claimant takes it
    simp only
    obtain ⟨hfree, hnolog⟩ := h.free p hp
    refine ⟨?_, ?_, ?_⟩
    · intro q i hq
      rw [Map.get?_set] at hq
      by_cases hqp : q = p
      · subst hqp
        simp only [if_true, Option.some.injEq] at hq
        subst hq
        refine ⟨by simpa [length_setValid] using hs, by simp, ?_, ?_, ?_⟩
        · rw [vp_setValid]; simp [hs]
        · intro j hj; rw [vp_setValid]; simp [hj]; exact hfree j
        · intro j hj
          rcases List.mem_append.mp hj with h1 | h1
          · exact absurd h1 (hnolog j)
          · simp at h1; subst h1; exact mdAt_self _ _
      · simp only [hqp, if_false] at hq
        obtain ⟨h1, h2, h3, h4, h5⟩ := h.held q i hq
        refine ⟨by simpa [length_setValid] using h1, List.mem_append_left _ h2, ?_, ?_, ?_⟩
        · rw [vp_setValid]; simp [hqp, h3]
        · intro j hj; rw [vp_setValid]; simp [hqp]; exact h4 j hj
        · intro j hj
          rw [mdAt_setValid, mdAt_setValid]
          rcases List.mem_append.mp hj with h6 | h6
          · exact h5 j h6
          · simp at h6; exact absurd h6.2 hqp
    · intro q hq
      rw [Map.get?_set] at hq
      by_cases hqp : q = p
      · simp [hqp] at hq
      · simp only [hqp, if_false] at hq
        obtain ⟨h1, h2⟩ := h.free q hq
        refine ⟨?_, ?_⟩
        · intro j; rw [vp_setValid]; simp [hqp]; exact h1 j
        · intro j hj
          rcases List.mem_append.mp hj with h6 | h6
          · exact h2 j h6
          · simp at h6; exact hqp h6.2
    · intro j q hj
      rw [length_setValid]
      rcases List.mem_append.mp hj with h6 | h6
      · exact h.bound j q h6
      · simp at h6; rw [h6.1]; exact hs
  | some hi =>
    simp only
    obtain ⟨hhi, hlog, hval, hothers, hbest⟩ := h.held p hi hp
    by_cases hself : hi = self
    · -- the same minion lists the path again
      simp only [hself, if_true]
      subst hself
      refine ⟨?_, ?_, ?_⟩
      · intro q i hq
        obtain ⟨h1, h2, h3, h4, h5⟩ := h.held q i hq
        refine ⟨h1, List.mem_append_left _ h2, h3, h4, ?_⟩
        intro j hj
        rcases List.mem_append.mp hj with h6 | h6
        · exact h5 j h6
        · simp at h6
          obtain ⟨rfl, rfl⟩ := h6
          rw [hp] at hq; simp at hq; subst hq; exact mdAt_self _ _
      · intro q hq
        obtain ⟨h1, h2⟩ := h.free q hq
        refine ⟨h1, ?_⟩
        intro j hj
        rcases List.mem_append.mp hj with h6 | h6
        · exact h2 j h6
        · simp at h6; rw [h6.2, hp] at hq; cases hq
      · intro j q hj
        rcases List.mem_append.mp hj with h6 | h6
        · exact h.bound j q h6
        · simp at h6; rw [h6.1]; exact hs
    · simp only [hself, if_false]
      cases hc : a.cfgs[hi]? with
      | none => exact absurd (List.getElem?_eq_none_iff.mp hc) (by omega)
      | some holder =>
        have hmd : mdAt a.cfgs hi = holder.md := by simp [mdAt, hc]
        simp only
        by_cases hb : beats holder.md m = true
        · -- the holder beats the claimant: nothing moves
          simp only [hb, Bool.not_true, Bool.false_eq_true, if_false]
          refine ⟨?_, ?_, ?_⟩
          · intro q i hq
            obtain ⟨h1, h2, h3, h4, h5⟩ := h.held q i hq
            refine ⟨h1, List.mem_append_left _ h2, h3, h4, ?_⟩
            intro j hj
            rcases List.mem_append.mp hj with h6 | h6
            · exact h5 j h6
            · simp at h6
              obtain ⟨rfl, rfl⟩ := h6
              rw [hp] at hq; simp at hq; subst hq
              rw [hm, hmd]; exact beats_asymm hb
          · intro q hq
            obtain ⟨h1, h2⟩ := h.free q hq
            refine ⟨h1, ?_⟩
            intro j hj
            rcases List.mem_append.mp hj with h6 | h6
            · exact h2 j h6
            · simp at h6; rw [h6.2, hp] at hq; cases hq
          · intro j q hj
            rcases List.mem_append.mp hj with h6 | h6
            · exact h.bound j q h6
            · simp at h6; rw [h6.1]; exact hs
        · -- the claimant is not beaten by the holder: it takes the path, the holder loses it
          have hb' : beats holder.md m = false := by simpa using hb
          simp only [hb', Bool.not_false, if_true]
          have hne : self ≠ hi := fun e => hself e.symm
          refine ⟨?_, ?_, ?_⟩
          · intro q i hq
            rw [Map.get?_set] at hq
            by_cases hqp : q = p
            · subst hqp
              simp only [if_true, Option.some.injEq] at hq
              subst hq
              refine ⟨by simpa [length_setValid] using hs, by simp, ?_, ?_, ?_⟩
              · rw [vp_setValid, vp_setValid]; simp [hne, hs]
              · intro j hj
                rw [vp_setValid, vp_setValid]
                by_cases hjh : j = hi
                · simp [hjh, length_setValid, hhi]
                · simp [hjh, hj]; exact hothers j hjh
              · intro j hj
                simp only [mdAt_setValid]
                rcases List.mem_append.mp hj with h6 | h6
                · have := hbest j h6
                  rw [hm]; rw [hmd] at this
                  -- nobody in the log beats the old holder, and the old holder does not beat the claimant
                  exact beats_ge_trans (a := m) (b := holder.md) (c := mdAt a.cfgs j) hb' this
                · simp at h6; rw [h6]; exact mdAt_self _ _
            · simp only [hqp, if_false] at hq
              obtain ⟨h1, h2, h3, h4, h5⟩ := h.held q i hq
              refine ⟨by simpa [length_setValid] using h1, List.mem_append_left _ h2, ?_, ?_, ?_⟩
              · rw [vp_setValid, vp_setValid]; simp [hqp, h3]
              · intro j hj; rw [vp_setValid, vp_setValid]; simp [hqp]; exact h4 j hj
              · intro j hj
                simp only [mdAt_setValid]
                rcases List.mem_append.mp hj with h6 | h6
                · exact h5 j h6
                · simp at h6; exact absurd h6.2 hqp
          · intro q hq
            rw [Map.get?_set] at hq
            by_cases hqp : q = p
            · simp [hqp] at hq
            · simp only [hqp, if_false] at hq
              obtain ⟨h1, h2⟩ := h.free q hq
              refine ⟨?_, ?_⟩
              · intro j; rw [vp_setValid, vp_setValid]; simp [hqp]; exact h1 j
              · intro j hj
                rcases List.mem_append.mp hj with h6 | h6
                · exact h2 j h6
                · simp at h6; exact hqp h6.2
          · intro j q hj
            simp only [length_setValid]
            rcases List.mem_append.mp hj with h6 | h6
            · exact h.bound j q h6
            · simp at h6; rw [h6.1]; exact hs

/-! ### lifting the step through the two folds -/

theorem mdAt_of_map (cfgs : List MinionCfg) (j : Nat) : mdAt cfgs j = ((cfgs.map (·.md))[j]?).getD default := by
  simp [mdAt, List.getElem?_map]

theorem mdAt_congr {c1 c2 : List MinionCfg} (h : c1.map (·.md) = c2.map (·.md)) (j : Nat) : mdAt c1 j = mdAt c2 j := by
  rw [mdAt_of_map, mdAt_of_map, h]

theorem length_congr {c1 c2 : List MinionCfg} (h : c1.map (·.md) = c2.map (·.md)) : c1.length = c2.length := by
  have := congrArg List.length h; simpa using this

/-- All the paths of one minion. -/
theorem PInv.paths (ps : List String) (a : MinAcc) (log : List (Nat × String)) (self : Nat) (m : Meta)
    (h : PInv a log) (hs : self < a.cfgs.length) (hm : mdAt a.cfgs self = m) :
    PInv (ps.foldl (minionPath self m) a) (log ++ ps.map (fun p => (self, p))) := by
  induction ps generalizing a log with
  | nil => simpa using h
  | cons p ps ih =>
    simp only [List.foldl_cons, List.map_cons]
    have h1 := PInv.step a log self m p h hs hm
    have hmd := minionPath_md self m a p
    have := ih (minionPath self m a p) (log ++ [(self, p)]) h1
      (by rw [length_congr hmd]; exact hs) (by rw [mdAt_congr hmd]; exact hm)
    simpa [List.append_assoc] using this

/-- A new minion enters with no verdicts. -/
theorem PInv.push (a : MinAcc) (log : List (Nat × String)) (c : MinionCfg) (hc : c.validPaths = [])
    (h : PInv a log) : PInv { a with cfgs := a.cfgs ++ [c] } log := by
  have hvp : ∀ j p, vp (a.cfgs ++ [c]) j p = vp a.cfgs j p := by
    intro j p
    unfold vp
    by_cases hj : j < a.cfgs.length
    · rw [List.getElem?_append_left hj]
    · have hj' : a.cfgs.length ≤ j := by omega
      rw [List.getElem?_append_right hj', List.getElem?_eq_none_iff.mpr hj']
      cases hh : [c][j - a.cfgs.length]? with
      | none => rfl
      | some x =>
        have : x = c := by
          have hl := (List.getElem?_eq_some_iff.mp hh)
          obtain ⟨hlt, he⟩ := hl
          simp at hlt
          simp [hlt] at he
          exact he.symm
        subst this
        simp [hc, Map.get?]
  have hmd : ∀ j, j < a.cfgs.length → mdAt (a.cfgs ++ [c]) j = mdAt a.cfgs j := by
    intro j hj; unfold mdAt; rw [List.getElem?_append_left hj]
  refine ⟨?_, ?_, ?_⟩
  · intro p i hp
    obtain ⟨h1, h2, h3, h4, h5⟩ := h.held p i hp
    refine ⟨by simp; omega, h2, by rw [hvp]; exact h3, by intro j hj; rw [hvp]; exact h4 j hj, ?_⟩
    intro j hj
    rw [hmd j (h.bound j p hj), hmd i h1]
    exact h5 j hj
  · intro p hp
    obtain ⟨h1, h2⟩ := h.free p hp
    exact ⟨by intro j; rw [hvp]; exact h1 j, h2⟩
  · intro j p hj
    have := h.bound j p hj
    simp; omega

def firstPaths (i : Ing) : List String := match i.rules with | [] => [] | (_, ps) :: _ => ps

/-- The claims of a list of Ingresses, in processing order; minion indices start at `n`. -/
def claimLog (host : String) : List (String × Ing) → Nat → List (Nat × String)
  | [], _ => []
  | kv :: r, n =>
    if isMinionOf host kv then (firstPaths kv.2).map (fun p => (n, p)) ++ claimLog host r (n + 1)
    else claimLog host r n

theorem minionStep_length (host : String) (a : MinAcc) (kv : String × Ing) :
    (minionStep host a kv).cfgs.length = a.cfgs.length + (if isMinionOf host kv then 1 else 0) := by
  have := congrArg List.length (minionStep_md host a kv)
  simp only [List.length_map, List.length_append] at this
  rw [this]; split <;> simp

theorem PInv.minion (host : String) (a : MinAcc) (log : List (Nat × String)) (kv : String × Ing) (h : PInv a log) :
    PInv (minionStep host a kv)
      (log ++ (if isMinionOf host kv then (firstPaths kv.2).map (fun p => (a.cfgs.length, p)) else [])) := by
  unfold minionStep isMinionOf firstPaths
  by_cases hm : isMinion kv.2 = true
  · simp only [hm, Bool.not_true, Bool.false_eq_true, if_false, Bool.true_and]
    cases hr : kv.2.rules with
    | nil => simpa using h
    | cons rule rest =>
      obtain ⟨hh, paths⟩ := rule
      by_cases hhost : host = hh
      · simp only [hhost, decide_true, if_true, ne_eq, not_true_eq_false, if_false]
        have hpush := PInv.push a log { md := kv.2.md, validPaths := [] } rfl h
        exact PInv.paths paths _ log a.cfgs.length kv.2.md hpush (by simp) (by simp [mdAt])
      · simp only [hhost, decide_false, ne_eq, not_false_eq_true, if_true, Bool.false_eq_true, if_false]
        simpa using h
  · have hm' : isMinion kv.2 = false := by simpa using hm
    simp only [hm', Bool.not_false, if_true, Bool.false_and, Bool.false_eq_true, if_false]
    simpa using h

theorem PInv.fold (host : String) (l : List (String × Ing)) (a : MinAcc) (log : List (Nat × String)) (h : PInv a log) :
    PInv (l.foldl (minionStep host) a) (log ++ claimLog host l a.cfgs.length) := by
  induction l generalizing a log with
  | nil => simpa [claimLog] using h
  | cons kv r ih =>
    simp only [List.foldl_cons, claimLog]
    have h1 := PInv.minion host a log kv h
    have h2 := ih _ _ h1
    rw [minionStep_length] at h2
    by_cases hk : isMinionOf host kv = true
    · simp only [hk, if_true] at h2 ⊢
      simpa [List.append_assoc] using h2
    · have hk' : isMinionOf host kv = false := by simpa using hk
      simp only [hk', Bool.false_eq_true, if_false, List.append_nil, Nat.add_zero] at h2 ⊢
      exact h2

/-- Who is in the claim log: minion number `k` of the list (counting minions of the host only) with each of its paths. -/
theorem mem_claimLog (host : String) (l : List (String × Ing)) (n j : Nat) (p : String) :
    (j, p) ∈ claimLog host l n ↔
      ∃ k, j = n + k ∧ ∃ hk : k < (l.filter (isMinionOf host)).length, p ∈ firstPaths ((l.filter (isMinionOf host))[k]).2 := by
  induction l generalizing n with
  | nil => simp [claimLog]
  | cons kv r ih =>
    simp only [claimLog]
    by_cases hk : isMinionOf host kv = true
    · simp only [hk, if_true, List.mem_append, List.mem_map, Prod.mk.injEq, List.filter_cons]
      rw [ih]
      constructor
      · rintro (⟨q, hq, rfl, rfl⟩ | ⟨k, rfl, hk2, hp⟩)
        · exact ⟨0, by simp, by simp, by simpa using hq⟩
        · exact ⟨k + 1, by omega, by simpa using hk2, by simpa using hp⟩
      · rintro ⟨k, rfl, hk2, hp⟩
        cases k with
        | zero => left; exact ⟨p, by simpa using hp, by simp, rfl⟩
        | succ k => right; exact ⟨k, by omega, by simpa using hk2, by simpa using hp⟩
    · have hk' : isMinionOf host kv = false := by simpa using hk
      simp only [hk', Bool.false_eq_true, if_false, List.filter_cons]
      exact ih n

/-! ### the property -/

/-- **Every path claimed under a master's host is served by exactly one minion, and no claimant beats that minion**
(`beats` = older creation time, on a tie the greater UID): for every set of Ingresses, every host, every minion `j` of that host
and every path `p` it lists, there is a minion `i` of the host that lists `p`, is the only one whose `ValidPaths[p]` is true,
and is not beaten by any minion that lists `p`. Minions are numbered in key order as in `minions_eq_spec`. -/
theorem path_served_by_oldest_claimant (ings : Map Ing) (host : String) (j : Nat) (p : String)
    (hj : j < (ings.filter (isMinionOf host)).length)
    (hp : p ∈ firstPaths ((ings.filter (isMinionOf host))[j]).2) :
    ∃ i, ∃ hi : i < (ings.filter (isMinionOf host)).length,
      p ∈ firstPaths ((ings.filter (isMinionOf host))[i]).2 ∧
      vp (buildMinions ings host).1 i p = some true ∧
      (∀ k, k ≠ i → vp (buildMinions ings host).1 k p ≠ some true) ∧
      (∀ k, ∀ hk : k < (ings.filter (isMinionOf host)).length,
        p ∈ firstPaths ((ings.filter (isMinionOf host))[k]).2 →
        beats ((ings.filter (isMinionOf host))[k]).2.md ((ings.filter (isMinionOf host))[i]).2.md = false) := by
  have hinv := PInv.fold host ings {} [] PInv.init
  simp only [List.nil_append] at hinv
  have hzero : ({} : MinAcc).cfgs.length = 0 := rfl
  rw [hzero] at hinv
  have hmds := minions_eq_spec ings host
  unfold buildMinions at hmds ⊢
  simp only at hmds ⊢
  generalize hfin : List.foldl (minionStep host) {} ings = fin at hinv hmds
  -- metadata of the k-th configuration = metadata of the k-th minion
  have hmdAt : ∀ k (hk : k < (ings.filter (isMinionOf host)).length),
      mdAt fin.cfgs k = ((ings.filter (isMinionOf host))[k]).2.md := by
    intro k hk
    rw [mdAt_of_map, hmds]
    simp [List.getElem?_map, List.getElem?_eq_getElem hk]
  have hjlog : (j, p) ∈ claimLog host ings 0 := (mem_claimLog host ings 0 j p).mpr ⟨j, by simp, hj, hp⟩
  -- somebody holds the path
  cases hg : fin.paths.get? p with
  | none => exact absurd hjlog ((hinv.free p hg).2 j)
  | some i =>
    obtain ⟨_, hil, hval, hoth, hbest⟩ := hinv.held p i hg
    obtain ⟨k, hk0, hk1, hk2⟩ := (mem_claimLog host ings 0 i p).mp hil
    have hik : i = k := by omega
    subst hik
    refine ⟨i, hk1, hk2, hval, hoth, ?_⟩
    intro k hk hpk
    have := hbest k ((mem_claimLog host ings 0 k p).mpr ⟨k, by simp, hk, hpk⟩)
    rw [hmdAt k hk, hmdAt i hk1] at this
    exact this

/-- With distinct UIDs the minion that serves a path beats every other claimant: it is *the* oldest one. -/
theorem path_holder_beats_others (ings : Map Ing) (host : String) (i k : Nat) (p : String)
    (hi : i < (ings.filter (isMinionOf host)).length) (hk : k < (ings.filter (isMinionOf host)).length)
    (hserves : vp (buildMinions ings host).1 i p = some true)
    (hpk : p ∈ firstPaths ((ings.filter (isMinionOf host))[k]).2)
    (huid : ((ings.filter (isMinionOf host))[k]).2.md.uid ≠ ((ings.filter (isMinionOf host))[i]).2.md.uid) :
    beats ((ings.filter (isMinionOf host))[i]).2.md ((ings.filter (isMinionOf host))[k]).2.md = true := by
  obtain ⟨i', hi', _, hv', hoth, hbest⟩ := path_served_by_oldest_claimant ings host k p hk hpk
  have : i = i' := by
    by_cases e : i = i'
    · exact e
    · exact absurd hserves (hoth i e)
  subst this
  exact not_beats huid (hbest k hk hpk)

/-! ### non-vacuity: two minions claim `/p`, the older one (m2) serves it, the younger one lost it -/

private def mA : Meta := { ns := "d", name := "m1", uid := 1, ts := 2, gen := 1 }
private def mB : Meta := { ns := "d", name := "m2", uid := 2, ts := 1, gen := 1 }
private def ingsX : Map Ing :=
  [("d/m1", { md := mA, kind := .minion, chal := false, rules := [("a.ex", ["/p"])] }),
   ("d/m2", { md := mB, kind := .minion, chal := false, rules := [("a.ex", ["/p", "/q"])] })]

example : (ingsX.filter (isMinionOf "a.ex")).length = 2 := by decide
example : "/p" ∈ firstPaths ((ingsX.filter (isMinionOf "a.ex"))[0]'(by decide)).2 := by decide
example : vp (buildMinions ingsX "a.ex").1 1 "/p" = some true ∧ vp (buildMinions ingsX "a.ex").1 0 "/p" = some false ∧
    vp (buildMinions ingsX "a.ex").1 1 "/q" = some true := by decide

end Nic.Arb
