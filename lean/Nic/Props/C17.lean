/-
  C17 — no admissible Ingress makes validation, arbitration or generation dereference a nil pointer.
-/
import Nic.Model.Shapes

namespace Nic.Shapes

theorem challenge_never_panics (i : Ing) : ∃ n, validateChallenge i = .ok n := by
  unfold validateChallenge
  split
  · split
    · split <;> exact ⟨_, rfl⟩
    · exact ⟨_, rfl⟩
  · exact ⟨_, rfl⟩

/-- **validate_never_panics**: validation of any Ingress — admissible or not, of any mergeable type, challenge or not —
returns a verdict. -/
theorem validate_never_panics (i : Ing) : ∃ n, validate i = .ok n := by
  unfold validate
  by_cases hc : i.challenge = true
  · obtain ⟨n, hn⟩ := challenge_never_panics i
    simp only [hc, if_true, hn]
    exact ⟨_, rfl⟩
  · simp only [hc]
    exact ⟨_, rfl⟩

/-- **S-C17-a, the model's witness** (fixed): before the fix an admissible challenge Ingress with a resource backend panicked. -/
theorem old_validation_panics :
    (⟨[⟨"a.ex", some [⟨⟨none, some "bucket"⟩⟩]⟩], none, 0, true, .regular⟩ : Ing).admissible = true ∧
    validateOld ⟨[⟨"a.ex", some [⟨⟨none, some "bucket"⟩⟩]⟩], none, 0, true, .regular⟩ = .error () :=
  ⟨rfl, rfl⟩

private theorem sum_eq_zero {l : List Nat} (h : l.sum = 0) : ∀ x ∈ l, x = 0 := by
  induction l with
  | nil => intro x hx; cases hx
  | cons a as ih =>
    simp only [List.sum_cons] at h
    intro x hx
    simp only [List.mem_cons] at hx
    rcases hx with rfl | hx
    · omega
    · exact ih (by omega) x hx

/-- An admissible backend that validation accepts has a Service. -/
private theorem backend_has_service (b : Backend) (ha : b.admissible = true) (hv : validateBackend b = 0) :
    ∃ s, b.service = some s := by
  unfold validateBackend at hv
  unfold Backend.admissible at ha
  cases hs : b.service with
  | some s => exact ⟨s, rfl⟩
  | none =>
    cases hr : b.resource with
    | some r => simp [hr] at hv
    | none => simp [hs, hr] at ha

/-- **accepted_then_safe**: an admissible Ingress that validation accepts (no error) is arbitrated and generated without
any nil dereference — for any number of rules and paths, with or without default backend, of any mergeable type,
challenge or not. -/
theorem accepted_then_safe (i : Ing) (ha : i.admissible = true) (hv : validate i = .ok 0) : generate i = .ok () := by
  unfold validate at hv
  have hcase : ∃ c, (if i.challenge = true then validateChallenge i else Except.ok 0) = Except.ok c ∧
      validateSpec i + mergeableErrors i + c = 0 := by
    cases hcc : (if i.challenge = true then validateChallenge i else Except.ok 0) with
    | error e => rw [hcc] at hv; cases hv
    | ok c =>
      rw [hcc] at hv
      simp only [Except.ok.injEq] at hv
      exact ⟨c, rfl, hv⟩
  obtain ⟨c, hc, hsum⟩ := hcase
  have hspec : validateSpec i = 0 := by omega
  have hm : mergeableErrors i = 0 := by omega
  have hc0 : c = 0 := by omega
  subst hc0
  unfold Ing.admissible at ha
  simp only [Bool.and_eq_true, List.all_eq_true] at ha
  obtain ⟨had, har⟩ := ha
  unfold validateSpec at hspec
  have hne : i.rules.isEmpty = false := by
    cases h : i.rules.isEmpty
    · rfl
    · rw [h] at hspec; simp at hspec
  rw [hne] at hspec
  simp only [Bool.false_eq_true, if_false] at hspec
  have hd0 : defaultErrors i = 0 := by omega
  have hr0 : ∀ x ∈ i.rules.map ruleErrors, x = 0 := sum_eq_zero (by omega)
  -- every path of every rule has a Service
  have hpaths : ∀ r ∈ i.rules, ∀ ps, r.http = some ps → ∀ p ∈ ps, ∃ s, p.backend.service = some s := by
    intro r hr ps hps p hp
    have h1 := hr0 _ (List.mem_map.mpr ⟨r, hr, rfl⟩)
    simp only [ruleErrors, hps] at h1
    have h2 := sum_eq_zero h1 _ (List.mem_map.mpr ⟨p, hp, rfl⟩)
    have h3 := har r hr
    simp only [hps, Bool.and_eq_true, List.all_eq_true] at h3
    exact backend_has_service p.backend (h3.2 p hp) h2
  unfold generate
  suffices h : derefsOk i = true by rw [h]; rfl
  unfold derefsOk
  simp only [Bool.and_eq_true]
  refine ⟨⟨?_, ?_⟩, ?_⟩
  · cases hdb : i.defaultBackend with
    | none => rfl
    | some b =>
      simp only [defaultErrors, hdb] at hd0 had
      obtain ⟨s, hs⟩ := backend_has_service b had hd0
      simp [hs]
  · rw [List.all_eq_true]
    intro r hr
    cases hh : r.http with
    | none => rfl
    | some ps =>
      simp only [List.all_eq_true]
      intro p hp
      obtain ⟨s, hs⟩ := hpaths r hr ps hh p hp
      simp [hs]
  · by_cases hsp : (i.mtype ≠ .regular || i.challenge) = true
    · rw [if_pos hsp]
      cases hrules : i.rules with
      | nil => rw [hrules] at hne; simp at hne
      | cons r rest =>
        simp only [List.head?_cons]
        have hmin : i.mtype = .minion → ∃ ps, r.http = some ps := by
          intro hmt
          unfold mergeableErrors at hm
          rw [hmt] at hm
          simp only [validateMinion, hrules] at hm
          cases rest with
          | nil =>
            cases hh : r.http with
            | none => simp [hh] at hm
            | some ps => exact ⟨ps, rfl⟩
          | cons _ _ => simp at hm
        have hch : i.challenge = true → ∃ p ps' s, r.http = some (p :: ps') ∧ p.backend.service = some s := by
          intro hct
          rw [hct] at hc
          simp only [if_true, validateChallenge, hrules] at hc
          cases rest with
          | nil =>
            cases hh : r.http with
            | none => simp [hh] at hc
            | some ps =>
              cases ps with
              | nil => simp [hh] at hc
              | cons p ps' =>
                cases ps' with
                | nil =>
                  cases hs : p.backend.service with
                  | none => simp [hh, hs] at hc
                  | some s => exact ⟨p, [], s, rfl, hs⟩
                | cons _ _ => simp [hh] at hc
          | cons _ _ => simp at hc
        simp only [Bool.and_eq_true]
        constructor
        · by_cases hmt : i.mtype = .minion
          · obtain ⟨ps, hps⟩ := hmin hmt
            simp [hmt, hps]
          · simp [hmt]
        · by_cases hct : i.challenge = true
          · obtain ⟨p, ps', s, hps2, hs⟩ := hch hct
            simp [hct, hps2, hs]
          · simp [hct]
    · rw [if_neg hsp]

/-- Without the API server's "exactly one of service / resource" rule the implication is false: a backend with neither is
accepted by validation and dereferenced by generation (such an object cannot be admitted, so this is not a finding). -/
theorem inadmissible_backend_breaks :
    (⟨[⟨"a.ex", some [⟨⟨none, none⟩⟩]⟩], none, 0, false, .regular⟩ : Ing).admissible = false ∧
    validate ⟨[⟨"a.ex", some [⟨⟨none, none⟩⟩]⟩], none, 0, false, .regular⟩ = .ok 0 ∧
    generate ⟨[⟨"a.ex", some [⟨⟨none, none⟩⟩]⟩], none, 0, false, .regular⟩ = .error () :=
  ⟨rfl, rfl, rfl⟩

example : (⟨[⟨"a.ex", some [⟨⟨some ⟨"s", "", 80⟩, none⟩⟩]⟩], none, 0, false, .regular⟩ : Ing).admissible = true := by decide

end Nic.Shapes
