/-
  C19 — App Protect arbitration: one signature set per tag, policy valid iff satisfiable.
-/
import Nic.Spec.AppProtect
import Nic.Model.Dos
import Nic.Lemmas.MapLemmas

namespace Nic.AP
open Nic.Arb (Map beats)

/-- The member selected as winner of a tag group is a member and beats every other member
(oldest, ties by UID): exactly one signature set per tag can be in force. -/
theorem winner_is_champion (g : List (String × SigEx)) (k : String) (h : winnerKey g = some k) :
    ∃ e, (k, e) ∈ g ∧ ∀ kv ∈ g, kv.1 = k ∨ beats e.sig.md kv.2.sig.md = true := by
  unfold winnerKey at h
  cases hf : g.find? (fun kv => g.all fun kv' => kv'.1 = kv.1 || beats kv.2.sig.md kv'.2.sig.md) with
  | none => simp [hf] at h
  | some kv =>
    simp [hf] at h
    have hm := List.mem_of_find?_eq_some hf
    have hp := List.find?_some hf
    obtain ⟨k0, e⟩ := kv
    simp only at h; subst h
    refine ⟨e, hm, fun kv' hkv' => ?_⟩
    have := (List.all_eq_true.mp hp) kv' hkv'
    simpa using this

private theorem map_get? {α} (m : Map α) (f : String × α → α) (k : String) :
    Map.get? (m.map fun kv => (kv.1, f kv)) k = (m.get? k).map fun v => f (k, v) := by
  induction m with
  | nil => rfl
  | cons a r ih =>
    obtain ⟨k', v⟩ := a
    simp only [List.map_cons, Map.get?]
    by_cases e : k' = k
    · subst e; simp
    · simp [e, ih]

/-- **After every reconciliation a tagged, schema-valid signature set is valid iff it is the winner
of its tag group** — the flag is recomputed from the current objects, whatever it was before. -/
theorem reconcile_flags (sigs : Map SigEx) (k : String) (e : SigEx) (he : sigs.get? k = some e)
    (ht : e.tag ≠ "") (hv : e.err ≠ "validation") :
    ∃ e', (reconcile sigs).1.get? k = some e' ∧ (e'.valid = true ↔ winnerKey (group sigs e.tag) = some k) := by
  have hmap : (reconcile sigs).1 = sigs.map fun kv =>
      (kv.1, (fun (kv : String × SigEx) =>
        if kv.2.tag = "" || kv.2.err = "validation" then kv.2 else
        if winnerKey (group sigs kv.2.tag) = some kv.1 then { kv.2 with valid := true, err := "" }
        else if kv.2.valid then { kv.2 with valid := false, err := "dup-tag" } else kv.2) kv) := by
    unfold reconcile
    simp only
    apply List.map_congr_left
    intro kv _
    by_cases h1 : (kv.2.tag = "" || kv.2.err = "validation") = true
    · simp [h1]
    · simp only [h1, Bool.false_eq_true, if_false]
      by_cases h2 : winnerKey (group sigs kv.2.tag) = some kv.1
      · simp [h2]
      · simp only [h2, if_false]
        by_cases h3 : kv.2.valid = true <;> simp [h3]
  rw [hmap, map_get?, he]
  simp only [Option.map_some]
  have h1 : ¬ ((e.tag = "" || e.err = "validation") = true) := by simp [ht, hv]
  simp only [h1, if_false]
  by_cases h2 : winnerKey (group sigs e.tag) = some k
  · refine ⟨{ e with valid := true, err := "" }, by simp [h2], by simp [h2]⟩
  · simp only [h2, if_false]
    by_cases h3 : e.valid = true
    · refine ⟨{ e with valid := false, err := "dup-tag" }, by simp [h3], by simp [h2]⟩
    · refine ⟨e, by simp [h3], ?_⟩
      simp [h2]; simpa using h3

/-- Untagged or schema-invalid signature sets are never touched by the tag arbitration. -/
theorem reconcile_untouched (sigs : Map SigEx) (k : String) (e : SigEx) (he : sigs.get? k = some e)
    (h : e.tag = "" ∨ e.err = "validation") : (reconcile sigs).1.get? k = some e := by
  have hmap : (reconcile sigs).1 = sigs.map fun kv =>
      (kv.1, (fun (kv : String × SigEx) =>
        if kv.2.tag = "" || kv.2.err = "validation" then kv.2 else
        if winnerKey (group sigs kv.2.tag) = some kv.1 then { kv.2 with valid := true, err := "" }
        else if kv.2.valid then { kv.2 with valid := false, err := "dup-tag" } else kv.2) kv) := by
    unfold reconcile
    simp only
    apply List.map_congr_left
    intro kv _
    by_cases h1 : (kv.2.tag = "" || kv.2.err = "validation") = true
    · simp [h1]
    · simp only [h1, Bool.false_eq_true, if_false]
      by_cases h2 : winnerKey (group sigs kv.2.tag) = some kv.1
      · simp [h2]
      · simp only [h2, if_false]
        by_cases h3 : kv.2.valid = true <;> simp [h3]
  rw [hmap, map_get?, he]
  have h1 : (e.tag = "" || e.err = "validation") = true := by rcases h with h | h <;> simp [h]
  simp only [Option.map_some, h1, if_true]

/-- **After `verifyPolicies` a well-formed policy is usable iff all its requirements are satisfied
by signature sets in force** — usability is recomputed, not patched. -/
theorem verifyPolicies_flags (pols : Map PolEx) (sigs : Map SigEx) (k : String) (p : PolEx)
    (hp : pols.get? k = some p) (hw : p.valid = true ∨ p.err = "missing-sig") :
    ∃ p', (verifyPolicies pols sigs).1.get? k = some p' ∧ (p'.valid = true ↔ polSatisfied p.pol sigs = true) := by
  have hmap : (verifyPolicies pols sigs).1 = pols.map fun kv =>
      (kv.1, (fun (kv : String × PolEx) =>
        if !kv.2.valid && kv.2.err = "missing-sig" then
          (if polSatisfied kv.2.pol sigs then { kv.2 with valid := true, err := "" } else kv.2)
        else if kv.2.valid then
          (if !(polSatisfied kv.2.pol sigs) then { kv.2 with valid := false, err := "missing-sig" } else kv.2)
        else kv.2) kv) := by
    unfold verifyPolicies
    simp only
    apply List.map_congr_left
    intro kv _
    by_cases h1 : (!kv.2.valid && decide (kv.2.err = "missing-sig")) = true
    · simp only [h1, if_true]; by_cases h2 : polSatisfied kv.2.pol sigs = true <;> simp [h2]
    · simp only [h1, Bool.false_eq_true, if_false]
      by_cases h3 : kv.2.valid = true
      · simp only [h3, if_true]; by_cases h2 : polSatisfied kv.2.pol sigs = true <;> simp [h2]
      · simp [h3]
  rw [hmap, map_get?, hp]
  simp only [Option.map_some]
  by_cases hv : p.valid = true
  · have h1 : ¬ ((!p.valid && decide (p.err = "missing-sig")) = true) := by simp [hv]
    simp only [h1, if_false, hv, if_true]
    by_cases h2 : polSatisfied p.pol sigs = true
    · exact ⟨p, by simp [h2], by simp [h2, hv]⟩
    · refine ⟨{ p with valid := false, err := "missing-sig" }, by simp [h2], by simp [h2]⟩
  · have hv' : p.valid = false := by simpa using hv
    have he : p.err = "missing-sig" := by rcases hw with h | h; exact absurd h hv; exact h
    have h1 : (!p.valid && decide (p.err = "missing-sig")) = true := by simp [hv', he]
    simp only [h1, if_true]
    by_cases h2 : polSatisfied p.pol sigs = true
    · refine ⟨{ p with valid := true, err := "" }, by simp [h2], by simp [h2]⟩
    · exact ⟨p, by simp [h2], by simp [h2, hv']⟩

/-- **Every change of a policy's usability is reported**: the lists handed back by a signature
event are exactly the policies switched on and the policies switched off. -/
theorem flips_reported (pols : Map PolEx) (sigs : Map SigEx) (k : String) :
    (k ∈ (verifyPolicies pols sigs).2.1 ↔
      ∃ p, (k, p) ∈ pols ∧ p.valid = false ∧ p.err = "missing-sig" ∧ polSatisfied p.pol sigs = true) ∧
    (k ∈ (verifyPolicies pols sigs).2.2 ↔
      ∃ p, (k, p) ∈ pols ∧ p.valid = true ∧ polSatisfied p.pol sigs = false) := by
  unfold verifyPolicies
  simp only [List.mem_map, List.mem_filter, Bool.and_eq_true, Bool.not_eq_true', decide_eq_true_eq]
  constructor
  · constructor
    · rintro ⟨⟨k', p⟩, ⟨hm, ⟨h1, h2⟩, h3⟩, rfl⟩; exact ⟨p, hm, h1, h2, h3⟩
    · rintro ⟨p, hm, h1, h2, h3⟩; exact ⟨(k, p), ⟨hm, ⟨h1, h2⟩, h3⟩, rfl⟩
  · constructor
    · rintro ⟨⟨k', p⟩, ⟨hm, h1, h2⟩, rfl⟩; exact ⟨p, hm, h1, h2⟩
    · rintro ⟨p, hm, h1, h2⟩; exact ⟨(k, p), ⟨hm, h1, h2⟩, rfl⟩

/-- A requirement that only names a tag accepts the in-force signature set whatever its revision
(the defect S-C19-a was here). -/
theorem tag_only_requirement (t : String) (s : SigEx) :
    reqSatisfiedBy ⟨t, none, none⟩ s = (decide (s.tag ≠ "") && decide (s.tag = t)) := by
  unfold reqSatisfiedBy
  by_cases h1 : s.tag = "" <;> by_cases h2 : s.tag = t <;> simp [h1, h2] <;> cases s.sig.rev <;> simp

/-- Revision bounds are strict on both sides and each bound applies only if present. -/
theorem revision_bounds (t : String) (mn mx : Option Nat) (s : SigEx) (rev : Nat)
    (ht : s.tag = t) (hne : s.tag ≠ "") (hr : s.sig.rev = some rev) :
    reqSatisfiedBy ⟨t, mn, mx⟩ s =
      ((match mn with | some a => decide (a < rev) | none => true) &&
       (match mx with | some b => decide (rev < b) | none => true)) := by
  unfold reqSatisfiedBy
  simp only [hne, ht ▸ hne, Bool.or_false]
  have : ¬ (s.tag ≠ t) := by simp [ht]
  simp [ht, hr]
  cases mn <;> cases mx <;> simp [Bool.and_comm]
  all_goals (first | rfl | (subst ht; simp_all))

end Nic.AP

namespace Nic.Dos
open Nic.Arb (Map)

/-- **A DosProtectedResource is usable exactly when it is stored and valid and the policy and log
configuration it names exist and are valid** — resolved in *its own* namespace. -/
theorem usable_iff (s : St) (pns ref : String) :
    (getValid s pns ref).isSome = true ↔
      ∃ p, s.prots.get? (resolve pns ref) = some p ∧ p.valid = true ∧
        refOk s.pols p.ns p.polRef = true ∧ refOk s.logs p.ns p.logRef = true := by
  unfold getValid
  cases hp : s.prots.get? (resolve pns ref) with
  | none => simp
  | some p =>
    by_cases h1 : p.valid = true <;> by_cases h2 : refOk s.pols p.ns p.polRef = true <;>
      by_cases h3 : refOk s.logs p.ns p.logRef = true <;> simp [h1, h2, h3]

/-- The referrer's namespace only selects the protected resource; it plays no role in resolving
the resource's own references. -/
theorem references_in_own_namespace (s : St) (n1 n2 ref : String) (h : ref.contains '/' = true) :
    getValid s n1 ref = getValid s n2 ref := by
  unfold getValid resolve; simp [h]

/-- Every re-evaluation reports the protected resource with its current verdict. -/
theorem reeval_reports (s : St) (ps : List Prot) (p : Prot) (h : p ∈ ps) :
    ((if protReported s p then "U" else "D") ++ "prot:" ++ p.ns ++ "/" ++ p.name) ∈ (reeval s ps).1 := by
  unfold reeval; exact List.mem_map.mpr ⟨p, h, rfl⟩

end Nic.Dos
