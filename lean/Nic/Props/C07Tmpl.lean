/-
  C07 — kernel-checked instances of the template analysis.

  `wellFormedForAll <template> = true` is evaluated by the compiled driver for all eight templates on every run (§13 of DESIGN.md).
  For the two TransportServer templates the same evaluation is also done by Lean's kernel (`decide +kernel`: definitional
  unfolding only, no native code, no extra axiom; ≈ 10 s each), so that for them the chain

      template text in /repo  →  regenerated term  →  wellFormedForAll = true (kernel)  →  template_analysis_sound (kernel)

  needs no trust in the compiler. The larger templates are out of reach of the kernel evaluator in a routine run (measured: 21 min
  for the 25 kB NGINX Plus VirtualServer template) and stay with the driver.
-/
import Nic.Props.C07
import Nic.Gen.Templates

namespace Nic.Props.C07Tmpl
open Nic.NgxLex Nic.Tmpl Nic.Gen.Templates

set_option maxRecDepth 1000000 in
theorem transportserver_template_wellformed : wellFormedForAll nginx_transportserver = true := by decide +kernel

set_option maxRecDepth 1000000 in
theorem transportserver_plus_template_wellformed : wellFormedForAll nginx_plus_transportserver = true := by decide +kernel

/-- **every rendering of the TransportServer templates is lexically well formed** — for all TransportServers, upstream sets and
parameter values of the expected lexical classes. -/
theorem transportserver_renderings_wellformed (cs : List Char) (h : RenderTL nginx_transportserver init cs) : wellFormed cs = true :=
  Nic.Props.C07.template_analysis_sound _ transportserver_template_wellformed cs h

theorem transportserver_plus_renderings_wellformed (cs : List Char) (h : RenderTL nginx_plus_transportserver init cs) :
    wellFormed cs = true :=
  Nic.Props.C07.template_analysis_sound _ transportserver_plus_template_wellformed cs h

end Nic.Props.C07Tmpl
