/-
  Tie (translated source ↔ model) for the arbitration family C01–C05.

  `Nic.Gen.Fns` is written by tools/gofn from /repo's Go source on every run. The theorems below say that the functions as the
  source has them *now* are the functions the arbitration model (Nic/Model/Arb.lean) uses, and re-prove the order facts of C01
  directly about the translated comparison. An edit of one of these Go functions that changes its meaning makes the theorem of
  that name fail (a broken obligation; the correspondence run then looks for the input).
-/
import Nic.Gen.Fns
import Nic.Model.Arb
import Nic.Lemmas.Beats

namespace Nic.TieArb
open Nic.Go Nic.Gen.Fns Nic.Arb

/-- How an API object's metadata is seen by the model: UIDs through any order embedding into the numbers (the model and the
harness use numbers / fixed-width strings), creation time and generation as naturals. -/
def absMeta (rank : String → Nat) (ann : StrMap → String) (m : ObjectMeta) : Meta :=
  { ns := m.Namespace, name := m.Name, uid := rank m.UID, ts := m.CreationTimestamp.t.toNat, gen := m.Generation.toNat,
    ann := ann m.Annotations }

/-- `rank` embeds the string order of UIDs. -/
def OrderEmbedding (rank : String → Nat) : Prop := ∀ a b : String, a < b ↔ rank a < rank b

/-- **winner_is_beats**: `chooseObjectMetaWinner` as it is in the source equals the model's `beats`. -/
theorem winner_is_beats (rank : String → Nat) (ann) (hr : OrderEmbedding rank) (m1 m2 : ObjectMeta)
    (h1 : 0 ≤ m1.CreationTimestamp.t) (h2 : 0 ≤ m2.CreationTimestamp.t) :
    K8sConfiguration.chooseObjectMetaWinner m1 m2 = beats (absMeta rank ann m1) (absMeta rank ann m2) := by
  have e : (m1.CreationTimestamp.t = m2.CreationTimestamp.t) ↔ (m1.CreationTimestamp.t.toNat = m2.CreationTimestamp.t.toNat) := by omega
  have l : (m1.CreationTimestamp.t < m2.CreationTimestamp.t) ↔ (m1.CreationTimestamp.t.toNat < m2.CreationTimestamp.t.toNat) := by omega
  have u : (m2.UID < m1.UID) ↔ (rank m2.UID < rank m1.UID) := hr _ _
  simp only [K8sConfiguration.chooseObjectMetaWinner, Id.run, Time.Equal, Time.Before, beats, absMeta, beq_iff_eq, pure,
    gt_iff_lt]
  by_cases hts : m1.CreationTimestamp.t = m2.CreationTimestamp.t
  · simp [hts, u]
  · have hts' : ¬ m1.CreationTimestamp.t.toNat = m2.CreationTimestamp.t.toNat := fun h => hts (e.mpr h)
    simp [hts, hts', l]

/-- The translated comparison, in the form of its two cases. -/
theorem winner_iff (m1 m2 : ObjectMeta) :
    K8sConfiguration.chooseObjectMetaWinner m1 m2 = true ↔
      (m1.CreationTimestamp.t = m2.CreationTimestamp.t ∧ m2.UID < m1.UID) ∨ m1.CreationTimestamp.t < m2.CreationTimestamp.t := by
  simp only [K8sConfiguration.chooseObjectMetaWinner, Id.run, Time.Equal, Time.Before, beq_iff_eq, pure, gt_iff_lt]
  by_cases hts : m1.CreationTimestamp.t = m2.CreationTimestamp.t
  · simp [hts]
  · simp [hts]

/-- **winner_strict_total** (C01's "fixed order", about the source's own comparison): never both ways, one way for distinct
UIDs, transitive. -/
theorem winner_asymm (m1 m2 : ObjectMeta) (h : K8sConfiguration.chooseObjectMetaWinner m1 m2 = true) :
    K8sConfiguration.chooseObjectMetaWinner m2 m1 = false := by
  rw [Bool.eq_false_iff]; intro h'
  rw [winner_iff] at h h'
  rcases h with ⟨e, u⟩ | l <;> rcases h' with ⟨e', u'⟩ | l'
  · exact String.lt_asymm u u'
  · omega
  · omega
  · omega

theorem winner_total (m1 m2 : ObjectMeta) (hne : m1.UID ≠ m2.UID) :
    K8sConfiguration.chooseObjectMetaWinner m1 m2 = true ∨ K8sConfiguration.chooseObjectMetaWinner m2 m1 = true := by
  rw [winner_iff, winner_iff]
  by_cases hts : m1.CreationTimestamp.t = m2.CreationTimestamp.t
  · by_cases h : m2.UID < m1.UID
    · left; left; exact ⟨hts, h⟩
    · by_cases h' : m1.UID < m2.UID
      · right; left; exact ⟨hts.symm, h'⟩
      · exact absurd (String.le_antisymm (String.not_lt.mp h) (String.not_lt.mp h')) hne
  · rcases Int.lt_or_gt_of_ne hts with h | h
    · left; right; exact h
    · right; right; exact h

theorem winner_trans (a b c : ObjectMeta) (h1 : K8sConfiguration.chooseObjectMetaWinner a b = true)
    (h2 : K8sConfiguration.chooseObjectMetaWinner b c = true) : K8sConfiguration.chooseObjectMetaWinner a c = true := by
  rw [winner_iff] at *
  rcases h1 with ⟨e1, u1⟩ | l1 <;> rcases h2 with ⟨e2, u2⟩ | l2
  · left; exact ⟨e1.trans e2, String.lt_trans u2 u1⟩
  · right; omega
  · right; omega
  · right; omega

/-- **compareObjectMetas_is_metaEq**: the attribute equality `IsEqual` starts from. -/
theorem rank_injective (rank : String → Nat) (hr : OrderEmbedding rank) (a b : String) (h : rank a = rank b) : a = b := by
  have h1 : ¬ a < b := fun hlt => by have := (hr a b).mp hlt; omega
  have h2 : ¬ b < a := fun hlt => by have := (hr b a).mp hlt; omega
  exact String.le_antisymm (String.not_lt.mp h2) (String.not_lt.mp h1)

theorem compareObjectMetas_is_metaEq (rank ann) (hr : OrderEmbedding rank) (m1 m2 : ObjectMeta)
    (h1 : 0 ≤ m1.Generation) (h2 : 0 ≤ m2.Generation) :
    K8sConfiguration.compareObjectMetas m1 m2 = metaEq (absMeta rank ann m1) (absMeta rank ann m2) := by
  have g : (m1.Generation = m2.Generation) ↔ (m1.Generation.toNat = m2.Generation.toNat) := by omega
  have u : (m1.UID = m2.UID) ↔ (rank m1.UID = rank m2.UID) := ⟨fun h => by rw [h], rank_injective rank hr _ _⟩
  simp only [K8sConfiguration.compareObjectMetas, metaEq, absMeta]
  rw [Bool.eq_iff_iff]
  simp only [Bool.and_eq_true, beq_iff_eq, decide_eq_true_eq]
  rw [u, g]
  simp only [and_assoc]
  constructor
  · intro ⟨a, b, c, d⟩; exact ⟨decide_eq_true a, decide_eq_true b, decide_eq_true c, decide_eq_true d⟩
  · intro ⟨a, b, c, d⟩; exact ⟨of_decide_eq_true a, of_decide_eq_true b, of_decide_eq_true c, of_decide_eq_true d⟩

/-- with annotations: equal annotation maps are seen as equal by any abstraction of them; and for an injective abstraction the
translated function is exactly the model's `metaEqAnn`. -/
theorem compareWithAnnotations_is_metaEqAnn (rank) (hr : OrderEmbedding rank) (ann : StrMap → String)
    (hinj : ∀ a b, ann a = ann b → a = b) (m1 m2 : ObjectMeta) (h1 : 0 ≤ m1.Generation) (h2 : 0 ≤ m2.Generation) :
    K8sConfiguration.compareObjectMetasWithAnnotations m1 m2 = metaEqAnn (absMeta rank ann m1) (absMeta rank ann m2) := by
  have hc := compareObjectMetas_is_metaEq rank ann hr m1 m2 h1 h2
  simp only [K8sConfiguration.compareObjectMetasWithAnnotations, metaEqAnn]
  rw [hc]
  by_cases ha : m1.Annotations = m2.Annotations
  · simp [ha, absMeta]
  · have : ¬ ann m1.Annotations = ann m2.Annotations := fun h => ha (hinj _ _ h)
    simp [ha, absMeta, this]

/-- **resource keys**: `getResourceKey` is the model's `Meta.key`; the kind-qualified key is `kind/ns/name`. -/
theorem getResourceKey_is_key (rank ann) (m : ObjectMeta) : K8sConfiguration.getResourceKey m = (absMeta rank ann m).key := by
  simp [K8sConfiguration.getResourceKey, Meta.key, absMeta, Go.fmt, Fmt.fmt]

theorem getResourceKeyWithKind_eq (kind : String) (m : ObjectMeta) :
    K8sConfiguration.getResourceKeyWithKind kind m = kind ++ "/" ++ m.Namespace ++ "/" ++ m.Name := by
  simp [K8sConfiguration.getResourceKeyWithKind, Go.fmt, Fmt.fmt]

/-- **mergeable kinds are exclusive**: an Ingress is never both master and minion, whatever its annotations. -/
theorem master_minion_exclusive (ing : Ingress) : ¬ (K8sUtils.isMaster ing = true ∧ K8sUtils.isMinion ing = true) := by
  simp only [K8sUtils.isMaster, K8sUtils.isMinion, beq_iff_eq]
  intro ⟨h1, h2⟩
  rw [h1] at h2
  exact absurd h2 (by decide)

/-- how the model's Ingress kind is read off the object -/
def kindOf (ing : Ingress) : IngKind :=
  if K8sUtils.isMaster ing then .master else if K8sUtils.isMinion ing then .minion else .regular

theorem kindOf_by_annotation (ing : Ingress) :
    kindOf ing = (match Go.idx ing.ObjectMeta.Annotations "nginx.org/mergeable-ingress-type" with
                  | "master" => IngKind.master | "minion" => IngKind.minion | _ => IngKind.regular) := by
  unfold kindOf K8sUtils.isMaster K8sUtils.isMinion
  generalize Go.idx ing.ObjectMeta.Annotations "nginx.org/mergeable-ingress-type" = v
  by_cases h1 : v = "master"
  · subst h1; rfl
  · by_cases h2 : v = "minion"
    · subst h2; rfl
    · have e1 : (v == "master") = false := by simp [h1]
      have e2 : (v == "minion") = false := by simp [h2]
      simp only [e1, e2]
      split <;> simp_all

/-- **isRegexOrExactMatch**: the path kinds for which a delegated route must have exactly one subroute are those that start with
`~` or `=` — the test of the model's `vsrFits`, character by character. -/
theorem isRegexOrExactMatch_iff (path : String) :
    ValidationVS.isRegexOrExactMatch path = (path.toList.head? == some '~' || path.toList.head? == some '=') := by
  simp only [ValidationVS.isRegexOrExactMatch, Go.hasPrefix]
  have a : ("~" : String).toList = ['~'] := rfl
  have b : ("=" : String).toList = ['='] := rfl
  rw [a, b]
  cases path.toList with
  | nil => rfl
  | cons c cs =>
    simp [List.isPrefixOf]
    have sym : ∀ a b : Char, (a == b) = (b == a) := by
      intro a b
      by_cases h : a = b
      · subst h; rfl
      · have h' : ¬ b = a := fun e => h e.symm
        rw [beq_eq_false_iff_ne.mpr h, beq_eq_false_iff_ne.mpr h']
    rw [sym '~' c, sym '=' c]

/-- **generatePortProtocolKey** is injective on (port, protocol) for protocols that are words (no `/`): two listeners clash in the
validator's table exactly when they have the same port and protocol. -/
theorem generatePortProtocolKey_eq (port : Int) (proto : String) :
    ValidationGC.generatePortProtocolKey port proto = toString port ++ "/" ++ proto := by
  simp [ValidationGC.generatePortProtocolKey, Go.fmt, Go.Fmt.fmt]

/-! ### non-vacuity -/
example : K8sConfiguration.chooseObjectMetaWinner { UID := "u002", CreationTimestamp := ⟨5⟩ } { UID := "u001", CreationTimestamp := ⟨5⟩ } = true := by decide
example : K8sConfiguration.chooseObjectMetaWinner { UID := "u001", CreationTimestamp := ⟨4⟩ } { UID := "u002", CreationTimestamp := ⟨5⟩ } = true := by decide
example : kindOf { ObjectMeta := { Annotations := [("nginx.org/mergeable-ingress-type", "minion")] } } = .minion := by decide

end Nic.TieArb
