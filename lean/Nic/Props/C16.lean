/-
  C16 — the controller acts only on resources of its own class.
-/
import Nic.Model.Class
import Nic.Props.C05

namespace Nic.Class

/-! ### the class decision, stated outright -/

/-- For an Ingress the deprecated annotation, when present and non-empty, decides alone:
the `ingressClassName` field is ignored. -/
theorem ingress_annotation_precedence (ours a : String) (field : Option String) (h : a ≠ "") :
    hasCorrectClass ours .ingress (some a) field = decide (a = ours) := by
  simp [hasCorrectClass, h]

/-- Without a (non-empty) annotation the field decides. -/
theorem ingress_field_decides (ours f : String) (ann : Option String) (h : ann = none ∨ ann = some "") :
    hasCorrectClass ours .ingress ann (some f) = decide (f = ours) := by
  rcases h with rfl | rfl <;> simp [hasCorrectClass]

/-- An Ingress that designates no class at all is never ours (the controller's class is non-empty). -/
theorem ingress_without_class_not_ours (ours : String) (h : ours ≠ "") (ann : Option String)
    (ha : ann = none ∨ ann = some "") : hasCorrectClass ours .ingress ann none = false := by
  rcases ha with rfl | rfl <;> simp [hasCorrectClass] <;> first | exact fun e => h e | exact fun e => h e.symm

/-- Custom resources (VirtualServer, VirtualServerRoute, TransportServer, Policy): ours iff the class
field is ours or empty; annotations play no role. -/
theorem cr_class_decision (ours f : String) (k : Kind) (hk : k = .vs ∨ k = .vsr ∨ k = .ts ∨ k = .policy)
    (ann : Option String) :
    hasCorrectClass ours k ann (some f) = (decide (f = ours) || decide (f = "")) := by
  rcases hk with rfl | rfl | rfl | rfl <;> simp [hasCorrectClass]

theorem other_kinds_never_ours (ours : String) (ann field : Option String) :
    hasCorrectClass ours .other ann field = false := rfl

/-- A Policy's status is written only if the latest stored version is of our class. -/
theorem policy_status_only_own_class (ours : String) (stored : Option String)
    (h : policyStatusWrite ours stored = true) : ∃ c, stored = some c ∧ (c = ours ∨ c = "") := by
  unfold policyStatusWrite at h
  cases stored with
  | none => cases h
  | some c => exact ⟨c, rfl, by simpa [hasCorrectClass] using h⟩

end Nic.Class

namespace Nic.Arb

/-! ### a foreign-class event is a delete -/

/-- The derived tables agree with the object set (true after every host rebuild). -/
def Settled (s : State) : Prop :=
  s.hosts = resolveHosts (listenerWarnings s.toObjs (buildHosts s.toObjs)) ∧
  s.hostProblems = hostProblemsOf s.toObjs

theorem rebuildHosts_settles (s : State) : Settled (rebuildHosts s).1 := by
  rw [rebuildHosts_state]; exact ⟨rfl, rfl⟩

/-- In a settled state a host rebuild changes nothing and reports nothing. -/
theorem rebuildHosts_settled (s : State) (h : Settled s) : rebuildHosts s = (s, [], []) := by
  have hsorted : Map.Sorted (resolveHosts (listenerWarnings s.toObjs (buildHosts s.toObjs))) :=
    resolveHosts_sorted _ (by rw [listenerWarnings_hosts]; exact buildHosts_sorted _)
  have hprob : Map.Sorted (hostProblemsOf s.toObjs) := by
    unfold hostProblemsOf
    exact vsrProblems_sorted _ _ _ _ (orphanMinionProblems_sorted _ _ _ _ (noActiveHostProblems_sorted _ _))
  obtain ⟨h1, h2⟩ := h
  have hd : detectProblemChanges (hostProblemsOf s.toObjs) (hostProblemsOf s.toObjs) = [] :=
    detectProblemChanges_self _ hprob
  have hstate : ({ s with hosts := resolveHosts (listenerWarnings s.toObjs (buildHosts s.toObjs)),
                          hostProblems := hostProblemsOf s.toObjs } : State) = s := by
    cases s; simp only at h1 h2 ⊢; rw [← h1, ← h2]
  have hmain : rebuildHosts s =
      ({ s with hosts := resolveHosts (listenerWarnings s.toObjs (buildHosts s.toObjs)),
                hostProblems := hostProblemsOf s.toObjs }, [], []) := by
    unfold rebuildHosts
    simp only
    rw [h1, h2]
    simp only [detectHostChanges_self _ hsorted, changesFor_nil, squash_nil, List.map_nil]
    unfold hostProblemsOf at hd ⊢
    simp only [hd]
  rw [hmain, hstate]

theorem erase_absent {α} (m : Map α) (k : String) (h : m.contains k = false) : m.erase k = m := by
  unfold Map.erase
  rw [List.filter_eq_self]
  intro p hp
  simp only [ne_eq, decide_eq_true_eq]
  intro e
  have := Map.contains_of_mem m p hp
  rw [e, h] at this; cases this

theorem get?_erase_self {α} (m : Map α) (k : String) : (m.erase k).get? k = none := by
  induction m with
  | nil => rfl
  | cons a r ih =>
    unfold Map.erase at ih ⊢
    simp only [List.filter_cons]
    have ih' : Map.get? (List.filter (fun p => !decide (p.fst = k)) r) k = none := by
      have : (fun (p : String × α) => !decide (p.fst = k)) = (fun p => decide (p.fst ≠ k)) := by
        funext p; simp
      rw [this]; exact ih
    by_cases e : a.1 = k
    · simp [e]; exact ih'
    · simp [e, Map.get?]; exact ih'

theorem contains_erase {α} (m : Map α) (k : String) : (m.erase k).contains k = false := by
  unfold Map.contains; rw [get?_erase_self]; rfl

/-- **A foreign-class object is never stored**, so it never contributes a claim on a host,
listener or path (claims are computed from the stored objects only). -/
theorem foreign_never_stored (perm) (s : State) (v : VS) (valid : Bool) :
    (step perm s (.vs v false valid)).1.vss.contains v.md.key = false := by
  rw [step_vs_fst]
  have : (rebuildHosts (vsState s v false valid)).1.vss = (vsState s v false valid).vss := by
    unfold rebuildHosts; rfl
  rw [this]
  simp [vsState, contains_erase]

theorem foreign_never_stored_ing (perm) (s : State) (i : Ing) (valid : Bool) :
    (step perm s (.ing i false valid)).1.ings.contains i.md.key = false := by
  rw [step_ing_fst]
  have : (rebuildHosts (ingState s i false valid)).1.ings = (ingState s i false valid).ings := by
    unfold rebuildHosts; rfl
  rw [this]
  simp [ingState, contains_erase]

/-- **A foreign-class VirtualServer event is processed exactly like a delete of its key**: same
resulting state, same changes, same problems — whether or not the object was served before. -/
theorem foreign_is_delete_vs (perm) (s : State) (v : VS) (valid : Bool) (h : Settled s) :
    step perm s (.vs v false valid) = step perm s (.delVs v.md.key) := by
  simp only [step, Bool.false_and, Bool.false_eq_true, if_false]
  by_cases hc : s.vss.contains v.md.key = true
  · simp [hc]
  · have hc' : s.vss.contains v.md.key = false := by simpa using hc
    simp only [hc', Bool.false_eq_true, if_false]
    have : ({ s with vss := s.vss.erase v.md.key } : State) = s := by
      rw [erase_absent _ _ hc']
    rw [this]
    exact rebuildHosts_settled s h

theorem foreign_is_delete_ing (perm) (s : State) (i : Ing) (valid : Bool) (h : Settled s) :
    step perm s (.ing i false valid) = step perm s (.delIng i.md.key) := by
  simp only [step, Bool.false_and, Bool.false_eq_true, if_false]
  by_cases hc : s.ings.contains i.md.key = true
  · simp [hc]
  · have hc' : s.ings.contains i.md.key = false := by simpa using hc
    simp only [hc', Bool.false_eq_true, if_false]
    have : ({ s with ings := s.ings.erase i.md.key } : State) = s := by
      rw [erase_absent _ _ hc']
    rw [this]
    exact rebuildHosts_settled s h

theorem foreign_is_delete_vsr (perm) (s : State) (x : VSR) (valid : Bool) (h : Settled s) :
    step perm s (.vsr x false valid) = step perm s (.delVsr x.md.key) := by
  simp only [step, Bool.false_and, Bool.false_eq_true, if_false]
  by_cases hc : s.vsrs.contains x.md.key = true
  · simp [hc]
  · have hc' : s.vsrs.contains x.md.key = false := by simpa using hc
    simp only [hc', Bool.false_eq_true, if_false]
    have : ({ s with vsrs := s.vsrs.erase x.md.key } : State) = s := by
      rw [erase_absent _ _ hc']
    rw [this]
    exact rebuildHosts_settled s h

/-- **Silent removal.** The report for a removal caused by a class change carries no validation
error (the validator is not even run for a foreign-class object): the only thing that can make
the controller speak is a stale warning on the removed resource (known finding S-C16-a). -/
theorem class_away_no_error (perm) (s : State) (v : VS) (valid : Bool) :
    ∀ c ∈ (step perm s (.vs v false valid)).2.1, c.err = false ∨
      c ∈ (rebuildHosts (vsState s v false valid)).2.1 := by
  intro c hc
  rw [step_vs_changes] at hc
  simp at hc
  exact Or.inr hc

/-- Projection of a history: every foreign-class Ingress / VirtualServer / VirtualServerRoute event
becomes a delete of that key. -/
def project : List Op → List Op
  | [] => []
  | .ing i false _ :: r => .delIng i.md.key :: project r
  | .vs v false _ :: r => .delVs v.md.key :: project r
  | .vsr x false _ :: r => .delVsr x.md.key :: project r
  | o :: r => o :: project r

/-- Operations after which the derived tables are settled again. With TLS passthrough enabled
that is every operation (they all end in a host rebuild). -/
theorem step_settles (perm) (s : State) (op : Op) (hp : s.cfg.passthrough = true) (h : Settled s) :
    Settled (step perm s op).1 := by
  cases op with
  | ing i cls valid => rw [step_ing_fst]; exact rebuildHosts_settles _
  | vs v cls valid => rw [step_vs_fst]; exact rebuildHosts_settles _
  | vsr r cls valid => rw [step_vsr_fst]; exact rebuildHosts_settles _
  | ts t cls valid =>
    rw [step_ts_fst]; unfold tsBoth; simp only [hp, if_true]; exact rebuildHosts_settles _
  | gc ls => simp only [step]; unfold gcBoth; exact rebuildHosts_settles _
  | delIng k => simp only [step]; split <;> first | exact rebuildHosts_settles _ | exact h
  | delVs k => simp only [step]; split <;> first | exact rebuildHosts_settles _ | exact h
  | delVsr k => simp only [step]; split <;> first | exact rebuildHosts_settles _ | exact h
  | delTs k =>
    simp only [step]
    split
    · unfold tsBoth; simp only [hp, if_true]; exact rebuildHosts_settles _
    · exact h
  | delGc => simp only [step]; unfold gcBoth; exact rebuildHosts_settles _

theorem step_cfg (perm) (s : State) (op : Op) : (step perm s op).1.cfg = s.cfg := by
  have hr : ∀ x : State, (rebuildHosts x).1.cfg = x.cfg := fun x => by unfold rebuildHosts; rfl
  have hl : ∀ (x : State) ord, (rebuildListenerHosts x ord).1.cfg = x.cfg := fun x ord => by
    unfold rebuildListenerHosts; rfl
  have ht : ∀ (x : State) ord, (tsBoth x ord).1.cfg = x.cfg := fun x ord => by
    unfold tsBoth; split
    · simp only; rw [hr, hl]
    · exact hl x ord
  have hg : ∀ (x : State) ord, (gcBoth x ord).1.cfg = x.cfg := fun x ord => by
    unfold gcBoth; simp only; rw [hr, hl]
  cases op with
  | ing i cls valid => rw [step_ing_fst, hr]; unfold ingState; split <;> rfl
  | vs v cls valid => rw [step_vs_fst, hr]; unfold vsState; split <;> rfl
  | vsr r cls valid => rw [step_vsr_fst, hr]; unfold vsrState; split <;> rfl
  | ts t cls valid => rw [step_ts_fst, ht]
  | gc ls => simp only [step]; rw [hg]
  | delIng k => simp only [step]; split <;> first | rw [hr] | rfl
  | delVs k => simp only [step]; split <;> first | rw [hr] | rfl
  | delVsr k => simp only [step]; split <;> first | rw [hr] | rfl
  | delTs k => simp only [step]; split <;> first | rw [ht] | rfl
  | delGc => simp only [step]; rw [hg]

/-- Everything observable of a run: the outputs of every operation, in order. -/
def outputs (perm : List (String × TS) → List (String × TS)) : State → List Op → List (List Change × List Problem)
  | _, [] => []
  | s, op :: r => (step perm s op).2 :: outputs perm (step perm s op).1 r

/-- **Non-interference.** A history and its projection without foreign-class events produce the
same changes and problems at every step and end in the same state — for every history, from
every settled state (TLS passthrough enabled, so that every operation re-settles the tables).
Foreign-class resources therefore never contribute configuration, never occupy a host or path,
and (via the reporting model) never receive reports other than those a delete would cause. -/
theorem non_interference (perm) (s : State) (ops : List Op) (hp : s.cfg.passthrough = true) (h : Settled s) :
    outputs perm s ops = outputs perm s (project ops) ∧ run perm s ops = run perm s (project ops) := by
  induction ops generalizing s with
  | nil => exact ⟨rfl, rfl⟩
  | cons op r ih =>
    have key : ∀ op', step perm s op = step perm s op' →
        (outputs perm s (op :: r) = outputs perm s (op' :: project r) ∧
         run perm s (op :: r) = run perm s (op' :: project r)) := by
      intro op' he
      have hs := step_settles perm s op hp h
      have hc : (step perm s op).1.cfg.passthrough = true := by rw [step_cfg]; exact hp
      obtain ⟨i1, i2⟩ := ih (step perm s op).1 hc hs
      refine ⟨?_, ?_⟩
      · simp only [outputs]; rw [← he, i1]
      · unfold run at i2 ⊢; simp only [List.foldl_cons]; rw [← he]; exact i2
    cases op with
    | ing i cls valid =>
      cases cls with
      | false => simp only [project]; exact key _ (foreign_is_delete_ing perm s i valid h)
      | true => simp only [project]; exact key _ rfl
    | vs v cls valid =>
      cases cls with
      | false => simp only [project]; exact key _ (foreign_is_delete_vs perm s v valid h)
      | true => simp only [project]; exact key _ rfl
    | vsr x cls valid =>
      cases cls with
      | false => simp only [project]; exact key _ (foreign_is_delete_vsr perm s x valid h)
      | true => simp only [project]; exact key _ rfl
    | ts t cls valid => simp only [project]; exact key _ rfl
    | gc ls => simp only [project]; exact key _ rfl
    | delIng k => simp only [project]; exact key _ rfl
    | delVs k => simp only [project]; exact key _ rfl
    | delVsr k => simp only [project]; exact key _ rfl
    | delTs k => simp only [project]; exact key _ rfl
    | delGc => simp only [project]; exact key _ rfl

/-- The initial (empty) state is settled. -/
theorem init_settled (cfg : Cfg) : Settled { toObjs := { cfg := cfg } } := by
  unfold Settled hostProblemsOf buildHosts buildIngs buildVss buildTss listenerWarnings
  cases hp : cfg.passthrough <;>
    simp [hp, markValidHosts, resolveHosts, noActiveHostProblems, orphanMinionProblems, vsrProblems]

end Nic.Arb
