/-
  Tie (translated source ↔ model) for the resource snapshots of the arbitration component (C01, C03): the three `IsEqual`
  methods — which decide whether an AddOrUpdate change is emitted at all —, `Wins`, `GetObjectMeta` with its dynamic dispatch over
  the `Resource` interface, and `GetKeyWithKind`, as they are in /repo now (Nic.Gen.Fns, regenerated on every run by tools/gofn,
  which turns the `for i := range xs { if c { return r } }` loops into `(List.range n).any` and the type assertions with their
  `!ok` guards into a `match`), are the model's `Res.isEqual`, `beats`, `Res.md` and `Res.key` under the abstraction `absRes`.
-/
import Nic.Gen.Fns
import Nic.Model.Arb
import Nic.Props.TieArb
namespace Nic.TieRes
open Nic.Go Nic.Gen.Fns Nic.Gen.Fns.K8sConfiguration Nic.Arb Nic.TieArb

theorem idpure {α} (x : α) : (pure x : Id α) = x := rfl

/-- a check over all indices below the common length is a pointwise check of the two lists -/
theorem range_any_not {α} [Inhabited α] (f : α → α → Bool) (l1 l2 : List α) (h : l1.length = l2.length) :
    (List.range l1.length).any (fun i => !(f (l1.getD i default) (l2.getD i default))) = !(listAll2 f l1 l2) := by
  induction l1 generalizing l2 with
  | nil =>
    cases l2 with
    | nil => simp [listAll2]
    | cons b s => simp at h
  | cons a r ih =>
    cases l2 with
    | nil => simp at h
    | cons b s =>
      simp only [List.length_cons] at h ⊢
      have hl : r.length = s.length := by omega
      rw [List.range_succ_eq_map, List.any_cons, List.any_map]
      simp only [listAll2, Function.comp_def, List.getD_cons_zero, List.getD_cons_succ]
      rw [ih s hl]
      cases f a b <;> simp

theorem listAll2_length_ne {α} (f : α → α → Bool) (l1 l2 : List α) (h : l1.length ≠ l2.length) : listAll2 f l1 l2 = false := by
  induction l1 generalizing l2 with
  | nil => cases l2 with
    | nil => simp at h
    | cons b s => rfl
  | cons a r ih => cases l2 with
    | nil => rfl
    | cons b s =>
      simp only [List.length_cons] at h
      simp [listAll2, ih s (by omega)]

theorem listAll2_map {α β} (f : α → α → Bool) (g : β → β → Bool) (ab : α → β) (l1 l2 : List α)
    (h : ∀ x ∈ l1, ∀ y ∈ l2, f x y = g (ab x) (ab y)) : listAll2 f l1 l2 = listAll2 g (l1.map ab) (l2.map ab) := by
  induction l1 generalizing l2 with
  | nil => cases l2 <;> rfl
  | cons a r ih => cases l2 with
    | nil => rfl
    | cons b s =>
      simp only [listAll2, List.map_cons]
      rw [h a (by simp) b (by simp), ih s (fun x hx y hy => h x (by simp [hx]) y (by simp [hy]))]

/-! ### the abstraction of the controller's resource snapshots to the model's -/

variable (rank : String → Nat) (ann : StrMap → String)

def absMinion (m : MinionConfiguration) : MinionCfg := { md := absMeta rank ann m.Ingress.ObjectMeta, validPaths := m.ValidPaths }

def absIng (c : IngressConfiguration) : IngCfg :=
  { md := absMeta rank ann c.Ingress.ObjectMeta, isMaster := c.IsMaster, hostsDecl := [], minions := c.Minions.map (absMinion rank ann),
    validHosts := c.ValidHosts, warnings := c.Warnings, childWarnings := c.ChildWarnings }

def absVs (c : VirtualServerConfiguration) : VSCfg :=
  { md := absMeta rank ann c.VirtualServer.ObjectMeta, host := "", listener := none,
    vsrs := c.VirtualServerRoutes.map fun r => absMeta rank ann r.ObjectMeta, warnings := c.Warnings,
    httpPort := c.HTTPPort.toNat, httpsPort := c.HTTPSPort.toNat, httpV4 := c.HTTPIPv4, httpV6 := c.HTTPIPv6, httpsV4 := c.HTTPSIPv4, httpsV6 := c.HTTPSIPv6 }

def absTs (c : TransportServerConfiguration) : TSCfg :=
  { md := absMeta rank ann c.TransportServer.ObjectMeta, host := "", lname := "", proto := "", port := c.ListenerPort.toNat,
    v4 := c.IPv4, v6 := c.IPv6, warnings := c.Warnings }

def absRes : Resource → Res
  | .IngressConfiguration c => .ing (absIng rank ann c)
  | .VirtualServerConfiguration c => .vs (absVs rank ann c)
  | .TransportServerConfiguration c => .ts (absTs rank ann c)

/-- generations and ports are non-negative in every object the API server hands out -/
def MetaOk (m : ObjectMeta) : Prop := 0 ≤ m.Generation

def ResOk : Resource → Prop
  | .IngressConfiguration c => MetaOk c.Ingress.ObjectMeta ∧ ∀ m ∈ c.Minions, MetaOk m.Ingress.ObjectMeta
  | .VirtualServerConfiguration c => MetaOk c.VirtualServer.ObjectMeta ∧ ∀ r ∈ c.VirtualServerRoutes, MetaOk r.ObjectMeta
  | .TransportServerConfiguration c => MetaOk c.TransportServer.ObjectMeta ∧ 0 ≤ c.ListenerPort

theorem len_toNat {α} (l : List α) : (Go.len l).toNat = l.length := by
  show (Int.ofNat l.length).toNat = l.length
  rfl
theorem len_ne {α} (a b : List α) : (Go.len a != Go.len b) = (a.length != b.length) := by
  show ((Int.ofNat a.length) != (Int.ofNat b.length)) = (a.length != b.length)
  by_cases h : a.length = b.length
  · simp [h]
  · have h' : ¬ (Int.ofNat a.length) = (Int.ofNat b.length) := fun e => h (Int.ofNat.inj e)
    rw [bne_iff_ne.mpr h, bne_iff_ne.mpr h']

/-- **ingress_isEqual_tie**: `IngressConfiguration.IsEqual` as it is in the source is the model's `Res.isEqual`. -/
theorem ingress_isEqual_tie (hr : OrderEmbedding rank) (hinj : ∀ a b, ann a = ann b → a = b)
    (ic : IngressConfiguration) (r : Resource) (h1 : ResOk (.IngressConfiguration ic)) (h2 : ResOk r) :
    IngressConfiguration_IsEqual ic r = Res.isEqual (.ing (absIng rank ann ic)) (absRes rank ann r) := by
  cases r with
  | VirtualServerConfiguration c => rfl
  | TransportServerConfiguration c => rfl
  | IngressConfiguration c =>
    obtain ⟨hm1, hms1⟩ := h1
    obtain ⟨hm2, hms2⟩ := h2
    have top := compareWithAnnotations_is_metaEqAnn rank hr ann hinj ic.Ingress.ObjectMeta c.Ingress.ObjectMeta hm1 hm2
    have minions : listAll2 (fun x y : MinionConfiguration => compareObjectMetasWithAnnotations x.Ingress.ObjectMeta y.Ingress.ObjectMeta) ic.Minions c.Minions
        = listAll2 (fun x y : MinionCfg => metaEqAnn x.md y.md) (ic.Minions.map (absMinion rank ann)) (c.Minions.map (absMinion rank ann)) :=
      listAll2_map _ _ _ _ _ (fun x hx y hy =>
        compareWithAnnotations_is_metaEqAnn rank hr ann hinj x.Ingress.ObjectMeta y.Ingress.ObjectMeta (hms1 x hx) (hms2 y hy))
    simp only [IngressConfiguration_IsEqual, Id.run, Res.isEqual, absRes, absIng, top, len_ne, len_toNat]
    by_cases hmeta : metaEqAnn (absMeta rank ann ic.Ingress.ObjectMeta) (absMeta rank ann c.Ingress.ObjectMeta) = true
    · by_cases hvh : ic.ValidHosts = c.ValidHosts
      · by_cases him : ic.IsMaster = c.IsMaster
        · by_cases hlen : ic.Minions.length = c.Minions.length
          · have loop := range_any_not (fun x y : MinionConfiguration => compareObjectMetasWithAnnotations x.Ingress.ObjectMeta y.Ingress.ObjectMeta) ic.Minions c.Minions hlen
            simp only [Go.idx, Go.Idx.idx] at loop ⊢
            simp only [loop, minions]
            simp [hmeta, hvh, him, hlen, idpure]
            cases listAll2 (fun x y : MinionCfg => metaEqAnn x.md y.md) (ic.Minions.map (absMinion rank ann)) (c.Minions.map (absMinion rank ann)) <;> simp [idpure]
          · have : listAll2 (fun x y : MinionCfg => metaEqAnn x.md y.md) (ic.Minions.map (absMinion rank ann)) (c.Minions.map (absMinion rank ann)) = false :=
              listAll2_length_ne _ _ _ (by simpa using hlen)
            simp [hmeta, hvh, him, hlen, this, idpure]
        · simp [hmeta, hvh, him, idpure]
      · simp [hmeta, hvh, idpure]
    · simp [hmeta, idpure]

/-- **virtualserver_isEqual_tie** -/
theorem virtualserver_isEqual_tie (hr : OrderEmbedding rank)
    (vsc : VirtualServerConfiguration) (r : Resource) (h1 : ResOk (.VirtualServerConfiguration vsc)) (h2 : ResOk r) :
    VirtualServerConfiguration_IsEqual vsc r = Res.isEqual (.vs (absVs rank ann vsc)) (absRes rank ann r) := by
  cases r with
  | IngressConfiguration c => rfl
  | TransportServerConfiguration c => rfl
  | VirtualServerConfiguration c =>
    obtain ⟨hm1, hms1⟩ := h1
    obtain ⟨hm2, hms2⟩ := h2
    have top := compareObjectMetas_is_metaEq rank ann hr vsc.VirtualServer.ObjectMeta c.VirtualServer.ObjectMeta hm1 hm2
    have routes : listAll2 (fun x y : VirtualServerRoute => compareObjectMetas x.ObjectMeta y.ObjectMeta) vsc.VirtualServerRoutes c.VirtualServerRoutes
        = listAll2 metaEq (vsc.VirtualServerRoutes.map fun r => absMeta rank ann r.ObjectMeta) (c.VirtualServerRoutes.map fun r => absMeta rank ann r.ObjectMeta) :=
      listAll2_map _ _ _ _ _ (fun x hx y hy => compareObjectMetas_is_metaEq rank ann hr x.ObjectMeta y.ObjectMeta (hms1 x hx) (hms2 y hy))
    simp only [VirtualServerConfiguration_IsEqual, Id.run, Res.isEqual, absRes, absVs, top, len_ne, len_toNat]
    by_cases hmeta : metaEq (absMeta rank ann vsc.VirtualServer.ObjectMeta) (absMeta rank ann c.VirtualServer.ObjectMeta) = true
    · by_cases hlen : vsc.VirtualServerRoutes.length = c.VirtualServerRoutes.length
      · have loop := range_any_not (fun x y : VirtualServerRoute => compareObjectMetas x.ObjectMeta y.ObjectMeta) vsc.VirtualServerRoutes c.VirtualServerRoutes hlen
        simp only [Go.idx, Go.Idx.idx] at loop ⊢
        simp only [loop, routes]
        simp [hmeta, hlen, idpure]
        cases listAll2 metaEq (vsc.VirtualServerRoutes.map fun r => absMeta rank ann r.ObjectMeta) (c.VirtualServerRoutes.map fun r => absMeta rank ann r.ObjectMeta) <;> simp [idpure]
      · have : listAll2 metaEq (vsc.VirtualServerRoutes.map fun r => absMeta rank ann r.ObjectMeta) (c.VirtualServerRoutes.map fun r => absMeta rank ann r.ObjectMeta) = false :=
          listAll2_length_ne _ _ _ (by simpa using hlen)
        simp [hmeta, hlen, this, idpure]
    · simp [hmeta, idpure]

/-- **transportserver_isEqual_tie**: metadata, listener port and both addresses (S-C03-b) -/
theorem transportserver_isEqual_tie (hr : OrderEmbedding rank)
    (tsc : TransportServerConfiguration) (r : Resource) (h1 : ResOk (.TransportServerConfiguration tsc)) (h2 : ResOk r) :
    TransportServerConfiguration_IsEqual tsc r = Res.isEqual (.ts (absTs rank ann tsc)) (absRes rank ann r) := by
  cases r with
  | IngressConfiguration c => rfl
  | VirtualServerConfiguration c => rfl
  | TransportServerConfiguration c =>
    obtain ⟨hm1, hp1⟩ := h1
    obtain ⟨hm2, hp2⟩ := h2
    have top := compareObjectMetas_is_metaEq rank ann hr tsc.TransportServer.ObjectMeta c.TransportServer.ObjectMeta hm1 hm2
    have port : (tsc.ListenerPort = c.ListenerPort) ↔ (tsc.ListenerPort.toNat = c.ListenerPort.toNat) := by omega
    simp only [TransportServerConfiguration_IsEqual, Id.run, Res.isEqual, absRes, absTs, TransportServerConfiguration_GetObjectMeta,
      Resource_GetObjectMeta, top, idpure]
    rw [Bool.eq_iff_iff]
    simp only [Bool.and_eq_true, beq_iff_eq, decide_eq_true_eq, port]

/-- **wins_tie**: `Wins` of every resource kind is the model's `beats` on the two objects' metadata. -/
theorem ingress_wins_tie (hr : OrderEmbedding rank) (ic : IngressConfiguration) (r : Resource)
    (h1 : 0 ≤ ic.Ingress.ObjectMeta.CreationTimestamp.t) (h2 : 0 ≤ (Resource_GetObjectMeta r).CreationTimestamp.t) :
    IngressConfiguration_Wins ic r = beats (absMeta rank ann ic.Ingress.ObjectMeta) (absMeta rank ann (Resource_GetObjectMeta r)) :=
  winner_is_beats rank ann hr _ _ h1 h2

theorem virtualserver_wins_tie (hr : OrderEmbedding rank) (c : VirtualServerConfiguration) (r : Resource)
    (h1 : 0 ≤ c.VirtualServer.ObjectMeta.CreationTimestamp.t) (h2 : 0 ≤ (Resource_GetObjectMeta r).CreationTimestamp.t) :
    VirtualServerConfiguration_Wins c r = beats (absMeta rank ann c.VirtualServer.ObjectMeta) (absMeta rank ann (Resource_GetObjectMeta r)) :=
  winner_is_beats rank ann hr _ _ h1 h2

theorem transportserver_wins_tie (hr : OrderEmbedding rank) (c : TransportServerConfiguration) (r : Resource)
    (h1 : 0 ≤ c.TransportServer.ObjectMeta.CreationTimestamp.t) (h2 : 0 ≤ (Resource_GetObjectMeta r).CreationTimestamp.t) :
    TransportServerConfiguration_Wins c r = beats (absMeta rank ann c.TransportServer.ObjectMeta) (absMeta rank ann (Resource_GetObjectMeta r)) :=
  winner_is_beats rank ann hr _ _ h1 h2

/-- the metadata the dynamic dispatch hands out is the metadata of the abstracted resource -/
theorem getObjectMeta_tie (r : Resource) : absMeta rank ann (Resource_GetObjectMeta r) = (absRes rank ann r).md := by
  cases r <;> rfl

/-- **keyWithKind_tie**: `GetKeyWithKind` is the model's `Res.key` -/
theorem ingress_keyWithKind_tie (c : IngressConfiguration) :
    IngressConfiguration_GetKeyWithKind c = (absRes rank ann (.IngressConfiguration c)).key := by
  simp [IngressConfiguration_GetKeyWithKind, Id.run, Res.key, Res.kind, Res.md, absRes, absIng, absMeta, Meta.key, getResourceKey, Go.fmt, Go.Fmt.fmt, idpure, String.append_assoc]
theorem virtualserver_keyWithKind_tie (c : VirtualServerConfiguration) :
    VirtualServerConfiguration_GetKeyWithKind c = (absRes rank ann (.VirtualServerConfiguration c)).key := by
  simp [VirtualServerConfiguration_GetKeyWithKind, Id.run, Res.key, Res.kind, Res.md, absRes, absVs, absMeta, Meta.key, getResourceKey, Go.fmt, Go.Fmt.fmt, idpure, String.append_assoc]
theorem transportserver_keyWithKind_tie (c : TransportServerConfiguration) :
    TransportServerConfiguration_GetKeyWithKind c = (absRes rank ann (.TransportServerConfiguration c)).key := by
  simp [TransportServerConfiguration_GetKeyWithKind, Id.run, Res.key, Res.kind, Res.md, absRes, absTs, absMeta, Meta.key, getResourceKey, Go.fmt, Go.Fmt.fmt, idpure, String.append_assoc]

end Nic.TieRes
