/-
  Tie (translated source ↔ model) for C05's report delta: `compareConfigurationProblems` and `detectChangesInProblems` as they
  are in /repo now (Nic.Gen.Fns, regenerated on every run by tools/gofn — the accumulating `for _, key := range …` loop with its
  `continue` is carried over statement for statement into Lean's `for … in … do`) are the model's `detectProblemChanges`
  under the abstraction that reads a Go `ConfigurationProblem` as a model `Problem`.
-/
import Nic.Gen.Fns
import Nic.Model.Arb
namespace Nic.TieProblems
open Nic.Go Nic.Gen.Fns Nic.Gen.Fns.K8sConfiguration Nic.Arb

def absP (p : ConfigurationProblem) : Problem := ⟨p.Object, p.IsError, p.Reason, p.Message⟩
def absM (m : List (String × ConfigurationProblem)) : Map Problem := m.map fun kp => (kp.1, absP kp.2)

/-- the comparison that decides whether a problem is reported again -/
theorem compareConfigurationProblems_tie (a b : ConfigurationProblem) :
    compareConfigurationProblems a b =
      ((absP a).isError = (absP b).isError && (absP a).reason = (absP b).reason && (absP a).msg = (absP b).msg) := by
  rcases a with ⟨ao, ae, ar, am⟩
  rcases b with ⟨bo, be, br, bm⟩
  by_cases hr : ar = br <;> by_cases hm : am = bm <;> cases ae <;> cases be <;>
    simp [compareConfigurationProblems, absP, hr, hm]

/-- what one key contributes to the result -/
def contrib (new old : List (String × ConfigurationProblem)) (key : String) : Option ConfigurationProblem :=
  if !(Go.has old key) then some (Go.idx new key)
  else if !(compareConfigurationProblems (Go.idx new key) (Go.idx old key)) then some (Go.idx new key) else none

theorem filterMap_congr_on {α β} (l : List α) (f g : α → Option β) (h : ∀ x ∈ l, f x = g x) : l.filterMap f = l.filterMap g := by
  induction l with
  | nil => rfl
  | cons a r ih =>
    simp only [List.filterMap_cons]
    rw [h a (by simp), ih (fun x hx => h x (List.mem_cons_of_mem _ hx))]

/-- the loop, for any list of keys and any accumulator -/
theorem loop_eq (new old : List (String × ConfigurationProblem)) (ks : List String) (acc : List ConfigurationProblem) :
    (forIn (m := Id) ks acc fun key s =>
      if (!Go.has old key) = true then (ForInStep.yield (s ++ [Go.idx new key]) : Id _)
      else if (!compareConfigurationProblems (Go.idx new key) (Go.idx old key)) = true then ForInStep.yield (s ++ [Go.idx new key])
      else ForInStep.yield s) = acc ++ ks.filterMap (contrib new old) := by
  induction ks generalizing acc with
  | nil => simp [forIn, pure]
  | cons k r ih =>
    rw [List.forIn_cons]
    simp only [List.filterMap_cons, contrib]
    by_cases h1 : Go.has old k = true
    · by_cases h2 : compareConfigurationProblems (Go.idx new k) (Go.idx old k) = true
      · simp only [h1, h2, Bool.not_true, Bool.false_eq_true, if_false]
        exact ih acc
      · have h2' : compareConfigurationProblems (Go.idx new k) (Go.idx old k) = false := by simpa using h2
        simp only [h1, h2', Bool.not_true, Bool.not_false, Bool.false_eq_true, if_false, if_true]
        have := ih (acc ++ [Go.idx new k])
        simp only [List.append_assoc, List.singleton_append] at this
        exact this
    · have h1' : Go.has old k = false := by simpa using h1
      simp only [h1', Bool.not_false, if_true]
      have := ih (acc ++ [Go.idx new k])
      simp only [List.append_assoc, List.singleton_append] at this
      exact this

theorem idx_cons_self {β} [Inhabited β] (k : String) (v : β) (r : List (String × β)) : Go.idx ((k, v) :: r) k = v := by
  simp [Go.idx, Idx.idx]

theorem idx_cons_ne {β} [Inhabited β] (k k' : String) (v : β) (r : List (String × β)) (h : k ≠ k') :
    Go.idx ((k, v) :: r) k' = Go.idx r k' := by
  simp [Go.idx, Idx.idx, List.find?_cons, h]

/-- With distinct keys, walking the keys and indexing is walking the entries. -/
theorem keys_filterMap {β γ} [Inhabited β] (l : List (String × β)) (F : String → β → Option γ) (hn : (l.map (·.1)).Nodup) :
    (l.map (·.1)).filterMap (fun k => F k (Go.idx l k)) = l.filterMap (fun kp => F kp.1 kp.2) := by
  induction l with
  | nil => rfl
  | cons kv r ih =>
    obtain ⟨k, v⟩ := kv
    simp only [List.map_cons, List.nodup_cons] at hn
    simp only [List.map_cons, List.filterMap_cons, idx_cons_self]
    have htail : (r.map (·.1)).filterMap (fun k' => F k' (Go.idx ((k, v) :: r) k')) =
        (r.map (·.1)).filterMap (fun k' => F k' (Go.idx r k')) := by
      apply filterMap_congr_on
      intro k' hk'
      have : k ≠ k' := fun e => hn.1 (e ▸ hk')
      rw [idx_cons_ne k k' v r this]
    rw [htail, ih hn.2]

theorem has_eq_get (old : List (String × ConfigurationProblem)) (k : String) :
    Go.has old k = ((absM old).get? k).isSome := by
  induction old with
  | nil => rfl
  | cons kv r ih =>
    obtain ⟨k', v⟩ := kv
    simp only [Go.has, List.any_cons, absM, List.map_cons, Map.get?] at ih ⊢
    by_cases h : k' = k
    · simp [h]
    · have hb : (k' == k) = false := by simpa using h
      simp only [hb, Bool.false_or, h, if_false]
      exact ih

theorem idx_eq_get (old : List (String × ConfigurationProblem)) (k : String) (o : Problem)
    (h : (absM old).get? k = some o) : absP (Go.idx old k) = o := by
  induction old with
  | nil => simp [absM, Map.get?] at h
  | cons kv r ih =>
    obtain ⟨k', v⟩ := kv
    simp only [absM, List.map_cons, Map.get?] at h
    by_cases hk : k' = k
    · subst hk; simp at h; rw [idx_cons_self]; exact h
    · simp only [hk, if_false] at h
      rw [idx_cons_ne k' k v r hk]
      exact ih h

/-- **The report delta of the code is the model's** (`detectProblemChanges`): for all problem maps with distinct keys (Go maps),
the problems returned by `detectChangesInProblems` — in key order — are the new problems that are absent from the old map or
differ from the old entry in error flag, reason or message. -/
theorem detectChangesInProblems_tie (new old : List (String × ConfigurationProblem)) (hn : (new.map (·.1)).Nodup) :
    (detectChangesInProblems new old).map absP = detectProblemChanges (absM new) (absM old) := by
  have hloop : detectChangesInProblems new old = (Go.sortedKeys new).filterMap (contrib new old) := by
    unfold detectChangesInProblems
    have := loop_eq new old (Go.sortedKeys new) []
    simp only [List.nil_append] at this
    simp only [Id.run, bind, pure]
    exact this
  rw [hloop]
  unfold Go.sortedKeys
  have hk := keys_filterMap new (fun k p =>
    if !(Go.has old k) then some p
    else if !(compareConfigurationProblems p (Go.idx old k)) then some p else none) hn
  have hc : (fun k => contrib new old k) = fun k => (fun k p =>
      if !(Go.has old k) then some p
      else if !(compareConfigurationProblems p (Go.idx old k)) then some p else none) k (Go.idx new k) := by
    funext k; rfl
  rw [show (List.map (fun x => x.1) new).filterMap (contrib new old) =
      (List.map (fun x => x.1) new).filterMap (fun k => (fun k p =>
      if !(Go.has old k) then some p
      else if !(compareConfigurationProblems p (Go.idx old k)) then some p else none) k (Go.idx new k)) from by rw [← hc]]
  rw [hk]
  unfold detectProblemChanges absM
  rw [List.filterMap_map, List.map_filterMap]
  apply filterMap_congr_on
  rintro ⟨k, p⟩ _
  simp only [Function.comp]
  rw [has_eq_get]
  cases hg : Map.get? (absM old) k with
  | none => simp [absM] at hg ⊢; simp [hg]
  | some o =>
    have ho := idx_eq_get old k o hg
    have hg' : Map.get? (List.map (fun kp => (kp.1, absP kp.2)) old) k = some o := hg
    simp only [hg', Option.isSome_some, Bool.not_true, Bool.false_eq_true, if_false]
    rw [compareConfigurationProblems_tie, ho]
    by_cases hs : ((absP p).isError = o.isError && (absP p).reason = o.reason && (absP p).msg = o.msg) = true
    · simp [hs]
    · simp [hs]

/-! ### non-vacuity: a new problem, a changed one and an unchanged one -/
private def pA : ConfigurationProblem := { Object := "Ingress/d/a", IsError := false, Reason := "Rejected", Message := "m1" }
private def pB : ConfigurationProblem := { Object := "Ingress/d/b", IsError := false, Reason := "Rejected", Message := "m2" }
private def pB' : ConfigurationProblem := { Object := "Ingress/d/b", IsError := false, Reason := "Rejected", Message := "m2x" }
private def pC : ConfigurationProblem := { Object := "Ingress/d/c", IsError := true, Reason := "Rejected", Message := "m3" }
example : detectChangesInProblems [("Ingress/d/a", pA), ("Ingress/d/b", pB'), ("Ingress/d/c", pC)] [("Ingress/d/b", pB), ("Ingress/d/c", pC)] = [pA, pB'] := by
  decide

end Nic.TieProblems
