import Nic.Lemmas.NgxLex
/-!
  C06 — accepted resources cannot alter the structure of the NGINX configuration.

  Part A (this file): context-safety theorems about the tokenizer model `Nic.NgxLex`, for **every**
  string: which values are inert in which lexical context (inside an unquoted word, at the start of a
  token, inside a double- or single-quoted token, through Go's `%q`), and the property's own formulation
  "the directive/block skeleton is the same as with harmless text in that field" (`*_hole_irrelevant`).
  The skeleton of a file is `events`: the sequence of directive ends / block opens (with their argument
  counts) / block closes / errors — argument texts are not part of it.

  Part B (`Nic/Props/C06Regex.lean`): every validator regular expression, regenerated from /repo, only
  accepts values of the class its interpolation site needs.
-/
namespace Nic.Props.C06
open Nic.NgxLex

/-! ### inside an unquoted word -/

/-- A word-safe value read inside an unquoted word produces no structural event and leaves the tokenizer
inside that same word, with no `$` pending. -/
theorem word_hole_inert (s : St) (v : List Char) (hm : s.mode = .word) (he : s.esc = false) (hr : s.err = false)
    (hv : WordSafe v) : run s v = ({ s with var := false }, []) := by
  obtain ⟨hne, hhd, hgo⟩ := hv
  exact run_wordGo v s false hm he hr (by rw [wordGo_var v hhd s.var hne]; exact hgo)

/-- The property, for an interpolation site inside an unquoted word: two word-safe values give the same
skeleton, whatever text precedes and follows. -/
theorem word_hole_irrelevant (pre post v₁ v₂ : List Char)
    (hm : (run init pre).1.mode = .word) (he : (run init pre).1.esc = false) (hr : (run init pre).1.err = false)
    (h₁ : WordSafe v₁) (h₂ : WordSafe v₂) :
    events (pre ++ v₁ ++ post) = events (pre ++ v₂ ++ post) := by
  unfold events
  simp only [List.append_assoc, run_append init pre, run_append (run init pre).1,
    word_hole_inert _ v₁ hm he hr h₁, word_hole_inert _ v₂ hm he hr h₂]

/-- In word mode the `var` flag only matters when the next character is `{`. -/
theorem step_word_var (s : St) (c : Char) (hm : s.mode = .word) (he : s.esc = false) (hr : s.err = false)
    (hc : c ≠ '{') (b : Bool) :
    step { s with var := b } c = step { s with var := false } c := by
  have h : (c == '{') = false := by simpa using hc
  unfold step
  simp [hm, he, hr, h, endDir, fresh]

/-- A value that is inert but may end in `$` (`WordBody`, e.g. a regex path `/a$`): the skeleton is still
independent of the value provided the text after the site does not begin with `{` — which is what every such
site in the templates satisfies (it is followed by a space or `;`). -/
theorem word_body_irrelevant (pre post v₁ v₂ : List Char)
    (hm : (run init pre).1.mode = .word) (he : (run init pre).1.esc = false) (hr : (run init pre).1.err = false)
    (h₁ : WordBody v₁) (h₂ : WordBody v₂) (hp : post.head? ≠ some '{') (hpne : post ≠ []) :
    events (pre ++ v₁ ++ post) = events (pre ++ v₂ ++ post) := by
  obtain ⟨n₁, d₁, g₁⟩ := h₁
  obtain ⟨n₂, d₂, g₂⟩ := h₂
  obtain ⟨b₁, e₁⟩ := Option.isSome_iff_exists.mp g₁
  obtain ⟨b₂, e₂⟩ := Option.isSome_iff_exists.mp g₂
  have r₁ := run_wordGo v₁ (run init pre).1 b₁ hm he hr (by rw [wordGo_var v₁ d₁ _ n₁]; exact e₁)
  have r₂ := run_wordGo v₂ (run init pre).1 b₂ hm he hr (by rw [wordGo_var v₂ d₂ _ n₂]; exact e₂)
  cases post with
  | nil => exact absurd rfl hpne
  | cons c cs =>
    have hc : c ≠ '{' := by simpa using hp
    unfold events
    simp only [List.append_assoc, run_append init pre, run_append (run init pre).1, r₁, r₂, run_cons,
      step_word_var (run init pre).1 c hm he hr hc b₁, step_word_var (run init pre).1 c hm he hr hc b₂]

/-! ### at the start of a token -/

theorem step_token_start (s : St) (c : Char) (hm : s.mode = .space) (he : s.esc = false) (hr : s.err = false)
    (hv : s.var = false) (hc : startChar c = true) : step s c = ({ s with mode := .word, var := (c == '$') }, []) := by
  simp only [startChar, Bool.not_eq_true', Bool.or_eq_false_iff] at hc
  obtain ⟨⟨⟨⟨⟨⟨⟨h1, h2⟩, h3⟩, h4⟩, h5⟩, h6⟩, h7⟩, h8⟩ := hc
  unfold step
  simp only [hm, he, hr, h1, h2, h3, h4, h5, h6, h7, h8]
  by_cases hd : c = '$'
  · subst hd; simp
  · simp [hd, hv]

/-- reading the first character of a token is what `wordGo` says about it -/
theorem wordGo_start (c : Char) (cs : List Char) (hc : startChar c = true) :
    wordGo false (c :: cs) = wordGo (c == '$') cs := by
  simp only [startChar, Bool.not_eq_true', Bool.or_eq_false_iff] at hc
  obtain ⟨⟨⟨⟨⟨⟨⟨h1, h2⟩, h3⟩, h4⟩, _⟩, _⟩, _⟩, _⟩ := hc
  by_cases hd : c = '$'
  · subst hd; simp [wordGo]
  · have : (c == '$') = false := by simpa using hd
    simp [wordGo, h1, h2, h3, h4, this]

theorem token_run (s : St) (c : Char) (cs : List Char) (b : Bool) (hm : s.mode = .space) (he : s.esc = false)
    (hr : s.err = false) (hvar : s.var = false) (hc : startChar c = true) (hgo : wordGo false (c :: cs) = some b) :
    run s (c :: cs) = ({ s with mode := .word, var := b }, []) := by
  rw [run_cons, step_token_start s c hm he hr hvar hc]
  rw [wordGo_start c cs hc] at hgo
  have := run_wordGo cs { s with mode := .word, var := (c == '$') } b rfl (by simpa using he) (by simpa using hr) hgo
  simp [this]

/-- A token-safe value read between tokens starts exactly one word and produces no structural event. -/
theorem token_hole_inert (s : St) (v : List Char) (hm : s.mode = .space) (he : s.esc = false) (hr : s.err = false)
    (hvar : s.var = false) (hv : TokenSafe v) : run s v = ({ s with mode := .word, var := false }, []) := by
  obtain ⟨c, cs, rfl, hc, hgo⟩ := hv
  exact token_run s c cs false hm he hr hvar hc hgo

theorem token_hole_irrelevant (pre post v₁ v₂ : List Char)
    (hm : (run init pre).1.mode = .space) (hr : (run init pre).1.err = false)
    (h₁ : TokenSafe v₁) (h₂ : TokenSafe v₂) :
    events (pre ++ v₁ ++ post) = events (pre ++ v₂ ++ post) := by
  obtain ⟨hvar, he⟩ := reach_between pre (Or.inl hm)
  unfold events
  simp only [List.append_assoc, run_append init pre, run_append (run init pre).1,
    token_hole_inert _ v₁ hm he hr hvar h₁, token_hole_inert _ v₂ hm he hr hvar h₂]

/-! ### inside a quoted token -/

/-- A quote-safe value read inside a quoted token produces no structural event, leaves the tokenizer inside
that token, with no escape pending. -/
theorem quote_hole_inert (q : Char) (s : St) (v : List Char) (hm : InQuote s q) (he : s.esc = false) (hr : s.err = false)
    (hv : QuoteSafe q v) : ∃ b, run s v = ({ s with var := b }, []) := by
  obtain ⟨b, hb⟩ := run_quote q v s hm hr (by rw [he]; exact hv)
  refine ⟨b, ?_⟩
  rw [hb]
  cases s; simp_all

/-- The property, for an interpolation site inside a quoted token. -/
theorem quote_hole_irrelevant (q : Char) (pre post v₁ v₂ : List Char)
    (hm : InQuote (run init pre).1 q) (he : (run init pre).1.esc = false) (hr : (run init pre).1.err = false)
    (h₁ : QuoteSafe q v₁) (h₂ : QuoteSafe q v₂) :
    events (pre ++ v₁ ++ post) = events (pre ++ v₂ ++ post) := by
  obtain ⟨b₁, e₁⟩ := quote_hole_inert q _ v₁ hm he hr h₁
  obtain ⟨b₂, e₂⟩ := quote_hole_inert q _ v₂ hm he hr h₂
  have hsim : QSim { (run init pre).1 with var := b₁ } { (run init pre).1 with var := b₂ } := by
    refine Or.inr ⟨?_, rfl⟩
    rcases hm with ⟨h, _⟩ | ⟨h, _⟩
    · exact Or.inl h
    · exact Or.inr h
  obtain ⟨hs, hev⟩ := run_qsim post _ _ hsim
  obtain ⟨hok, herr⟩ := eofOk_qsim _ _ hs
  unfold events
  simp only [List.append_assoc, run_append init pre, run_append (run init pre).1, e₁, e₂, List.nil_append, hev, hok, herr]

/-! ### Go's `%q` (strconv.Quote) -/

/-- What one input unit (rune, or invalid byte) may be turned into: itself if it is neither `"` nor `\`, or
a backslash escape whose tail (`\x41`, `é`, …) contains neither. -/
def EscChunk (ch : List Char) : Prop :=
  (∃ c, ch = [c] ∧ c ≠ '"' ∧ c ≠ '\\') ∨
  (∃ d tl, ch = '\\' :: d :: tl ∧ ∀ x ∈ tl, x ≠ '"' ∧ x ≠ '\\')

theorem qGo_plain_tail (q : Char) (tl rest : List Char) (h : ∀ x ∈ tl, x ≠ q ∧ x ≠ '\\') :
    qGo q false (tl ++ rest) = qGo q false rest := by
  induction tl with
  | nil => rfl
  | cons x xs ih =>
    have hx := h x (by simp)
    have h1 : (x == '\\') = false := by simpa using hx.2
    have h2 : (x == q) = false := by simpa using hx.1
    simp only [List.cons_append, qGo, h1, h2, Bool.false_eq_true, if_false]
    exact ih (fun y hy => h y (by simp [hy]))

theorem qGo_chunk (ch rest : List Char) (h : EscChunk ch) : qGo '"' false (ch ++ rest) = qGo '"' false rest := by
  rcases h with ⟨c, rfl, h1, h2⟩ | ⟨d, tl, rfl, h⟩
  · have a : (c == '\\') = false := by simpa using h2
    have b : (c == '"') = false := by simpa using h1
    simp [qGo, a, b]
  · simp only [List.cons_append, qGo, beq_self_eq_true, if_true, Bool.false_eq_true, if_false]
    exact qGo_plain_tail '"' tl rest h

/-- Any per-unit escaper whose chunks are `EscChunk`s produces a dq-safe string. -/
theorem escaped_dqSafe (esc : α → List Char) (h : ∀ a, EscChunk (esc a)) (l : List α) :
    QuoteSafe '"' (l.flatMap esc) := by
  unfold QuoteSafe
  induction l with
  | nil => rfl
  | cons a as ih => rw [List.flatMap_cons, qGo_chunk _ _ (h a)]; exact ih

/-- `printf "%q"`: for **every** input the rendered text is exactly one quoted argument — between tokens
before, one more argument and "closing quote seen" after, and no structural event. -/
theorem goQuote_single_token (esc : α → List Char) (h : ∀ a, EscChunk (esc a)) (l : List α)
    (s : St) (hm : s.mode = .space) (he : s.esc = false) (hr : s.err = false) :
    run s ('"' :: (l.flatMap esc ++ ['"'])) =
      ({ s with mode := .need, var := false, nargs := s.nargs + 1 }, []) := by
  have h0 : step s '"' = ({ s with mode := .dq }, []) := by
    have : isWs '"' = false := by decide
    unfold step; simp [hm, he, hr, this]
  rw [run_cons, h0]
  obtain ⟨b, hb⟩ := quote_hole_inert '"' { s with mode := .dq } (l.flatMap esc) (Or.inl ⟨rfl, rfl⟩)
    (by simpa using he) (by simpa using hr) (escaped_dqSafe esc h l)
  rw [run_append, hb]
  simp only [run_cons, run_nil, List.nil_append, List.append_nil]
  unfold step
  cases b <;> simp [he, hr]

/-! ### the classes are necessary: witnesses that the tokenizer does treat the excluded characters as structure -/

/-- S-C06-a's shape: `location /a{1} {` — the brace ends the word and opens a block one level too early. -/
example : events "location /a{1} {\n}\n".toList ≠ events "location /ax1x {\n}\n".toList := by decide

/-- A `;` inside an unquoted value terminates the directive and the rest becomes a directive of its own. -/
example : events "proxy_pass http://u/x;return 200 pwned;".toList = [.dir 2, .dir 3] := by decide
example : events "proxy_pass http://u/xzreturnz200zpwned;".toList = [.dir 2] := by decide

/-- A quote in a double-quoted site ends the token early. -/
example : events "set $x \"a\";return 200 \"b\";".toList = [.dir 3, .dir 3] := by decide

/-- Non-vacuity of the hypotheses: a word site, a token site and a quoted site that occur in the templates. -/
example : (run init "proxy_pass http://".toList).1.mode = .word ∧ WordSafe "vs_d_v1_u".toList := by decide
example : WordSafe "${request_uri}${arg_user}".toList ∧ WordBody "/path$".toList ∧ ¬ WordSafe "/path$".toList := by decide
example : (run init "server_name ".toList).1.mode = .space := by decide
example : InQuote (run init "return 200 \"".toList).1 '"' ∧ QuoteSafe '"' "hello \\\"world\\\"; } {".toList := by
  refine ⟨Or.inl ⟨by decide, rfl⟩, by decide⟩

end Nic.Props.C06
