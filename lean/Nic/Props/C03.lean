/-
  C03 — emitted change batches keep "applied" equal to the arbitrated state.
  Property theorems: batch ordering for every public operation, and
  quiescence (rebuilding an unchanged object set emits nothing).  The
  applied = active statement over whole histories is decided on the real code
  by the shadow-apply oracle (props/C03.py); see DESIGN.md for what is and is
  not carried by a theorem here.
-/
import Nic.Lemmas.Quiescent
import Nic.Lemmas.StepFacts

namespace Nic.Arb

/-- A batch in which every removal is ordered before every addition or update. -/
def DeletesFirst (cs : List Change) : Prop :=
  ∃ ds us, cs = ds ++ us ∧ (∀ c ∈ ds, c.op = .delete) ∧ (∀ c ∈ us, c.op = .update)

private theorem filter_split (cs : List Change) :
    DeletesFirst (cs.filter (·.op = .delete) ++ cs.filter (·.op = .update)) :=
  ⟨_, _, rfl, fun c hc => by simpa using (List.mem_filter.mp hc).2,
    fun c hc => by simpa using (List.mem_filter.mp hc).2⟩

/-- `squashResourceChanges` returns deletes first. -/
theorem squash_deletes_first (cs : List Change) : DeletesFirst (squash cs) := by
  unfold squash; exact filter_split _

/-- The re-ordering applied to a batch collected from two rebuilds returns deletes first. -/
theorem deletesFirst_deletes_first (cs : List Change) : DeletesFirst (deletesFirst cs) := by
  unfold deletesFirst; exact filter_split _

private theorem map_keeps (cs : List Change) (f : Change → Change) (hf : ∀ c, (f c).op = c.op)
    (h : DeletesFirst cs) : DeletesFirst (cs.map f) := by
  obtain ⟨ds, us, rfl, hd, hu⟩ := h
  refine ⟨ds.map f, us.map f, by simp, ?_, ?_⟩
  · intro c hc; obtain ⟨x, hx, rfl⟩ := List.mem_map.mp hc; rw [hf]; exact hd x hx
  · intro c hc; obtain ⟨x, hx, rfl⟩ := List.mem_map.mp hc; rw [hf]; exact hu x hx

private theorem attachGo_eq_map (kk : String) (cs : List Change) :
    ∃ f : List Change, f.length = cs.length ∧ (attachError.go kk cs) = f ∧
      List.map (·.op) f = List.map (·.op) cs := by
  induction cs with
  | nil => exact ⟨[], rfl, by simp [attachError.go], rfl⟩
  | cons c r ih =>
    obtain ⟨f, hl, he, ho⟩ := ih
    unfold attachError.go
    by_cases hk : c.res.key = kk
    · exact ⟨{ c with err := true } :: r, by simp, by simp [hk], by simp⟩
    · exact ⟨c :: f, by simp [hl], by simp [hk, he], by simp [ho]⟩

private theorem deletesFirst_of_ops {cs cs' : List Change} (ho : List.map (·.op) cs' = List.map (·.op) cs)
    (h : DeletesFirst cs) : DeletesFirst cs' := by
  obtain ⟨ds, us, rfl, hd, hu⟩ := h
  have hlen : cs'.length = ds.length + us.length := by
    have := congrArg List.length ho; simpa using this
  refine ⟨cs'.take ds.length, cs'.drop ds.length, (List.take_append_drop _ _).symm, ?_, ?_⟩
  · intro c hc
    obtain ⟨i, hi, rfl⟩ := List.mem_iff_getElem.mp hc
    have hi' : i < ds.length := by simp at hi; omega
    have h1 : i < cs'.length := by omega
    have : (cs'.map (·.op))[i]'(by simpa using h1) = ((ds ++ us).map (·.op))[i]'(by simp; omega) := by
      simp only [ho]
    simp only [List.getElem_map, List.getElem_take] at this ⊢
    rw [this, List.getElem_append_left hi']
    exact hd _ (List.getElem_mem _)
  · intro c hc
    obtain ⟨i, hi, rfl⟩ := List.mem_iff_getElem.mp hc
    have hi' : ds.length + i < cs'.length := by simp at hi; omega
    have : (cs'.map (·.op))[ds.length + i]'(by simpa using hi') = ((ds ++ us).map (·.op))[ds.length + i]'(by simp; omega) := by
      simp only [ho]
    simp only [List.getElem_map, List.getElem_drop] at this ⊢
    rw [this, List.getElem_append_right (by omega)]
    exact hu _ (List.getElem_mem _)

private theorem attachError_keeps (kk : String) (cs : List Change) (ps : List Problem)
    (h : DeletesFirst cs) : DeletesFirst (attachError kk cs ps).1 := by
  unfold attachError
  split
  · obtain ⟨f, _, he, ho⟩ := attachGo_eq_map kk cs
    simp only
    rw [he]; exact deletesFirst_of_ops ho h
  · exact h

theorem rebuildHosts_deletes_first (s : State) : DeletesFirst (rebuildHosts s).2.1 := by
  unfold rebuildHosts
  simp only
  exact map_keeps _ _ (fun c => by split <;> rfl) (squash_deletes_first _)

theorem rebuildListenerHosts_deletes_first (s : State) (ord) : DeletesFirst (rebuildListenerHosts s ord).2.1 := by
  unfold rebuildListenerHosts
  simp only
  exact squash_deletes_first _

theorem tsBoth_deletes_first (s : State) (ord) : DeletesFirst (tsBoth s ord).2.1 := by
  unfold tsBoth
  simp only
  split
  · exact deletesFirst_deletes_first _
  · exact rebuildListenerHosts_deletes_first s ord

theorem gcBoth_deletes_first (s : State) (ord) : DeletesFirst (gcBoth s ord).2.1 := by
  unfold gcBoth; exact deletesFirst_deletes_first _

/-- **Within one batch every removal is ordered before every addition or update** — for every
public operation of the arbitration component, in every state, including the operations that
combine a listener rebuild with a host rebuild. -/
theorem batch_deletes_first (perm) (s : State) (op : Op) : DeletesFirst (step perm s op).2.1 := by
  cases op with
  | ing i cls valid =>
    rw [step_ing_changes]; split
    · exact attachError_keeps _ _ _ (rebuildHosts_deletes_first _)
    · exact rebuildHosts_deletes_first _
  | vs v cls valid =>
    rw [step_vs_changes]; split
    · exact attachError_keeps _ _ _ (rebuildHosts_deletes_first _)
    · exact rebuildHosts_deletes_first _
  | vsr r cls valid => rw [step_vsr_changes]; exact rebuildHosts_deletes_first _
  | ts t cls valid =>
    rw [step_ts_changes]; split
    · exact attachError_keeps _ _ _ (tsBoth_deletes_first _ _)
    · exact tsBoth_deletes_first _ _
  | gc ls => simp only [step]; exact gcBoth_deletes_first _ _
  | delIng k => simp only [step]; split <;> first | exact rebuildHosts_deletes_first _ | exact ⟨[], [], rfl, by simp, by simp⟩
  | delVs k => simp only [step]; split <;> first | exact rebuildHosts_deletes_first _ | exact ⟨[], [], rfl, by simp, by simp⟩
  | delVsr k => simp only [step]; split <;> first | exact rebuildHosts_deletes_first _ | exact ⟨[], [], rfl, by simp, by simp⟩
  | delTs k => simp only [step]; split <;> first | exact tsBoth_deletes_first _ _ | exact ⟨[], [], rfl, by simp, by simp⟩
  | delGc => simp only [step]; exact gcBoth_deletes_first _ _

/-! ### quiescence -/

/-- What `rebuildHosts` stores as the problem table for an object set. -/
def hostProblemsOf (o : Objs) : Map Problem :=
  let b := listenerWarnings o (buildHosts o)
  vsrProblems o b.hosts b.res (orphanMinionProblems o b.hosts b.res (noActiveHostProblems b.hosts b.res))

theorem rebuildHosts_state (s : State) :
    (rebuildHosts s).1 = { s with hosts := resolveHosts (listenerWarnings s.toObjs (buildHosts s.toObjs)),
                                  hostProblems := hostProblemsOf s.toObjs } := by
  unfold rebuildHosts hostProblemsOf; rfl

/-- **Rebuilding an unchanged object set is silent**: a second rebuild directly after a first one
emits no change and no problem and leaves the state as it is. (Every event re-processes the whole
object set, so this is what keeps unrelated resources from being re-applied or re-reported.) -/
theorem rebuild_quiescent (s : State) :
    rebuildHosts (rebuildHosts s).1 = ((rebuildHosts s).1, [], []) := by
  have hsorted : Map.Sorted (resolveHosts (listenerWarnings s.toObjs (buildHosts s.toObjs))) :=
    resolveHosts_sorted _ (by rw [listenerWarnings_hosts]; exact buildHosts_sorted _)
  have hprob : Map.Sorted (hostProblemsOf s.toObjs) := by
    unfold hostProblemsOf
    exact vsrProblems_sorted _ _ _ _ (orphanMinionProblems_sorted _ _ _ _ (noActiveHostProblems_sorted _ _))
  rw [rebuildHosts_state]
  unfold rebuildHosts
  simp only [detectHostChanges_self _ hsorted, changesFor_nil, squash_nil, List.map_nil]
  have : detectProblemChanges (hostProblemsOf s.toObjs) (hostProblemsOf s.toObjs) = [] :=
    detectProblemChanges_self _ hprob
  unfold hostProblemsOf at this ⊢
  simp only [this]

end Nic.Arb
