/-
  C09 — generation is a pure function: the result does not depend on the order in which a map was iterated.
-/
import Nic.Model.Order
import Nic.Gen.MapRanges

namespace Nic.Order

private theorem str_le_trans (a b c : String) (h1 : a ≤ b) (h2 : b ≤ c) : a ≤ c := String.le_trans h1 h2

private theorem byKey_trans (a b c : Entry) (h1 : byKey a b = true) (h2 : byKey b c = true) : byKey a c = true := by
  simp only [byKey, decide_eq_true_eq] at *
  exact String.le_trans h1 h2

private theorem byKey_total (a b : Entry) : (byKey a b || byKey b a) = true := by
  simp only [byKey, Bool.or_eq_true, decide_eq_true_eq]
  exact String.le_total a.1 b.1

/-- Distinct keys: what a Go map guarantees about the entries a range visits. -/
def DistinctKeys (l : List Entry) : Prop := (l.map (·.1)).Nodup

private theorem distinct_perm {l₁ l₂ : List Entry} (hp : l₁.Perm l₂) (hd : DistinctKeys l₁) : DistinctKeys l₂ := by
  unfold DistinctKeys at *
  exact (hp.map (fun e : Entry => e.1)).nodup_iff.mp hd

/-- In a list with distinct keys two entries with the same key are the same entry. -/
private theorem eq_of_key_eq {l : List Entry} (hd : DistinctKeys l) {a b : Entry} (ha : a ∈ l) (hb : b ∈ l)
    (hk : a.1 = b.1) : a = b := by
  induction l with
  | nil => cases ha
  | cons x xs ih =>
    simp only [DistinctKeys, List.map_cons, List.nodup_cons, List.mem_map, not_exists, not_and] at hd
    simp only [List.mem_cons] at ha hb
    rcases ha with rfl | ha <;> rcases hb with rfl | hb
    · rfl
    · exact absurd hk.symm (hd.1 b hb)
    · exact absurd hk (hd.1 a ha)
    · exact ih hd.2 ha hb

/-- **sorted_site_order_free**: a site that sorts by key what it collected yields the same list for every iteration
order of the same map (any two permutations of entries with distinct keys). -/
theorem sorted_site_order_free (o₁ o₂ : List Entry) (hp : o₁.Perm o₂) (hd : DistinctKeys o₁) :
    collectSorted o₁ = collectSorted o₂ := by
  unfold collectSorted
  have h1 := List.pairwise_mergeSort byKey_trans byKey_total o₁
  have h2 := List.pairwise_mergeSort byKey_trans byKey_total o₂
  have hperm : (o₁.mergeSort byKey).Perm (o₂.mergeSort byKey) :=
    (List.mergeSort_perm o₁ byKey).trans (hp.trans (List.mergeSort_perm o₂ byKey).symm)
  refine List.Perm.eq_of_pairwise (le := fun a b => byKey a b = true) ?_ h1 h2 hperm
  intro a b ha hb hab hba
  simp only [byKey, decide_eq_true_eq] at hab hba
  have hk : a.1 = b.1 := String.le_antisymm hab hba
  have ha' : a ∈ o₁ := (List.mergeSort_perm o₁ byKey).subset ha
  have hb' : b ∈ o₁ := hp.symm.subset ((List.mergeSort_perm o₂ byKey).subset hb)
  exact eq_of_key_eq hd ha' hb' hk

/-- **api_key_clients_order_free**: the fixed `generateAPIKeyClients` returns the same client list whatever order the
Secret's data map was iterated in. -/
theorem api_key_clients_order_free (h : String → String) (o₁ o₂ : List Entry) (hp : o₁.Perm o₂) (hd : DistinctKeys o₁) :
    apiKeyClients h o₁ = apiKeyClients h o₂ := by
  unfold apiKeyClients
  apply sorted_site_order_free _ _ (hp.map _)
  simpa [DistinctKeys, List.map_map, Function.comp_def] using hd

/-- The code before the fix did depend on the order (finding S-C09-a, fixed): a witness. -/
theorem api_key_clients_unsorted_order_dependent :
    apiKeyClientsUnsorted id [("a", "1"), ("b", "2")] ≠ apiKeyClientsUnsorted id [("b", "2"), ("a", "1")] := by
  decide

/-! ### sites that only build another map -/

def Equiv (m m' : List Entry) : Prop := ∀ k, lookup m k = lookup m' k

private theorem lookup_put (m : List Entry) (e : Entry) (k : String) :
    lookup (e :: m.filter (fun p => p.1 ≠ e.1)) k = if e.1 = k then some e.2 else lookup m k := by
  unfold lookup
  by_cases h : e.1 = k
  · simp [h]
  · have hb : (e.1 == k) = false := by simpa using h
    rw [List.find?_cons, hb, if_neg h, List.find?_filter]
    have hf : (fun a : Entry => decide (decide (a.fst ≠ e.fst) = true ∧ (a.fst == k) = true)) = (fun p : Entry => p.fst == k) := by
      funext a
      by_cases hak : a.1 = k
      · subst hak
        have hne : ¬ a.1 = e.1 := fun h' => h h'.symm
        simp [hne]
      · have : (a.1 == k) = false := by simpa using hak
        simp [this]
    simp only [hf]

private theorem buildMap_congr (o : List Entry) (m m' : List Entry) (h : Equiv m m') : Equiv (buildMap o m) (buildMap o m') := by
  induction o generalizing m m' with
  | nil => exact h
  | cons e es ih =>
    simp only [buildMap, List.foldl_cons]
    apply ih
    intro k
    rw [lookup_put, lookup_put, h k]

/-- **set_site_order_free**: a site that only writes the visited entries into another map builds a map with the same
content (every lookup agrees) for every iteration order of a map with distinct keys. -/
theorem set_site_order_free (o₁ o₂ : List Entry) (m0 : List Entry) (hp : o₁.Perm o₂) (hd : DistinctKeys o₁) :
    Equiv (buildMap o₁ m0) (buildMap o₂ m0) := by
  induction hp generalizing m0 with
  | nil => intro k; rfl
  | cons x _ ih =>
    simp only [buildMap, List.foldl_cons]
    exact ih _ (by simp only [DistinctKeys, List.map_cons, List.nodup_cons] at hd; exact hd.2)
  | swap x y l =>
    simp only [buildMap, List.foldl_cons]
    apply buildMap_congr
    intro k
    have hne : x.1 ≠ y.1 := by
      simp only [DistinctKeys, List.map_cons, List.nodup_cons, List.mem_cons, not_or] at hd
      exact fun h => hd.1.1 h.symm
    rw [lookup_put, lookup_put, lookup_put, lookup_put]
    by_cases hx : x.1 = k <;> by_cases hy : y.1 = k <;> simp [hx, hy]
    exact absurd (hx.trans hy.symm) hne
  | trans h1 _ ih1 ih2 =>
    intro k
    rw [ih1 m0 hd k, ih2 m0 (distinct_perm h1 hd) k]

/-! ### the regenerated table of every map range in internal/configs -/

/-- **all_file_sites_order_free**: every `range` over a map in the generation packages whose result can reach a generated
file belongs to one of the two harmless classes. (The table is regenerated from /repo on every run.) -/
theorem all_file_sites_order_free : Nic.Gen.MapRanges.sites.all (fun s => s.reach != "files" || s.cls == "set" || s.cls == "sorted") = true := by
  decide

example : DistinctKeys [("a", "1"), ("b", "2")] := by simp [DistinctKeys]

end Nic.Order
