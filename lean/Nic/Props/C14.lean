/-
  C14 — upstream servers are exactly the ready endpoints of the referenced service port.
-/
import Nic.Spec.Endpoints

namespace Nic.Eps
open Spec

/-! ### the Go map used as a set -/

private theorem dedupe_fold (l acc : List String) :
    (∀ a, a ∈ l.foldl (fun acc a => if acc.contains a then acc else acc ++ [a]) acc ↔ a ∈ acc ∨ a ∈ l) ∧
    (acc.Nodup → (l.foldl (fun acc a => if acc.contains a then acc else acc ++ [a]) acc).Nodup) := by
  induction l generalizing acc with
  | nil => simp
  | cons x r ih =>
    simp only [List.foldl_cons]
    by_cases hx : acc.contains x = true
    · simp only [hx, if_true]
      obtain ⟨h1, h2⟩ := ih acc
      refine ⟨fun a => ?_, h2⟩
      rw [h1]
      have : x ∈ acc := by simpa using hx
      constructor
      · rintro (h | h)
        · exact Or.inl h
        · exact Or.inr (List.mem_cons_of_mem _ h)
      · rintro (h | h)
        · exact Or.inl h
        · rcases List.mem_cons.mp h with rfl | h
          · exact Or.inl this
          · exact Or.inr h
    · have hx' : acc.contains x = false := by simpa using hx
      simp only [hx', Bool.false_eq_true, if_false]
      obtain ⟨h1, h2⟩ := ih (acc ++ [x])
      have hnot : x ∉ acc := by simpa using hx'
      refine ⟨fun a => ?_, fun hn => h2 ?_⟩
      · rw [h1]; simp only [List.mem_append, List.mem_cons, List.not_mem_nil, or_false]
        constructor
        · rintro ((h | h) | h)
          · exact Or.inl h
          · exact Or.inr (Or.inl h)
          · exact Or.inr (Or.inr h)
        · rintro (h | h | h)
          · exact Or.inl (Or.inl h)
          · exact Or.inl (Or.inr h)
          · exact Or.inr h
      · rw [List.nodup_append]
        refine ⟨hn, by simp, ?_⟩
        intro a ha b hb
        simp at hb; subst hb
        intro e; subst e; exact hnot ha

theorem dedupe_mem (l : List String) (a : String) : a ∈ dedupe l ↔ a ∈ l := by
  unfold dedupe; rw [(dedupe_fold l []).1]; simp

/-- Every address is listed once. -/
theorem dedupe_nodup (l : List String) : (dedupe l).Nodup := by
  unfold dedupe; exact (dedupe_fold l []).2 List.nodup_nil

/-! ### which endpoints -/

theorem mem_selectSlices (tp : Nat) (sl : List Slice) (s : Slice) :
    s ∈ selectSlices tp sl ↔ s ∈ sl ∧ some tp ∈ s.ports := by
  unfold selectSlices
  simp only [List.mem_flatMap, List.mem_map, List.mem_filter, decide_eq_true_eq]
  constructor
  · rintro ⟨x, hx, p, ⟨hp, rfl⟩, rfl⟩; exact ⟨hx, hp⟩
  · rintro ⟨hs, hp⟩; exact ⟨s, hs, some tp, ⟨hp, rfl⟩, rfl⟩

theorem mem_readyEps (sl : List Slice) (e : Ep) :
    e ∈ readyEps sl ↔ ∃ s ∈ sl, e ∈ s.eps ∧ e.ready = some true := by
  unfold readyEps
  simp only [List.mem_flatMap, List.mem_filter, decide_eq_true_eq]

/-- The service port selected for a backend is the one the backend refers to: by number when the
reference has no name, by name otherwise — never "any unnamed port". -/
theorem refersTo_iff (bname : String) (bnum : Nat) (sp : SvcPort) :
    refersTo bname bnum sp = true ↔ Spec.Refers bname bnum sp := by
  unfold refersTo Spec.Refers
  by_cases h : bname = "" <;> simp [h]

/-- **Soundness and completeness of the server list.** Whenever the resolution succeeds it
returns, for the target port `tp` of the service port the backend refers to, *exactly* the
addresses `join(addr, tp)` of endpoints that are ready (`ready = true`; unknown and false are
excluded) in slices that carry `tp` — each once, and at least one. -/
theorem endpointsForPort_exact (slices : List Slice) (bname : String) (bnum : Nat) (svc : Svc) (pods : List Pod)
    (out : List String) (h : endpointsForPort slices bname bnum svc pods = .ok out) :
    ∃ sp tp, svc.ports.find? (refersTo bname bnum) = some sp ∧ targetPortOf sp pods = .ok tp ∧ tp ≠ 0 ∧
      out.Nodup ∧ out ≠ [] ∧
      ∀ a, a ∈ out ↔ ∃ s ∈ slices, some tp ∈ s.ports ∧ ∃ e ∈ s.eps, e.ready = some true ∧
        ∃ addr ∈ e.addrs, a = joinHostPort addr tp := by
  unfold endpointsForPort at h
  cases hf : svc.ports.find? (refersTo bname bnum) with
  | none => simp [hf] at h
  | some sp =>
    simp only [hf] at h
    cases ht : targetPortOf sp pods with
    | error e => simp [ht] at h
    | ok tp =>
      simp only [ht] at h
      by_cases h0 : tp = 0
      · simp [h0] at h
      · simp only [h0, if_false] at h
        split at h
        · cases h
        · rename_i hne
          simp only [Except.ok.injEq] at h
          subst h
          refine ⟨sp, tp, rfl, ht, h0, dedupe_nodup _, ?_, ?_⟩
          · intro e; rw [e] at hne; simp at hne
          · intro a
            rw [dedupe_mem]
            simp only [List.mem_flatMap, List.mem_map, mem_readyEps, mem_selectSlices]
            constructor
            · rintro ⟨e, ⟨s, ⟨hs, hp⟩, he, hr⟩, addr, ha, rfl⟩
              exact ⟨s, hs, hp, e, he, hr, addr, ha, rfl⟩
            · rintro ⟨s, hs, hp, e, he, hr, addr, ha, rfl⟩
              exact ⟨e, ⟨s, ⟨hs, hp⟩, he, hr⟩, addr, ha, rfl⟩

/-- **With no usable endpoint the backend is an error, never an empty server list.** -/
theorem empty_is_error (slices : List Slice) (bname : String) (bnum : Nat) (svc : Svc) (pods : List Pod) :
    endpointsForPort slices bname bnum svc pods ≠ .ok [] := by
  intro h
  obtain ⟨_, _, _, _, _, _, hne, _⟩ := endpointsForPort_exact _ _ _ _ _ _ h
  exact hne rfl

/-- **Endpoints of another Service (or namespace) never receive traffic**: only slices labelled
with this Service's name in its namespace are consulted. -/
theorem other_service_excluded (svc : Svc) (all : List Slice) (s : Slice) :
    s ∈ svcSlices svc all ↔ s ∈ all ∧ s.svc = svc.name ∧ s.ns = svc.ns := by
  unfold svcSlices; simp

/-- A backend of a normal Service resolves through the slices of that Service only. -/
theorem backend_uses_own_slices (isPlus : Bool) (all : List Slice) (bname : String) (bnum : Nat) (svc : Svc)
    (pods : List Pod) (hs : (svcSlices svc all).isEmpty = false) :
    endpointsForBackend isPlus all bname bnum svc pods =
      endpointsForPort (svcSlices svc all) bname bnum svc (pods.filter (matchesSelector svc.selector)) := by
  unfold endpointsForBackend; simp [hs]

/-- IPv6 addresses are bracketed, IPv4 addresses are not. -/
theorem ipv6_bracketed (addr : String) (p : Nat) :
    (addr.contains ':' = true → joinHostPort addr p = "[" ++ addr ++ "]:" ++ toString p) ∧
    (addr.contains ':' = false → joinHostPort addr p = addr ++ ":" ++ toString p) := by
  unfold joinHostPort
  constructor <;> intro h <;> simp [h]

/-- The target port is the referenced service port's target: its own number when unset, the
number when numeric, the first matching pod's container port when named. -/
theorem targetPort_cases (sp : SvcPort) (pods : List Pod) :
    (sp.tp = .unset → targetPortOf sp pods = .ok sp.port) ∧
    (∀ n, sp.tp = .int n → targetPortOf sp pods = .ok n) ∧
    (∀ s, sp.tp = .named s → pods = [] → targetPortOf sp pods = .error .noPods) := by
  unfold targetPortOf
  refine ⟨fun h => by simp [h], fun n h => by simp [h], fun s h hp => by simp [h, hp]⟩

/-! ### non-vacuity -/

private def e1 : Ep := ⟨["10.0.0.1"], some true⟩
private def e2 : Ep := ⟨["10.0.0.2"], some false⟩
private def e3 : Ep := ⟨["10.0.0.3"], none⟩
private def sl1 : Slice := { svc := "svc", ns := "d", ports := [some 8080], eps := [e1, e2, e1, e3] }
private def sp1 : SvcPort := ⟨"", 80, .int 8080, "TCP"⟩
private def sv1 : Svc := { name := "svc", ns := "d", ports := [sp1], selector := [], external := false, extName := "" }

example : dedupe ["a", "b", "a"] = ["a", "b"] := by decide
example : refersTo "" 8081 sp1 = false ∧ refersTo "" 80 sp1 = true := by decide
example : (readyEps (selectSlices 8080 [sl1])).length = 2 := by decide

/-! ### one resource, several backends -/

/-- **backends_resolved_independently**: the server list a backend is given is a function of that backend alone (and the cluster),
not of its position or of the backends processed before it. -/
theorem backends_resolved_independently (isPlus cip : Bool) (all svcs pods) (bs : List Backend) (i : Nat) (h : i < bs.length) :
    (resolveAll isPlus cip all svcs pods bs)[i]'(by simpa [resolveAll] using h) = resolveOne isPlus cip all svcs pods bs[i] := by
  simp [resolveAll]

/-- **missing_service_no_servers**: a backend whose Service does not exist gets no servers, whatever the other backends resolve to
and whatever EndpointSlices were left behind under its name. -/
theorem missing_service_no_servers (isPlus cip : Bool) (all svcs pods) (b : Backend)
    (h : ∀ s ∈ svcs, s.1.name ≠ b.svc) : resolveOne isPlus cip all svcs pods b = [] := by
  unfold resolveOne
  have : svcs.find? (fun s => decide (s.1.name = b.svc)) = none := by
    rw [List.find?_eq_none]; intro s hs; simpa using h s hs
  rw [this]

/-- a backend's servers come from its own Service's slices only (with `endpointsForPort_exact`, they are exactly the ready
endpoints of the referenced port) -/
theorem resolved_from_own_service (isPlus : Bool) (all svcs pods) (b : Backend) (svc : Svc) (cipAddr : String)
    (h : svcs.find? (fun s => decide (s.1.name = b.svc)) = some (svc, cipAddr)) (l : List String)
    (hl : endpointsForBackend isPlus all "" b.port svc pods = .ok l) : resolveOne isPlus false all svcs pods b = l := by
  unfold resolveOne
  rw [h]; simp [hl]

example : resolveAll false false [⟨"s1", "d", [some 8080], [⟨["10.1.0.1"], some true⟩]⟩]
    [(⟨"s0", "d", [⟨"", 80, .int 8080, "TCP"⟩], [], false, ""⟩, "10.96.0.1")] [] [⟨"s1", 80⟩] = [[]] := by
  decide

end Nic.Eps
