/-
  C10 — files on disk are in one-to-one correspondence with the resources being served.
-/
import Nic.Model.Files
import Nic.Lemmas.Naming
import Nic.Lemmas.MapLemmas

namespace Nic.Files
open Nic.Arb (Map)
open Nic.Naming

/-! ### file names -/

/-- **VirtualServer files**: distinct (namespace, name) pairs get distinct files — the separator
`_` cannot occur in a DNS-1123 namespace. -/
theorem vs_name_inj (ns ns' name name' : String) (h1 : Free '_' ns) (h2 : Free '_' ns')
    (h : vsFile ns name = vsFile ns' name') : ns = ns' ∧ name = name' := by
  unfold vsFile at h
  exact join3_inj "vs_" "_" '_' rfl ns ns' name name' h1 h2 h

/-- **TransportServer files** likewise. -/
theorem ts_name_inj (ns ns' name name' : String) (h1 : Free '_' ns) (h2 : Free '_' ns')
    (h : tsFile ns name = tsFile ns' name') : ns = ns' ∧ name = name' := by
  unfold tsFile at h
  exact join3_inj "ts_" "_" '_' rfl ns ns' name name' h1 h2 h

/-- Ingress files of one namespace are distinct for distinct names… -/
theorem ing_name_inj_partial (ns name name' : String) (h : ingFile ns name = ingFile ns name') : name = name' := by
  unfold ingFile at h
  have h' := congrArg String.toList h
  simp only [String.toList_append] at h'
  have := List.append_cancel_left h'
  exact String.toList_injective this

/-- …and across namespaces without `-`, … -/
theorem ing_name_inj_nodash (ns ns' name name' : String) (h1 : Free '-' ns) (h2 : Free '-' ns')
    (h : ingFile ns name = ingFile ns' name') : ns = ns' ∧ name = name' := by
  unfold ingFile at h
  have := join3_inj "" "-" '-' rfl ns ns' name name' h1 h2 (by simpa using h)
  exact this

/-- **…but not in general (finding S-C10-a)**: `-` is a legal character of namespaces and names,
so two different Ingresses can be given the same file. -/
theorem ing_name_not_injective :
    ∃ ns name ns' name', (ns, name) ≠ (ns', name') ∧ ingFile ns name = ingFile ns' name' :=
  ⟨"a-b", "c", "a", "b-c", by decide, by decide⟩

/-- The three families never meet: VirtualServer and TransportServer files contain `_`, which no
Ingress file of DNS-1123-named objects does; and they start with different letters. -/
theorem kinds_disjoint (ns name ns' name' : String) (h1 : Free '_' ns) (h2 : Free '_' name) :
    ingFile ns name ≠ vsFile ns' name' ∧ ingFile ns name ≠ tsFile ns' name' ∧ vsFile ns name ≠ tsFile ns' name' := by
  have hi : '_' ∉ (ingFile ns name).toList := by
    unfold ingFile; simp only [String.toList_append, List.mem_append]
    rintro ((h | h) | h)
    · exact h1 h
    · have : ("-" : String).toList = ['-'] := rfl
      rw [this] at h; simp at h
    · exact h2 h
  refine ⟨?_, ?_, ?_⟩
  · intro e
    apply hi; rw [e]; unfold vsFile
    simp only [String.toList_append, List.mem_append]
    exact Or.inl (Or.inl (Or.inl (by decide)))
  · intro e
    apply hi; rw [e]; unfold tsFile
    simp only [String.toList_append, List.mem_append]
    exact Or.inl (Or.inl (Or.inl (by decide)))
  · intro e
    have h' := congrArg String.toList e
    unfold vsFile tsFile at h'
    simp only [String.toList_append, List.append_assoc] at h'
    have hv : ("vs_" : String).toList = ['v', 's', '_'] := rfl
    have ht : ("ts_" : String).toList = ['t', 's', '_'] := rfl
    rw [hv, ht] at h'
    simp at h'

private theorem map_id_of_free (l : List Char) (c : Char) (h : '/' ∉ l) :
    l.map (fun x => if x = '/' then c else x) = l := by
  induction l with
  | nil => rfl
  | cons a r ih =>
    have ha : a ≠ '/' := fun e => h (by rw [e]; exact List.mem_cons_self)
    have hr : '/' ∉ r := fun m => h (List.mem_cons_of_mem _ m)
    simp [ha, ih hr]

/-- **Delete-by-key addresses exactly the file written by-meta** (names contain no `/`). -/
theorem key_meta_agree (ns name : String) (h1 : Free '/' ns) (h2 : Free '/' name) :
    ingFileKey (ns ++ "/" ++ name) = ingFile ns name ∧
    vsFileKey (ns ++ "/" ++ name) = vsFile ns name ∧
    tsFileKey (ns ++ "/" ++ name) = tsFile ns name := by
  have hs : ("/" : String).toList = ['/'] := rfl
  have key : ∀ c : Char, replaceSlash (ns ++ "/" ++ name) c = ns ++ String.singleton c ++ name := by
    intro c
    unfold replaceSlash
    apply String.toList_injective
    simp only [String.toList_ofList, String.toList_append, hs, List.map_append, String.toList_singleton]
    rw [map_id_of_free _ c h1, map_id_of_free _ c h2]
    simp
  refine ⟨?_, ?_, ?_⟩
  · unfold ingFileKey ingFile; rw [key]; rfl
  · unfold vsFileKey vsFile; rw [key]; simp [String.append_assoc]
  · unfold tsFileKey tsFile; rw [key]; simp [String.append_assoc]

/-! ### operations touch exactly their own file -/

/-- Adding a VirtualServer writes its own file with its own content and leaves every other file alone. -/
theorem addVs_exact (s : St) (ns name : String) (uid : Nat) (f : String) :
    (step s (.addVs ns name uid)).conf.get? f = if f = vsFile ns name then some uid else s.conf.get? f := by
  simp only [step]; exact Map.get?_set _ _ _ _

theorem addIng_exact (s : St) (ns name : String) (uid : Nat) (f : String) :
    (step s (.addIng ns name uid)).conf.get? f = if f = ingFile ns name then some uid else s.conf.get? f := by
  simp only [step]; exact Map.get?_set _ _ _ _

/-- **Deleting a resource removes its file and nothing else.** -/
theorem delVs_exact (s : St) (key : String) (f : String) :
    (step s (.delVs key)).conf.get? f = if f = vsFileKey key then none else s.conf.get? f := by
  simp only [step]; exact Map.get?_erase _ _ _

theorem delIng_exact (s : St) (key : String) (f : String) :
    (step s (.delIng key)).conf.get? f = if f = ingFileKey key then none else s.conf.get? f := by
  simp only [step]; exact Map.get?_erase _ _ _

theorem delTs_exact (s : St) (key : String) (f : String) :
    (step s (.delTs key)).stream.get? f = if f = tsFileKey key then none else s.stream.get? f := by
  simp only [step, delTs]
  split <;> exact Map.get?_erase _ _ _

/-- Operations on one directory never touch the other. -/
theorem dirs_independent (s : St) (ns name key : String) (uid : Nat) (host : String) :
    (step s (.addTs ns name uid host)).conf = s.conf ∧ (step s (.delTs key)).conf = s.conf ∧
    (step s (.addVs ns name uid)).stream = s.stream ∧ (step s (.delVs key)).stream = s.stream ∧
    (step s (.addIng ns name uid)).stream = s.stream ∧ (step s (.delIng key)).stream = s.stream := by
  refine ⟨?_, ?_, rfl, rfl, rfl, rfl⟩
  · simp only [step]; split <;> (try split) <;> rfl
  · simp only [step, delTs]; split <;> rfl

/-- **The TLS-passthrough hosts file lists exactly the registered passthrough pairs** whenever a
TransportServer operation changes them (add of a passthrough TransportServer, its delete, its
re-typing to a TCP/UDP listener). -/
theorem passthrough_map_exact (s : St) (ns name : String) (uid : Nat) (host : String) (h : host ≠ "") :
    (step s (.addTs ns name uid host)).ptFile = some (renderPt (step s (.addTs ns name uid host)).pairs) ∧
    (step s (.addTs ns name uid host)).pairs.get? (ns ++ "/" ++ name) = some (host, ns ++ "_" ++ name) := by
  have hs : step s (.addTs ns name uid host) =
      { s with stream := s.stream.set (tsFile ns name) uid,
               pairs := s.pairs.set (ns ++ "/" ++ name) (host, ns ++ "_" ++ name),
               ptFile := some (renderPt (s.pairs.set (ns ++ "/" ++ name) (host, ns ++ "_" ++ name))) } := by
    simp [step, h]
  rw [hs]
  exact ⟨rfl, Map.get?_set_self _ _ _⟩

theorem passthrough_removed_on_delete (s : St) (key : String) (h : s.pairs.contains key = true) :
    (step s (.delTs key)).pairs.get? key = none ∧
    (step s (.delTs key)).ptFile = some (renderPt (step s (.delTs key)).pairs) := by
  have hs : step s (.delTs key) =
      { s with stream := s.stream.erase (tsFileKey key), pairs := s.pairs.erase key,
               ptFile := some (renderPt (s.pairs.erase key)) } := by
    simp [step, delTs, h]
  rw [hs]
  exact ⟨by simp [Map.get?_erase], rfl⟩

/-- The hosts file on disk is the rendering of the registered passthrough pairs. -/
def PtOk (s : St) : Prop := s.ptFile = some (renderPt s.pairs)

theorem delTs_ptOk (s : St) (key : String) (h : PtOk s) : PtOk (delTs s key) := by
  simp only [delTs, PtOk]
  split
  · rfl
  · exact h

theorem delTs_pairs_none (s : St) (key : String) : (delTs s key).pairs.get? key = none := by
  simp only [delTs]
  split
  · simp [Map.get?_erase]
  · rename_i hc
    simp only [Map.contains] at hc
    cases hg : Map.get? s.pairs key with
    | none => rfl
    | some v => simp [hg] at hc

theorem delTs_pairs_mono (s : St) (key k : String) (h : s.pairs.get? k = none) : (delTs s key).pairs.get? k = none := by
  simp only [delTs]
  split
  · simp only [Map.get?_erase]; split <;> simp [h]
  · exact h

theorem delTs_stream (s : St) (key f : String) :
    (delTs s key).stream.get? f = if f = tsFileKey key then none else s.stream.get? f := by
  simp only [delTs]
  split <;> exact Map.get?_erase _ _ _

/-- **The batch path (`UpdateTransportServers(nil, keys)`, taken when a namespace stops being watched) removes exactly what the
single delete removes**: every listed TransportServer's stream file and passthrough host are gone afterwards, and the hosts file
still is the rendering of the registered pairs — for every list of keys (seed C10-5). -/
theorem batchTs_removes (s : St) (keys : List String) (h : PtOk s) :
    PtOk (step s (.batchTs keys)) ∧
    (∀ k ∈ keys, (step s (.batchTs keys)).pairs.get? k = none ∧ (step s (.batchTs keys)).stream.get? (tsFileKey k) = none) := by
  simp only [step]
  induction keys generalizing s with
  | nil => exact ⟨h, by simp⟩
  | cons k ks ih =>
    simp only [List.foldl_cons]
    have := ih (delTs s k) (delTs_ptOk s k h)
    refine ⟨this.1, ?_⟩
    intro k' hk'
    rcases List.mem_cons.mp hk' with rfl | hin
    · -- removed by the first step, and never brought back by the rest
      have hp : ∀ (ks : List String) (t : St), t.pairs.get? k' = none → t.stream.get? (tsFileKey k') = none →
          (ks.foldl delTs t).pairs.get? k' = none ∧ (ks.foldl delTs t).stream.get? (tsFileKey k') = none := by
        intro ks
        induction ks with
        | nil => intro t h1 h2; exact ⟨h1, h2⟩
        | cons a as ih2 =>
          intro t h1 h2
          simp only [List.foldl_cons]
          refine ih2 _ (delTs_pairs_mono t a k' h1) ?_
          rw [delTs_stream]; split <;> simp [h2]
      exact hp ks _ (delTs_pairs_none s k') (by rw [delTs_stream]; simp)
    · exact this.2 k' hin

theorem batchTs_is_iterated_delete (s : St) (keys : List String) :
    step s (.batchTs keys) = keys.foldl (fun t k => step t (.delTs k)) s := rfl

theorem passthrough_removed_on_retype (s : St) (ns name : String) (uid : Nat)
    (h : s.pairs.contains (ns ++ "/" ++ name) = true) :
    (step s (.addTs ns name uid "")).pairs.get? (ns ++ "/" ++ name) = none := by
  have hs : (step s (.addTs ns name uid "")).pairs = s.pairs.erase (ns ++ "/" ++ name) := by
    simp [step, h]
  rw [hs, Map.get?_erase]; simp

/-- **Restart (finding S-C10-b)**: the process forgets what it serves, the volume does not —
nothing on the start-up path removes files. -/
theorem restart_keeps_files (s : St) :
    (step s .restart).conf = s.conf ∧ (step s .restart).stream = s.stream ∧ (step s .restart).ptFile = some [] ∧
    (step s .restart).pairs = [] := ⟨rfl, rfl, rfl, rfl⟩

/-! ### the directory as a function of the operation history -/

/-- What one operation does to the file `f` of conf.d, given what was there. -/
def confEffect (f : String) (cur : Option Nat) : Op → Option Nat
  | .addIng ns name uid => if f = ingFile ns name then some uid else cur
  | .addVs ns name uid => if f = vsFile ns name then some uid else cur
  | .delIng key => if f = ingFileKey key then none else cur
  | .delVs key => if f = vsFileKey key then none else cur
  | .batchIng keys => if f ∈ keys.map ingFileKey then none else cur
  | .batchVs keys => if f ∈ keys.map vsFileKey then none else cur
  | _ => cur

/-- …and to the file `f` of stream-conf.d. -/
def streamEffect (f : String) (cur : Option Nat) : Op → Option Nat
  | .addTs ns name uid _ => if f = tsFile ns name then some uid else cur
  | .delTs key => if f = tsFileKey key then none else cur
  | .batchTs keys => if f ∈ keys.map tsFileKey then none else cur
  | _ => cur

private theorem fold_erase_get (keys : List String) (g : String → String) (m : Map Nat) (f : String) :
    (keys.foldl (fun m k => m.erase (g k)) m).get? f = if f ∈ keys.map g then none else m.get? f := by
  induction keys generalizing m with
  | nil => simp
  | cons k ks ih =>
    simp only [List.foldl_cons, List.map_cons, List.mem_cons]
    rw [ih, Map.get?_erase]
    by_cases h1 : f = g k
    · simp [h1]
    · by_cases h2 : f ∈ ks.map g <;> simp [h1, h2]

private theorem fold_delTs_stream (keys : List String) (s : St) (f : String) :
    (keys.foldl delTs s).stream.get? f = if f ∈ keys.map tsFileKey then none else s.stream.get? f := by
  induction keys generalizing s with
  | nil => simp
  | cons k ks ih =>
    simp only [List.foldl_cons, List.map_cons, List.mem_cons]
    rw [ih, delTs_stream]
    by_cases h1 : f = tsFileKey k
    · simp [h1]
    · by_cases h2 : f ∈ ks.map tsFileKey <;> simp [h1, h2]

private theorem fold_delTs_conf (keys : List String) (s : St) : (keys.foldl delTs s).conf = s.conf := by
  induction keys generalizing s with
  | nil => rfl
  | cons k ks ih =>
    simp only [List.foldl_cons]
    rw [ih]
    simp only [delTs]; split <;> rfl

theorem step_conf (s : St) (op : Op) (f : String) : (step s op).conf.get? f = confEffect f (s.conf.get? f) op := by
  cases op <;> simp only [step, confEffect]
  case addIng ns name uid => rw [Map.get?_set]
  case addVs ns name uid => rw [Map.get?_set]
  case addTs ns name uid host => split <;> (try split) <;> rfl
  case delIng key => rw [Map.get?_erase]
  case delVs key => rw [Map.get?_erase]
  case delTs key => simp only [delTs]; split <;> rfl
  case batchIng keys => exact fold_erase_get keys ingFileKey s.conf f
  case batchVs keys => exact fold_erase_get keys vsFileKey s.conf f
  case batchTs keys => rw [fold_delTs_conf]

theorem step_stream (s : St) (op : Op) (f : String) : (step s op).stream.get? f = streamEffect f (s.stream.get? f) op := by
  cases op <;> simp only [step, streamEffect]
  case addTs ns name uid host =>
    have : ∀ t : St, t.stream = s.stream.set (tsFile ns name) uid → t.stream.get? f = if f = tsFile ns name then some uid else s.stream.get? f := by
      intro t ht; rw [ht, Map.get?_set]
    split
    · exact this _ rfl
    · split
      · exact this _ rfl
      · exact this _ rfl
  case delTs key => exact delTs_stream s key f
  case batchTs keys => exact fold_delTs_stream keys s f
  all_goals rfl

/-- **The content of every file of conf.d and of stream-conf.d is a function of the operations that name that very file** — for
every operation sequence (restarts included: they touch no file) and every file name: the file holds the resource of the last
add that maps to its name, and is absent if a delete that maps to its name came later or no add ever did. Together with the
injectivity of the VirtualServer / TransportServer file names (`vs_name_inj`, `ts_name_inj`, `key_meta_agree`,
`kinds_disjoint`) this is "one file per served resource, carrying that resource, and no other file"; for Ingress names it is
exactly as far as `ing_name_inj_nodash` goes (S-C10-a). -/
theorem files_eq_served (ops : List Op) (s : St) (f : String) :
    (run s ops).conf.get? f = ops.foldl (confEffect f) (s.conf.get? f) ∧
    (run s ops).stream.get? f = ops.foldl (streamEffect f) (s.stream.get? f) := by
  induction ops generalizing s with
  | nil => exact ⟨rfl, rfl⟩
  | cons op r ih =>
    simp only [run, List.foldl_cons]
    have := ih (step s op)
    simp only [run] at this
    rw [this.1, this.2, step_conf, step_stream]
    exact ⟨rfl, rfl⟩

/-- Corollary: starting from empty directories, a file exists only if some operation of the history is an add that maps to its name. -/
theorem no_file_without_add (ops : List Op) (f : String)
    (h : ∀ op ∈ ops, (∀ ns name uid, op = .addIng ns name uid → f ≠ ingFile ns name) ∧ (∀ ns name uid, op = .addVs ns name uid → f ≠ vsFile ns name)) :
    (run {} ops).conf.get? f = none := by
  rw [(files_eq_served ops {} f).1]
  have hinit : ({} : St).conf.get? f = none := rfl
  rw [hinit]
  suffices hgen : ∀ (l : List Op), (∀ op ∈ l, (∀ ns name uid, op = .addIng ns name uid → f ≠ ingFile ns name) ∧
      (∀ ns name uid, op = .addVs ns name uid → f ≠ vsFile ns name)) → l.foldl (confEffect f) none = none from hgen ops h
  intro l
  induction l with
  | nil => intro _; rfl
  | cons op r ih =>
    intro hl
    simp only [List.foldl_cons]
    have hop := hl op (by simp)
    have : confEffect f none op = none := by
      cases op <;> simp only [confEffect]
      case addIng ns name uid => simp [hop.1 ns name uid rfl]
      case addVs ns name uid => simp [hop.2 ns name uid rfl]
      all_goals (try split) <;> rfl
    rw [this]
    exact ih (fun o ho => hl o (List.mem_cons_of_mem _ ho))

/-! ### non-vacuity -/
example : (run {} [.addVs "a" "b" 1, .addVs "a-b" "c" 2, .delVs "a/b"]).conf = [("vs_a-b_c", 2)] := by decide
example : (run {} [.addIng "a-b" "c" 1, .addIng "a" "b-c" 2]).conf = [("a-b-c", 2)] := by decide   -- S-C10-a

end Nic.Files
