/-
  C08 — fail closed: an unusable policy or certificate never yields unprotected service.
-/
import Nic.Model.Policies

namespace Nic.Policies

/-- A reference is unusable in a context: its policy is absent from the table, or reports an error when it is reached. -/
def Unusable (ctx : Ctx) (tls : Bool) (table : String → Option Pol) (r : String) : Prop :=
  table r = none ∨ ∃ p, table r = some p ∧ ∀ configured, isError ctx tls configured p = true

/-- No kind that allows only one policy per context occurs twice among the references. -/
def NoRepeatedSingle (table : String → Option Pol) (refs : List String) : Prop :=
  (refs.filterMap fun r => (table r).bind fun p => if p.kind.single then some p.kind else none).Nodup

private theorem not_ignored_of_fresh (ctx : Ctx) (tls : Bool) (configured : List Kind) (p : Pol)
    (h : p.kind.single = true → p.kind ∉ configured) : ignored ctx tls configured p = false := by
  unfold ignored
  cases hs : p.kind.single
  · simp
  · have := h hs
    simp [this]

/-- **unusable_policy_500**: if any reference of a scope is unusable — whatever its position, whatever valid policies stand
before or after it — the scope gets `ErrorReturn 500`. (Holds for every list of references, every policy table, every context.) -/
theorem unusable_policy_500 (ctx : Ctx) (tls : Bool) (table : String → Option Pol) (refs : List String)
    (configured : List Kind)
    (hfresh : ∀ k ∈ configured, ∀ r ∈ refs, ∀ p, table r = some p → p.kind.single = true → p.kind ≠ k)
    (hnr : NoRepeatedSingle table refs)
    (h : ∃ r ∈ refs, Unusable ctx tls table r) : errorReturn ctx tls table refs configured = true := by
  induction refs generalizing configured with
  | nil => obtain ⟨r, hr, _⟩ := h; cases hr
  | cons r rs ih =>
    unfold errorReturn
    cases ht : table r with
    | none => rfl
    | some p =>
      simp only
      have hni : ignored ctx tls configured p = false := by
        apply not_ignored_of_fresh
        intro hs hmem
        exact hfresh p.kind hmem r List.mem_cons_self p ht hs rfl
      rw [hni]
      simp only [Bool.false_eq_true, if_false]
      by_cases he : isError ctx tls configured p = true
      · rw [if_pos he]
      · rw [if_neg he]
        obtain ⟨r', hr', hu⟩ := h
        simp only [List.mem_cons] at hr'
        rcases hr' with rfl | hr'
        · rcases hu with hnone | ⟨p', hp', hall⟩
          · rw [ht] at hnone; cases hnone
          · rw [ht] at hp'; cases hp'
            exact absurd (hall configured) he
        · apply ih
          · intro k hk r2 hr2 p2 hp2 hs2
            simp only [List.mem_cons] at hk
            rcases hk with rfl | hk
            · -- p2's kind differs from p's: both single would contradict NoRepeatedSingle
              intro heq
              unfold NoRepeatedSingle at hnr
              simp only [List.filterMap_cons, ht, Option.bind_some] at hnr
              have hsp : p.kind.single = true := heq ▸ hs2
              rw [if_pos hsp] at hnr
              have hnot := (List.nodup_cons.mp hnr).1
              apply hnot
              rw [List.mem_filterMap]
              refine ⟨r2, hr2, ?_⟩
              rw [hp2]
              simp only [Option.bind_some]
              rw [if_pos hs2, heq]
            · exact hfresh k hk r2 (List.mem_cons_of_mem _ hr2) p2 hp2 hs2
          · unfold NoRepeatedSingle at hnr ⊢
            simp only [List.filterMap_cons, ht, Option.bind_some] at hnr
            split at hnr
            · exact hnr
            · exact (List.nodup_cons.mp hnr).2
          · exact ⟨r', hr', hu⟩

/-- **scope_covers**: with an unusable reference in the spec every location of the server answers with an error; with one
among a route's / subroute's references that location does; a subroute without policies of its own is covered by the
policies of the route that delegates to it. -/
theorem scope_covers_spec (tls : Bool) (table : String → Option Pol) (specRefs locRefs : List String) (c : Ctx)
    (hnr : NoRepeatedSingle table specRefs) (h : ∃ r ∈ specRefs, Unusable .spec tls table r) :
    answeredWithError tls table specRefs locRefs c = true := by
  unfold answeredWithError
  rw [unusable_policy_500 .spec tls table specRefs [] (by intro k hk; cases hk) hnr h]
  rfl

theorem scope_covers_location (tls : Bool) (table : String → Option Pol) (specRefs locRefs : List String) (c : Ctx)
    (hnr : NoRepeatedSingle table locRefs) (h : ∃ r ∈ locRefs, Unusable c tls table r) :
    answeredWithError tls table specRefs locRefs c = true := by
  unfold answeredWithError
  rw [unusable_policy_500 c tls table locRefs [] (by intro k hk; cases hk) hnr h]
  simp

theorem scope_covers_inherited (tls : Bool) (table : String → Option Pol) (specRefs inherited : List String)
    (hnr : NoRepeatedSingle table inherited) (h : ∃ r ∈ inherited, Unusable .subroute tls table r) :
    answeredWithError tls table specRefs (subrouteRefs [] inherited) .subroute = true := by
  have : subrouteRefs [] inherited = inherited := rfl
  rw [this]
  exact scope_covers_location tls table specRefs inherited .subroute hnr h

/-- Which policies are unusable, kind by kind (the hypotheses of the theorems above are met by exactly these). -/
theorem unusable_iff_bad_dependency (ctx : Ctx) (tls : Bool) (p : Pol) :
    (∀ configured, isError ctx tls configured p = true) ↔
      (match p.kind with
       | .acl | .rl => False
       | .jwt | .basic | .oidc | .apikey => p.dep1.bad = true
       | .imtls => tls = false ∨ ctx ≠ .spec ∨ p.dep1.bad = true
       | .emtls => p.dep1.bad = true ∨ p.dep2.bad = true
       | .waf => p.dep1.bad = true ∨ p.dep2.bad = true ∨ ∃ d ∈ p.extra, d.bad = true) := by
  cases hk : p.kind <;> simp [isError, hk]
  · -- imtls
    constructor
    · intro h
      by_cases ht : tls = false
      · exact Or.inl ht
      · by_cases hc : ctx = .spec
        · right; right
          have := h
          simp [ht, hc] at this
          exact this
        · exact Or.inr (Or.inl hc)
    · intro h
      rcases h with h | h | h
      · simp [h]
      · simp [h]
      · simp [h]
  · -- apikey
    constructor
    · intro h
      have := h []
      simpa using this
    · intro h _
      simp [h]
  · -- waf
    exact or_assoc

/-- **tls_fail_rejects**: an unusable TLS Secret makes the host reject handshakes and never names another certificate. -/
theorem tls_fail_rejects (secret : Dep) (path : String) (h : secret ≠ .ok) :
    (sslConfig secret path).reject = true ∧ (sslConfig secret path).certificate = none := by
  cases secret <;> simp_all [sslConfig]

theorem tls_ok_serves (path : String) : sslConfig .ok path = ⟨false, some path⟩ := rfl

/-- **ingress_auth_always_on**: authentication configured on an Ingress stays enforced whatever the state of its Secret. -/
theorem ingress_auth_always_on (secret : Dep) : ingressAuthConfigured true secret = true := rfl

/-! ### non-vacuity and the documented exception -/

def tbl : String → Option Pol
  | "rl" => some { kind := .rl, dep1 := .ok, dep2 := .ok }
  | "jwt-bad" => some { kind := .jwt, dep1 := .missing, dep2 := .ok }
  | "jwt-ok" => some { kind := .jwt, dep1 := .ok, dep2 := .ok }
  | "acl" => some { kind := .acl, dep1 := .ok, dep2 := .ok }
  | _ => none

example : errorReturn .route true tbl ["rl", "jwt-bad", "acl"] [] = true := by decide
example : errorReturn .route true tbl ["rl", "jwt-ok", "acl"] [] = false := by decide
example : errorReturn .route true tbl ["rl", "gone", "acl"] [] = true := by decide

/-- A second policy of a single-instance kind is ignored (the first one stays enforced), even when it is unusable:
this is why the theorem asks for `NoRepeatedSingle`. -/
example : errorReturn .route true tbl ["jwt-ok", "jwt-bad"] [] = false := by decide

end Nic.Policies
