/-
  C04 — master/minion and VirtualServer/Route composition is exactly as declared.
  Proved here: which minions attach to a master, which routes attach to a
  VirtualServer, and that the composition is a function of the object set.
  The per-path arbitration among minions (the oldest claimant serves the path) is proved in
  Props/C04Paths.lean (path_served_by_oldest_claimant).
-/
import Nic.Props.C01

namespace Nic.Arb
open Spec

/-! ### routes of a VirtualServer -/

/-- Keep the first occurrence of every key. -/
def firstByKey : List Meta → List Meta :=
  List.foldl (fun acc m => if acc.any (fun a => a.key = m.key) then acc else acc ++ [m]) []

private theorem vsrFold_fst (vsrs : Map VSR) (v : VS) (rs : List (String × String)) (acc : List Meta × List String) :
    (rs.foldl (vsrStep vsrs v) acc).1 =
      (rs.filterMap (routeOf vsrs v)).foldl (fun acc m => if acc.any (fun a => a.key = m.key) then acc else acc ++ [m]) acc.1 := by
  induction rs generalizing acc with
  | nil => rfl
  | cons pr rs ih =>
    simp only [List.foldl_cons, List.filterMap_cons]
    rw [ih]
    unfold vsrStep
    cases hr : routeOf vsrs v pr with
    | some m =>
      simp only [List.foldl_cons]
      by_cases hd : acc.1.any (fun a => a.key = m.key) = true
      · simp [hd]
      · simp [hd]
    | none =>
      cases routeWarnOf vsrs v pr <;> rfl

/-- **A VirtualServer is rendered with exactly the VirtualServerRoutes it references that exist,
whose host equals its own and whose subroutes obey the path rule of the referencing route** —
in the order of the `route` entries, each route once (at its first fitting reference); a bare name
is resolved in the VirtualServer's namespace. -/
theorem vsrs_eq_spec (vsrs : Map VSR) (v : VS) :
    (buildVsrs vsrs v).1 = firstByKey (v.routes.filterMap (routeOf vsrs v)) ∧
    ∀ pr, routeOf vsrs v pr =
      if pr.2 = "" then none else
      match vsrs.get? (if pr.2.contains '/' then pr.2 else v.md.ns ++ "/" ++ pr.2) with
      | some r => if vsrFits r v.host pr.1 then some r.md else none
      | none => none := ⟨vsrFold_fst vsrs v v.routes ([], []), fun _ => rfl⟩

private theorem firstFold_mem (l : List Meta) (acc : List Meta) (m : Meta)
    (h : m ∈ l.foldl (fun acc m => if acc.any (fun a => a.key = m.key) then acc else acc ++ [m]) acc) : m ∈ acc ∨ m ∈ l := by
  induction l generalizing acc with
  | nil => exact Or.inl h
  | cons x xs ih =>
    simp only [List.foldl_cons] at h
    rcases ih _ h with h1 | h1
    · split at h1
      · exact Or.inl h1
      · rcases List.mem_append.mp h1 with h2 | h2
        · exact Or.inl h2
        · exact Or.inr (by simp at h2; simp [h2])
    · exact Or.inr (List.mem_cons_of_mem _ h1)

private theorem firstFold_keys_nodup (l : List Meta) (acc : List Meta) (h : (acc.map Meta.key).Nodup) :
    ((l.foldl (fun acc m => if acc.any (fun a => a.key = m.key) then acc else acc ++ [m]) acc).map Meta.key).Nodup := by
  induction l generalizing acc with
  | nil => exact h
  | cons x xs ih =>
    simp only [List.foldl_cons]
    apply ih
    split
    · exact h
    · rename_i hn
      rw [List.map_append, List.nodup_append]
      refine ⟨h, by simp, ?_⟩
      intro a ha b hb
      simp at hb
      subst hb
      intro heq
      apply hn
      rw [List.any_eq_true]
      obtain ⟨y, hy, hk⟩ := List.mem_map.mp ha
      exact ⟨y, hy, by simp [hk, heq]⟩

/-- **No VirtualServerRoute is attached twice** (S-C07-i: attached twice, its upstreams and locations were generated twice and
NGINX refused the file) — for every VirtualServer and every set of routes. -/
theorem attached_routes_distinct (vsrs : Map VSR) (v : VS) : ((buildVsrs vsrs v).1.map Meta.key).Nodup := by
  rw [(vsrs_eq_spec vsrs v).1]
  exact firstFold_keys_nodup _ [] (by simp)

/-- …and every route that fits some reference is attached: de-duplication drops repetitions only. -/
theorem fitting_route_attached (vsrs : Map VSR) (v : VS) (pr : String × String) (m : Meta)
    (hpr : pr ∈ v.routes) (hm : routeOf vsrs v pr = some m) : ∃ a ∈ (buildVsrs vsrs v).1, a.key = m.key := by
  rw [(vsrs_eq_spec vsrs v).1]
  have hin : m ∈ v.routes.filterMap (routeOf vsrs v) := List.mem_filterMap.mpr ⟨pr, hpr, hm⟩
  have gen : ∀ (l acc : List Meta), (m ∈ l ∨ ∃ a ∈ acc, a.key = m.key) →
      ∃ a ∈ l.foldl (fun acc m => if acc.any (fun a => a.key = m.key) then acc else acc ++ [m]) acc, a.key = m.key := by
    intro l
    induction l with
    | nil =>
      intro acc h
      rcases h with h | h
      · cases h
      · simpa using h
    | cons x xs ih =>
      intro acc h
      simp only [List.foldl_cons]
      apply ih
      rcases h with h | ⟨a, ha, hk⟩
      · rcases List.mem_cons.mp h with rfl | h'
        · right
          by_cases hd : acc.any (fun a => a.key = m.key) = true
          · simp only [hd, if_true]
            obtain ⟨a, ha, hk⟩ := List.any_eq_true.mp hd
            exact ⟨a, ha, by simpa using hk⟩
          · simp only [hd]
            exact ⟨m, by simp, rfl⟩
        · exact Or.inl h'
      · right
        split
        · exact ⟨a, ha, hk⟩
        · exact ⟨a, List.mem_append_left _ ha, hk⟩
  exact gen _ [] (Or.inl hin)

/-- Every `route` entry that does not attach produces a warning, and vice versa. -/
theorem route_attached_or_warned (vsrs : Map VSR) (v : VS) (pr : String × String) (h : pr.2 ≠ "") :
    ((routeOf vsrs v pr).isSome ∧ (routeWarnOf vsrs v pr).isNone) ∨
    ((routeOf vsrs v pr).isNone ∧ (routeWarnOf vsrs v pr).isSome) := by
  unfold routeOf routeWarnOf
  simp only [h, if_false]
  cases vsrs.get? (vsrKeyOf v pr.2) with
  | none => simp
  | some r => by_cases hf : vsrFits r v.host pr.1 = true <;> simp [hf]

/-- A route that is attached fits: equal host, and either the referencing path is an exact/regex
path and the route has exactly that one subroute, or all its subroutes lie under the path. -/
theorem attached_route_fits (vsrs : Map VSR) (v : VS) (m : Meta) (h : m ∈ (buildVsrs vsrs v).1) :
    ∃ path ref r, (path, ref) ∈ v.routes ∧ ref ≠ "" ∧
      vsrs.get? (vsrKeyOf v ref) = some r ∧ r.md = m ∧ r.host = v.host ∧
      (if isRegexOrExact path then r.subs = [path] else ∀ p ∈ r.subs, p.startsWith path = true) := by
  rw [(vsrs_eq_spec vsrs v).1] at h
  have h := (firstFold_mem _ [] m h).resolve_left (by simp)
  obtain ⟨⟨path, ref⟩, hm, he⟩ := List.mem_filterMap.mp h
  unfold routeOf at he
  by_cases h1 : ref = ""
  · simp [h1] at he
  · simp only [h1, if_false] at he
    cases hg : vsrs.get? (vsrKeyOf v ref) with
    | none => simp [hg] at he
    | some r =>
      simp only [hg] at he
      by_cases hf : vsrFits r v.host path = true
      · simp [hf] at he
        refine ⟨path, ref, r, hm, h1, hg, he, ?_⟩
        unfold vsrFits at hf
        simp only [Bool.and_eq_true, decide_eq_true_eq] at hf
        refine ⟨hf.1, ?_⟩
        by_cases hre : isRegexOrExact path = true
        · simp only [hre, if_true] at hf ⊢
          have h2 := hf.2
          split at h2
          · rename_i hp
            simp at h2; rw [hp, h2]
          · cases h2
        · have hre' : isRegexOrExact path = false := by simpa using hre
          simp only [hre', Bool.false_eq_true, if_false] at hf ⊢
          have h2 := hf.2
          rw [List.all_eq_true] at h2
          exact h2
      · have hf' : vsrFits r v.host path = false := by simpa using hf
        simp [hf'] at he

/-! ### minions of a master -/

def isMinionOf (host : String) (kv : String × Ing) : Bool :=
  isMinion kv.2 && (match kv.2.rules with | [] => false | (h, _) :: _ => host = h)

theorem setValid_md (cfgs : List MinionCfg) (i : Nat) (p : String) (v : Bool) :
    (setValid cfgs i p v).map (·.md) = cfgs.map (·.md) := by
  unfold setValid
  apply List.ext_getElem
  · simp
  · intro n h1 h2
    simp only [List.getElem_map, List.getElem_mapIdx]
    split <;> rfl

theorem minionPath_md (self : Nat) (m : Meta) (a : MinAcc) (p : String) :
    (minionPath self m a p).cfgs.map (·.md) = a.cfgs.map (·.md) := by
  unfold minionPath
  repeat' split
  all_goals simp [setValid_md]

theorem fold_minionPath_md (ps : List String) (self : Nat) (m : Meta) (a : MinAcc) :
    (ps.foldl (minionPath self m) a).cfgs.map (·.md) = a.cfgs.map (·.md) := by
  induction ps generalizing a with
  | nil => rfl
  | cons p r ih => simp only [List.foldl_cons]; rw [ih, minionPath_md]

theorem minionStep_md (host : String) (a : MinAcc) (kv : String × Ing) :
    (minionStep host a kv).cfgs.map (·.md) =
      a.cfgs.map (·.md) ++ (if isMinionOf host kv then [kv.2.md] else []) := by
  unfold minionStep isMinionOf
  by_cases hm : isMinion kv.2 = true
  · simp only [hm, Bool.not_true, Bool.false_eq_true, if_false, Bool.true_and]
    cases hr : kv.2.rules with
    | nil => simp
    | cons rule rest =>
      obtain ⟨h, paths⟩ := rule
      by_cases hh : host = h
      · simp [hh, fold_minionPath_md]
      · simp [hh]
  · have hm' : isMinion kv.2 = false := by simpa using hm
    simp [hm']

theorem fold_minionStep_md (host : String) (l : List (String × Ing)) (a : MinAcc) :
    (l.foldl (minionStep host) a).cfgs.map (·.md) =
      a.cfgs.map (·.md) ++ (l.filter (isMinionOf host)).map (·.2.md) := by
  induction l generalizing a with
  | nil => simp
  | cons kv r ih =>
    simp only [List.foldl_cons]
    rw [ih, minionStep_md]
    by_cases h : isMinionOf host kv = true
    · simp [h, List.filter_cons]
    · have h' : isMinionOf host kv = false := by simpa using h
      simp [h', List.filter_cons]

/-- **A master is rendered together with exactly the stored (valid, own-class) minions whose first
rule's host is the master's host**, in key order — no other Ingress attaches, and none is left out. -/
theorem minions_eq_spec (ings : Map Ing) (host : String) :
    (buildMinions ings host).1.map (·.md) = (ings.filter (isMinionOf host)).map (·.2.md) := by
  unfold buildMinions
  have := fold_minionStep_md host ings {}
  simpa using this

/-- **The composition depends only on the current object set.** Minions, their path verdicts and
attached routes live inside the resource snapshots of the host table, which after any history equals
`hostsOf` of the final object set (C01's invariant). -/
theorem composition_history_independent (p₁ p₂) (cfg : Cfg) (h₁ h₂ : List Op)
    (he : (run p₁ { toObjs := { cfg := cfg } } h₁).toObjs = (run p₂ { toObjs := { cfg := cfg } } h₂).toObjs)
    (host : String) :
    (run p₁ { toObjs := { cfg := cfg } } h₁).hosts.get? host = (run p₂ { toObjs := { cfg := cfg } } h₂).hosts.get? host := by
  rw [history_independent p₁ p₂ cfg h₁ h₂ he]

/-! ### non-vacuity -/

private def mV : Meta := { ns := "d", name := "v", uid := 1, ts := 1, gen := 1 }
private def mR1 : Meta := { ns := "d", name := "r1", uid := 2, ts := 1, gen := 1 }
private def mR2 : Meta := { ns := "e", name := "r2", uid := 3, ts := 1, gen := 1 }
private def vX : VS := { md := mV, host := "a.ex", routes := [("/r", "r1"), ("=/e", "e/r2"), ("/s", "nope")], listener := none }
private def r1 : VSR := { md := mR1, host := "a.ex", subs := ["/r/a", "/r/b"] }
private def r2 : VSR := { md := mR2, host := "a.ex", subs := ["=/e"] }
private def rs : Map VSR := [("d/r1", r1), ("e/r2", r2)]

example : routeOf rs vX ("", "") = none := rfl
-- a route referenced twice (by name and by namespace/name) is attached once, with a warning
example : (buildVsrs rs { vX with routes := [("/r", "r1"), ("/", "d/r1")] }).1.length = 1 ∧
    (buildVsrs rs { vX with routes := [("/r", "r1"), ("/", "d/r1")] }).2 = [wVsrDuplicate "d/r1"] := by
  simp [buildVsrs, vsrStep, routeOf, routeWarnOf, vX, rs, r1, r2, vsrKeyOf, Map.get?, vsrFits, isRegexOrExact, mV, mR1, mR2, Meta.key, wVsrDuplicate]
example : ∃ m ∈ (buildVsrs rs vX).1, m = mR1 := ⟨mR1, by rw [(vsrs_eq_spec rs vX).1]; simp [firstByKey, routeOf, vX, rs, r1, r2, vsrKeyOf, Map.get?, vsrFits, isRegexOrExact, mV, mR1, mR2, Meta.key], rfl⟩

end Nic.Arb
