/-
  C15 — a change to anything a served resource depends on reaches that resource:
  no dependency is consulted during generation that the reverse lookup cannot find.
-/
import Nic.Model.Refs

namespace Nic.Refs

private theorem polReferenced_of_mem (refs : List PolRef) (ownerNs : String) (r : PolRef) (h : r ∈ refs) :
    polReferenced refs ownerNs (polKey ownerNs r).1 (polKey ownerNs r).2 = true := by
  unfold polReferenced polKey
  rw [List.any_eq_true]
  exact ⟨r, h, by simp⟩

private theorem lookup_some {pols : List Policy} {k : String × String} {p : Policy} (h : lookup pols k = some p) :
    p ∈ pols ∧ p.ns = k.1 ∧ p.name = k.2 := by
  unfold lookup at h
  have := List.find?_some h
  simp at this
  exact ⟨List.mem_of_find?_eq_some h, this.1, this.2⟩

/-- Everything consulted for one policy reference is found again, provided the reverse lookup
finds the policy itself from this reference. -/
private theorem polDeps_found (pols : List Policy) (v : VS) (rs : List VSR) (ownerNs : String) (r : PolRef)
    (hf : policyFinds v rs (polKey ownerNs r).1 (polKey ownerNs r).2 = true) :
    ∀ d ∈ polDeps pols ownerNs r, reverseVS pols v rs d = true := by
  intro d hd
  unfold polDeps at hd
  simp only [List.mem_cons] at hd
  rcases hd with rfl | hd
  · exact hf
  · cases hl : lookup pols (polKey ownerNs r) with
    | none => simp [hl] at hd
    | some p =>
      obtain ⟨hm, h1, h2⟩ := lookup_some hl
      simp only [hl, List.mem_append, List.mem_map] at hd
      have hfp : policyFinds v rs p.ns p.name = true := by rw [h1, h2]; exact hf
      rcases hd with (⟨s, hs, rfl⟩ | hd) | ⟨l, hl', rfl⟩
      · simp only [reverseVS, secretFinds, Bool.or_eq_true]
        right
        rw [List.any_eq_true]
        exact ⟨p, hm, by simp [hs, hfp]⟩
      · by_cases he : p.apPolicy = ""
        · simp [he] at hd
        · simp [he] at hd; subst hd
          simp only [reverseVS, apPolicyFinds]
          rw [List.any_eq_true]
          exact ⟨p, hm, by simp [he, hfp]⟩
      · simp only [reverseVS, apLogConfFinds]
        rw [List.any_eq_true]
        refine ⟨p, hm, ?_⟩
        simp only [Bool.and_eq_true, hfp, and_true]
        rw [List.any_eq_true]
        exact ⟨l, hl', by simp⟩

private theorem serviceFinds_vs (v : VS) (rs : List VSR) (u : Upstream) (hu : u ∈ v.upstreams) (n : String)
    (hn : n = u.service ∨ n = u.backup) : serviceFinds v rs v.ns n = true := by
  simp only [serviceFinds, Bool.or_eq_true]
  left
  simp only [Bool.and_eq_true, decide_eq_true_eq, true_and]
  rw [List.any_eq_true]
  exact ⟨u, hu, by rcases hn with rfl | rfl <;> simp⟩

/-- **forward ⊆ reverse for VirtualServers and their routes**: every Secret, Service, Policy and
App Protect resource consulted while the extended VirtualServer is built — directly, through a
Policy, in the spec, a route or a subroute of an attached VirtualServerRoute, by bare or by
qualified reference — is mapped back to the VirtualServer by the reverse lookups. -/
theorem forward_subset_reverse_vs (pols : List Policy) (v : VS) (rs : List VSR) :
    ∀ d ∈ forwardVS pols v rs, reverseVS pols v rs d = true := by
  intro d hd
  unfold forwardVS at hd
  simp only [List.mem_append, List.mem_flatMap] at hd
  rcases hd with (((hd | ⟨r, hr, hd⟩) | ⟨u, hu, hd⟩) | ⟨ps, hps, r, hr, hd⟩) | ⟨x, hx, hd⟩
  · by_cases h : v.tlsSecret = ""
    · simp [h] at hd
    · simp [h] at hd; subst hd
      simp [reverseVS, secretFinds, h]
  · apply polDeps_found pols v rs v.ns r _ d hd
    simp only [policyFinds, Bool.or_eq_true]
    exact Or.inl (Or.inl (polReferenced_of_mem _ _ _ hr))
  · unfold upstreamDeps at hd
    simp only [List.mem_cons] at hd
    rcases hd with rfl | hd
    · exact serviceFinds_vs v rs u hu _ (Or.inl rfl)
    · by_cases hb : u.backup = ""
      · simp [hb] at hd
      · simp [hb] at hd; subst hd
        exact serviceFinds_vs v rs u hu _ (Or.inr rfl)
  · apply polDeps_found pols v rs v.ns r _ d hd
    simp only [policyFinds, Bool.or_eq_true]
    refine Or.inl (Or.inr ?_)
    rw [List.any_eq_true]
    exact ⟨ps, hps, polReferenced_of_mem _ _ _ hr⟩
  · rcases hd with ⟨ps, hps, r, hr, hd⟩ | ⟨u, hu, hd⟩
    · apply polDeps_found pols v rs x.ns r _ d hd
      simp only [policyFinds, Bool.or_eq_true]
      refine Or.inr ?_
      rw [List.any_eq_true]
      refine ⟨x, hx, ?_⟩
      rw [List.any_eq_true]
      exact ⟨ps, hps, polReferenced_of_mem _ _ _ hr⟩
    · unfold upstreamDeps at hd
      simp only [List.mem_cons] at hd
      have key : ∀ n, (n = u.service ∨ n = u.backup) → serviceFinds v rs x.ns n = true := by
        intro n hn
        simp only [serviceFinds, Bool.or_eq_true]
        right
        rw [List.any_eq_true]
        refine ⟨x, hx, ?_⟩
        simp only [Bool.and_eq_true, decide_eq_true_eq, true_and]
        rw [List.any_eq_true]
        exact ⟨u, hu, by rcases hn with rfl | rfl <;> simp⟩
      rcases hd with rfl | hd
      · exact key _ (Or.inl rfl)
      · by_cases hb : u.backup = ""
        · simp [hb] at hd
        · simp [hb] at hd; subst hd; exact key _ (Or.inr rfl)

/-- **forward ⊆ reverse for TransportServers** (upstream and backup Services, TLS Secret). -/
theorem forward_subset_reverse_ts (t : TS) : ∀ d ∈ forwardTS t, reverseTS t d = true := by
  intro d hd
  unfold forwardTS at hd
  simp only [List.mem_append, List.mem_flatMap] at hd
  rcases hd with ⟨u, hu, hd⟩ | hd
  · unfold upstreamDeps at hd
    simp only [List.mem_cons] at hd
    rcases hd with rfl | hd
    · simp only [reverseTS, Bool.and_eq_true, decide_eq_true_eq, true_and]
      rw [List.any_eq_true]; exact ⟨u, hu, by simp⟩
    · by_cases hb : u.backup = ""
      · simp [hb] at hd
      · simp [hb] at hd; subst hd
        simp only [reverseTS, Bool.and_eq_true, decide_eq_true_eq, true_and]
        rw [List.any_eq_true]; exact ⟨u, hu, by simp⟩
  · by_cases h : t.tlsSecret = ""
    · simp [h] at hd
    · simp [h] at hd; subst hd; simp [reverseTS, h]

/-- **forward ⊆ reverse for Ingresses** (regular, master with minions): TLS Secrets, backend
Services, JWT / basic-auth Secrets of the Ingress and of its minions, App Protect annotations. -/
theorem forward_subset_reverse_ing (i : Ing) (ms : List Ing) : ∀ d ∈ forwardIng i ms, reverseIng i ms d = true := by
  intro d hd
  unfold forwardIng at hd
  simp only [if_true, Bool.false_eq_true, if_false, List.nil_append] at hd
  rcases List.mem_append.mp hd with hd | hd
  · rcases List.mem_append.mp hd with hd | hd
    · rcases List.mem_append.mp hd with hd | hd
      · rcases List.mem_append.mp hd with hd | hd
        · rcases List.mem_append.mp hd with hd | hd
          · rcases List.mem_append.mp hd with hd | hd
            · obtain ⟨s, hs, rfl⟩ := List.mem_map.mp hd
              simp [reverseIng, hs]
            · by_cases h : i.jwtKey = ""
              · simp [h] at hd
              · simp [h] at hd; subst hd; simp [reverseIng, h]
          · by_cases h : i.basicAuth = ""
            · simp [h] at hd
            · simp [h] at hd; subst hd; simp [reverseIng, h]
        · obtain ⟨s, hs, rfl⟩ := List.mem_map.mp hd
          simp [reverseIng, hs]
      · by_cases h : i.apPolicy = ""
        · simp [h] at hd
        · simp [h] at hd; subst hd; simp [reverseIng, h]
    · obtain ⟨l, hl, rfl⟩ := List.mem_map.mp hd
      simp only [reverseIng]; rw [List.any_eq_true]; exact ⟨l, hl, by simp⟩
  · obtain ⟨m, hm, hd⟩ := List.mem_flatMap.mp hd
    rcases List.mem_append.mp hd with hd | hd
    · rcases List.mem_append.mp hd with hd | hd
      · by_cases h : m.jwtKey = ""
        · simp [h] at hd
        · simp [h] at hd; subst hd
          simp only [reverseIng, Bool.or_eq_true]; right
          rw [List.any_eq_true]; exact ⟨m, hm, by simp [h]⟩
      · by_cases h : m.basicAuth = ""
        · simp [h] at hd
        · simp [h] at hd; subst hd
          simp only [reverseIng, Bool.or_eq_true]; right
          rw [List.any_eq_true]; exact ⟨m, hm, by simp [h]⟩
    · obtain ⟨s, hs, rfl⟩ := List.mem_map.mp hd
      simp only [reverseIng, Bool.or_eq_true]; right
      rw [List.any_eq_true]; exact ⟨m, hm, by simp [hs]⟩

end Nic.Refs
