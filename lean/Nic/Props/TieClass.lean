/-
  Tie (translated source ↔ model) for C16: `LoadBalancerController.HasCorrectIngressClass` as it is in /repo now (Nic.Gen.Fns,
  regenerated on every run) is the class predicate of the model (Nic/Model/Class.lean), kind by kind.
-/
import Nic.Gen.Fns
import Nic.Model.Class

namespace Nic.TieClass
open Nic.Go Nic.Gen.Fns Nic.Class

theorem idpure {α} (x : α) : (pure x : Id α) = x := rfl

theorem beq_decide (a b : String) : (a == b) = decide (a = b) := by
  by_cases h : a = b <;> simp [h]
theorem beq_decide_symm (a b : String) : (a == b) = decide (b = a) := by
  by_cases h : a = b
  · simp [h]
  · have : ¬ b = a := fun e => h e.symm
    simp [h, this]

abbrev has := K8sController.LoadBalancerController_HasCorrectIngressClass

/-- the deprecated annotation as the model sees it (an absent key and an empty value are the same to the code) -/
def annOf (ing : Ingress) : Option String := some (Go.idx ing.ObjectMeta.Annotations "kubernetes.io/ingress.class")

theorem ingress_tie (lbc : LoadBalancerController) (ing : Ingress) :
    has lbc (.Ingress ing) = hasCorrectClass lbc.ingressClass .ingress (annOf ing) ing.Spec.IngressClassName := by
  unfold has K8sController.LoadBalancerController_HasCorrectIngressClass hasCorrectClass annOf
  cases hf : ing.Spec.IngressClassName with
  | none =>
    by_cases ha : Go.idx ing.ObjectMeta.Annotations "kubernetes.io/ingress.class" = ""
    · simp [ha, hf, Id.run, Go.notNil, idpure]
      exact beq_decide_symm _ _
    · simp [ha, hf, Id.run, Go.notNil, idpure]
      exact beq_decide _ _
  | some f =>
    by_cases ha : Go.idx ing.ObjectMeta.Annotations "kubernetes.io/ingress.class" = ""
    · simp [ha, hf, Id.run, Go.notNil, Go.deref, idpure]
      exact beq_decide _ _
    · simp [ha, hf, Id.run, Go.notNil, idpure]
      exact beq_decide _ _

theorem vs_tie (lbc : LoadBalancerController) (o : VirtualServer) :
    has lbc (.VirtualServer o) = hasCorrectClass lbc.ingressClass .vs none (some o.Spec.IngressClass) := by
  simp [has, K8sController.LoadBalancerController_HasCorrectIngressClass, Id.run, hasCorrectClass]; rfl

theorem vsr_tie (lbc : LoadBalancerController) (o : VirtualServerRoute) :
    has lbc (.VirtualServerRoute o) = hasCorrectClass lbc.ingressClass .vsr none (some o.Spec.IngressClass) := by
  simp [has, K8sController.LoadBalancerController_HasCorrectIngressClass, Id.run, hasCorrectClass]; rfl

theorem ts_tie (lbc : LoadBalancerController) (o : TransportServer) :
    has lbc (.TransportServer o) = hasCorrectClass lbc.ingressClass .ts none (some o.Spec.IngressClass) := by
  simp [has, K8sController.LoadBalancerController_HasCorrectIngressClass, Id.run, hasCorrectClass]; rfl

theorem policy_tie (lbc : LoadBalancerController) (o : Policy) :
    has lbc (.Policy o) = hasCorrectClass lbc.ingressClass .policy none (some o.Spec.IngressClass) := by
  simp [has, K8sController.LoadBalancerController_HasCorrectIngressClass, Id.run, hasCorrectClass]; rfl

theorem other_tie (lbc : LoadBalancerController) : has lbc .other = hasCorrectClass lbc.ingressClass .other none none := by
  simp [has, K8sController.LoadBalancerController_HasCorrectIngressClass, Id.run, hasCorrectClass]; rfl

/-- The property's wording, about the source's own predicate: an Ingress that names no class at all is never ours; a custom
resource without a class always is; a resource naming another class never is. -/
theorem ingress_without_class_not_ours (lbc : LoadBalancerController) (ing : Ingress) (hne : lbc.ingressClass ≠ "")
    (ha : Go.idx ing.ObjectMeta.Annotations "kubernetes.io/ingress.class" = "") (hf : ing.Spec.IngressClassName = none) :
    has lbc (.Ingress ing) = false := by
  rw [ingress_tie]; simp [hasCorrectClass, annOf, ha, hf]; exact fun h => hne h

theorem foreign_class_not_ours (lbc : LoadBalancerController) (o : VirtualServer) (h1 : o.Spec.IngressClass ≠ lbc.ingressClass)
    (h2 : o.Spec.IngressClass ≠ "") : has lbc (.VirtualServer o) = false := by
  rw [vs_tie]; simp [hasCorrectClass, h1, h2]

theorem annotation_beats_field (lbc : LoadBalancerController) (ing : Ingress)
    (ha : Go.idx ing.ObjectMeta.Annotations "kubernetes.io/ingress.class" ≠ "") :
    has lbc (.Ingress ing) = (Go.idx ing.ObjectMeta.Annotations "kubernetes.io/ingress.class" == lbc.ingressClass) := by
  rw [ingress_tie]; simp [hasCorrectClass, annOf, ha]; rfl

example : has { ingressClass := "nginx" } (.Ingress { Spec := { IngressClassName := some "nginx" } }) = true := by decide
example : has { ingressClass := "nginx" } (.Ingress { ObjectMeta := { Annotations := [("kubernetes.io/ingress.class", "other")] }, Spec := { IngressClassName := some "nginx" } }) = false := by decide
example : has { ingressClass := "nginx" } (.Policy {}) = true := by decide

end Nic.TieClass
