/-
  Tie (translated source ↔ model) for small decision functions of C17 (challenge Ingress) and C19 (DoS reference resolution),
  as they are in /repo now (Nic.Gen.Fns, regenerated on every run).
-/
import Nic.Gen.Fns

namespace Nic.TieMisc
open Nic.Go Nic.Gen.Fns

/-- `getNsName`: a reference without a namespace is resolved in the namespace of the resource that carries it; a qualified
reference is taken as it is — never re-qualified. -/
theorem getNsName_bare (ns name : String) (h : Go.contains name "/" = false) : Dos.getNsName ns name = ns ++ "/" ++ name := by
  simp [Dos.getNsName, Id.run, h, Go.add, Go.Add.add]; rfl

theorem getNsName_qualified (ns name : String) (h : Go.contains name "/" = true) : Dos.getNsName ns name = name := by
  simp [Dos.getNsName, Id.run, h]; rfl

/-- resolving twice is resolving once: a resolved reference contains the separator (this is what GetValidDosEx relies on when it
resolves the protected resource's own references in the protected resource's namespace, not the referrer's) -/
theorem containsChars_append_left (a p r : List Char) (h : Go.containsChars r p = true) : Go.containsChars (a ++ r) p = true := by
  induction a with
  | nil => simpa using h
  | cons x xs ih =>
    cases p with
    | nil => simp [Go.containsChars]
    | cons y ys => simp [Go.containsChars, ih]

theorem getNsName_idempotent (ns ns' name : String) : Dos.getNsName ns' (Dos.getNsName ns name) = Dos.getNsName ns name := by
  by_cases h : Go.contains name "/" = true
  · rw [getNsName_qualified ns name h, getNsName_qualified ns' name h]
  · have h' : Go.contains name "/" = false := by simpa using h
    rw [getNsName_bare ns name h']
    apply getNsName_qualified
    unfold Go.contains
    have : (ns ++ "/" ++ name).toList = ns.toList ++ ('/' :: name.toList) := by simp
    rw [this]
    apply containsChars_append_left
    simp [Go.containsChars]

/-- `isMatchingResourceRef` (which WAF policies a changed App Protect resource reaches): a bare reference means the owner's
namespace, a qualified one is compared as it is. -/
theorem isMatchingResourceRef_bare (ns ref key : String) (h : Go.contains ref "/" = false) :
    K8sWaf.isMatchingResourceRef ns ref key = (ns ++ "/" ++ ref == key) := by
  simp [K8sWaf.isMatchingResourceRef, Id.run, h, Go.fmt, Go.Fmt.fmt]; rfl

theorem isMatchingResourceRef_qualified (ns ref key : String) (h : Go.contains ref "/" = true) :
    K8sWaf.isMatchingResourceRef ns ref key = (ref == key) := by
  simp [K8sWaf.isMatchingResourceRef, Id.run, h]; rfl

/-- the reverse lookup agrees with the forward resolution: a reference matches exactly the key `getNsName` resolves it to
(the DoS and WAF sides use the same convention) -/
theorem matching_is_resolution (ns ref key : String) :
    K8sWaf.isMatchingResourceRef ns ref key = (Dos.getNsName ns ref == key) := by
  by_cases h : Go.contains ref "/" = true
  · rw [isMatchingResourceRef_qualified ns ref key h, getNsName_qualified ns ref h]
  · have h' : Go.contains ref "/" = false := by simpa using h
    rw [isMatchingResourceRef_bare ns ref key h', getNsName_bare ns ref h']

/-- `isChallengeIngress` looks at the solver label only -/
theorem isChallenge_by_label (ing : Ingress) :
    K8sUtils.isChallengeIngress ing = (Go.idx ing.ObjectMeta.Labels "acme.cert-manager.io/http01-solver" == "true") := rfl

example : Dos.getNsName "d" "prot" = "d/prot" := by decide
example : Dos.getNsName "d" "e/prot" = "e/prot" := by decide

end Nic.TieMisc
