/-
  C18 — observers running beside the control loop never race with it: the lock discipline and what it guarantees.
-/
import Nic.Model.Lockset
import Nic.Gen.LockFacts

namespace Nic.Lockset

theorem inv_init : Inv init := by intro h; cases h

theorem inv_step (m : Mutex) (s : Step) (h : Inv m) : Inv (step m s) := by
  cases s with
  | lock t =>
    simp only [step]
    split
    · rename_i hc
      simp only [Bool.and_eq_true, List.isEmpty_iff] at hc
      intro _; exact hc.2
    · exact h
  | unlock t =>
    simp only [step]
    split
    · intro hw; cases hw
    · exact h
  | rlock t =>
    simp only [step]
    split
    · rename_i hc
      intro hw
      simp only at hw
      rw [Option.isNone_iff_eq_none] at hc
      rw [hc] at hw; cases hw
    · exact h
  | runlock t =>
    simp only [step]
    intro hw
    simp only at hw ⊢
    rw [h hw]; rfl

theorem inv_run (tr : List Step) (m : Mutex) (h : Inv m) : Inv (run m tr) := by
  induction tr generalizing m with
  | nil => exact h
  | cons s tr ih => exact ih _ (inv_step m s h)

/-- **discipline_race_free**: after any sequence of lock operations by any number of threads — every schedule — a thread that
may write a guarded location and a different thread that may read or write it never coexist. -/
theorem discipline_race_free (tr : List Step) (t1 t2 : Thread) (hne : t1 ≠ t2) :
    ¬ (canWrite (run init tr) t1 ∧ (canRead (run init tr) t2 ∨ canWrite (run init tr) t2)) := by
  have hinv := inv_run tr init inv_init
  generalize run init tr = m at hinv
  intro ⟨hw, hr⟩
  unfold canWrite holdsW at hw
  have hre : m.readers = [] := hinv (by rw [hw]; rfl)
  rcases hr with (hw2 | hr2) | hw2
  · unfold holdsW at hw2; rw [hw] at hw2; cases hw2; exact hne rfl
  · unfold holdsR at hr2; rw [hre] at hr2; cases hr2
  · unfold canWrite holdsW at hw2; rw [hw] at hw2; cases hw2; exact hne rfl

/-- Two readers may coexist (the discipline is not vacuous mutual exclusion of everything). -/
example : canRead (run init [.rlock 1, .rlock 2]) 1 ∧ canRead (run init [.rlock 1, .rlock 2]) 2 := by
  constructor <;> (right; simp [run, step, init, holdsR])

/-- **observers_respect_discipline_partial**: every method that an observer goroutine calls on the arbitration state
(`Configuration`) — and every other observer entry that is not listed as a known finding — takes the mutex in the right mode, and so
does every method that writes what it reads. The table is regenerated from /repo on every run; the entries exempted here are exactly
the known findings S-C18-a/b/d (the Configurator and the secret store have no lock at all). -/
theorem observers_respect_discipline_partial :
    Nic.Gen.LockFacts.observers.all (fun o => Nic.Gen.LockFacts.exempt.contains (o.type ++ "." ++ o.method) || respects Nic.Gen.LockFacts.facts o) = true := by
  decide

/-- **no_access_before_lock**: no method of the lock-carrying types touches a field that some method writes *before* taking the mutex
it takes later in its own body (a look-up "to save the lock" in front of `Lock()` is exactly such an access). The table is regenerated
from /repo on every run and is empty on this tree. -/
theorem no_access_before_lock : Nic.Gen.LockFacts.prelocks = [] := by decide

/-- **writers_hold_exclusive_lock**: every method of the arbitration state that writes one of its fields runs under the exclusive lock
(`Lock()`), its own or — for an unexported helper — that of all its callers; none writes under `RLock()` or without the lock. With
`discipline_race_free` this is what makes the writes race-free against every reader that takes the lock. Regenerated table, empty on
this tree. -/
theorem writers_hold_exclusive_lock : Nic.Gen.LockFacts.weakWriters = [] := by decide

end Nic.Lockset
