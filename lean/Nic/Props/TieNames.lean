/-
  Tie (translated source ↔ model) for the naming functions of C07 (NGINX identifiers) and C10 (file names).
  The injectivity / disjointness theorems of Props/C07.lean and Props/C10.lean are stated over Nic.NamingModel and Nic.Files;
  here the Go functions as they are in /repo now (Nic.Gen.Fns, regenerated on every run) are proved equal to those models.
-/
import Nic.Gen.Fns
import Nic.Model.Naming
import Nic.Model.Files

namespace Nic.TieNames
open Nic.Go Nic.Gen.Fns

theorem ofList_append (a b : List Char) : String.ofList (a ++ b) = String.ofList a ++ String.ofList b := by
  apply String.toList_inj.mp; simp

theorem ofList_toList (s : String) : String.ofList s.toList = s := by simp

/-- `strings.ReplaceAll(s, "<c>", "<d>")` for one-character pattern and replacement is a character map. -/
theorem replaceAll_char (s : String) (c d : Char) :
    Go.replaceAll s (String.singleton c) (String.singleton d) = String.ofList (s.toList.map fun x => if x = c then d else x) := by
  unfold Go.replaceAll
  have : (String.singleton c).toList = [c] := by simp
  rw [this]
  simp only
  congr 1
  induction s.toList with
  | nil => rfl
  | cons x xs ih =>
    simp only [List.flatMap_cons, List.map_cons, ih]
    by_cases h : x = c <;> simp [h]

/-! ### C10: file names -/

theorem ingFile_tie (m : ObjectMeta) : Configurator.objectMetaToFileName m = Files.ingFile m.Namespace m.Name := by
  simp [Configurator.objectMetaToFileName, Files.ingFile, Go.add, Go.Add.add]

theorem ingFileKey_tie (key : String) : Configurator.keyToFileName key = Files.ingFileKey key := by
  have e : Go.replaceAll key "/" "-" = String.ofList (key.toList.map fun x => if x = '/' then '-' else x) := replaceAll_char key '/' '-'
  simp only [Configurator.keyToFileName, Files.ingFileKey, Files.replaceSlash, e]

theorem vsFile_tie (vs : VirtualServer) :
    Configurator.getFileNameForVirtualServer vs = Files.vsFile vs.ObjectMeta.Namespace vs.ObjectMeta.Name := by
  simp [Configurator.getFileNameForVirtualServer, Files.vsFile, Go.fmt, Fmt.fmt]

theorem tsFile_tie (ts : TransportServer) :
    Configurator.getFileNameForTransportServer ts = Files.tsFile ts.ObjectMeta.Namespace ts.ObjectMeta.Name := by
  simp [Configurator.getFileNameForTransportServer, Files.tsFile, Go.fmt, Fmt.fmt]

theorem vsFileKey_tie (key : String) : Configurator.getFileNameForVirtualServerFromKey key = Files.vsFileKey key := by
  have e : Go.replaceAll key "/" "_" = String.ofList (key.toList.map fun x => if x = '/' then '_' else x) := replaceAll_char key '/' '_'
  simp only [Configurator.getFileNameForVirtualServerFromKey, Id.run, Files.vsFileKey, Files.replaceSlash, Go.fmt, Fmt.fmt]
  show "vs_" ++ Go.replaceAll key "/" "_" = _
  rw [e]

theorem tsFileKey_tie (key : String) : Configurator.getFileNameForTransportServerFromKey key = Files.tsFileKey key := by
  have e : Go.replaceAll key "/" "_" = String.ofList (key.toList.map fun x => if x = '/' then '_' else x) := replaceAll_char key '/' '_'
  simp only [Configurator.getFileNameForTransportServerFromKey, Id.run, Files.tsFileKey, Files.replaceSlash, Go.fmt, Fmt.fmt]
  show "ts_" ++ Go.replaceAll key "/" "_" = _
  rw [e]

/-- delete-by-key addresses the file written by-meta, for the functions as they are in the source -/
theorem vs_key_meta_agree (vs : VirtualServer) (h : '/' ∉ vs.ObjectMeta.Namespace.toList ∧ '/' ∉ vs.ObjectMeta.Name.toList) :
    Configurator.getFileNameForVirtualServerFromKey (Configurator.generateNamespaceNameKey vs.ObjectMeta) =
      Configurator.getFileNameForVirtualServer vs := by
  rw [vsFileKey_tie, vsFile_tie]
  simp only [Configurator.generateNamespaceNameKey, Go.fmt, Fmt.fmt, Files.vsFileKey, Files.vsFile, Files.replaceSlash]
  have hmap : ∀ l : List Char, '/' ∉ l → l.map (fun x => if x = '/' then '_' else x) = l := by
    intro l hl
    induction l with
    | nil => rfl
    | cons x xs ih =>
      simp only [List.mem_cons, not_or] at hl
      simp [List.map_cons, ih hl.2, Ne.symm hl.1]
  have : (vs.ObjectMeta.Namespace ++ "/" ++ vs.ObjectMeta.Name).toList = vs.ObjectMeta.Namespace.toList ++ '/' :: vs.ObjectMeta.Name.toList := by
    simp
  rw [this, List.map_append, List.map_cons, hmap _ h.1, hmap _ h.2]
  apply String.toList_inj.mp
  simp

/-! ### C07: NGINX identifiers -/

theorem vsUpstream_tie (vs : VirtualServer) (up : String) :
    VirtualServerCfg.upstreamNamer_GetNameForUpstream (VirtualServerCfg.NewUpstreamNamerForVirtualServer vs) up =
      NamingModel.vsUpstream vs.ObjectMeta.Namespace vs.ObjectMeta.Name up := by
  simp only [VirtualServerCfg.upstreamNamer_GetNameForUpstream, VirtualServerCfg.NewUpstreamNamerForVirtualServer, Go.fmt, Fmt.fmt,
    NamingModel.vsUpstream, NamingModel.joinS, NamingModel.str]
  apply String.toList_inj.mp
  simp

theorem vsrUpstream_tie (vs : VirtualServer) (vsr : VirtualServerRoute) (up : String) :
    VirtualServerCfg.upstreamNamer_GetNameForUpstream (VirtualServerCfg.NewUpstreamNamerForVirtualServerRoute vs vsr) up =
      NamingModel.vsrUpstream vs.ObjectMeta.Namespace vs.ObjectMeta.Name vsr.ObjectMeta.Namespace vsr.ObjectMeta.Name up := by
  simp only [VirtualServerCfg.upstreamNamer_GetNameForUpstream, VirtualServerCfg.NewUpstreamNamerForVirtualServerRoute, Go.fmt, Fmt.fmt,
    NamingModel.vsrUpstream, NamingModel.joinS, NamingModel.str]
  apply String.toList_inj.mp
  simp

/-- an action's upstream name is the namer applied to the upstream the action names (`proxy.upstream` if set, else `pass`) -/
theorem action_upstream_tie (n : VirtualServerCfg.upstreamNamer) (a : Action) :
    VirtualServerCfg.upstreamNamer_GetNameForUpstreamFromAction n a =
      VirtualServerCfg.upstreamNamer_GetNameForUpstream n
        (match a.Proxy with | some p => if p.Upstream ≠ "" then p.Upstream else a.Pass | none => a.Pass) := by
  simp only [VirtualServerCfg.upstreamNamer_GetNameForUpstreamFromAction, VirtualServerCfg.upstreamNamer_GetNameForUpstream, Id.run,
    Go.notNil, Option.Upstream, Go.deref]
  cases hp : a.Proxy with
  | none => simp; rfl
  | some p =>
    by_cases hu : p.Upstream = "" <;> (simp [hu]; rfl)

theorem safeNsName_tie (vs : VirtualServer) :
    (VirtualServerCfg.NewVSVariableNamer vs).safeNsName = NamingModel.safeNsName vs.ObjectMeta.Namespace vs.ObjectMeta.Name := by
  have e : Go.replaceAll (vs.ObjectMeta.Namespace ++ "_" ++ vs.ObjectMeta.Name) "-" "_" =
      String.ofList ((vs.ObjectMeta.Namespace ++ "_" ++ vs.ObjectMeta.Name).toList.map fun x => if x = '-' then '_' else x) :=
    replaceAll_char _ '-' '_'
  simp only [VirtualServerCfg.NewVSVariableNamer, Id.run, Go.fmt, Fmt.fmt, NamingModel.safeNsName, NamingModel.joinS, NamingModel.str]
  show Go.replaceAll (vs.ObjectMeta.Namespace ++ "_" ++ vs.ObjectMeta.Name) "-" "_" = _
  rw [e]
  congr 1
  simp

theorem rfc1123ToSnake_tie (s : String) :
    VirtualServerCfg.rfc1123ToSnake s = String.ofList (s.toList.map fun c => if c = '-' then '_' else c) := by
  exact replaceAll_char s '-' '_' 

/-- further identifiers, as the source builds them now (their uniqueness follows from that of the upstream name / indices) -/
theorem statusMatchName_eq (u : String) : VirtualServerCfg.generateStatusMatchName u = u ++ "_match" := by
  simp [VirtualServerCfg.generateStatusMatchName, Go.fmt, Go.Fmt.fmt]

theorem statusMatchName_inj (u v : String) (h : VirtualServerCfg.generateStatusMatchName u = VirtualServerCfg.generateStatusMatchName v) :
    u = v := by
  rw [statusMatchName_eq, statusMatchName_eq] at h
  have := congrArg String.toList h
  simp only [String.toList_append] at this
  exact String.toList_inj.mp (List.append_cancel_right this)

theorem errorPageName_eq (i j : Int) : VirtualServerCfg.generateErrorPageName i j = "@error_page_" ++ toString i ++ "_" ++ toString j := by
  simp [VirtualServerCfg.generateErrorPageName, Go.fmt, Go.Fmt.fmt]

theorem dosPolicyFile_eq (ns name : String) :
    Configurator.appProtectDosPolicyFileName ns name = "/etc/nginx/dos/policies/" ++ ns ++ "_" ++ name ++ ".json" := by
  simp [Configurator.appProtectDosPolicyFileName, Go.fmt, Go.Fmt.fmt]

/-! non-vacuity -/
example : VirtualServerCfg.upstreamNamer_GetNameForUpstream (VirtualServerCfg.NewUpstreamNamerForVirtualServer { ObjectMeta := { Namespace := "d", Name := "cafe" } }) "tea" = "vs_d_cafe_tea" := by decide
example : Configurator.getFileNameForVirtualServerFromKey "d/cafe" = "vs_d_cafe" := by decide

end Nic.TieNames
