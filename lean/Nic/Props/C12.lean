/-
  C12 — no change left unapplied; no reload while reloads are held back.
-/
import Nic.Model.Reload

namespace Nic.Reload

/-! ### helper lemmas -/

private theorem mem_writes {rs : List Res} {i0 : Nat} {e : Ev} (h : e ∈ writes rs i0) : ∃ i c, e = Ev.write i c := by
  induction rs generalizing i0 with
  | nil => simp [writes] at h
  | cons r rs ih =>
    simp only [writes, List.mem_cons] at h
    rcases h with rfl | h
    · exact ⟨_, _, rfl⟩
    · exact ih h

private theorem doReload_evs (f : Faults) (cs : CS) :
    (doReload f cs).evs = (if cs.enabled then [Ev.reload (doReload f cs).ok] else []) := by
  unfold doReload; split <;> simp_all

private theorem doReload_enabled (f : Faults) (cs : CS) (h : cs.enabled = true) :
    (doReload f cs).evs = [Ev.reload (doReload f cs).ok] := by
  rw [doReload_evs, if_pos h]

private theorem doReload_disabled (f : Faults) (cs : CS) (h : cs.enabled = false) :
    (doReload f cs).evs = [] ∧ (doReload f cs).ok = true := by
  unfold doReload; simp [h]

/-- In `pre ++ write i true :: post = ws ++ tail` where `ws` are writes and ... the suffix `tail` is inside `post`. -/
private theorem split_in_prefix {ws tail pre post : List Ev} {e : Ev} (h : ws ++ tail = pre ++ e :: post)
    (hne : e ∉ tail) : ∃ mid, post = mid ++ tail := by
  induction ws generalizing pre with
  | nil =>
    simp only [List.nil_append] at h
    exact absurd (h ▸ List.mem_append_right pre (List.mem_cons_self)) hne
  | cons w ws ih =>
    cases pre with
    | nil =>
      simp only [List.cons_append, List.nil_append, List.cons.injEq] at h
      exact ⟨ws, h.2.symm⟩
    | cons p pre =>
      simp only [List.cons_append, List.cons.injEq] at h
      exact ih h.2

private theorem strip_replicate {α : Type} (a e : α) (n : Nat) (rest pre post : List α) (hne : e ≠ a)
    (h : List.replicate n a ++ rest = pre ++ e :: post) :
    ∃ pre', pre = List.replicate n a ++ pre' ∧ rest = pre' ++ e :: post := by
  induction n generalizing pre with
  | zero => exact ⟨pre, by simp, by simpa using h⟩
  | succ n ihn =>
    rw [List.replicate_succ, List.cons_append] at h
    cases pre with
    | nil =>
      simp only [List.nil_append, List.cons.injEq] at h
      exact absurd h.1.symm hne
    | cons q pre =>
      simp only [List.cons_append, List.cons.injEq] at h
      obtain ⟨pre', rfl, h2⟩ := ihn pre h.2
      exact ⟨pre', by rw [← h.1, List.replicate_succ, List.cons_append], h2⟩

/-! ### Part 1: Configurator operations -/

/-- **always_applies**: with reloads enabled, an operation of the write-then-reload class that returns
success has reloaded NGINX after its last write — for any number of resources and any fault placement. -/
theorem always_applies (f : Faults) (rs : List Res) (cs : CS) (he : cs.enabled = true)
    (hok : (always f rs cs).ok = true) : AppliedByReload (always f rs cs).evs := by
  intro pre post i h
  unfold always at h hok
  simp only at h hok
  rw [doReload_enabled f cs he, hok, List.append_assoc] at h
  have hne : Ev.write i true ∉ [Ev.reload true] ++ [Ev.ret true] := by simp
  obtain ⟨mid, rfl⟩ := split_in_prefix h.symm.symm hne
  simp

/-- **reload_failure_returned** (write-then-reload class): a failed reload is what the operation returns. -/
theorem always_failure_returned (f : Faults) (rs : List Res) (cs : CS)
    (h : Ev.reload false ∈ (always f rs cs).evs) : (always f rs cs).ok = false ∧ Ev.ret false ∈ (always f rs cs).evs := by
  unfold always at *
  simp only [List.mem_append, List.mem_singleton] at h ⊢
  rcases h with (h | h) | h
  · obtain ⟨i, c, hc⟩ := mem_writes h; cases hc
  · rw [doReload_evs] at h
    split at h
    · simp only [List.mem_singleton, Ev.reload.injEq] at h
      exact ⟨h.symm, Or.inr (by rw [← h])⟩
    · simp at h
  · cases h

/-- **held_no_reload** (write-then-reload class): with reloads held back nothing is reloaded or pushed. -/
theorem always_held (f : Faults) (rs : List Res) (cs : CS) (he : cs.enabled = false) : Quiet (always f rs cs).evs := by
  intro e h
  unfold always at h
  simp only [(doReload_disabled f cs he).1, List.append_nil, List.mem_append, List.mem_singleton] at h
  rcases h with h | h
  · obtain ⟨i, c, rfl⟩ := mem_writes h; simp
  · subst h; simp

/-- **resources_applies**: `AddOrUpdateResources` reloads whenever one of its writes changed a file. -/
theorem resources_applies (f : Faults) (rs : List Res) (riu : Bool) (cs : CS) (he : cs.enabled = true)
    (hok : (resources f rs riu cs).ok = true) : AppliedByReload (resources f rs riu cs).evs := by
  unfold resources at *
  split
  · rename_i hc; rw [if_pos hc] at hok; exact always_applies f rs cs he hok
  · rename_i hc
    intro pre post i h
    have hall : ∀ r ∈ rs, r.changed = false := by
      simp only [Bool.or_eq_true, List.any_eq_true, not_or, not_exists, not_and, Bool.not_eq_true] at hc
      exact fun r hr => hc.1 r hr
    -- no write in the trace is a changed one
    have hw : ∀ (rs : List Res) (i0 : Nat), (∀ r ∈ rs, r.changed = false) → Ev.write i true ∉ writes rs i0 := by
      intro rs
      induction rs with
      | nil => intro _ _; simp [writes]
      | cons r rs ih =>
        intro i0 hr
        simp only [writes, List.mem_cons, Ev.write.injEq, not_or, not_and]
        refine ⟨fun _ hcc => ?_, ih (i0 + 1) (fun r' hr' => hr r' (List.mem_cons_of_mem _ hr'))⟩
        have := hr r List.mem_cons_self
        rw [this] at hcc; cases hcc
    have h' : writes rs 0 ++ [Ev.ret true] = pre ++ Ev.write i true :: post := h
    have : Ev.write i true ∈ writes rs 0 ++ [Ev.ret true] := by rw [h']; simp
    simp only [List.mem_append, List.mem_singleton] at this
    rcases this with h1 | h1
    · exact absurd h1 (hw rs 0 hall)
    · cases h1

/-- **unchanged_skips**: when no write changed anything and the caller does not insist, nothing is reloaded. -/
theorem resources_unchanged_quiet (f : Faults) (rs : List Res) (cs : CS) (hall : rs.any (·.changed) = false) :
    Quiet (resources f rs false cs).evs := by
  unfold resources
  simp only [hall, Bool.or_false, Bool.false_eq_true, if_false]
  intro e h
  simp only [List.mem_append, List.mem_singleton] at h
  rcases h with h | h
  · obtain ⟨i, c, rfl⟩ := mem_writes h; simp
  · subst h; simp

theorem resources_held (f : Faults) (rs : List Res) (riu : Bool) (cs : CS) (he : cs.enabled = false) :
    Quiet (resources f rs riu cs).evs := by
  unfold resources
  split
  · exact always_held f rs cs he
  · intro e h
    simp only [List.mem_append, List.mem_singleton] at h
    rcases h with h | h
    · obtain ⟨i, c, rfl⟩ := mem_writes h; simp
    · subst h; simp

theorem resources_failure_returned (f : Faults) (rs : List Res) (riu : Bool) (cs : CS)
    (h : Ev.reload false ∈ (resources f rs riu cs).evs) : (resources f rs riu cs).ok = false := by
  unfold resources at *
  split
  · rename_i hc; rw [if_pos hc] at h; exact (always_failure_returned f rs cs h).1
  · rename_i hc; rw [if_neg hc] at h
    simp only [List.mem_append, List.mem_singleton] at h
    rcases h with h | h
    · obtain ⟨i, c, hc'⟩ := mem_writes h; cases hc'
    · cases h

/-! #### endpoints operations -/

private theorem push_cs_enabled (f : Faults) (i n : Nat) (cs : CS) : (push f i n cs).cs.enabled = cs.enabled := by
  induction n generalizing cs with
  | zero => simp [push]
  | succ n ih =>
    unfold push
    split
    · split
      · rfl
      · simp only; rw [ih]
    · rfl

/-- A successful push of resource `i` with the gate open issued exactly `n` successful API calls, and nothing else. -/
private theorem push_ok (f : Faults) (i n : Nat) (cs : CS) (he : cs.enabled = true) (hok : (push f i n cs).ok = true) :
    (push f i n cs).evs = List.replicate n (Ev.api i true) := by
  induction n generalizing cs with
  | zero => simp [push]
  | succ n ih =>
    unfold push at hok ⊢
    rw [if_pos he] at hok ⊢
    split
    · rename_i hf; rw [if_pos hf] at hok; cases hok
    · rename_i hf; rw [if_neg hf] at hok
      simp only at hok ⊢
      rw [ih _ (by simpa using he) hok, List.replicate_succ]

private theorem push_only_api (f : Faults) (i n : Nat) (cs : CS) : ∀ e ∈ (push f i n cs).evs, ∃ ok, e = Ev.api i ok := by
  induction n generalizing cs with
  | zero => simp [push]
  | succ n ih =>
    unfold push
    split
    · split
      · intro e he; simp only [List.mem_singleton] at he; exact ⟨false, he⟩
      · intro e he
        simp only [List.mem_cons] at he
        rcases he with rfl | he
        · exact ⟨true, rfl⟩
        · exact ih _ e he
    · simp

private theorem epLoop_cs_enabled (plus : Bool) (f : Faults) (rs : List Res) (i0 : Nat) (cs : CS) :
    (epLoop plus f rs i0 cs).cs.enabled = cs.enabled := by
  induction rs generalizing i0 cs with
  | nil => simp [epLoop]
  | cons r rs ih =>
    unfold epLoop
    simp only
    rw [ih]
    split
    · exact push_cs_enabled f i0 r.ups cs
    · rfl

/-- Events of the loop from index `i0` on mention only resources `≥ i0`. -/
private theorem epLoop_index (plus : Bool) (f : Faults) (rs : List Res) (i0 : Nat) (cs : CS) :
    ∀ e ∈ (epLoop plus f rs i0 cs).evs, (∃ i c, e = Ev.write i c ∧ i0 ≤ i) ∨ (∃ i ok, e = Ev.api i ok ∧ i0 ≤ i) := by
  induction rs generalizing i0 cs with
  | nil => simp [epLoop]
  | cons r rs ih =>
    intro e he
    unfold epLoop at he
    simp only [List.mem_cons, List.mem_append] at he
    rcases he with rfl | he | he
    · exact Or.inl ⟨i0, _, rfl, Nat.le_refl _⟩
    · split at he
      · obtain ⟨ok, rfl⟩ := push_only_api f i0 r.ups cs e he
        exact Or.inr ⟨i0, ok, rfl, Nat.le_refl _⟩
      · simp at he
    · rcases ih (i0 + 1) _ e he with ⟨i, c, rfl, hi⟩ | ⟨i, ok, rfl, hi⟩
      · exact Or.inl ⟨i, c, rfl, by omega⟩
      · exact Or.inr ⟨i, ok, rfl, by omega⟩

/-- If the loop did not ask for a fallback reload, every changed write of resource `i` is followed by exactly
`ups i` successful pushes of that resource. -/
private theorem epLoop_pushed (f : Faults) (rs : List Res) (i0 : Nat) (cs : CS) (he : cs.enabled = true)
    (hno : (epLoop true f rs i0 cs).reloadPlus = false) :
    ∀ pre post i c, (epLoop true f rs i0 cs).evs = pre ++ Ev.write i c :: post →
      ∀ r, rs[i - i0]? = some r → i0 ≤ i → post.count (Ev.api i true) = r.ups := by
  induction rs generalizing i0 cs with
  | nil => intro pre post i c h; simp [epLoop] at h
  | cons r0 rs ih =>
    intro pre post i c h r hr hi
    unfold epLoop at h hno
    simp only [if_true, Bool.or_eq_false_iff, Bool.not_eq_false'] at h hno
    have hpe := push_ok f i0 r0.ups cs he hno.1
    have hrest_en : (push f i0 r0.ups cs).cs.enabled = true := by rw [push_cs_enabled]; exact he
    cases pre with
    | nil =>
      simp only [List.nil_append, List.cons.injEq, Ev.write.injEq] at h
      obtain ⟨⟨rfl, _⟩, rfl⟩ := h
      simp only [Nat.sub_self, List.getElem?_cons_zero, Option.some.injEq] at hr
      subst hr
      rw [List.count_append, hpe]
      have hz : List.count (Ev.api i0 true) (epLoop true f rs (i0 + 1) (push f i0 r0.ups cs).cs).evs = 0 := by
        rw [List.count_eq_zero]
        intro hm
        rcases epLoop_index true f rs (i0 + 1) _ _ hm with ⟨i, c, hc, _⟩ | ⟨i, ok, hc, hi'⟩
        · cases hc
        · cases hc; omega
      rw [hz]; simp
    | cons p pre =>
      simp only [List.cons_append, List.cons.injEq] at h
      obtain ⟨_, h⟩ := h
      -- the write is not among the pushes of r0, so it lies in the rest
      rw [hpe] at h
      have := strip_replicate (Ev.api i0 true) (Ev.write i c) r0.ups _ pre post (by simp) h
      obtain ⟨pre', _, h2⟩ := this
      have hi1 : i0 + 1 ≤ i := by
        have hm : Ev.write i c ∈ (epLoop true f rs (i0 + 1) (push f i0 r0.ups cs).cs).evs := by rw [h2]; simp
        rcases epLoop_index true f rs (i0 + 1) _ _ hm with ⟨i', c', hc, hle⟩ | ⟨i', ok, hc, _⟩
        · cases hc; exact hle
        · cases hc
      have hidx : rs[i - (i0 + 1)]? = some r := by
        have : i - i0 = (i - (i0 + 1)) + 1 := by omega
        rw [this, List.getElem?_cons_succ] at hr
        exact hr
      exact ih (i0 + 1) _ hrest_en hno.2 pre' post i c h2 r hidx hi1

private theorem epLoop_no_reload (plus : Bool) (f : Faults) (rs : List Res) (i0 : Nat) (cs : CS) :
    ∀ ok, Ev.reload ok ∉ (epLoop plus f rs i0 cs).evs ∧ Ev.ret ok ∉ (epLoop plus f rs i0 cs).evs := by
  intro ok
  constructor <;> intro hm <;>
  · rcases epLoop_index plus f rs i0 cs _ hm with ⟨i, c, hc, _⟩ | ⟨i, ok', hc, _⟩ <;> cases hc

/-- **endpoints_applies**: with reloads enabled, an endpoints operation that returns success has, for every
resource whose file it changed, either reloaded NGINX afterwards or pushed every one of that resource's
upstreams through the API successfully — for every number of resources, every upstream count and every
placement of API and reload failures, on NGINX and on NGINX Plus. -/
theorem endpoints_applies (plus : Bool) (f : Faults) (rs : List Res) (cs : CS) (he : cs.enabled = true)
    (hok : (endpoints plus f rs cs).ok = true) : AppliedOrPushed rs (endpoints plus f rs cs).evs := by
  intro pre post i r h hr
  unfold endpoints at h hok
  simp only at h hok
  split at h
  · -- NGINX Plus, no fallback reload asked for
    rename_i hc
    simp only [Bool.and_eq_true, Bool.not_eq_eq_eq_not, Bool.not_true] at hc
    obtain ⟨hp, hno⟩ := hc
    subst hp
    right
    have hne : Ev.write i true ∉ [Ev.ret true] := by simp
    obtain ⟨mid, hpost⟩ := split_in_prefix h hne
    subst hpost
    have h' : (epLoop true f rs 0 cs).evs = pre ++ Ev.write i true :: mid := by
      have := h
      rw [← List.cons_append, ← List.append_assoc] at this
      exact List.append_cancel_right this
    have := epLoop_pushed f rs 0 cs he hno pre mid i true h' r (by simpa using hr) (Nat.zero_le _)
    rw [List.count_append, this]; simp
  · rename_i hc
    rw [if_neg hc] at hok
    simp only at hok
    left
    have hen : (epLoop plus f rs 0 cs).cs.enabled = true := by rw [epLoop_cs_enabled]; exact he
    rw [doReload_enabled f _ hen, hok, List.append_assoc] at h
    have hne : Ev.write i true ∉ [Ev.reload true] ++ [Ev.ret true] := by simp
    obtain ⟨mid, rfl⟩ := split_in_prefix h hne
    simp

/-- **endpoints_held**: with reloads held back an endpoints operation neither reloads nor pushes. -/
theorem endpoints_held (plus : Bool) (f : Faults) (rs : List Res) (cs : CS) (he : cs.enabled = false) :
    Quiet (endpoints plus f rs cs).evs := by
  have hpush : ∀ i n cs, cs.enabled = false → (push f i n cs) = ⟨[], cs, true⟩ := by
    intro i n cs h; cases n <;> simp [push, h]
  have hloop : ∀ (rs : List Res) (i0 : Nat), (epLoop plus f rs i0 cs).cs = cs ∧ (epLoop plus f rs i0 cs).reloadPlus = false ∧
      ∀ e ∈ (epLoop plus f rs i0 cs).evs, ∃ i c, e = Ev.write i c := by
    intro rs
    induction rs with
    | nil => intro i0; simp [epLoop]
    | cons r rs ih =>
      intro i0
      unfold epLoop
      cases plus
      · simp only [Bool.false_eq_true, if_false, List.nil_append, Bool.not_true, Bool.false_or]
        obtain ⟨h1, h2, h3⟩ := ih (i0 + 1)
        refine ⟨h1, h2, fun e he' => ?_⟩
        simp only [List.mem_cons] at he'
        rcases he' with rfl | he'
        · exact ⟨_, _, rfl⟩
        · exact h3 e he'
      · simp only [if_true, hpush i0 r.ups cs he, List.nil_append, Bool.not_true, Bool.false_or]
        obtain ⟨h1, h2, h3⟩ := ih (i0 + 1)
        refine ⟨h1, h2, fun e he' => ?_⟩
        simp only [List.mem_cons] at he'
        rcases he' with rfl | he'
        · exact ⟨_, _, rfl⟩
        · exact h3 e he'
  obtain ⟨h1, h2, h3⟩ := hloop rs 0
  intro e hm
  unfold endpoints at hm
  simp only [h2, h1, Bool.not_false, Bool.and_true] at hm
  split at hm
  · simp only [List.mem_append, List.mem_singleton] at hm
    rcases hm with hm | rfl
    · obtain ⟨i, c, rfl⟩ := h3 e hm; simp
    · simp
  · simp only [(doReload_disabled f cs he).1, List.append_nil, List.mem_append, List.mem_singleton] at hm
    rcases hm with hm | rfl
    · obtain ⟨i, c, rfl⟩ := h3 e hm; simp
    · simp

theorem endpoints_failure_returned (plus : Bool) (f : Faults) (rs : List Res) (cs : CS)
    (h : Ev.reload false ∈ (endpoints plus f rs cs).evs) : (endpoints plus f rs cs).ok = false := by
  unfold endpoints at *
  simp only at *
  split
  · rename_i hc; rw [if_pos hc] at h
    simp only [List.mem_append, List.mem_singleton] at h
    rcases h with h | h
    · exact absurd h (epLoop_no_reload plus f rs 0 cs false).1
    · cases h
  · rename_i hc; rw [if_neg hc] at h
    simp only [List.mem_append, List.mem_singleton] at h
    rcases h with (h | h) | h
    · exact absurd h (epLoop_no_reload plus f rs 0 cs false).1
    · rw [doReload_evs] at h
      split at h
      · simp only [List.mem_singleton, Ev.reload.injEq] at h; exact h.symm
      · simp at h
    · cases h

/-! #### all operations together -/

/-- An operation that promises to leave NGINX up to date when it returns success: everything except the
gate switches and a delete whose caller asked to skip the reload (the batch operations reload afterwards). -/
def Op.applies : Op → Bool
  | .enable | .disable => false
  | .delete _ skip => !skip
  | _ => true

/-- The resources of an operation. -/
def Op.res : Op → List Res
  | .always rs | .resources rs _ | .endpoints rs => rs
  | .single r _ | .delete r _ => [r]
  | _ => []

/-- **no_change_left_unapplied**: for every Configurator operation, every fault placement, on NGINX and NGINX
Plus: if reloads are enabled and the operation returns success, each file it changed has been followed by a
successful reload or (endpoints operations on NGINX Plus) by successful API pushes of all upstreams of that resource. -/
theorem no_change_left_unapplied (plus : Bool) (f : Faults) (cs : CS) (op : Op) (he : cs.enabled = true)
    (ha : op.applies = true) (hok : (exec plus f cs op).ok = true) : AppliedOrPushed op.res (exec plus f cs op).evs := by
  have lift : ∀ tr rs, AppliedByReload tr → AppliedOrPushed rs tr := fun tr rs h pre post i r ht _ => Or.inl (h pre post i ht)
  cases op with
  | enable => cases ha
  | disable => cases ha
  | always rs => exact lift _ _ (always_applies f rs cs he hok)
  | single r w =>
    apply lift
    simp only [exec, single] at hok ⊢
    exact always_applies f [r] _ (by split <;> simp_all) hok
  | delete r s =>
    simp only [Op.applies, Bool.not_eq_eq_eq_not, Bool.not_true] at ha
    subst ha
    apply lift
    simp only [exec, delete, Bool.false_eq_true, if_false] at hok ⊢
    exact always_applies f [r] cs he hok
  | resources rs riu => exact lift _ _ (resources_applies f rs riu cs he hok)
  | endpoints rs => exact endpoints_applies plus f rs cs he hok
  | batchReload flag =>
    intro pre post i r h _
    exfalso
    have hm : Ev.write i true ∈ (exec plus f cs (.batchReload flag)).evs := by rw [h]; simp
    simp only [exec, batchReload] at hm
    split at hm
    · simp only [List.mem_append, List.mem_singleton] at hm
      rcases hm with hm | hm
      · rw [doReload_evs] at hm; split at hm <;> simp at hm
      · cases hm
    · simp at hm

/-- **reload_failure_returned**: for every operation, a failed reload makes the operation fail. -/
theorem reload_failure_returned (plus : Bool) (f : Faults) (cs : CS) (op : Op)
    (h : Ev.reload false ∈ (exec plus f cs op).evs) : (exec plus f cs op).ok = false := by
  cases op with
  | enable => simp [exec] at h
  | disable => simp [exec] at h
  | always rs => exact (always_failure_returned f rs cs h).1
  | single r w => exact (always_failure_returned f [r] _ h).1
  | delete r s =>
    simp only [exec, delete] at h ⊢
    split at h
    · simp at h
    · rename_i hs; rw [if_neg hs]; exact (always_failure_returned f [r] cs h).1
  | resources rs riu => exact resources_failure_returned f rs riu cs h
  | endpoints rs => exact endpoints_failure_returned plus f rs cs h
  | batchReload flag =>
    simp only [exec, batchReload] at h ⊢
    split at h
    · rename_i hf; rw [if_pos hf]
      simp only [List.mem_append, List.mem_singleton] at h
      rcases h with h | h
      · rw [doReload_evs] at h
        split at h
        · simp only [List.mem_singleton, Ev.reload.injEq] at h; exact h.symm
        · simp at h
      · cases h
    · simp at h

/-- An operation that respects the reload gate: everything except switching it on, and `AddOrUpdateVirtualServer`
with weight updates (which switches it on itself — finding S-C12-a). -/
def Op.respectsGate : Op → Bool
  | .enable => false
  | .single _ w => !w
  | _ => true

/-- **held_no_reload_partial**: while reloads are held back, no operation that respects the gate reloads NGINX or
pushes through the API, and the gate stays closed. (Full statement — for every operation — is false: see
`held_reload_by_weight_updates`.) -/
theorem held_no_reload_partial (plus : Bool) (f : Faults) (cs : CS) (op : Op) (he : cs.enabled = false)
    (hg : op.respectsGate = true) : Quiet (exec plus f cs op).evs ∧ (exec plus f cs op).cs.enabled = false := by
  have quietRet : ∀ b, Quiet [Ev.ret b] := by intro b e h; simp only [List.mem_singleton] at h; subst h; simp
  have alwaysCs : ∀ rs, (always f rs cs).cs = cs := by intro rs; simp [always, doReload, he]
  cases op with
  | enable => cases hg
  | disable => exact ⟨quietRet true, rfl⟩
  | always rs => exact ⟨always_held f rs cs he, by show (always f rs cs).cs.enabled = false; rw [alwaysCs]; exact he⟩
  | single r w =>
    simp only [Op.respectsGate, Bool.not_eq_eq_eq_not, Bool.not_true] at hg
    subst hg
    simp only [exec, single, Bool.false_eq_true, if_false]
    exact ⟨always_held f [r] cs he, by rw [alwaysCs]; exact he⟩
  | delete r s =>
    simp only [exec, delete]
    split
    · refine ⟨?_, he⟩
      intro e h; simp only [List.mem_cons, List.mem_nil_iff, or_false] at h
      rcases h with rfl | rfl <;> simp
    · exact ⟨always_held f [r] cs he, by rw [alwaysCs]; exact he⟩
  | resources rs riu =>
    refine ⟨resources_held f rs riu cs he, ?_⟩
    simp only [exec, resources]
    split
    · rw [alwaysCs]; exact he
    · exact he
  | endpoints rs =>
    refine ⟨endpoints_held plus f rs cs he, ?_⟩
    have hpush : ∀ i n, (push f i n cs) = ⟨[], cs, true⟩ := by intro i n; cases n <;> simp [push, he]
    have hloop : ∀ (rs : List Res) (i0 : Nat), (epLoop plus f rs i0 cs).cs = cs := by
      intro rs
      induction rs with
      | nil => intro i0; simp [epLoop]
      | cons r rs ih => intro i0; unfold epLoop; cases plus <;> simp [hpush, ih]
    simp only [exec, endpoints, hloop]
    split
    · exact he
    · simp [doReload, he]
  | batchReload flag =>
    simp only [exec, batchReload]
    split
    · simp only [(doReload_disabled f cs he).1, List.nil_append]
      exact ⟨quietRet _, by simp [doReload, he]⟩
    · exact ⟨quietRet true, he⟩

/-- **S-C12-a, the model's witness**: `AddOrUpdateVirtualServer` with weight updates reloads although reloads
are held back, and leaves them switched on. -/
theorem held_reload_by_weight_updates :
    let out := exec false ⟨fun _ => false, fun _ => false⟩ ⟨false, 0, 0⟩ (.single ⟨true, 1⟩ true)
    Ev.reload true ∈ out.evs ∧ out.cs.enabled = true := by
  decide

/-! ### Part 2: the controller's start-up / batch machine -/

/-- What the fields of the machine mean together. -/
def Inv (s : BS) : Prop :=
  (s.batch = true → s.enabled = false ∧ s.ready = true) ∧ (s.ready = false → s.enabled = false) ∧
  (s.ready = true → s.batch = false → s.enabled = true) ∧ (s.batch = false → s.flag = false ∧ s.updateAll = false)

def init : BS := ⟨false, false, false, false, false⟩

/-! ### the gate is moved by EnableReloads / DisableReloads only -/

theorem doReload_gate (f : Faults) (cs : CS) : (doReload f cs).cs.enabled = cs.enabled := by
  unfold doReload; split <;> rfl

theorem push_gate (f : Faults) (i n : Nat) (cs : CS) : (push f i n cs).cs.enabled = cs.enabled := by
  induction n generalizing cs with
  | zero => rfl
  | succ n ih =>
    unfold push
    split
    · split
      · rfl
      · simp only; rw [ih]
    · rfl

theorem epLoop_gate (plus : Bool) (f : Faults) (rs : List Res) (i : Nat) (cs : CS) :
    (epLoop plus f rs i cs).cs.enabled = cs.enabled := by
  induction rs generalizing i cs with
  | nil => rfl
  | cons r rs ih =>
    unfold epLoop
    simp only
    rw [ih]
    split
    · exact push_gate f i r.ups cs
    · rfl

theorem always_gate (f : Faults) (rs : List Res) (cs : CS) : (always f rs cs).cs.enabled = cs.enabled := by
  unfold always; exact doReload_gate f cs

/-- **gate_not_closed_by_operation**: no operation other than DisableReloads leaves the gate closed behind itself — a change made
after it is never silently held back. -/
theorem gate_not_closed_by_operation (plus : Bool) (f : Faults) (cs : CS) (op : Op) (he : cs.enabled = true)
    (hop : op ≠ .disable) : (exec plus f cs op).cs.enabled = true := by
  cases op with
  | enable => rfl
  | disable => exact absurd rfl hop
  | always rs => simp only [exec]; rw [always_gate]; exact he
  | single r w => simp only [exec, single]; rw [always_gate]; cases w <;> simp [he]
  | delete r s =>
    simp only [exec, delete]
    split
    · exact he
    · rw [always_gate]; exact he
  | resources rs riu =>
    simp only [exec, resources]
    split
    · rw [always_gate]; exact he
    · exact he
  | endpoints rs =>
    simp only [exec, endpoints]
    split
    · simp only; rw [epLoop_gate]; exact he
    · simp only; rw [doReload_gate, epLoop_gate]; exact he
  | batchReload flag =>
    simp only [exec, batchReload]
    split
    · simp only; rw [doReload_gate]; exact he
    · exact he

/-- **gate_opened_only_by_enable_or_weights**: while reloads are held back, the only operations that open the gate are EnableReloads
and — finding S-C12-a — AddOrUpdateVirtualServer with weight updates. -/
theorem gate_opened_only_by_enable_or_weights (plus : Bool) (f : Faults) (cs : CS) (op : Op) (he : cs.enabled = false)
    (ho : (exec plus f cs op).cs.enabled = true) : op = .enable ∨ ∃ r, op = .single r true := by
  cases op with
  | enable => exact Or.inl rfl
  | disable => simp [exec] at ho
  | always rs => simp only [exec] at ho; rw [always_gate, he] at ho; cases ho
  | single r w =>
    cases w with
    | true => exact Or.inr ⟨r, rfl⟩
    | false => simp only [exec, single] at ho; rw [always_gate] at ho; simp [he] at ho
  | delete r s =>
    simp only [exec, delete] at ho
    split at ho
    · rw [he] at ho; cases ho
    · rw [always_gate, he] at ho; cases ho
  | resources rs riu =>
    simp only [exec, resources] at ho
    split at ho
    · rw [always_gate, he] at ho; cases ho
    · rw [he] at ho; cases ho
  | endpoints rs =>
    simp only [exec, endpoints] at ho
    split at ho
    · simp only at ho; rw [epLoop_gate, he] at ho; cases ho
    · simp only at ho; rw [doReload_gate, epLoop_gate, he] at ho; cases ho
  | batchReload flag =>
    simp only [exec, batchReload] at ho
    split at ho
    · simp only at ho; rw [doReload_gate, he] at ho; cases ho
    · rw [he] at ho; cases ho

theorem inv_init : Inv init := by simp [Inv, init]

def dirty (k : Kind) : Bool := k != Kind.endpoint false

theorem inv_step (s : BS) (k : Kind) (qb qa : Nat) (h : Inv s) : Inv (syncStep s k qb qa).s := by
  obtain ⟨h1, h2, h3, h4⟩ := h
  cases hr : s.ready <;> cases hb : s.batch <;> cases he : s.enabled <;> cases hf : s.flag <;> cases hu : s.updateAll <;>
    simp_all [Inv] <;>
    (rcases k with (_ | _) | _ | _) <;> (by_cases hq : qb > 1) <;> (by_cases hz : qa = 0) <;>
    simp [syncStep, hr, hb, he, hf, hu, hq, hz]

/-- **startup_held**: until NGINX is ready every handler runs with the reload gate closed, and the step that
empties the queue opens it and regenerates-and-reloads everything. -/
theorem startup_held (s : BS) (k : Kind) (qb qa : Nat) (h : Inv s) (hr : s.ready = false) :
    (syncStep s k qb qa).evs = BEv.handler k false :: (if qa = 0 then [BEv.updateAll] else []) ∧
    (syncStep s k qb qa).s.ready = decide (qa = 0) := by
  obtain ⟨h1, h2, h3, h4⟩ := h
  have he := h2 hr
  have hb : s.batch = false := by
    cases hb : s.batch
    · rfl
    · exact absurd (h1 hb).2 (by simp [hr])
  (rcases k with (_ | _) | _ | _) <;> (by_cases hz : qa = 0) <;> simp [syncStep, hr, hb, he, hz]

/-- **single_task_open**: a ready controller that dequeues a task with nothing else queued runs its handler with
the gate open (the handler's Configurator operations then reload by Part 1) and performs no batch reload. -/
theorem single_task_open (s : BS) (k : Kind) (qb qa : Nat) (h : Inv s) (hr : s.ready = true) (hb : s.batch = false)
    (hq : qb ≤ 1) : (syncStep s k qb qa).evs = [BEv.handler k true] ∧ (syncStep s k qb qa).s.batch = false := by
  obtain ⟨h1, h2, h3, h4⟩ := h
  have he := h3 hr hb
  have hf := h4 hb
  have hq' : ¬ qb > 1 := by omega
  (rcases k with (_ | _) | _ | _) <;> (by_cases hz : qa = 0) <;> simp [syncStep, hr, hb, he, hf, hq', hz]

/-- A step inside a batch that does not drain the queue. -/
theorem batch_inner (s : BS) (k : Kind) (qb qa : Nat) (hb : s.batch = true) (he : s.enabled = false) (hr : s.ready = true)
    (hz : qa ≠ 0) :
    (syncStep s k qb qa).evs = [BEv.handler k false] ∧
    (syncStep s k qb qa).s = { s with flag := s.flag || dirty k, updateAll := s.updateAll || (k == Kind.configMap) } := by
  cases hf : s.flag <;> cases hu : s.updateAll <;>
    (rcases k with (_ | _) | _ | _) <;> simp [syncStep, hb, he, hr, hz, hf, hu, dirty] <;>
    (cases s; simp_all)

/-- The step that opens a batch (more than one task queued) without draining it. -/
theorem batch_open (s : BS) (k : Kind) (qb qa : Nat) (h : Inv s) (hr : s.ready = true) (hb : s.batch = false)
    (hq : qb > 1) (hz : qa ≠ 0) :
    (syncStep s k qb qa).evs = [BEv.handler k false] ∧
    (syncStep s k qb qa).s = { s with batch := true, enabled := false, flag := dirty k, updateAll := s.updateAll || (k == Kind.configMap) } := by
  obtain ⟨h1, h2, h3, h4⟩ := h
  have he := h3 hr hb
  have hf := h4 hb
  cases hu : s.updateAll <;>
    (rcases k with (_ | _) | _ | _) <;> simp [syncStep, hb, he, hr, hz, hf, hu, hq, dirty] <;>
    (cases s; simp_all)

/-- The step that drains the queue inside a batch: the handler still runs with the gate closed; then the gate
opens and NGINX is reloaded exactly when the batch was flagged (or everything is regenerated and reloaded when a
ConfigMap task was seen in this or an earlier batch). -/
theorem batch_drain (s : BS) (k : Kind) (qb : Nat) (hb : s.batch = true) (he : s.enabled = false) (hr : s.ready = true) :
    (syncStep s k qb 0).evs = [BEv.handler k false,
      if s.updateAll || (k == Kind.configMap) then BEv.updateAll else BEv.batchReload (s.flag || dirty k)] ∧
    (syncStep s k qb 0).s.batch = false ∧ (syncStep s k qb 0).s.enabled = true ∧ (syncStep s k qb 0).s.flag = false := by
  cases hf : s.flag <;> cases hu : s.updateAll <;>
    (rcases k with (_ | _) | _ | _) <;> simp [syncStep, hb, he, hr, hf, hu, dirty]

/-- Run a list of tasks (kind, queue length before, queue length after). -/
def runSteps (s : BS) : List (Kind × Nat × Nat) → BS × List BEv
  | [] => (s, [])
  | t :: ts =>
    let o := syncStep s t.1 t.2.1 t.2.2
    let r := runSteps o.s ts
    (r.1, o.evs ++ r.2)

private theorem run_inner (s : BS) (mid : List (Kind × Nat × Nat)) (kl : Kind) (qbl : Nat)
    (hb : s.batch = true) (he : s.enabled = false) (hr : s.ready = true) (hmid : ∀ t ∈ mid, t.2.2 ≠ 0) :
    (runSteps s (mid ++ [(kl, qbl, 0)])).2 =
      mid.map (fun t => BEv.handler t.1 false) ++ [BEv.handler kl false,
        if s.updateAll || (mid.any (fun t => t.1 == Kind.configMap)) || (kl == Kind.configMap) then BEv.updateAll
        else BEv.batchReload (s.flag || mid.any (fun t => dirty t.1) || dirty kl)] := by
  induction mid generalizing s with
  | nil =>
    simp only [List.nil_append, runSteps, List.append_nil, List.map_nil, List.any_nil, Bool.or_false]
    exact (batch_drain s kl qbl hb he hr).1
  | cons t mid ih =>
    obtain ⟨e1, e2⟩ := batch_inner s t.1 t.2.1 t.2.2 hb he hr (hmid t List.mem_cons_self)
    simp only [List.cons_append, runSteps, e1, List.map_cons]
    have := ih { s with flag := s.flag || dirty t.1, updateAll := s.updateAll || (t.1 == Kind.configMap) } hb he hr
      (fun t' ht' => hmid t' (List.mem_cons_of_mem _ ht'))
    rw [e2, this]
    simp only [List.any_cons, List.cons_append, List.nil_append, Bool.or_assoc]

/-- **batch_no_reload_inside_and_drain**: a ready controller that dequeues a task while more are queued opens a
batch; every handler of the batch — however many tasks, of whatever kinds — runs with the reload gate closed,
and exactly one reload decision is taken, after the last handler: everything is regenerated and reloaded if a
ConfigMap task was seen, otherwise NGINX is reloaded iff some task of the batch was not an unreferenced
EndpointSlice. -/
theorem batch_no_reload_inside_and_drain (s : BS) (h : Inv s) (hr : s.ready = true) (hb : s.batch = false)
    (k0 : Kind) (qb0 qa0 : Nat) (mid : List (Kind × Nat × Nat)) (kl : Kind) (qbl : Nat)
    (hq0 : qb0 > 1) (hqa0 : qa0 ≠ 0) (hmid : ∀ t ∈ mid, t.2.2 ≠ 0) :
    (runSteps s ((k0, qb0, qa0) :: mid ++ [(kl, qbl, 0)])).2 =
      BEv.handler k0 false :: mid.map (fun t => BEv.handler t.1 false) ++ [BEv.handler kl false,
        if s.updateAll || (k0 == Kind.configMap) || (mid.any (fun t => t.1 == Kind.configMap)) || (kl == Kind.configMap) then BEv.updateAll
        else BEv.batchReload (dirty k0 || mid.any (fun t => dirty t.1) || dirty kl)] := by
  obtain ⟨e1, e2⟩ := batch_open s k0 qb0 qa0 h hr hb hq0 hqa0
  simp only [List.cons_append, runSteps, e1]
  have := run_inner { s with batch := true, enabled := false, flag := dirty k0, updateAll := s.updateAll || (k0 == Kind.configMap) }
    mid kl qbl rfl rfl hr hmid
  rw [e2, this]
  simp only [List.cons_append, List.nil_append, Bool.or_assoc]

/-- **drain_reloads_if_changed**: under the handlers' contract that a task can change what NGINX reads only if it is
not an unreferenced EndpointSlice, a batch in which some task changed something ends with a reload. -/
theorem drain_reloads_if_changed (s : BS) (h : Inv s) (hr : s.ready = true) (hb : s.batch = false)
    (k0 : Kind) (qb0 qa0 : Nat) (mid : List (Kind × Nat × Nat)) (kl : Kind) (qbl : Nat)
    (hq0 : qb0 > 1) (hqa0 : qa0 ≠ 0) (hmid : ∀ t ∈ mid, t.2.2 ≠ 0)
    (hch : dirty k0 = true ∨ (∃ t ∈ mid, dirty t.1 = true) ∨ dirty kl = true) :
    BEv.updateAll ∈ (runSteps s ((k0, qb0, qa0) :: mid ++ [(kl, qbl, 0)])).2 ∨
    BEv.batchReload true ∈ (runSteps s ((k0, qb0, qa0) :: mid ++ [(kl, qbl, 0)])).2 := by
  rw [batch_no_reload_inside_and_drain s h hr hb k0 qb0 qa0 mid kl qbl hq0 hqa0 hmid]
  have hd : (dirty k0 || mid.any (fun t => dirty t.1) || dirty kl) = true := by
    simp only [Bool.or_eq_true, List.any_eq_true]
    rcases hch with h1 | ⟨t, ht, h2⟩ | h3
    · exact Or.inl (Or.inl h1)
    · exact Or.inl (Or.inr ⟨t, ht, h2⟩)
    · exact Or.inr h3
  rw [hd]
  split
  · left; simp
  · right; simp

/-- **S-C12-b, the model's witness** (the "only if" half fails): a batch made of tasks that are not EndpointSlices is
reloaded at the drain although the machine has no information that any of them changed a file. -/
theorem drain_reload_without_change :
    (runSteps ⟨true, false, false, false, true⟩ [(Kind.other, 2, 1), (Kind.endpoint false, 1, 0)]).2 =
      [BEv.handler Kind.other false, BEv.handler (Kind.endpoint false) false, BEv.batchReload true] := by
  decide

/-! ### non-vacuity -/

example : (endpoints true ⟨fun _ => false, fun n => n == 1⟩ [⟨true, 1⟩, ⟨true, 1⟩] ⟨true, 0, 0⟩).evs =
    [Ev.write 0 true, Ev.api 0 false, Ev.write 1 true, Ev.api 1 true, Ev.reload true, Ev.ret true] := by decide

example : (endpoints true ⟨fun _ => false, fun _ => false⟩ [⟨true, 2⟩] ⟨true, 0, 0⟩).evs =
    [Ev.write 0 true, Ev.api 0 true, Ev.api 0 true, Ev.ret true] := by decide

example : Inv ⟨true, false, false, false, true⟩ := by simp [Inv]

end Nic.Reload
