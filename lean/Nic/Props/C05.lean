/-
  C05 — every resource not serving traffic has been told why; active ones are not.
  Property theorems over the arbitration model and the reporting model
  (Nic/Model/Report.lean).  The accumulated "latest report per object" statement
  over whole histories is decided on the real reporting functions by the oracle in
  props/C05.py; the theorems below are the facts that make it hold step by step.
-/
import Nic.Props.C03
import Nic.Model.Report

namespace Nic.Arb

/-- **The problem table is recomputed from the object set on every rebuild** — it is not
patched incrementally, so a cause that persists stays recorded and a cause that vanished is gone. -/
theorem problems_full_recompute (s : State) :
    (rebuildHosts s).1.hostProblems = hostProblemsOf s.toObjs := by
  rw [rebuildHosts_state]

/-- **Delta soundness.** A problem of the new table that is *not* in the emitted delta is
identical (error flag, reason, message) to the problem previously recorded — and hence
previously emitted — under the same key; every other problem of the new table is emitted. -/
theorem delta_sound (new old : Map Problem) (k : String) (p : Problem) (h : (k, p) ∈ new) :
    p ∈ detectProblemChanges new old ∨
      ∃ o, old.get? k = some o ∧ p.isError = o.isError ∧ p.reason = o.reason ∧ p.msg = o.msg := by
  unfold detectProblemChanges
  cases ho : old.get? k with
  | none =>
    left
    exact List.mem_filterMap.mpr ⟨(k, p), h, by simp [ho]⟩
  | some o =>
    by_cases hs : p.isError = o.isError ∧ p.reason = o.reason ∧ p.msg = o.msg
    · right; exact ⟨o, rfl, hs⟩
    · left
      refine List.mem_filterMap.mpr ⟨(k, p), h, ?_⟩
      simp only [ho]
      by_cases h1 : p.isError = o.isError <;> by_cases h2 : p.reason = o.reason <;> by_cases h3 : p.msg = o.msg <;>
        simp_all

/-- Nothing is emitted that is not in the new table. -/
theorem delta_subset (new old : Map Problem) (p : Problem) (h : p ∈ detectProblemChanges new old) :
    ∃ k, (k, p) ∈ new := by
  unfold detectProblemChanges at h
  obtain ⟨⟨k, q⟩, hm, he⟩ := List.mem_filterMap.mp h
  refine ⟨k, ?_⟩
  cases ho : old.get? k with
  | none => simp [ho] at he; subst he; exact hm
  | some o =>
    simp only [ho] at he
    split at he
    · cases he
    · simp at he; subst he; exact hm

private theorem attachGo_marks (kk : String) (cs : List Change) (h : cs.any (fun c => c.res.key = kk) = true) :
    ∃ c ∈ attachError.go kk cs, c.res.key = kk ∧ c.err = true := by
  induction cs with
  | nil => simp at h
  | cons c r ih =>
    unfold attachError.go
    by_cases hk : c.res.key = kk
    · simp only [hk, if_true]
      exact ⟨{ c with err := true }, List.mem_cons_self, hk, rfl⟩
    · simp only [hk, if_false]
      have : r.any (fun c => c.res.key = kk) = true := by
        simp only [List.any_cons, Bool.or_eq_true, decide_eq_true_eq] at h
        rcases h with h | h
        · exact absurd h hk
        · exact h
      obtain ⟨x, hx, h1, h2⟩ := ih this
      exact ⟨x, List.mem_cons_of_mem _ hx, h1, h2⟩

/-- The error of the object being processed is attached to the change that removes it, or — when
no change concerns it — raised as an error problem. -/
theorem attachError_reports (kk : String) (cs : List Change) (ps : List Problem) :
    (∃ c ∈ (attachError kk cs ps).1, c.res.key = kk ∧ c.err = true) ∨
    (⟨kk, true, "Rejected", "validation-error"⟩ ∈ (attachError kk cs ps).2) := by
  unfold attachError
  split
  · rename_i h; left; exact attachGo_marks kk cs h
  · right; simp

/-- **A validation error of the resource being processed is always reported for that event**:
for an Ingress, VirtualServer or TransportServer of our class that fails validation, the batch
contains a change for it carrying the error, or an error problem for it; for a
VirtualServerRoute always the problem. -/
theorem validation_error_reported_ing (perm) (s : State) (i : Ing) :
    let r := step perm s (.ing i true false)
    (∃ c ∈ r.2.1, c.res.key = "Ingress/" ++ i.md.key ∧ c.err = true) ∨
    (⟨"Ingress/" ++ i.md.key, true, "Rejected", "validation-error"⟩ ∈ r.2.2) := by
  simp only [step, Bool.true_and, Bool.not_false, if_true]
  exact attachError_reports _ _ _

theorem validation_error_reported_vs (perm) (s : State) (v : VS) :
    let r := step perm s (.vs v true false)
    (∃ c ∈ r.2.1, c.res.key = "VirtualServer/" ++ v.md.key ∧ c.err = true) ∨
    (⟨"VirtualServer/" ++ v.md.key, true, "Rejected", "validation-error"⟩ ∈ r.2.2) := by
  simp only [step, Bool.true_and, Bool.not_false, if_true]
  exact attachError_reports _ _ _

theorem validation_error_reported_ts (perm) (s : State) (t : TS) :
    let r := step perm s (.ts t true false)
    (∃ c ∈ r.2.1, c.res.key = "TransportServer/" ++ t.md.key ∧ c.err = true) ∨
    (⟨"TransportServer/" ++ t.md.key, true, "Rejected", "validation-error"⟩ ∈ r.2.2) := by
  simp only [step, Bool.true_and, Bool.not_false, if_true]
  exact attachError_reports _ _ _

theorem validation_error_reported_vsr (perm) (s : State) (x : VSR) :
    ⟨"VirtualServerRoute/" ++ x.md.key, true, "Rejected", "validation-error"⟩ ∈ (step perm s (.vsr x true false)).2.2 := by
  simp [step]

/-! ### the reporting glue -/

/-- A change that carries an error is reported as a rejection, whatever else happens. -/
theorem error_change_rejected (gone : String) (c : Change) (h : c.op = .delete) (he : c.err = true)
    (hg : c.res.key ≠ gone) :
    changeEvents gone c = [⟨c.res.key, "Warning", "Rejected", ["validation-error"]⟩] := by
  unfold changeEvents; simp [h, he, hg]

/-- A removal is silent only if it carries neither an error nor a warning (or the object itself
was deleted from the cluster): a resource that lost its host, listener or validity is told so. -/
theorem delete_silent_iff (gone : String) (c : Change) (h : c.op = .delete) :
    changeEvents gone c = [] ↔ (c.res.key = gone ∨ (c.err = false ∧ c.res.warnings = [])) := by
  unfold changeEvents
  simp only [h]
  by_cases hg : c.res.key = gone
  · simp [hg]
  · simp only [hg, if_false, false_or]
    cases he : c.err with
    | true => simp
    | false =>
      cases hw : c.res.warnings with
      | nil => simp
      | cons a r => simp

/-- **Every AddOrUpdate yields a fresh success report** for the resource itself (with its warnings
if it has any), for each minion of a master and for each attached VirtualServerRoute. -/
theorem update_reports_positive (gone : String) (c : Change) (h : c.op = .update) :
    ∃ e rest, changeEvents gone c = e :: rest ∧ e.key = c.res.key ∧
      (e.reason = "AddedOrUpdated" ∨ e.reason = "AddedOrUpdatedWithWarning") := by
  unfold changeEvents
  simp only [h]
  cases hr : c.res with
  | ing i =>
    refine ⟨_, _, rfl, ?_, ?_⟩
    · unfold okOrWarn; split <;> rfl
    · unfold okOrWarn; split <;> simp
  | vs v =>
    refine ⟨_, _, rfl, ?_, ?_⟩
    · unfold okOrWarn; split <;> rfl
    · unfold okOrWarn; split <;> simp
  | ts t =>
    refine ⟨_, _, rfl, ?_, ?_⟩
    · unfold okOrWarn; split <;> rfl
    · unfold okOrWarn; split <;> simp

theorem minions_reported (gone : String) (c : Change) (i : IngCfg) (h : c.op = .update)
    (hr : c.res = .ing i) (hm : i.isMaster = true) (m : MinionCfg) (hmem : m ∈ i.minions) :
    ∃ e ∈ changeEvents gone c, e.key = "Ingress/" ++ m.md.key ∧
      (e.reason = "AddedOrUpdated" ∨ e.reason = "AddedOrUpdatedWithWarning") := by
  unfold changeEvents
  simp only [h, hr, hm, if_true]
  refine ⟨okOrWarn ("Ingress/" ++ m.md.key) ((i.childWarnings.get? m.md.key).getD []), ?_, ?_, ?_⟩
  · exact List.mem_cons_of_mem _ (List.mem_map.mpr ⟨m, hmem, rfl⟩)
  · unfold okOrWarn; split <;> rfl
  · unfold okOrWarn; split <;> simp

theorem routes_reported (gone : String) (c : Change) (v : VSCfg) (h : c.op = .update)
    (hr : c.res = .vs v) (x : Meta) (hmem : x ∈ v.vsrs) :
    ⟨"VirtualServerRoute/" ++ x.key, "Normal", "AddedOrUpdated", []⟩ ∈ changeEvents gone c := by
  unfold changeEvents
  simp only [h, hr]
  exact List.mem_cons_of_mem _ (List.mem_map.mpr ⟨x, hmem, rfl⟩)

/-- Every problem of the batch is reported to its object with its reason and message. -/
theorem problems_reported (gone : String) (cs : List Change) (ps : List Problem) (p : Problem) (h : p ∈ ps) :
    ⟨p.key, "Warning", p.reason, [p.msg]⟩ ∈ eventsOf gone cs ps := by
  unfold eventsOf
  exact List.mem_append_right _ (List.mem_map.mpr ⟨p, h, rfl⟩)

end Nic.Arb
