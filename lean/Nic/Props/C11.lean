/-
  C11 — secret material on disk is always the latest valid version, and vanishes with it.
-/
import Nic.Model.Secrets
import Nic.Lemmas.MapLemmas

namespace Nic.Sec
open Nic.Arb (Map)

/-- Types whose material is written to a single file `<ns>-<name>`. -/
def SingleFile (t : Typ) : Prop := t = .tls ∨ t = .jwk ∨ t = .htp ∨ t = .other

/-- **A lookup of a missing or invalid Secret reports the error and writes nothing.** -/
theorem lookup_reports_error (s : St) (key : String)
    (h : s.store.get? key = none ∨ ∃ e, s.store.get? key = some e ∧ e.valid = false) :
    ∃ g, (step s (.get key)).2 = some g ∧ g.isError = true ∧ (step s (.get key)).1.dir = s.dir := by
  rcases h with h | ⟨e, he, hv⟩
  · simp [step, h]
  · simp [step, he, hv]

/-- A lookup of a valid Secret never reports an error, and hands out a path for file-bearing types. -/
theorem lookup_valid_ok (s : St) (key : String) (e : Entry) (he : s.store.get? key = some e) (hv : e.valid = true) :
    ∃ g, (step s (.get key)).2 = some g ∧ g.isError = false := by
  by_cases hp : e.hasPath = true
  · exact ⟨⟨true, false⟩, by simp [step, he, hv, hp], rfl⟩
  · have hp' : e.hasPath = false := by simpa using hp
    simp only [step, he, hv, hp', Bool.not_false, Bool.and_self, if_true]
    exact ⟨_, rfl, rfl⟩

/-- **Lazy materialisation**: adding or updating a Secret that no resource has asked for writes nothing. -/
theorem lazy_write (s : St) (key : String) (t : Typ) (ver : Nat) (valid : Bool)
    (h : s.store.get? key = none ∨ ∃ e, s.store.get? key = some e ∧ e.hasPath = false) :
    (step s (.add key t ver valid)).1.dir = s.dir := by
  rcases h with h | ⟨e, he, hp⟩
  · simp [step, h]
  · simp [step, he, hp]

/-- **Files carry the current version.** Whatever `writeFiles` puts on disk for a Secret is labelled
with exactly the version being stored — there is no path by which an older version is (re)written. -/
theorem written_is_current (dir : Map File) (key : String) (e : Entry) (f : String) (x : File)
    (h : (writeFiles dir key e).1.get? f = some x) (hnew : dir.get? f ≠ some x) :
    x.key = key ∧ x.ver = e.ver := by
  unfold writeFiles at h
  cases ht : e.typ <;> simp only [ht] at h
  case ca =>
    rw [Map.get?_set] at h
    by_cases h1 : f = fileName key ++ "-ca.crl"
    · simp [h1] at h; subst h; exact ⟨rfl, rfl⟩
    · simp only [h1, if_false] at h
      rw [Map.get?_set] at h
      by_cases h2 : f = fileName key ++ "-ca.crt"
      · simp [h2] at h; subst h; exact ⟨rfl, rfl⟩
      · simp only [h2, if_false] at h; exact absurd h hnew
  case oidc => exact absurd h hnew
  case api => exact absurd h hnew
  all_goals
    rw [Map.get?_set] at h
    by_cases h1 : f = fileName key
    · simp [h1] at h; subst h; exact ⟨rfl, rfl⟩
    · simp only [h1, if_false] at h; exact absurd h hnew

/-- **Invalidation removes the file** (single-file types): an update that makes a materialised Secret
invalid deletes `<ns>-<name>` and clears the path, so a later reference reports the error. -/
theorem invalid_removes (s : St) (key : String) (t : Typ) (ver : Nat) (e : Entry)
    (he : s.store.get? key = some e) (hp : e.hasPath = true) :
    (step s (.add key t ver false)).1.dir.get? (fileName key) = none ∧
    (step s (.add key t ver false)).1.store.get? key = some ⟨t, ver, false, false⟩ := by
  by_cases ht : e.typ = t
  · simp only [step, he, hp, ht, ne_eq, not_true_eq_false, decide_false, Bool.and_false, Bool.false_eq_true, if_false,
      Bool.not_false, Bool.and_true, if_true]
    exact ⟨by unfold deleteFiles; rw [Map.get?_erase]; simp, Map.get?_set_self _ _ _⟩
  · have ht' : ¬ t = e.typ := fun h => ht h.symm
    simp [step, he, hp, ht, ht', deleteFiles, Map.get?_erase, Map.get?_set_self]

/-- **A re-created Secret of another type takes the old type's file with it** (fix of S-C11-c): when the stored Secret is
materialised and an object of another type arrives under the same key — the type of a Secret is immutable, so it is a new object
whose deletion the store never saw — `<ns>-<name>` is removed and the path cleared; the new material is written by the next lookup. -/
theorem retype_removes (s : St) (key : String) (t : Typ) (ver : Nat) (valid : Bool) (e : Entry)
    (he : s.store.get? key = some e) (hp : e.hasPath = true) (ht : e.typ ≠ t) :
    (step s (.add key t ver valid)).1.dir.get? (fileName key) = none ∧
    (step s (.add key t ver valid)).1.store.get? key = some ⟨t, ver, valid, false⟩ := by
  have ht' : ¬ t = e.typ := fun h => ht h.symm
  simp [step, he, hp, ht, ht', deleteFiles, Map.get?_erase, Map.get?_set_self]

/-- **Deletion removes the file** (single-file types) and the store entry. -/
theorem delete_removes (s : St) (key : String) (e : Entry) (he : s.store.get? key = some e) (hp : e.hasPath = true) :
    (step s (.del key)).1.dir.get? (fileName key) = none ∧ (step s (.del key)).1.store.get? key = none := by
  simp only [step, he, hp, if_true]
  exact ⟨by unfold deleteFiles; rw [Map.get?_erase]; simp, by rw [Map.get?_erase]; simp⟩

/-- Deleting or invalidating a Secret never touches a file with another name. -/
theorem delete_exact (dir : Map File) (key f : String) (h : f ≠ fileName key) :
    (deleteFiles dir key).get? f = dir.get? f := by
  unfold deleteFiles; rw [Map.get?_erase]; simp [h]

/-- Secrets that have no file representation (OIDC, API key) never create one. -/
theorem no_file_types (dir : Map File) (key : String) (e : Entry) (h : e.typ = .oidc ∨ e.typ = .api) :
    (writeFiles dir key e) = (dir, false) := by
  unfold writeFiles; rcases h with h | h <;> simp [h]

/-- File modes: private key material (TLS, CA) is owner-only. -/
theorem mode_restrictive (dir : Map File) (key : String) (e : Entry) (h : e.typ = .tls) :
    ((writeFiles dir key e).1.get? (fileName key)).map (·.mode) = some 600 := by
  unfold writeFiles; simp [h, Map.get?_set_self]

/-! ### negative results (recorded findings) -/

/-- **S-C11-a**: a CA Secret's files survive its deletion. -/
theorem ca_files_survive_delete :
    ∃ s : St, ∃ key, (∃ e, s.store.get? key = some e ∧ e.typ = .ca ∧ e.hasPath = true) ∧
      s.dir.get? (fileName key ++ "-ca.crt") ≠ none ∧
      (step s (.del key)).1.dir.get? (fileName key ++ "-ca.crt") ≠ none :=
  ⟨(step (step {} (.add "a/b" .ca 0 true)).1 (.get "a/b")).1, "a/b", by decide⟩

/-- **S-C11-b**: distinct Secrets share a derived file name. -/
theorem secret_files_collide :
    ∃ k k' : String, k ≠ k' ∧ fileName k = fileName k' := ⟨"a-b/c", "a/b-c", by decide, by decide⟩

end Nic.Sec
