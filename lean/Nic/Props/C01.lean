import Nic.Model.Arb
import Nic.Spec.Arb
namespace Nic.Arb
theorem placeholder_c01 : True := trivial
end Nic.Arb
