/-
  C01 — one owner per host, chosen identically on every replica and in every
  event order.  Property theorems only (helper lemmas: Nic/Lemmas/Beats.lean,
  MapLemmas.lean, Owner.lean; model: Nic/Model/Arb.lean; spec: Nic/Spec/Arb.lean).
-/
import Nic.Lemmas.Owner
import Nic.Lemmas.StepFacts

namespace Nic.Arb
open Spec

/-- Kubernetes' guarantee as it is needed here: the claimants of one host carry
pairwise distinct UIDs (distinct live objects have distinct UIDs, and
`validateIngressSpec` rejects an Ingress that lists a host twice). -/
def DistinctClaims (o : Objs) : Prop :=
  ∀ h, ((Spec.claims o).filter (fun c => c.host = h)).Pairwise (fun a b => a.md.uid ≠ b.md.uid)

/-- The winner relation is a strict total order on resources with distinct UIDs:
earliest creation time wins, ties broken by a fixed order on UIDs. -/
theorem beats_strict_total (a b c : Meta) :
    beats a a = false ∧ (beats a b = true → beats b a = false) ∧
    (beats a b = true → beats b c = true → beats a c = true) ∧
    (a.uid ≠ b.uid → beats a b = true ∨ beats b a = true) ∧
    (a.ts < b.ts → beats a b = true) :=
  ⟨beats_irrefl a, beats_asymm, beats_trans, beats_total, fun h => by rw [beats_iff]; omega⟩

/-- **Ownership.** For every object set whose claimants are distinguishable, the host map
built by `buildHostsAndResources` assigns each host to exactly `Spec.owner`: the
claimant (Ingress rule host, VirtualServer host, passthrough TransportServer host)
that beats every other claimant of that host.  In particular every host has at
most one owner and that owner is the oldest claimant, ties broken by UID. -/
theorem buildHosts_eq_spec (o : Objs) (hd : DistinctClaims o) (h : String) :
    (buildHosts o).holderKey h = Spec.owner o h := by
  unfold Build.holderKey Spec.owner
  rw [buildHosts_hosts, get?_fold_ostep]
  exact fold_eq_champion _ (hd h)

/-- The owner is a claimant of the host and beats every other claimant of it. -/
theorem owner_is_champion (o : Objs) (h k : String) (hk : Spec.owner o h = some k) :
    ∃ c ∈ Spec.claims o, c.host = h ∧ c.key = k ∧
      ∀ c' ∈ Spec.claims o, c'.host = h → c'.md.uid ≠ c.md.uid → beats c.md c'.md = true := by
  unfold Spec.owner at hk
  cases hc : Spec.champion ((Spec.claims o).filter (fun c => c.host = h)) with
  | none => simp [hc] at hk
  | some c =>
    simp [hc] at hk
    obtain ⟨hm, hb⟩ := champion_spec hc
    have hm' := List.mem_filter.mp hm
    refine ⟨c, hm'.1, by simpa using hm'.2, hk, fun c' hc' hh hne => ?_⟩
    exact hb c' (List.mem_filter.mpr ⟨hc', by simpa using hh⟩) hne

/-- The owner depends only on *which* claims exist, not on the order they are
enumerated in (key order of the stores, kinds, …): any rearrangement of the
claim list with the same members has the same champion (up to UID). -/
theorem owner_order_free (l l' : List Claim) (hp : ∀ x, x ∈ l ↔ x ∈ l') (c c' : Claim)
    (h : Spec.champion l = some c) (h' : Spec.champion l' = some c') : c.md.uid = c'.md.uid :=
  champion_unique Claim.md (champion_perm Claim.md hp (champion_spec h)) (champion_spec h')

/-! ### every operation recomputes ownership from the object set -/

/-- What `Configuration.hosts` must be for an object set. -/
def hostsOf (o : Objs) : Map Res := resolveHosts (listenerWarnings o (buildHosts o))

def Inv (s : State) : Prop := s.hosts = hostsOf s.toObjs

theorem rebuildHosts_objs (s : State) : (rebuildHosts s).1.toObjs = s.toObjs := by unfold rebuildHosts; rfl
theorem rebuildHosts_hosts (s : State) : (rebuildHosts s).1.hosts = hostsOf s.toObjs := by unfold rebuildHosts hostsOf; rfl
theorem rebuildListenerHosts_objs (s : State) (ord) : (rebuildListenerHosts s ord).1.toObjs = s.toObjs := by unfold rebuildListenerHosts; rfl
theorem rebuildListenerHosts_hosts (s : State) (ord) : (rebuildListenerHosts s ord).1.hosts = s.hosts := by unfold rebuildListenerHosts; rfl

theorem rebuildHosts_inv (s : State) : Inv (rebuildHosts s).1 := by
  unfold Inv; rw [rebuildHosts_hosts, rebuildHosts_objs]

/-- TransportServers do not influence host ownership while TLS passthrough is disabled
(that is why `AddOrUpdateTransportServer` may skip `rebuildHosts` then). -/
theorem hostsOf_tss_irrelevant (o : Objs) (t : Map TS) (hp : o.cfg.passthrough = false) :
    hostsOf { o with tss := t } = hostsOf o := by
  unfold hostsOf buildHosts buildTss
  simp only [hp, Bool.not_false, if_true]
  rfl

theorem tsBoth_inv (s : State) (ord) (h : s.cfg.passthrough = true ∨ Inv s) : Inv (tsBoth s ord).1 := by
  unfold tsBoth
  by_cases hp : s.cfg.passthrough = true
  · simp only [hp, if_true]
    exact rebuildHosts_inv _
  · have hp' : s.cfg.passthrough = false := by simpa using hp
    simp only [hp', Bool.false_eq_true, if_false]
    rcases h with h | h
    · rw [h] at hp'; cases hp'
    · unfold Inv; rw [rebuildListenerHosts_hosts, rebuildListenerHosts_objs]; exact h

theorem gcBoth_inv (s : State) (ord) : Inv (gcBoth s ord).1 := by
  unfold gcBoth; exact rebuildHosts_inv _

/-- **Rebuild on every mutation**: each public operation leaves
`hosts = hostsOf(current objects)`, including the branch that skips the host
rebuild for TransportServer events when passthrough is off. -/
theorem step_inv (perm) (s : State) (op : Op) (h : Inv s) : Inv (step perm s op).1 := by
  have keyTs : ∀ (m : Map TS), Inv (tsBoth { s with tss := m } (perm m)).1 := by
    intro m
    apply tsBoth_inv
    by_cases hp : s.cfg.passthrough = true
    · exact Or.inl hp
    · refine Or.inr ?_
      have hp' : s.cfg.passthrough = false := by simpa using hp
      unfold Inv
      show s.hosts = hostsOf { s.toObjs with tss := m }
      rw [hostsOf_tss_irrelevant _ _ hp']; exact h
  cases op with
  | ing i cls valid => rw [step_ing_fst]; exact rebuildHosts_inv _
  | vs v cls valid => rw [step_vs_fst]; exact rebuildHosts_inv _
  | vsr r cls valid => rw [step_vsr_fst]; exact rebuildHosts_inv _
  | ts t cls valid => rw [step_ts_fst]; exact keyTs _
  | gc ls => simp only [step]; exact gcBoth_inv _ _
  | delIng k => simp only [step]; split <;> first | exact rebuildHosts_inv _ | exact h
  | delVs k => simp only [step]; split <;> first | exact rebuildHosts_inv _ | exact h
  | delVsr k => simp only [step]; split <;> first | exact rebuildHosts_inv _ | exact h
  | delTs k => simp only [step]; split <;> first | exact keyTs _ | exact h
  | delGc => simp only [step]; exact gcBoth_inv _ _

theorem run_inv (perm) (s : State) (ops : List Op) (h : Inv s) : Inv (run perm s ops) := by
  unfold run
  induction ops generalizing s with
  | nil => exact h
  | cons a r ih => simp only [List.foldl_cons]; exact ih _ (step_inv perm s a h)

theorem init_inv (cfg : Cfg) : Inv { toObjs := { cfg := cfg } } := by
  unfold Inv hostsOf buildHosts buildIngs buildVss buildTss listenerWarnings
  cases hp : cfg.passthrough <;> simp [hp, markValidHosts, resolveHosts]

/-- **History independence.** Two arbitrary finite histories (any mix of add / update /
invalidate / class-change / delete events over all kinds and the GlobalConfiguration,
any Go map iteration orders) that end in the same object set end with the same host
table — hence the same owner for every host and the same per-host validity marks. -/
theorem history_independent (p₁ p₂) (cfg : Cfg) (h₁ h₂ : List Op)
    (he : (run p₁ { toObjs := { cfg := cfg } } h₁).toObjs = (run p₂ { toObjs := { cfg := cfg } } h₂).toObjs) :
    (run p₁ { toObjs := { cfg := cfg } } h₁).hosts = (run p₂ { toObjs := { cfg := cfg } } h₂).hosts := by
  have i1 := run_inv p₁ _ h₁ (init_inv cfg)
  have i2 := run_inv p₂ _ h₂ (init_inv cfg)
  unfold Inv at i1 i2
  rw [i1, i2, he]

/-- After any history the owner of every host is the Spec's owner for the final object set. -/
theorem owner_after_history (p) (cfg : Cfg) (ops : List Op) (h : String)
    (hd : DistinctClaims (run p { toObjs := { cfg := cfg } } ops).toObjs) :
    (run p { toObjs := { cfg := cfg } } ops).hosts = hostsOf (run p { toObjs := { cfg := cfg } } ops).toObjs ∧
    (buildHosts (run p { toObjs := { cfg := cfg } } ops).toObjs).holderKey h =
      Spec.owner (run p { toObjs := { cfg := cfg } } ops).toObjs h :=
  ⟨run_inv p _ ops (init_inv cfg), buildHosts_eq_spec _ hd h⟩

/-! ### non-vacuity -/

private def mA : Meta := { ns := "d", name := "a", uid := 1, ts := 5, gen := 1 }
private def mB : Meta := { ns := "d", name := "b", uid := 2, ts := 5, gen := 1 }   -- same time, greater UID: wins the tie
private def mC : Meta := { ns := "d", name := "c", uid := 3, ts := 9, gen := 1 }
private def o3 : Objs :=
  { ings := [("d/a", { md := mA, kind := .regular, chal := false, rules := [("x.ex", []), ("y.ex", [])] })],
    vss := [("d/b", { md := mB, host := "x.ex", routes := [], listener := none })],
    tss := [("d/c", { md := mC, lname := "tls-passthrough", proto := "TLS_PASSTHROUGH", host := "y.ex" })] }

example : (buildHosts o3).holderKey "x.ex" = some "VirtualServer/d/b" := by decide
example : (buildHosts o3).holderKey "y.ex" = some "Ingress/d/a" := by decide      -- wins one host, loses the other
example : Spec.owner o3 "x.ex" = some "VirtualServer/d/b" ∧ Spec.owner o3 "y.ex" = some "Ingress/d/a" := by decide
example : beats mB mA = true ∧ beats mA mC = true := by decide

end Nic.Arb
