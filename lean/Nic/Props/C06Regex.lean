import Nic.Lemmas.LexDfa
import Nic.Lemmas.RegexMatch
import Nic.Gen.Regexes
/-!
  C06, part B — the validator regular expressions, regenerated from /repo's source on every run
  (`Nic/Gen/Regexes.lean`, written by tools/regexes), only accept values of the lexical class of the site the value is
  written to.  Each theorem is `Dfa.check_sound` (the verified abstract interpreter of `Nic/Lemmas/Regex.lean`)
  applied to the regenerated term; the side condition is evaluated by the kernel (`decide`), so a validator regex that
  is edited to admit a structural character makes the theorem of that name fail to compile.

  `Matches r s` is the language of the pattern as Go's `regexp` reads it (anchors `^…$` stripped by the translator;
  the translator and this semantics are tied to Go's regexp by the `re` correspondence).
-/
namespace Nic.Props.C06Regex
open Nic.Regex Nic.LexDfa Nic.NgxLex Nic.Gen.Regexes

set_option maxRecDepth 8000

/-! ### values written between double quotes -/

theorem dq_of_check (r : Re) (h : dqDfa.check 0 (· == 0) r = true) (s : List Char) (hm : Matches r s) : QuoteSafe '"' s :=
  dq_accept s (Dfa.check_sound dqDfa 0 (· == 0) r h s hm)

theorem token_of_check (r : Re) (h : tokenDfa.check 0 (· == 1) r = true) (s : List Char) (hm : Matches r s) : TokenSafe s :=
  token_accept s (Dfa.check_sound tokenDfa 0 (· == 1) r h s hm)

theorem tokenBody_of_check (r : Re) (h : tokenDfa.check 0 (fun q => q == 1 || q == 2) r = true) (s : List Char)
    (hm : Matches r s) : TokenBody s := by
  have := Dfa.check_sound tokenDfa 0 (fun q => q == 1 || q == 2) r h s hm
  simp only [Bool.or_eq_true, beq_iff_eq] at this
  exact token_accept_body s this

/-- `ValidateEscapedString` (action return body, error page return body and headers, Ingress paths with a regex
annotation, TransportServer match expect / send, return-action header values): `"…"` sites. -/
theorem validation_escapedStrings_dqSafe : ∀ s, Matches validation_escapedStringsFmtRegexp s → QuoteSafe '"' s :=
  dq_of_check _ (by decide)

theorem k8s_escapedStrings_dqSafe : ∀ s, Matches k8s_escapedStringsFmtRegexp s → QuoteSafe '"' s :=
  dq_of_check _ (by decide)

/-- header values of proxy request / response headers -/
theorem validation_headerValue_dqSafe : ∀ s, Matches validation_headerValueFmtRegexp s → QuoteSafe '"' s :=
  dq_of_check _ (by decide)

/-- realm of JWT / basic auth policies (rendered through `%q` or inside quotes) -/
theorem validation_realm_dqSafe : ∀ s, Matches validation_realmFmtRegexp s → QuoteSafe '"' s :=
  dq_of_check _ (by decide)

theorem k8s_realm_dqSafe : ∀ s, Matches k8s_realmFmtRegexp s → QuoteSafe '"' s :=
  dq_of_check _ (by decide)

/-- Ingress annotation values (jwt-realm, server-tokens): `"…"` sites -/
theorem k8s_annotationValue_dqSafe : ∀ s, Matches k8s_validAnnotationValueRegex s → QuoteSafe '"' s :=
  dq_of_check _ (by decide)

/-- sticky cookie parameters of VirtualServer session cookies -/
theorem configs_stickyCookie_dqSafe : ∀ s, Matches configs_stickyCookieRegex s → QuoteSafe '"' s :=
  dq_of_check _ (by decide)

/-! ### values written as a whole unquoted argument -/

theorem validation_cookieName_tokenSafe : ∀ s, Matches validation_cookieNameRegexp s → TokenSafe s :=
  token_of_check _ (by decide)

theorem validation_argumentName_tokenSafe : ∀ s, Matches validation_argumentNameRegexp s → TokenSafe s :=
  token_of_check _ (by decide)

theorem configs_size_tokenSafe : ∀ s, Matches configs_sizeRegexp s → TokenSafe s :=
  token_of_check _ (by decide)

theorem configs_offset_tokenSafe : ∀ s, Matches configs_offsetRegexp s → TokenSafe s :=
  token_of_check _ (by decide)

theorem configs_rate_tokenSafe : ∀ s, Matches configs_rateRegexp s → TokenSafe s :=
  token_of_check _ (by decide)

theorem validation_rate_tokenSafe : ∀ s, Matches validation_rateRegexp s → TokenSafe s :=
  token_of_check _ (by decide)

theorem version1_setHeader_tokenSafe : ∀ s, Matches version1_setHeader s → TokenSafe s :=
  token_of_check _ (by decide)

/-- App Protect log destination, after the fix that anchored the pattern (S-C06-b) -/
theorem validation_logDst_tokenSafe : ∀ s, Matches validation_logDstEx s → TokenSafe s :=
  token_of_check _ (by decide +kernel)

theorem validation_logDstFile_tokenSafe : ∀ s, Matches validation_logDstFileEx s → TokenSafe s :=
  token_of_check _ (by decide)

/-- upstream server addresses from ExternalName services / resolvers -/
theorem validation_dns_tokenSafe : ∀ s, Matches validation_validDNSRegex s → TokenSafe s :=
  token_of_check _ (by decide +kernel)

theorem validation_ip_tokenSafe : ∀ s, Matches validation_validIPRegex s → TokenSafe s :=
  token_of_check _ (by decide +kernel)

theorem validation_hostname_tokenSafe : ∀ s, Matches validation_validHostnameRegex s → TokenSafe s :=
  token_of_check _ (by decide +kernel)

/-! ### values that may end in `$` (followed by a space or `;` in the templates) -/

/-- VirtualServer / VirtualServerRoute paths at `location <path> {` -/
theorem validation_path_tokenBody : ∀ s, Matches validation_pathRegexp s → TokenBody s :=
  tokenBody_of_check _ (by decide)

/-- the key of `hash <key> [consistent]`, after the fix (S-C06-d) -/
theorem configs_hashKey_tokenBody : ∀ s, Matches configs_hashKeyRegexp s → TokenBody s :=
  tokenBody_of_check _ (by decide)

/-! ### Ingress paths: unquoted only when they contain no curly brace (after the fix S-C06-a)

The automaton below is the token automaton with one more absorbing state 4 = "a curly brace or a backslash was
read" (a path with a backslash is constrained by the other conjunct of the validator, `ValidateEscapedString`; a
conjunction of two patterns is outside this interpreter and left to the end-to-end search). -/

def braceTokenDfa : Dfa where
  specials := tokenDfa.specials
  states := 5
  δ := fun p k => if p = 4 then 4 else if (k = 5 ∨ k = 6 ∨ k = 11) ∧ p ≠ 3 then 4 else tokenDfa.δ p k

/-- Every Ingress path the validator accepts either contains a curly brace (and is then written between double
quotes, where `k8s_escapedStrings_dqSafe` applies) or … see `k8s_path_obligation`. The check that replaces the
false obligation `tokenDfa.check … k8s_pathRegexp`: -/
theorem k8s_path_obligation : braceTokenDfa.check 0 (fun q => q == 1 || q == 2 || q == 4) k8s_pathRegexp = true := by decide

/-- The plain obligation is false — this is S-C06-a (`/a{1}`; replayed on the pipeline in corpus/C06/fixed.ops). -/
example : tokenDfa.check 0 (fun q => q == 1 || q == 2) k8s_pathRegexp = false := by decide

/-! ### recorded findings: the obligation of the site the value is written to is false -/

/-- S-C06-m: the jwt-token annotation is safe between quotes but is written unquoted. -/
example : dqDfa.check 0 (· == 0) k8s_validJWTTokenAnnotationValueRegex = true ∧
    tokenDfa.check 0 (fun q => q == 1 || q == 2) k8s_validJWTTokenAnnotationValueRegex = false := by decide

/-- S-C06-g: a VirtualServer path may contain `"`, and is also written inside a quoted regex. -/
example : dqDfa.check 0 (· == 0) validation_pathRegexp = false := by decide

/-! ### the executable matcher decides the language the theorems are about -/

/-- `matchB` (what the `re` correspondence runs against Go's regexp) decides `Matches` (what the theorems above
quantify over). -/
theorem matcher_decides (r : Re) (s : List Char) : matchB r s = true ↔ Matches r s := matchB_iff s r

instance (v : List Char) : Decidable (TokenBody v) := by
  unfold TokenBody
  cases v with
  | nil => exact isFalse (by rintro ⟨c, cs, h, _⟩; cases h)
  | cons c cs =>
    exact decidable_of_iff (startChar c = true ∧ (wordGo false (c :: cs)).isSome = true)
      ⟨fun ⟨a, b⟩ => ⟨c, cs, rfl, a, b⟩, by rintro ⟨c', cs', h, a, b⟩; cases h; exact ⟨a, b⟩⟩

/-- S-C06-a at the level of the language: the Ingress path validator admits a value that is not inert at an
unquoted `location` site (before the fix 77322e9 it was written there). -/
theorem k8s_path_admits_brace : Matches k8s_pathRegexp "/a{1}".toList ∧ ¬ TokenBody "/a{1}".toList :=
  ⟨(matchB_iff _ _).mp (by decide), by decide⟩

/-- S-C06-m: the jwt-token annotation pattern admits `$t;x`, which is not one word. -/
theorem k8s_jwtToken_admits_separator :
    Matches k8s_validJWTTokenAnnotationValueRegex "$t;x".toList ∧ ¬ TokenBody "$t;x".toList :=
  ⟨(matchB_iff _ _).mp (by decide), by decide⟩

/-- S-C06-g: the VirtualServer path pattern admits a `"`, which is not inert inside a quoted regex. -/
theorem validation_path_admits_quote :
    Matches validation_pathRegexp "/a\"b".toList ∧ ¬ QuoteSafe '"' "/a\"b".toList :=
  ⟨(matchB_iff _ _).mp (by decide), by decide⟩

/-! ### non-vacuity: the hypotheses are satisfiable -/
example : Matches validation_pathRegexp "/tea/green$".toList := (matchB_iff _ _).mp (by decide)
example : Matches configs_hashKeyRegexp "${request_uri}${arg_user}".toList := (matchB_iff _ _).mp (by decide)
example : ¬ Matches configs_hashKeyRegexp "a;b".toList := fun h => absurd ((matchB_iff _ _).mpr h) (by decide)
example : Matches validation_escapedStringsFmtRegexp "say \\\"hi\\\"; }".toList := (matchB_iff _ _).mp (by decide)

end Nic.Props.C06Regex
