import Nic.Lemmas.LexDfa
import Nic.Gen.Regexes
namespace Nic.Props.C06Regex
end Nic.Props.C06Regex
