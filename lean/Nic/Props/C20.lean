/-
  C20 — derived Certificates / DNSEndpoints track their VirtualServer and spare foreign ones.
-/
import Nic.Model.Derived
import Nic.Lemmas.MapLemmas
import Nic.Lemmas.MapSorted

namespace Nic.Derived
open Nic.Arb (Map)

variable {σ : Type} [DecidableEq σ]

/-- The cluster after the writes for one name. -/
theorem upsert_result (c : Map (Obj σ)) (name : String) (want : σ) :
    (run c (upsert c name want)).get? name =
      match c.get? name with
      | none => some ⟨.own, want⟩
      | some o => if o.owner = .own then some ⟨.own, want⟩ else some o := by
  unfold upsert run
  cases h : c.get? name with
  | none => simp [apply, Map.get?_set_self]
  | some o =>
    by_cases ho : o.owner = .own
    · by_cases hs : o.spec = want
      · simp [ho, hs, h]; cases o; simp_all
      · simp [ho, hs, apply, Map.get?_set_self]
    · simp [ho, h]

/-- **Freshness**: after the writes, the object under `name` — if the name was free or the object
was controlled by this VirtualServer — is exactly the desired one. -/
theorem fresh (c : Map (Obj σ)) (name : String) (want : σ)
    (h : c.get? name = none ∨ ∃ o, c.get? name = some o ∧ o.owner = .own) :
    ∃ o, (run c (upsert c name want)).get? name = some o ∧ o.owner = .own ∧ o.spec = want := by
  rw [upsert_result]
  rcases h with h | ⟨o, h, ho⟩
  · exact ⟨⟨.own, want⟩, by simp [h], rfl, rfl⟩
  · exact ⟨⟨.own, want⟩, by simp [h, ho], rfl, rfl⟩

/-- **Idempotence**: once the writes for a name have been applied, a second pass performs no write. -/
theorem upsert_idempotent (c : Map (Obj σ)) (name : String) (want : σ) :
    upsert (run c (upsert c name want)) name want = [] := by
  have h := upsert_result c name want
  generalize run c (upsert c name want) = c' at h
  unfold upsert
  cases hc : c.get? name with
  | none => rw [hc] at h; simp [h]
  | some o =>
    rw [hc] at h
    by_cases ho : o.owner = .own
    · simp [ho] at h; simp [h]
    · simp [ho] at h; simp [h, ho]

/-- **Foreign objects are never updated or deleted** by the writes for a name — whatever the cluster
contains: every object that is not controlled by this VirtualServer is still there, unchanged. -/
theorem upsert_foreign_untouched (c : Map (Obj σ)) (name : String) (want : σ) (k : String) (o : Obj σ)
    (h : c.get? k = some o) (ho : o.owner ≠ .own) : (run c (upsert c name want)).get? k = some o := by
  unfold upsert run
  by_cases hk : k = name
  · subst hk; simp [h, ho]
  · cases hn : c.get? name with
    | none => simp [apply, Map.get?_set_ne _ _ _ _ hk, h]
    | some x =>
      by_cases hx : x.owner = .own
      · by_cases hs : x.spec = want
        · simp [hx, hs, h]
        · simp [hx, hs, apply, Map.get?_set_ne _ _ _ _ hk, h]
      · simp [hx, h]

private theorem run_deletes (c : Map (Obj σ)) (ks : List String) (k : String) :
    (run c (ks.map fun x => (Action.delete x : Action σ))).get? k = if k ∈ ks then none else c.get? k := by
  induction ks generalizing c with
  | nil => simp [run]
  | cons a r ih =>
    simp only [List.map_cons, run, List.foldl_cons, apply]
    have := ih (c.erase a)
    unfold run at this
    rw [this, Map.get?_erase]
    by_cases h1 : k = a
    · simp [h1]
    · by_cases h2 : k ∈ r <;> simp [h1, h2]

/-- **Garbage collection is exact**: it deletes precisely the objects controlled by this
VirtualServer that are not the one it needs; every other object — in particular every foreign one —
stays as it is. -/
theorem garbage_exact (c : Map (Obj σ)) (keep : String) (k : String) (hs : ∀ k o, c.get? k = some o → (k, o) ∈ c)
    (hu : ∀ k o, (k, o) ∈ c → c.get? k = some o) :
    (run c (garbage c keep)).get? k =
      match c.get? k with
      | some o => if o.owner = .own ∧ k ≠ keep then none else some o
      | none => none := by
  unfold garbage
  have hmap : ((c.filter fun kv => kv.2.owner = .own && kv.1 ≠ keep).map fun kv => (Action.delete kv.1 : Action σ)) =
      ((c.filter fun kv => kv.2.owner = .own && kv.1 ≠ keep).map (·.1)).map fun x => (Action.delete x : Action σ) := by
    simp [List.map_map]
  rw [hmap, run_deletes]
  cases hk : c.get? k with
  | none =>
    have : k ∉ (c.filter fun kv => kv.2.owner = .own && kv.1 ≠ keep).map (·.1) := by
      intro hm
      obtain ⟨⟨k', o⟩, hf, rfl⟩ := List.mem_map.mp hm
      have hmem := (List.mem_filter.mp hf).1
      have := Nic.Arb.Map.contains_of_mem c (k', o) hmem
      unfold Map.contains at this; rw [hk] at this; cases this
    rw [if_neg this]
  | some o =>
    by_cases hcond : o.owner = .own ∧ k ≠ keep
    · have : k ∈ (c.filter fun kv => kv.2.owner = .own && kv.1 ≠ keep).map (·.1) :=
        List.mem_map.mpr ⟨(k, o), List.mem_filter.mpr ⟨hs k o hk, by simp [hcond.1, hcond.2]⟩, rfl⟩
      rw [if_pos this]
      simp only [hcond.1, hcond.2, ne_eq, not_false_eq_true, and_self, if_true]
    · have : k ∉ (c.filter fun kv => kv.2.owner = .own && kv.1 ≠ keep).map (·.1) := by
        intro hm
        obtain ⟨⟨k', o'⟩, hf, rfl⟩ := List.mem_map.mp hm
        have hf' := List.mem_filter.mp hf
        have hget := hu k' o' hf'.1
        rw [hk] at hget; cases hget
        simp only [Bool.and_eq_true, decide_eq_true_eq] at hf'
        exact hcond ⟨hf'.2.1, by simpa using hf'.2.2⟩
      rw [if_neg this]
      simp only [hcond, if_false]

/-! ### one whole synchronisation, and synchronisations interrupted by API errors -/

open Nic.Arb.Map (Sorted)

theorem apply_sorted (c : Map (Obj σ)) (a : Action σ) (hs : Sorted c) : Sorted (apply c a) := by
  cases a <;> simp only [apply]
  · exact Nic.Arb.Map.set_sorted _ _ _ hs
  · exact Nic.Arb.Map.set_sorted _ _ _ hs
  · exact Nic.Arb.Map.erase_sorted _ _ hs

theorem run_sorted (c : Map (Obj σ)) (as : List (Action σ)) (hs : Sorted c) : Sorted (run c as) := by
  induction as generalizing c with
  | nil => exact hs
  | cons a r ih => exact ih _ (apply_sorted c a hs)

theorem run_append (c : Map (Obj σ)) (a b : List (Action σ)) : run c (a ++ b) = run (run c a) b := by
  simp [run, List.foldl_append]

theorem upsert_other (c : Map (Obj σ)) (name : String) (want : σ) (k : String) (hk : k ≠ name) :
    (run c (upsert c name want)).get? k = c.get? k := by
  unfold upsert run
  cases hn : c.get? name with
  | none => simp [apply, Map.get?_set_ne _ _ _ _ hk]
  | some x =>
    by_cases hx : x.owner = .own
    · by_cases hsp : x.spec = want
      · simp [hx, hsp]
      · simp [hx, hsp, apply, Map.get?_set_ne _ _ _ _ hk]
    · simp [hx]

/-- **The cluster after one successful synchronisation of the cert-manager side**, key by key: under the needed name, the desired
object (unless somebody else's object is in the way, which stays); under every other name, only what this VirtualServer does not control. -/
theorem syncCert_result (c : Map (Obj σ)) (hs : Sorted c) (name : String) (want : σ) (k : String) :
    (run c (syncCert c (some (name, want)))).get? k =
      if k = name then
        (match c.get? name with
         | none => some ⟨.own, want⟩
         | some o => if o.owner = .own then some ⟨.own, want⟩ else some o)
      else
        (match c.get? k with
         | some o => if o.owner = .own then none else some o
         | none => none) := by
  simp only [syncCert]
  rw [run_append]
  have hs1 : Sorted (run c (upsert c name want)) := run_sorted _ _ hs
  have hfold : List.foldl apply c (upsert c name want) = run c (upsert c name want) := rfl
  rw [hfold]
  rw [garbage_exact (run c (upsert c name want)) name k (fun k o h => Nic.Arb.Map.mem_of_get? _ k o h)
    (fun k o h => Nic.Arb.Map.get?_of_mem _ hs1 k o h)]
  by_cases hk : k = name
  · subst hk
    simp only [if_true]
    rw [upsert_result]
    cases c.get? k with
    | none => simp
    | some o => by_cases ho : o.owner = .own <;> simp [ho]
  · simp only [hk, if_false]
    rw [upsert_other c name want k hk]
    cases c.get? k with
    | none => rfl
    | some o => by_cases ho : o.owner = .own <;> simp [ho, hk]

/-- **Objects that are not controlled by this VirtualServer are never updated or deleted** by a whole synchronisation. -/
theorem syncCert_foreign_untouched (c : Map (Obj σ)) (hs : Sorted c) (d : Option (String × σ)) (k : String) (o : Obj σ)
    (h : c.get? k = some o) (ho : o.owner ≠ .own) : (run c (syncCert c d)).get? k = some o := by
  cases d with
  | none => simpa [syncCert, run] using h
  | some nw =>
    obtain ⟨name, want⟩ := nw
    rw [syncCert_result c hs name want k]
    by_cases hk : k = name
    · subst hk; simp [h, ho]
    · simp [hk, h, ho]

/-- **Objects it no longer needs are removed**: after a synchronisation the VirtualServer controls nothing but the needed object. -/
theorem syncCert_nothing_left (c : Map (Obj σ)) (hs : Sorted c) (name : String) (want : σ) (k : String) (o : Obj σ)
    (h : (run c (syncCert c (some (name, want)))).get? k = some o) (ho : o.owner = .own) : k = name ∧ o.spec = want := by
  rw [syncCert_result c hs name want k] at h
  by_cases hk : k = name
  · subst hk
    simp only [if_true] at h
    cases hc : c.get? k with
    | none => simp [hc] at h; subst h; exact ⟨rfl, rfl⟩
    | some x =>
      simp only [hc] at h
      by_cases hx : x.owner = .own
      · simp [hx] at h; subst h; exact ⟨rfl, rfl⟩
      · simp [hx] at h; subst h; exact absurd ho hx
  · simp only [hk, if_false] at h
    cases hc : c.get? k with
    | none => simp [hc] at h
    | some x =>
      simp only [hc] at h
      by_cases hx : x.owner = .own
      · simp [hx] at h
      · simp [hx] at h; subst h; exact absurd ho hx

/-- **The object equals what a first-time synchronisation would have created**: whatever the cluster held before (older versions,
left-overs of interrupted synchronisations), the needed object — unless a foreign one is in the way — is the one an empty cluster gets. -/
theorem syncCert_as_first_time (c : Map (Obj σ)) (hs : Sorted c) (name : String) (want : σ)
    (h : c.get? name = none ∨ ∃ o, c.get? name = some o ∧ o.owner = .own) :
    (run c (syncCert c (some (name, want)))).get? name = (run ([] : Map (Obj σ)) (syncCert [] (some (name, want)))).get? name := by
  rw [syncCert_result c hs, syncCert_result [] Nic.Arb.Map.sorted_nil]
  simp only [if_true]
  rcases h with h | ⟨o, h, ho⟩
  · simp [h, Map.get?]
  · simp [h, ho, Map.get?]

/-- **After a successful synchronisation a second one performs no writes.** -/
theorem syncCert_idempotent (c : Map (Obj σ)) (hs : Sorted c) (d : Option (String × σ)) :
    syncCert (run c (syncCert c d)) d = [] := by
  cases d with
  | none => rfl
  | some nw =>
    obtain ⟨name, want⟩ := nw
    have hres := syncCert_result c hs name want
    have hs' : Sorted (run c (syncCert c (some (name, want)))) := run_sorted _ _ hs
    generalize run c (syncCert c (some (name, want))) = c' at hres hs'
    have hup : upsert c' name want = [] := by
      unfold upsert
      have := hres name
      simp only [if_true] at this
      cases hc : c.get? name with
      | none => rw [hc] at this; simp [this]
      | some o =>
        rw [hc] at this
        by_cases ho : o.owner = .own
        · simp [ho] at this; simp [this]
        · simp [ho] at this; simp [this, ho]
    simp only [syncCert, hup, List.nil_append, List.foldl_nil]
    unfold garbage
    rw [List.map_eq_nil_iff, List.filter_eq_nil_iff]
    rintro ⟨k, o⟩ hmem
    have hget := Nic.Arb.Map.get?_of_mem c' hs' k o hmem
    simp only [Bool.and_eq_true, decide_eq_true_eq, not_and, ne_eq, Decidable.not_not]
    intro ho
    rw [hres k] at hget
    by_cases hk : k = name
    · exact hk
    · simp only [hk, if_false] at hget
      cases hc : c.get? k with
      | none => simp [hc] at hget
      | some x =>
        simp only [hc] at hget
        by_cases hx : x.owner = .own
        · simp [hx] at hget
        · simp [hx] at hget; subst hget; exact absurd ho hx

/-- The object an action writes or deletes. -/
def Action.target : Action σ → String
  | .create n _ => n
  | .update n _ => n
  | .delete n => n

/-- Every write of a synchronisation is aimed at a free name or at an object this VirtualServer controls. -/
theorem syncCert_targets (c : Map (Obj σ)) (hs : Sorted c) (d : Option (String × σ)) (a : Action σ) (ha : a ∈ syncCert c d)
    (o : Obj σ) (h : c.get? a.target = some o) : o.owner = .own := by
  cases d with
  | none => simp [syncCert] at ha
  | some nw =>
    obtain ⟨name, want⟩ := nw
    simp only [syncCert, List.mem_append] at ha
    rcases ha with ha | ha
    · unfold upsert at ha
      cases hc : c.get? name with
      | none => simp [hc] at ha; subst ha; simp [Action.target, hc] at h
      | some x =>
        by_cases hx : x.owner = .own
        · by_cases hsp : x.spec = want
          · simp [hc, hx, hsp] at ha
          · simp [hc, hx, hsp] at ha; subst ha; simp [Action.target, hc] at h; subst h; exact hx
        · simp [hc, hx] at ha
    · have hfold : List.foldl apply c (upsert c name want) = run c (upsert c name want) := rfl
      rw [hfold] at ha
      unfold garbage at ha
      obtain ⟨⟨k, x⟩, hf, rfl⟩ := List.mem_map.mp ha
      have hf' := List.mem_filter.mp hf
      simp only [Bool.and_eq_true, decide_eq_true_eq] at hf'
      have hk : k ≠ name := by simpa using hf'.2.2
      have hget := Nic.Arb.Map.get?_of_mem _ (run_sorted c (upsert c name want) hs) k x hf'.1
      rw [upsert_other c name want k hk] at hget
      simp only [Action.target] at h
      rw [hget] at h; cases h
      exact hf'.2.1

/-- Writes that are not aimed at a foreign object leave every foreign object as it is — whichever of them are carried out. -/
theorem partial_run_foreign_untouched (c : Map (Obj σ)) (as : List (Action σ)) (k : String) (o : Obj σ)
    (h : c.get? k = some o) (hnot : ∀ a ∈ as, a.target ≠ k) : (run c as).get? k = some o := by
  induction as generalizing c with
  | nil => exact h
  | cons a r ih =>
    have hak : a.target ≠ k := hnot a (by simp)
    have hk' : k ≠ a.target := fun e => hak e.symm
    apply ih (apply c a) _ (fun b hb => hnot b (List.mem_cons_of_mem _ hb))
    cases a <;> simp only [apply, Action.target] at hk' ⊢
    · rw [Map.get?_set_ne _ _ _ _ hk']; exact h
    · rw [Map.get?_set_ne _ _ _ _ hk']; exact h
    · rw [Map.get?_erase]; simp [hk', h]

/-- **API errors**: whichever of the writes of a synchronisation fail (conflict, already-exists, …) — any sub-sequence `done` of them
is carried out — no object that is not controlled by this VirtualServer is updated or deleted, and the next successful
synchronisation ends in the same state for the needed object as a first-time one (`syncCert_as_first_time` holds for every cluster). -/
theorem interrupted_sync_foreign_untouched (c : Map (Obj σ)) (hs : Sorted c) (d : Option (String × σ)) (done : List (Action σ))
    (hsub : done.Sublist (syncCert c d)) (k : String) (o : Obj σ) (h : c.get? k = some o) (ho : o.owner ≠ .own) :
    (run c done).get? k = some o := by
  apply partial_run_foreign_untouched c done k o h
  intro a ha hk
  have := syncCert_targets c hs d a (hsub.subset ha) o (by rw [hk]; exact h)
  exact ho this

/-- The ExternalDNS side: one object, named after the VirtualServer; same guarantees. -/
theorem syncDns_idempotent (c : Map (Obj σ)) (name : String) (d : Option σ) : syncDns (run c (syncDns c name d)) name d = [] := by
  cases d with
  | none => rfl
  | some want => exact upsert_idempotent c name want

theorem syncDns_foreign_untouched (c : Map (Obj σ)) (name : String) (d : Option σ) (k : String) (o : Obj σ)
    (h : c.get? k = some o) (ho : o.owner ≠ .own) : (run c (syncDns c name d)).get? k = some o := by
  cases d with
  | none => simpa [syncDns, run] using h
  | some want => exact upsert_foreign_untouched c name want k o h ho

theorem syncDns_as_first_time (c : Map (Obj σ)) (name : String) (want : σ)
    (h : c.get? name = none ∨ ∃ o, c.get? name = some o ∧ o.owner = .own) :
    (run c (syncDns c name (some want))).get? name = (run ([] : Map (Obj σ)) (syncDns [] name (some want))).get? name := by
  simp only [syncDns]
  rw [upsert_result, upsert_result]
  rcases h with h | ⟨o, h, ho⟩
  · simp [h, Map.get?]
  · simp [h, ho, Map.get?]

/-! ### non-vacuity -/
example : (syncCert ([("s1", ⟨.own, "v1"⟩), ("s0", ⟨.own, "v0"⟩), ("x", ⟨.other, "f"⟩)] : Map (Obj String)) (some ("s1", "v2"))).length = 2 := by decide
example : syncCert ([("s1", ⟨.none, "f"⟩)] : Map (Obj String)) (some ("s1", "v2")) = [] := by decide

end Nic.Derived
