/-
  C20 — derived Certificates / DNSEndpoints track their VirtualServer and spare foreign ones.
-/
import Nic.Model.Derived
import Nic.Lemmas.MapLemmas
import Nic.Lemmas.MapSorted

namespace Nic.Derived
open Nic.Arb (Map)

variable {σ : Type} [DecidableEq σ]

/-- The cluster after the writes for one name. -/
theorem upsert_result (c : Map (Obj σ)) (name : String) (want : σ) :
    (run c (upsert c name want)).get? name =
      match c.get? name with
      | none => some ⟨.own, want⟩
      | some o => if o.owner = .own then some ⟨.own, want⟩ else some o := by
  unfold upsert run
  cases h : c.get? name with
  | none => simp [apply, Map.get?_set_self]
  | some o =>
    by_cases ho : o.owner = .own
    · by_cases hs : o.spec = want
      · simp [ho, hs, h]; cases o; simp_all
      · simp [ho, hs, apply, Map.get?_set_self]
    · simp [ho, h]

/-- **Freshness**: after the writes, the object under `name` — if the name was free or the object
was controlled by this VirtualServer — is exactly the desired one. -/
theorem fresh (c : Map (Obj σ)) (name : String) (want : σ)
    (h : c.get? name = none ∨ ∃ o, c.get? name = some o ∧ o.owner = .own) :
    ∃ o, (run c (upsert c name want)).get? name = some o ∧ o.owner = .own ∧ o.spec = want := by
  rw [upsert_result]
  rcases h with h | ⟨o, h, ho⟩
  · exact ⟨⟨.own, want⟩, by simp [h], rfl, rfl⟩
  · exact ⟨⟨.own, want⟩, by simp [h, ho], rfl, rfl⟩

/-- **Idempotence**: once the writes for a name have been applied, a second pass performs no write. -/
theorem upsert_idempotent (c : Map (Obj σ)) (name : String) (want : σ) :
    upsert (run c (upsert c name want)) name want = [] := by
  have h := upsert_result c name want
  generalize run c (upsert c name want) = c' at h
  unfold upsert
  cases hc : c.get? name with
  | none => rw [hc] at h; simp [h]
  | some o =>
    rw [hc] at h
    by_cases ho : o.owner = .own
    · simp [ho] at h; simp [h]
    · simp [ho] at h; simp [h, ho]

/-- **Foreign objects are never updated or deleted** by the writes for a name — whatever the cluster
contains: every object that is not controlled by this VirtualServer is still there, unchanged. -/
theorem upsert_foreign_untouched (c : Map (Obj σ)) (name : String) (want : σ) (k : String) (o : Obj σ)
    (h : c.get? k = some o) (ho : o.owner ≠ .own) : (run c (upsert c name want)).get? k = some o := by
  unfold upsert run
  by_cases hk : k = name
  · subst hk; simp [h, ho]
  · cases hn : c.get? name with
    | none => simp [apply, Map.get?_set_ne _ _ _ _ hk, h]
    | some x =>
      by_cases hx : x.owner = .own
      · by_cases hs : x.spec = want
        · simp [hx, hs, h]
        · simp [hx, hs, apply, Map.get?_set_ne _ _ _ _ hk, h]
      · simp [hx, h]

private theorem run_deletes (c : Map (Obj σ)) (ks : List String) (k : String) :
    (run c (ks.map fun x => (Action.delete x : Action σ))).get? k = if k ∈ ks then none else c.get? k := by
  induction ks generalizing c with
  | nil => simp [run]
  | cons a r ih =>
    simp only [List.map_cons, run, List.foldl_cons, apply]
    have := ih (c.erase a)
    unfold run at this
    rw [this, Map.get?_erase]
    by_cases h1 : k = a
    · simp [h1]
    · by_cases h2 : k ∈ r <;> simp [h1, h2]

/-- **Garbage collection is exact**: it deletes precisely the objects controlled by this
VirtualServer that are not the one it needs; every other object — in particular every foreign one —
stays as it is. -/
theorem garbage_exact (c : Map (Obj σ)) (keep : String) (k : String) (hs : ∀ k o, c.get? k = some o → (k, o) ∈ c)
    (hu : ∀ k o, (k, o) ∈ c → c.get? k = some o) :
    (run c (garbage c keep)).get? k =
      match c.get? k with
      | some o => if o.owner = .own ∧ k ≠ keep then none else some o
      | none => none := by
  unfold garbage
  have hmap : ((c.filter fun kv => kv.2.owner = .own && kv.1 ≠ keep).map fun kv => (Action.delete kv.1 : Action σ)) =
      ((c.filter fun kv => kv.2.owner = .own && kv.1 ≠ keep).map (·.1)).map fun x => (Action.delete x : Action σ) := by
    simp [List.map_map]
  rw [hmap, run_deletes]
  cases hk : c.get? k with
  | none =>
    have : k ∉ (c.filter fun kv => kv.2.owner = .own && kv.1 ≠ keep).map (·.1) := by
      intro hm
      obtain ⟨⟨k', o⟩, hf, rfl⟩ := List.mem_map.mp hm
      have hmem := (List.mem_filter.mp hf).1
      have := Nic.Arb.Map.contains_of_mem c (k', o) hmem
      unfold Map.contains at this; rw [hk] at this; cases this
    rw [if_neg this]
  | some o =>
    by_cases hcond : o.owner = .own ∧ k ≠ keep
    · have : k ∈ (c.filter fun kv => kv.2.owner = .own && kv.1 ≠ keep).map (·.1) :=
        List.mem_map.mpr ⟨(k, o), List.mem_filter.mpr ⟨hs k o hk, by simp [hcond.1, hcond.2]⟩, rfl⟩
      rw [if_pos this]
      simp only [hcond.1, hcond.2, ne_eq, not_false_eq_true, and_self, if_true]
    · have : k ∉ (c.filter fun kv => kv.2.owner = .own && kv.1 ≠ keep).map (·.1) := by
        intro hm
        obtain ⟨⟨k', o'⟩, hf, rfl⟩ := List.mem_map.mp hm
        have hf' := List.mem_filter.mp hf
        have hget := hu k' o' hf'.1
        rw [hk] at hget; cases hget
        simp only [Bool.and_eq_true, decide_eq_true_eq] at hf'
        exact hcond ⟨hf'.2.1, by simpa using hf'.2.2⟩
      rw [if_neg this]
      simp only [hcond, if_false]

/-! ### non-vacuity -/
example : (syncCert ([("s1", ⟨.own, "v1"⟩), ("s0", ⟨.own, "v0"⟩), ("x", ⟨.other, "f"⟩)] : Map (Obj String)) (some ("s1", "v2"))).length = 2 := by decide
example : syncCert ([("s1", ⟨.none, "f"⟩)] : Map (Obj String)) (some ("s1", "v2")) = [] := by decide

end Nic.Derived
