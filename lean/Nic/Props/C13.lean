/-
  C13 — a reload is acknowledged only after NGINX serves the new configuration
  version.  Property theorems only; the model is Nic/Model/Verify.lean.
-/
import Nic.Model.Verify

namespace Nic.Verify

/-- Time consumed by a prefix of the schedule none of whose polls returned. -/
def elapsed (e : Int) (T i : Nat) (pre : List Poll) : Nat :=
  (pre.map (stepTime e T i)).sum

/-- A poll counts only if it is a timely HTTP 200 whose body `strconv.Atoi`
parses to exactly the expected version. -/
theorem hit_requires_exact (e : Int) (T : Nat) (p : Poll)
    (h : outcome e T p = .hit) :
    p.cost < T ∧ ∃ s, p.ans = .body s ∧ atoi s = some e := by
  unfold outcome at h
  by_cases hc : T ≤ p.cost
  · simp [hc] at h
  · simp only [hc, if_false] at h
    refine ⟨by omega, ?_⟩
    cases ha : p.ans with
    | body s =>
      rw [ha] at h
      cases hv : atoi s with
      | none => simp [hv] at h
      | some v =>
        simp only [hv] at h
        by_cases hev : v = e
        · subst hev; exact ⟨s, rfl, hv⟩
        · simp [hev] at h
    | non200 => rw [ha] at h; cases h
    | err => rw [ha] at h; cases h

/-- Errors, non-200 answers, garbage and other versions never count. -/
theorem stale_error_garbage_never_count (e : Int) (T : Nat) (p : Poll) :
    (p.ans = .err ∨ p.ans = .non200 ∨ T ≤ p.cost ∨
      (∃ s, p.ans = .body s ∧ atoi s ≠ some e)) → outcome e T p ≠ .hit := by
  intro h hh
  obtain ⟨hc, s, hs, ha⟩ := hit_requires_exact e T p hh
  rcases h with h | h | h | ⟨s', hs', ha'⟩
  · rw [h] at hs; cases hs
  · rw [h] at hs; cases hs
  · omega
  · rw [hs'] at hs; cases hs; exact ha' ha

/-- **Main theorem.** The wait succeeds iff some poll issued strictly before the
deadline was answered (in time) with exactly the expected version, and no
earlier poll was. Holds for every schedule, timeout, interval and start time. -/
theorem wait_ok_iff (e : Int) (T i : Nat) (t : Nat) (s : List Poll) :
    wait e T i t s = .ok ↔
      ∃ pre p post, s = pre ++ p :: post ∧ (∀ q ∈ pre, outcome e T q ≠ .hit) ∧
        outcome e T p = .hit ∧ t + elapsed e T i pre < T := by
  induction s generalizing t with
  | nil =>
    simp only [wait]
    constructor
    · intro h; cases h
    · rintro ⟨pre, p, post, h, _⟩
      cases pre <;> simp at h
  | cons a rest ih =>
    unfold wait
    by_cases hT : T ≤ t
    · simp only [hT, if_true]
      constructor
      · intro h; cases h
      · rintro ⟨pre, p, post, _, _, _, hlt⟩
        omega
    · simp only [hT, if_false]
      by_cases hit : outcome e T a = .hit
      · simp only [hit, if_true]
        constructor
        · intro _
          exact ⟨[], a, rest, rfl, by simp, hit, by simp [elapsed]; omega⟩
        · intro _; trivial
      · simp only [hit, if_false]
        rw [ih]
        constructor
        · rintro ⟨pre, p, post, hs, hpre, hp, hlt⟩
          refine ⟨a :: pre, p, post, by simp [hs], ?_, hp, ?_⟩
          · intro q hq
            rcases List.mem_cons.mp hq with rfl | hq
            · exact hit
            · exact hpre q hq
          · simp [elapsed] at hlt ⊢; omega
        · rintro ⟨pre, p, post, hs, hpre, hp, hlt⟩
          cases pre with
          | nil =>
            simp at hs
            obtain ⟨rfl, _⟩ := hs
            exact absurd hp hit
          | cons b pre =>
            simp at hs
            obtain ⟨rfl, rfl⟩ := hs
            refine ⟨pre, p, post, rfl, fun q hq => hpre q (List.mem_cons_of_mem _ hq), hp, ?_⟩
            simp [elapsed] at hlt ⊢; omega

/-- If no answer in the schedule is the expected version, the wait fails —
whatever mixture of stale versions, errors, non-200 and garbage it sees. -/
theorem timeout_fails (e : Int) (T i t : Nat) (s : List Poll)
    (h : ∀ p ∈ s, outcome e T p ≠ .hit) : wait e T i t s = .fail := by
  cases hw : wait e T i t s with
  | fail => rfl
  | ok =>
    obtain ⟨pre, p, post, hs, _, hp, _⟩ := (wait_ok_iff e T i t s).mp hw
    exact absurd hp (h p (by simp [hs]))

/-- A wait that starts at or after its deadline issues no poll that counts. -/
theorem expired_fails (e : Int) (T i t : Nat) (s : List Poll) (h : T ≤ t) :
    wait e T i t s = .fail := by
  cases s with
  | nil => rfl
  | cons a r => simp [wait, h]

/-- The instrumented twin used by the correspondence driver has the same verdict. -/
theorem waitT_res (e : Int) (T i t n m : Nat) (s : List Poll) :
    (waitT e T i t n m s).res = wait e T i t s := by
  induction s generalizing t n m with
  | nil => unfold waitT wait; split <;> rfl
  | cons a rest ih =>
    unfold waitT wait
    by_cases hT : T ≤ t
    · simp [hT]
    · simp only [hT, if_false]
      by_cases hh : outcome e T a = .hit
      · simp [hh]
      · simp [hh, ih]

theorem waitT_elapsed_late (e : Int) (T i t n m : Nat) (s : List Poll) (h : T ≤ t) :
    (waitT e T i t n m s).elapsed = t := by
  cases s <;> simp [waitT, h]

theorem stepTime_le (e : Int) (T i : Nat) (a : Poll) : stepTime e T i a ≤ T + i := by
  unfold stepTime
  split
  · rename_i hw
    unfold outcome at hw
    by_cases hc : T ≤ a.cost
    · simp [hc] at hw
    · omega
  · have := Nat.min_le_right a.cost T; omega

/-- The wait returns no later than deadline + one request timeout + one
interval (a poll may start just before the deadline). -/
theorem waitT_elapsed_bound (e : Int) (T i t n m : Nat) (s : List Poll) (ht : t ≤ T) :
    (waitT e T i t n m s).elapsed ≤ T + T + i := by
  induction s generalizing t n m with
  | nil => unfold waitT; split <;> simp <;> omega
  | cons a rest ih =>
    unfold waitT
    by_cases hT : T ≤ t
    · simp [hT]; omega
    · simp only [hT, if_false]
      by_cases hh : outcome e T a = .hit
      · simp only [hh, if_true]
        have : a.cost < T := (hit_requires_exact e T a hh).1
        omega
      · simp only [hh, if_false]
        have hst := stepTime_le e T i a
        by_cases hle : t + stepTime e T i a ≤ T
        · exact ih _ _ _ hle
        · rw [waitT_elapsed_late _ _ _ _ _ _ _ (by omega)]; omega

/-! ### version tags -/

/-- Tags produced by any sequence of reload attempts, whatever their outcome. -/
def tags (T i : Nat) : Mgr → List (Bool × List Poll) → List Nat
  | _, [] => []
  | m, (b, s) :: r => (reload T i m b s).2.tag :: tags T i (reload T i m b s).1 r

theorem reload_ver (T i : Nat) (m : Mgr) (b : Bool) (s : List Poll) :
    (reload T i m b s).1.ver = m.ver + 1 ∧ (reload T i m b s).2.tag = m.ver + 1 ∧
    (reload T i m b s).2.file = m.ver + 1 := by
  unfold reload; cases b <;> simp

theorem tags_gt (T i : Nat) (m : Mgr) (ops : List (Bool × List Poll)) :
    ∀ x ∈ tags T i m ops, m.ver < x := by
  induction ops generalizing m with
  | nil => simp [tags]
  | cons a r ih =>
    obtain ⟨b, s⟩ := a
    intro x hx
    simp only [tags, List.mem_cons] at hx
    have hv := reload_ver T i m b s
    rcases hx with rfl | hx
    · omega
    · have := ih _ x hx; omega

/-- **Every reload is tagged with a version strictly greater than all earlier
ones**, for every sequence of reload outcomes (binary failure, timeout, success). -/
theorem versions_strictly_increase (T i : Nat) (m : Mgr) (ops : List (Bool × List Poll)) :
    (tags T i m ops).Pairwise (· < ·) := by
  induction ops generalizing m with
  | nil => simp [tags]
  | cons a r ih =>
    obtain ⟨b, s⟩ := a
    simp only [tags, List.pairwise_cons]
    refine ⟨?_, ih _⟩
    intro x hx
    have := tags_gt T i _ r x hx
    have hv := reload_ver T i m b s
    omega

/-- A reload reported as successful was confirmed by a worker answering exactly
the reload's own tag (and the version file carries that tag). -/
theorem reload_ok_confirmed (T i : Nat) (m : Mgr) (b : Bool) (s : List Poll)
    (h : (reload T i m b s).2.res = .ok) :
    b = true ∧ ∃ pre p post, s = pre ++ p :: post ∧
      outcome ((m.ver + 1 : Nat) : Int) T p = .hit ∧
      (∀ q ∈ pre, outcome ((m.ver + 1 : Nat) : Int) T q ≠ .hit) ∧
      (reload T i m b s).2.file = m.ver + 1 := by
  cases b with
  | false => simp [reload] at h
  | true =>
    refine ⟨rfl, ?_⟩
    have h' : wait ((m.ver + 1 : Nat) : Int) T i 0 s = .ok := by
      have := waitT_res ((m.ver + 1 : Nat) : Int) T i 0 0 (T + 1) s
      simp [reload] at h
      rw [← this]; exact h
    obtain ⟨pre, p, post, hs, hpre, hp, _⟩ := (wait_ok_iff _ T i 0 s).mp h'
    exact ⟨pre, p, post, hs, hp, hpre, (reload_ver T i m true s).2.2⟩

/-- Changes are pushed through the API only to a worker that confirms the
current version; the check always carries the current version. -/
theorem api_only_after_confirm (m : Mgr) (w : Option Nat) :
    ((update m w).apiCalled = true ↔ w = some m.ver) ∧ (update m w).header = m.ver := by
  simp [update]

/-! ### strconv.Atoi facts used above -/

theorem atoi_rejects_empty : atoi [] = none := by decide

/-- Leading or trailing white space or a newline make the body garbage. -/
theorem digits_all (s : List Char) (acc n : Nat) (h : digits s acc = some n) :
    ∀ c ∈ s, 48 ≤ c.toNat ∧ c.toNat ≤ 57 := by
  induction s generalizing acc with
  | nil => simp
  | cons a r ih =>
    intro c hc
    unfold digits at h
    split at h
    · rename_i d hd
      rcases List.mem_cons.mp hc with rfl | hc
      · unfold digitVal at hd; split at hd
        · assumption
        · cases hd
      · exact ih _ h c hc
    · cases h

theorem atoi_shape (s : List Char) (v : Int) (h : atoi s = some v) :
    ∃ ds, ds ≠ [] ∧ (s = ds ∨ s = '-' :: ds ∨ s = '+' :: ds) ∧
      ∀ c ∈ ds, 48 ≤ c.toNat ∧ c.toNat ≤ 57 := by
  unfold atoi at h
  have hs : s = (stripSign s).2 ∨ s = '-' :: (stripSign s).2 ∨ s = '+' :: (stripSign s).2 := by
    unfold stripSign; split <;> simp
  generalize stripSign s = sg at h hs
  obtain ⟨neg, ds⟩ := sg
  simp only at h hs
  by_cases hne : ds = []
  · simp [hne] at h
  · simp only [hne, if_false] at h
    cases hd : digits ds 0 with
    | none => simp [hd] at h
    | some n => exact ⟨ds, hne, hs, digits_all ds 0 n hd⟩

/-! ### non-vacuity: the hypotheses above are met by concrete schedules -/

private def p5 : Poll := ⟨.body ['5'], 0⟩
private def p4 : Poll := ⟨.body ['4'], 0⟩
private def pe : Poll := ⟨.err, 10⟩
private def pg : Poll := ⟨.body ['5', '\n'], 0⟩

example : wait 5 300 25 0 [p4, pe, pg, p5] = .ok := by decide
example : wait 5 300 25 0 [p4, pe, pg, p4] = .fail := by decide
example : wait 5 50 25 0 [p4, p4, p4, p5] = .fail := by decide   -- 3 × 25 ms of sleeping pass the deadline
example : atoi ['+', '0', '5'] = some 5 := by decide
example : atoi [' ', '5'] = none := by decide
example : tags 300 25 {} [(false, []), (true, [p4]), (true, [⟨.body ['3'], 0⟩])] = [1, 2, 3] := by decide

/-- **api_only_to_confirming_worker**: at the level of connections, an API request is sent only when the worker on the first
connection confirmed the current version, and then to that worker: no request is ever served by a worker that did not confirm —
whatever generations of workers sit behind later connections. -/
theorem api_only_to_confirming_worker (m : Mgr) (ws : List (Option Nat)) :
    (updateConn m ws).unconfirmed = 0 ∧ ((updateConn m ws).apiSeen = true → ws.head? = some (some m.ver)) := by
  unfold updateConn
  cases ws with
  | nil => simp
  | cons w rest =>
    by_cases h : w = some m.ver
    · simp [h]
    · simp [h]

example : (updateConn { ver := 3 } [some 3, some 2]).apiSeen = true := by decide
example : (updateConn { ver := 3 } [some 2, some 3]).apiSeen = false := by decide

end Nic.Verify
