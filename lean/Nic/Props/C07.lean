import Nic.Props.C06
import Nic.Model.Naming
import Nic.Lemmas.Naming
import Nic.Lemmas.TmplSound
/-!
  C07 — generated configuration always loads: lexically well formed, no identifier defined twice.

  Part 1: identifier construction (`Nic/Model/Naming.lean`, twins of the Go namers): names built by joining
  components with a separator that cannot occur in the components are injective in the components, hence the
  VirtualServer / VirtualServerRoute / TransportServer upstream (and zone) names of distinct resources are
  distinct, and the three families are disjoint; where the separator *is* in the alphabet (Ingress upstream names,
  VariableNamer) injectivity is false, with a concrete pair (S-C07-a, S-C07-b).

  Part 2: a verified "configuration builder": directives and blocks written from token-safe words are closed
  pieces of configuration, closed pieces compose, and a closed file is well formed — for all words, all nesting
  depths, all lengths.
-/
namespace Nic.Props.C07
open Nic.NgxLex Nic.NamingModel Nic.Props.C06

/-! ## Part 1 — identifiers -/

theorem joinS_inj {α} [DecidableEq α] (sep : α) :
    ∀ (xs ys : List (List α)), xs ≠ [] → ys ≠ [] → (∀ x ∈ xs, sep ∉ x) → (∀ y ∈ ys, sep ∉ y) →
      joinS sep xs = joinS sep ys → xs = ys := by
  intro xs
  induction xs with
  | nil => intro ys h; exact absurd rfl h
  | cons x rest ih =>
    intro ys _ hys hx hy h
    cases ys with
    | nil => exact absurd rfl hys
    | cons y rest' =>
      have fx : sep ∉ x := hx x (by simp)
      have fy : sep ∉ y := hy y (by simp)
      cases rest with
      | nil =>
        cases rest' with
        | nil => simp only [joinS] at h; rw [h]
        | cons z zs =>
          simp only [joinS] at h
          exact absurd (by rw [h]; simp) fx
      | cons x2 xs2 =>
        cases rest' with
        | nil =>
          simp only [joinS] at h
          exact absurd (by rw [← h]; simp) fy
        | cons z zs =>
          simp only [joinS] at h
          obtain ⟨e1, e2⟩ := Nic.Naming.sepJoin_inj sep x y _ _ fx fy h
          have := ih (z :: zs) (by simp) (by simp) (fun a ha => hx a (by simp [ha])) (fun a ha => hy a (by simp [ha])) e2
          rw [e1, this]

/-- A name or namespace in the alphabet Kubernetes admits (DNS-1123 / DNS-1035: no `_`). -/
def NoUnderscore (s : String) : Prop := '_' ∉ s.toList

theorem str_inj (a b : List Char) (h : str a = str b) : a = b := by
  have := congrArg String.toList h
  simpa [str] using this

/-- Upstream (and zone) names of VirtualServers are injective in (namespace, name, upstream). -/
theorem vs_upstream_inj (ns name up ns' name' up' : String)
    (h1 : NoUnderscore ns) (h2 : NoUnderscore name) (h3 : NoUnderscore up)
    (h1' : NoUnderscore ns') (h2' : NoUnderscore name') (h3' : NoUnderscore up')
    (h : vsUpstream ns name up = vsUpstream ns' name' up') : ns = ns' ∧ name = name' ∧ up = up' := by
  have := joinS_inj '_' _ _ (by simp) (by simp)
    (by intro x hx; simp only [List.mem_cons, List.not_mem_nil, or_false] at hx
        rcases hx with rfl | rfl | rfl | rfl
        · decide
        · exact h1
        · exact h2
        · exact h3)
    (by intro x hx; simp only [List.mem_cons, List.not_mem_nil, or_false] at hx
        rcases hx with rfl | rfl | rfl | rfl
        · decide
        · exact h1'
        · exact h2'
        · exact h3')
    (str_inj _ _ h)
  simp only [List.cons.injEq, and_true, true_and] at this
  exact ⟨String.toList_injective this.1, String.toList_injective this.2.1, String.toList_injective this.2.2⟩

/-- TransportServer upstream names likewise. -/
theorem ts_upstream_inj (ns name up ns' name' up' : String)
    (h1 : NoUnderscore ns) (h2 : NoUnderscore name) (h3 : NoUnderscore up)
    (h1' : NoUnderscore ns') (h2' : NoUnderscore name') (h3' : NoUnderscore up')
    (h : tsUpstream ns name up = tsUpstream ns' name' up') : ns = ns' ∧ name = name' ∧ up = up' := by
  have := joinS_inj '_' _ _ (by simp) (by simp)
    (by intro x hx; simp only [List.mem_cons, List.not_mem_nil, or_false] at hx
        rcases hx with rfl | rfl | rfl | rfl
        · decide
        · exact h1
        · exact h2
        · exact h3)
    (by intro x hx; simp only [List.mem_cons, List.not_mem_nil, or_false] at hx
        rcases hx with rfl | rfl | rfl | rfl
        · decide
        · exact h1'
        · exact h2'
        · exact h3')
    (str_inj _ _ h)
  simp only [List.cons.injEq, and_true, true_and] at this
  exact ⟨String.toList_injective this.1, String.toList_injective this.2.1, String.toList_injective this.2.2⟩

/-- VirtualServerRoute upstream names are injective in all five components. -/
theorem vsr_upstream_inj (ns name ns2 name2 up ns' name' ns2' name2' up' : String)
    (h1 : NoUnderscore ns) (h2 : NoUnderscore name) (h3 : NoUnderscore ns2) (h4 : NoUnderscore name2) (h5 : NoUnderscore up)
    (h1' : NoUnderscore ns') (h2' : NoUnderscore name') (h3' : NoUnderscore ns2') (h4' : NoUnderscore name2') (h5' : NoUnderscore up')
    (h : vsrUpstream ns name ns2 name2 up = vsrUpstream ns' name' ns2' name2' up') :
    ns = ns' ∧ name = name' ∧ ns2 = ns2' ∧ name2 = name2' ∧ up = up' := by
  have := joinS_inj '_' _ _ (by simp) (by simp)
    (by intro x hx; simp only [List.mem_cons, List.not_mem_nil, or_false] at hx
        rcases hx with rfl | rfl | rfl | rfl | rfl | rfl | rfl
        · decide
        · exact h1
        · exact h2
        · decide
        · exact h3
        · exact h4
        · exact h5)
    (by intro x hx; simp only [List.mem_cons, List.not_mem_nil, or_false] at hx
        rcases hx with rfl | rfl | rfl | rfl | rfl | rfl | rfl
        · decide
        · exact h1'
        · exact h2'
        · decide
        · exact h3'
        · exact h4'
        · exact h5')
    (str_inj _ _ h)
  simp only [List.cons.injEq, and_true, true_and] at this
  exact ⟨String.toList_injective this.1, String.toList_injective this.2.1, String.toList_injective this.2.2.1,
    String.toList_injective this.2.2.2.1, String.toList_injective this.2.2.2.2⟩

/-- The VirtualServer and VirtualServerRoute families never meet: an upstream of a VirtualServer cannot be called
`vsr_…` because upstream names contain no `_`. -/
theorem vs_vsr_disjoint (ns name up ns' name' ns2 name2 up' : String)
    (h1 : NoUnderscore ns) (h2 : NoUnderscore name) (h3 : NoUnderscore up)
    (h1' : NoUnderscore ns') (h2' : NoUnderscore name') (h3' : NoUnderscore ns2) (h4' : NoUnderscore name2) (h5' : NoUnderscore up') :
    vsUpstream ns name up ≠ vsrUpstream ns' name' ns2 name2 up' := by
  intro h
  have := joinS_inj '_' _ _ (by simp) (by simp)
    (by intro x hx; simp only [List.mem_cons, List.not_mem_nil, or_false] at hx
        rcases hx with rfl | rfl | rfl | rfl
        · decide
        · exact h1
        · exact h2
        · exact h3)
    (by intro x hx; simp only [List.mem_cons, List.not_mem_nil, or_false] at hx
        rcases hx with rfl | rfl | rfl | rfl | rfl | rfl | rfl
        · decide
        · exact h1'
        · exact h2'
        · decide
        · exact h3'
        · exact h4'
        · exact h5')
    (str_inj _ _ h)
  simp at this

/-- VirtualServer and TransportServer names never meet (`vs` ≠ `ts`). -/
theorem vs_ts_disjoint (ns name up ns' name' up' : String) (h1 : NoUnderscore ns) (h2 : NoUnderscore name)
    (h3 : NoUnderscore up) (h1' : NoUnderscore ns') (h2' : NoUnderscore name') (h3' : NoUnderscore up') :
    vsUpstream ns name up ≠ tsUpstream ns' name' up' := by
  intro h
  have := joinS_inj '_' _ _ (by simp) (by simp)
    (by intro x hx; simp only [List.mem_cons, List.not_mem_nil, or_false] at hx
        rcases hx with rfl | rfl | rfl | rfl
        · decide
        · exact h1
        · exact h2
        · exact h3)
    (by intro x hx; simp only [List.mem_cons, List.not_mem_nil, or_false] at hx
        rcases hx with rfl | rfl | rfl | rfl
        · decide
        · exact h1'
        · exact h2'
        · exact h3')
    (str_inj _ _ h)
  simp only [List.cons.injEq] at this
  exact absurd this.1 (by decide)

/-- S-C07-a: Ingress upstream names join their components with `-`, which names, namespaces and hosts may contain:
two different Ingresses (different names, different hosts, both active) define the same `upstream`. -/
theorem ing_upstream_not_injective :
    ingUpstream "a" "b" "x-y.ex" "svc" "80" = ingUpstream "a" "b-x" "y.ex" "svc" "80" ∧ ("b", "x-y.ex") ≠ ("b-x", "y.ex") := by
  decide

/-- The full-strength statement is false; what does hold: injective when no component contains `-`. -/
theorem ing_upstream_inj_partial (ns name host svc port ns' name' host' svc' port' : String)
    (hf : ∀ s ∈ [ns, name, host, svc, port, ns', name', host', svc', port'], '-' ∉ s.toList)
    (h : ingUpstream ns name host svc port = ingUpstream ns' name' host' svc' port') :
    ns = ns' ∧ name = name' ∧ host = host' ∧ svc = svc' ∧ port = port' := by
  have := joinS_inj '-' _ _ (by simp) (by simp)
    (by intro x hx; simp only [List.mem_cons, List.not_mem_nil, or_false] at hx
        rcases hx with rfl | rfl | rfl | rfl | rfl <;> exact hf _ (by simp))
    (by intro x hx; simp only [List.mem_cons, List.not_mem_nil, or_false] at hx
        rcases hx with rfl | rfl | rfl | rfl | rfl <;> exact hf _ (by simp))
    (str_inj _ _ h)
  simp only [List.cons.injEq, and_true] at this
  exact ⟨String.toList_injective this.1, String.toList_injective this.2.1, String.toList_injective this.2.2.1,
    String.toList_injective this.2.2.2.1, String.toList_injective this.2.2.2.2⟩

/-- S-C07-b: VariableNamer maps `-` to `_` before joining with `_`: `a-b/c` and `a/b-c` get the same variable and
key-value zone names. -/
theorem safeNsName_not_injective : safeNsName "a-b" "c" = safeNsName "a" "b-c" ∧ ("a-b", "c") ≠ ("a", "b-c") := by decide

/-! ## Part 2 — a verified configuration builder -/

/-- A piece of configuration that can stand wherever a directive can: read between tokens with no pending
arguments, it brings the tokenizer back to exactly the state it started in, without an error. -/
def Closed (t : List Char) : Prop :=
  ∀ s : St, s.mode = .space → s.nargs = 0 → s.esc = false → s.var = false → s.err = false →
    ∃ evs, run s t = (s, evs) ∧ Ev.err ∉ evs

theorem closed_nil : Closed [] := fun s _ _ _ _ _ => ⟨[], rfl, by simp⟩

theorem closed_append (a b : List Char) (ha : Closed a) (hb : Closed b) : Closed (a ++ b) := by
  intro s h1 h2 h3 h4 h5
  obtain ⟨e1, r1, n1⟩ := ha s h1 h2 h3 h4 h5
  obtain ⟨e2, r2, n2⟩ := hb s h1 h2 h3 h4 h5
  refine ⟨e1 ++ e2, ?_, ?_⟩
  · rw [run_append, r1]; simp [r2]
  · simp [n1, n2]

/-- White space between directives. -/
theorem closed_ws (c : Char) (h : isWs c = true) : Closed [c] := by
  intro s h1 _ h3 _ h5
  refine ⟨[], ?_, by simp⟩
  simp only [run_cons, run_nil]
  unfold step
  simp [h1, h3, h5, h]

/-- A closed file is well formed. -/
theorem closed_wellFormed (t : List Char) (h : Closed t) : wellFormed t = true := by
  obtain ⟨evs, r, _⟩ := h init rfl rfl rfl rfl rfl
  unfold wellFormed
  rw [r]; rfl

/-- One more word of a directive: a token-safe word followed by a space. -/
theorem word_then_space (s : St) (w : List Char) (hm : s.mode = .space) (he : s.esc = false) (hv : s.var = false)
    (hr : s.err = false) (hw : TokenSafe w) : run s (w ++ [' ']) = ({ s with nargs := s.nargs + 1 }, []) := by
  rw [run_append, token_hole_inert s w hm he hr hv hw]
  simp only [run_cons, run_nil, List.nil_append, List.append_nil]
  unfold step
  have : isWs ' ' = true := by decide
  cases s; simp_all

/-- The last word of a directive followed by `;`. -/
theorem word_then_semicolon (s : St) (w : List Char) (hm : s.mode = .space) (he : s.esc = false) (hv : s.var = false)
    (hr : s.err = false) (hw : TokenSafe w) : run s (w ++ [';']) = (fresh s, [.dir (s.nargs + 1)]) := by
  rw [run_append, token_hole_inert s w hm he hr hv hw]
  simp only [run_cons, run_nil, List.nil_append, List.append_nil]
  unfold step
  have : isWs ';' = false := by decide
  cases s; simp_all [endDir, fresh]

/-- `w₁ w₂ … wₙ;` — a directive written from token-safe words. -/
def renderDir : List (List Char) → List Char
  | [] => []
  | [w] => w ++ [';']
  | w :: rest => w ++ [' '] ++ renderDir rest

theorem run_renderDir : ∀ (ws : List (List Char)) (s : St), ws ≠ [] → (∀ w ∈ ws, TokenSafe w) →
    s.mode = .space → s.esc = false → s.var = false → s.err = false →
    run s (renderDir ws) = (fresh s, [.dir (s.nargs + ws.length)]) := by
  intro ws
  induction ws with
  | nil => intro s h; exact absurd rfl h
  | cons w rest ih =>
    intro s _ hall hm he hv hr
    cases rest with
    | nil =>
      simp only [renderDir, List.length_singleton]
      exact word_then_semicolon s w hm he hv hr (hall w (by simp))
    | cons w2 rest2 =>
      simp only [renderDir]
      rw [run_append, word_then_space s w hm he hv hr (hall w (by simp))]
      have := ih { s with nargs := s.nargs + 1 } (by simp) (fun x hx => hall x (by simp [hx])) hm he hv hr
      simp only [this, List.nil_append, List.length_cons]
      simp [fresh]; omega

/-- A directive written from token-safe words is a closed piece of configuration — whatever the words. -/
theorem closed_renderDir (ws : List (List Char)) (hne : ws ≠ []) (hall : ∀ w ∈ ws, TokenSafe w) : Closed (renderDir ws) := by
  intro s h1 h2 h3 h4 h5
  refine ⟨[.dir (s.nargs + ws.length)], ?_, by simp⟩
  rw [run_renderDir ws s hne hall h1 h3 h4 h5]
  cases s; simp_all [fresh]

/-- `w₁ … wₙ { body }` -/
def renderBlock (head : List (List Char)) (body : List Char) : List Char :=
  match head with
  | [] => []
  | _ => (renderDir head).dropLast ++ " {".toList ++ body ++ ['}']

theorem renderDir_dropLast : ∀ (ws : List (List Char)), ws ≠ [] → renderDir ws = (renderDir ws).dropLast ++ [';'] := by
  intro ws
  induction ws with
  | nil => intro h; exact absurd rfl h
  | cons w rest ih =>
    intro _
    cases rest with
    | nil => simp [renderDir]
    | cons w2 r2 =>
      have := ih (by simp)
      simp only [renderDir]
      rw [List.dropLast_append_of_ne_nil (by
        intro h; rw [h] at this; simp at this)]
      conv => lhs; rw [this]
      simp only [List.append_assoc]

/-- reading everything of a directive but its `;` leaves the tokenizer inside the last word -/
theorem run_dirHead : ∀ (ws : List (List Char)) (s : St), ws ≠ [] → (∀ w ∈ ws, TokenSafe w) →
    s.mode = .space → s.esc = false → s.var = false → s.err = false →
    run s (renderDir ws).dropLast = ({ s with mode := .word, nargs := s.nargs + ws.length - 1 }, []) := by
  intro ws
  induction ws with
  | nil => intro s h; exact absurd rfl h
  | cons w rest ih =>
    intro s _ hall hm he hv hr
    cases rest with
    | nil =>
      simp only [renderDir, List.dropLast_concat, List.length_singleton]
      rw [token_hole_inert s w hm he hr hv (hall w (by simp))]
      cases s; simp_all
    | cons w2 rest2 =>
      simp only [renderDir]
      have hne : renderDir (w2 :: rest2) ≠ [] := by
        intro h
        have := renderDir_dropLast (w2 :: rest2) (by simp)
        rw [h] at this; simp at this
      rw [List.dropLast_append_of_ne_nil hne, run_append, word_then_space s w hm he hv hr (hall w (by simp))]
      have := ih { s with nargs := s.nargs + 1 } (by simp) (fun x hx => hall x (by simp [hx])) hm he hv hr
      simp only [this, List.nil_append, List.length_cons]
      congr 1
      cases s; simp; omega

/-- A block whose head is written from token-safe words and whose body is closed is closed: braces balance at
every nesting depth. -/
theorem closed_renderBlock (head : List (List Char)) (body : List Char) (hne : head ≠ [])
    (hall : ∀ w ∈ head, TokenSafe w) (hb : Closed body) : Closed (renderBlock head body) := by
  intro s h1 h2 h3 h4 h5
  cases head with
  | nil => exact absurd rfl hne
  | cons w rest =>
    simp only [renderBlock]
    have hh := run_dirHead (w :: rest) s (by simp) hall h1 h3 h4 h5
    let s1 : St := { fresh s with depth := s.depth + 1 }
    obtain ⟨evs, rb, nb⟩ := hb s1 rfl rfl rfl rfl (by simpa [s1, fresh] using h5)
    refine ⟨[.opn (s.nargs + (w :: rest).length - 1 + 1)] ++ evs ++ [.cls], ?_, by simp [nb]⟩
    rw [List.append_assoc, List.append_assoc, run_append, hh]
    -- " {"
    have hsp : isWs ' ' = true := by decide
    have step1 : step { s with mode := .word, nargs := s.nargs + (w :: rest).length - 1 } ' ' =
        ({ s with mode := .space, nargs := s.nargs + (w :: rest).length - 1 + 1 }, []) := by
      unfold step; cases s; simp_all
    have step2 : step { s with mode := .space, nargs := s.nargs + (w :: rest).length - 1 + 1 } '{' =
        (s1, [.opn (s.nargs + (w :: rest).length - 1 + 1)]) := by
      have : isWs '{' = false := by decide
      unfold step; cases s; simp_all [openBlock, fresh, s1]
    have stepc : step s1 '}' = (s, [.cls]) := by
      have : isWs '}' = false := by decide
      unfold step; cases s; simp_all [fresh, s1]
    have e : " {".toList = [' ', '{'] := rfl
    simp only [e, List.cons_append, List.nil_append, run_cons, step1, step2, run_append, rb, run_nil, stepc,
      List.append_nil, List.append_assoc]

/-- The builder theorems compose: `server { listen 80; location /a { proxy_pass http://u; } }`, for *any* token-safe
words in place of these, is well formed. -/
theorem example_server_wellFormed (port path target : List Char) (hp : TokenSafe port) (ha : TokenSafe path) (ht : TokenSafe target) :
    wellFormed (renderBlock ["server".toList]
      (renderDir ["listen".toList, port] ++ renderBlock ["location".toList, path] (renderDir ["proxy_pass".toList, target]))) = true := by
  have tk : ∀ w : String, TokenSafe w.toList → TokenSafe w.toList := fun _ h => h
  have hserver : TokenSafe "server".toList := by exact ⟨'s', "erver".toList, rfl, by decide, by decide⟩
  have hlisten : TokenSafe "listen".toList := by exact ⟨'l', "isten".toList, rfl, by decide, by decide⟩
  have hloc : TokenSafe "location".toList := by exact ⟨'l', "ocation".toList, rfl, by decide, by decide⟩
  have hpp : TokenSafe "proxy_pass".toList := by exact ⟨'p', "roxy_pass".toList, rfl, by decide, by decide⟩
  apply closed_wellFormed
  apply closed_renderBlock _ _ (by simp) (by intro w hw; simp at hw; subst hw; exact hserver)
  apply closed_append
  · exact closed_renderDir _ (by simp) (by intro w hw; simp at hw; rcases hw with rfl | rfl <;> assumption)
  · apply closed_renderBlock _ _ (by simp) (by intro w hw; simp at hw; rcases hw with rfl | rfl <;> assumption)
    exact closed_renderDir _ (by simp) (by intro w hw; simp at hw; rcases hw with rfl | rfl <;> assumption)

/-- non-vacuity -/
example : wellFormed "server {listen 80;location /a {proxy_pass http://u;}}".toList = true := by decide
example : TokenSafe "http://vs_d_cafe_tea".toList := ⟨'h', "ttp://vs_d_cafe_tea".toList, rfl, by decide, by decide⟩
example : NoUnderscore "a-b.c" := by unfold NoUnderscore; decide
/-- what the arity rule is about (seed C07-2's shape): a directive without its argument is still lexically a
directive, with one word — the arity table, not the tokenizer, rejects it. -/
example : events "proxy_hide_header ;".toList = [.dir 1] := by decide

/-! ## Part 3 — the templates themselves

`Nic.Tmpl.wellFormedForAll t` is the analysis of `Nic/Model/Tmpl.lean` run on a template term regenerated from /repo
(`Nic/Gen/Templates.lean`); on every run of the check the compiled driver evaluates it for the eight templates. The
theorem says what a positive answer means. -/

/-- If the analysis accepts a template, then **every** file the template can produce — any combination of `if`
branches, any number of `range` iterations, any admissible value at every interpolation site (`HoleVal`: a token-safe
word or nothing between tokens, a word-safe / quote-safe value inside a word / a quoted string; `FragVal`: a closed
piece of configuration where a helper writes whole directives) — is lexically well formed. -/
theorem template_analysis_sound (t : Nic.Tmpl.TL) (h : Nic.Tmpl.wellFormedForAll t = true) (cs : List Char)
    (hr : Nic.Tmpl.RenderTL t init cs) : wellFormed cs = true :=
  Nic.Tmpl.analysis_sound t h cs hr

/-- the analysis reads literal text exactly as the tokenizer does (argument counts clipped to zero / non-zero) -/
theorem template_text_exact (cs : List Char) (s t : St) (hs : s.err = false) (h : Nic.Tmpl.runText (Nic.Tmpl.clip s) cs = some t) :
    (run s cs).1.err = false ∧ Nic.Tmpl.clip (run s cs).1 = t ∧ Ev.err ∉ (run s cs).2 :=
  Nic.Tmpl.runText_sound cs s t hs h

/-- non-vacuity: a template with a value site, and a rendering of it that satisfies `RenderTL` (kernel evaluation of
the analysis on larger templates is too slow — ~35 ms per character — which is why the driver evaluates it). -/
def demoTmpl : Nic.Tmpl.TL := .cons (.text "a ") (.cons (.hole false "v") (.cons (.text ";") .nil))

example : Nic.Tmpl.wellFormedForAll demoTmpl = true := by decide

example : Nic.Tmpl.RenderTL demoTmpl init "a b;".toList :=
  ⟨"a ".toList, "b;".toList, rfl, rfl, "b".toList, ";".toList, rfl,
    Or.inr ⟨'b', [], rfl, by decide, by decide⟩, ";".toList, [], rfl, rfl, rfl⟩

end Nic.Props.C07
