/-
  C12 — the property stated directly on a trace recorded at the nginx.Manager boundary.

  NGINX's view: `running` = the items (file static parts, upstream server lists) it loaded at the last successful
  reload, with upstream lists overwritten by successful API pushes. `disk` = what the files say now.
-/
namespace Nic.Spec.Reload

abbrev KV := List (String × String)

def get (m : KV) (k : String) : Option String := (m.find? (fun p => p.1 == k)).map (·.2)
def put (m : KV) (k v : String) : KV := (k, v) :: m.filter (fun p => p.1 != k)
def del (m : KV) (k : String) : KV := m.filter (fun p => p.1 != k)

inductive Ev where
  | set (k v : String)
  | del (k : String)
  | reload (ok : Bool)
  | api (k v : String) (ok : Bool)
  | ret (ok : Bool) (enabled : Bool) (static : List String)
  | task (kind : String) (held : Bool)       -- controller level: a task starts; `held` = reloads are held back for it
  | drained (d : Bool)                       -- controller level: the queue drains in this task (end of start-up or of a batch)
  | stale (keys : List String)               -- controller level: items that differ from a fresh regeneration of every resource
  | other
  deriving Repr

def parseEvs (s : String) : List Ev :=
  match s.splitOn "|" with
  | ["T", kind, held, drain] => [.task kind (held == "1"), .drained (drain == "1")]
  | _ => []

def parseEv (s : String) : Ev :=
  match s.splitOn "|" with
  | ["S", k, v] => .set k v
  | ["X", k] => .del k
  | ["R", r] => .reload (r == "ok")
  | ["A", k, v, r] => .api k v (r == "ok")
  | ["RET", r, en, st] => .ret (r == "ok") (en == "1") (if st == "" then [] else st.splitOn "+")
  | ["END", ks] => .stale (if ks == "" then [] else ks.splitOn "+")
  | _ => .other

structure St where
  disk : KV := []
  running : KV := []
  enabled : Bool := false

/-- A secret file matters to the running NGINX only while some configuration names it in a directive evaluated at load time. -/
def relevant (static : List String) (k : String) : Bool :=
  if k.startsWith "f:secret/" then static.contains ((k.drop 9).toString) else true

structure Acc where
  st : St
  touched : List String := []
  sawReload : Bool := false
  sawApi : Bool := false
  reloadFailed : Bool := false

def stepEv (a : Acc) : Ev → Acc
  | .set k v => { a with st := { a.st with disk := put a.st.disk k v }, touched := k :: a.touched }
  | .del k => { a with st := { a.st with disk := del a.st.disk k }, touched := k :: a.touched }
  | .reload true => { a with st := { a.st with running := a.st.disk }, sawReload := true }
  | .reload false => { a with sawReload := true, reloadFailed := true }
  | .api k v true => { a with st := { a.st with running := put a.st.running k v }, sawApi := true }
  | .api _ _ false => { a with sawApi := true }
  | _ => a

/-- Does the operation promise to have applied its changes when it returns success? -/
def opApplies (op : String) : Bool :=
  match op.splitOn "|" with
  | ["en"] | ["dis"] => false
  | ["di", _, "1"] | ["dv", _, "1"] => false     -- skipReload: the batch caller reloads
  | "sec" :: _ | "dsec" :: _ => false            -- file managers used by the secret store; the caller regenerates resources
  | _ => true

/-- Check one Configurator operation given the state before it; returns the state after and the first complaint. -/
def checkOp (st : St) (op : String) (evs : List Ev) : St × Option String :=
  let a := evs.foldl stepEv { st := st }
  match evs.getLast? with
  | some (.ret ok en static) =>
    let st' : St := { a.st with enabled := en }
    let held := !st.enabled
    let complaint : Option String :=
      if held && op != "en" && a.sawReload then some "reload-while-held"
      else if held && op != "en" && a.sawApi then some "api-push-while-held"
      else if a.reloadFailed && ok then some "failed-reload-not-returned"
      -- only EnableReloads / DisableReloads move the gate: an operation that leaves it closed behind itself makes every later
      -- change wait for somebody else's EnableReloads (and one that leaves it open ends a hold it does not own)
      else if op != "en" && op != "dis" && st.enabled && !en then some "gate-closed-by-operation"
      else if op != "en" && op != "dis" && !st.enabled && en then some "gate-opened-by-operation"
      else if st.enabled && en && ok && opApplies op then
        match a.touched.reverse.find? (fun k => relevant static k && get a.st.disk k != get a.st.running k) with
        | some k => some ("unapplied:" ++ k)
        | none => none
      else none
    (st', complaint)
  | _ => (a.st, some "no-ret")

def checkOps (st : St) : List (String × List Ev) → Nat → Option String
  | [], _ => none
  | (op, evs) :: rest, i =>
    let r := checkOp st op evs
    match r.2 with
    | some c => some s!"op#{i}({op}):{c}"
    | none => checkOps r.1 rest (i + 1)

/-! ### controller level: tasks, start-up and batches -/

structure CAcc where
  st : St := {}
  held : Bool := true
  draining : Bool := false
  failed : Bool := false            -- a reload failed since the last successful one
  idx : Nat := 0
  complaints : List String := []

def diff (static : List String) (st : St) : Option String :=
  match st.disk.find? (fun p => relevant static p.1 && get st.running p.1 != some p.2) with
  | some p => some p.1
  | none => (st.running.find? (fun p => relevant static p.1 && (get st.disk p.1).isNone)).map (·.1)

def complain (a : CAcc) (c : String) : CAcc :=
  if a.complaints.length < 6 then { a with complaints := a.complaints ++ [c] } else a

/-- One controller-level event.
* `task kind held drain`: a task starts; `held` = reloads are held back for the whole task (start-up or inside a batch, and
  the queue does not drain in it); `drain` = the queue drains in this task (end of start-up or of a batch).
* `ret … static`: the task ends. -/
def cstep (a : CAcc) (e : Ev) : CAcc :=
  match e with
  | .task _ held => { a with held := held, draining := false, idx := a.idx + 1 }
  | .drained d => { a with draining := d }
  | .reload ok =>
    let a0 := if a.held then complain a s!"task#{a.idx}:reload-while-held" else a
    let a1 := if a.draining && ok && (diff [] a.st).isNone && !a.failed then complain a0 s!"task#{a.idx}:needless-reload-at-drain" else a0
    { a1 with st := if ok then { a1.st with running := a1.st.disk } else a1.st, failed := !ok }
  | .api k v ok =>
    let a0 := if a.held then complain a s!"task#{a.idx}:api-push-while-held" else a
    { a0 with st := if ok then { a0.st with running := put a0.st.running k v } else a0.st }
  | .set k v => { a with st := { a.st with disk := put a.st.disk k v } }
  | .del k => { a with st := { a.st with disk := del a.st.disk k } }
  | .ret _ _ static =>
    -- end of a task: unless reloads were held back for it, NGINX must now run what is on disk
    if a.held || a.failed then a else
    match diff static a.st with
    | some k => complain a s!"task#{a.idx}:unapplied:{k}"
    | none => a
  | .stale ks => if ks.isEmpty then a else complain a s!"task#{a.idx}:stale:{"+".intercalate ks}"
  | .other => a

def checkTasks (evs : List Ev) : List String := (evs.foldl cstep {}).complaints

end Nic.Spec.Reload
