/-
  C13 — the property's own words as an executable, loop-free specification:
  the wait succeeds iff there is a poll that (a) starts strictly before the
  deadline, (b) is answered in time with a 200 whose body is exactly the
  expected version, and (c) no earlier poll was.  Written over positions, with
  no reference to the recursion in the model.
-/
import Nic.Model.Verify
namespace Nic.Verify.Spec
open Nic.Verify

/-- Does the body denote exactly `e` the way strconv.Atoi reads it? -/
def exact (e : Int) (a : Ans) : Bool :=
  match a with
  | .body s => atoi s == some e
  | _ => false

def counts (e : Int) (T : Nat) (p : Poll) : Bool := p.cost < T && exact e p.ans

/-- Duration of a poll that did not count (wrong version sleeps, errors do not). -/
def dur (_e : Int) (T i : Nat) (p : Poll) : Nat :=
  match p.ans with
  | .body s => if p.cost < T then (match atoi s with | some _ => p.cost + i | none => p.cost) else T
  | _ => min p.cost T

def specOk (e : Int) (T i : Nat) (s : List Poll) : Bool :=
  (List.range s.length).any fun k =>
    match s[k]? with
    | some p => counts e T p
        && (s.take k).all (fun q => !counts e T q)
        && decide (((s.take k).map (dur e T i)).sum < T)
    | none => false

end Nic.Verify.Spec
