/-
  Order-free specifications for C01–C05 / C16 over the *current object set*
  (the stored, valid, own-class objects plus the GlobalConfiguration):
  who owns each host / listener, what is composed with what, and why an object
  is not serving.  Nothing here follows the control flow of configuration.go:
  owners are defined as "the claimant that beats every other claimant".
-/
import Nic.Model.Arb
namespace Nic.Arb.Spec
open Nic.Arb

structure Claim where
  host : String
  key : String        -- Kind/ns/name
  md : Meta
  deriving Repr, DecidableEq

def h0 (i : Ing) : String := (i.rules.head?.map (·.1)).getD ""

/-- A cert-manager challenge Ingress is served through the VirtualServer of its host, not on its own. -/
def converted (s : Objs) (i : Ing) : Bool :=
  s.cfg.certManager && i.chal && s.vss.any (fun kv => kv.2.host = h0 i)

def ingClaims (s : Objs) : List Claim :=
  s.ings.flatMap fun kv =>
    let i := kv.2
    if isMinion i || converted s i then [] else
      i.rules.map fun r => ⟨r.1, "Ingress/" ++ i.md.key, i.md⟩

def vsClaims (s : Objs) : List Claim :=
  s.vss.map fun kv => ⟨kv.2.host, "VirtualServer/" ++ kv.2.md.key, kv.2.md⟩

def tsClaims (s : Objs) : List Claim :=
  if !s.cfg.passthrough then [] else
  s.tss.filterMap fun kv =>
    if isPassthroughTS kv.2 then some ⟨kv.2.host, "TransportServer/" ++ kv.2.md.key, kv.2.md⟩ else none

def claims (s : Objs) : List Claim := ingClaims s ++ vsClaims s ++ tsClaims s

/-- The champion among a list of claims: the one that beats every other one
(claims of distinct resources carry distinct UIDs). -/
def champion (cl : List Claim) : Option Claim :=
  cl.find? fun c => cl.all fun c' => c'.md.uid = c.md.uid || beats c.md c'.md

/-- **Owner of a host** = the claimant of that host that beats all other claimants of it. -/
def owner (s : Objs) (h : String) : Option String :=
  (champion ((claims s).filter (·.host = h))).map (·.key)

def insertSorted (x : String) : List String → List String
  | [] => [x]
  | y :: r => if x < y then x :: y :: r else if x = y then y :: r else y :: insertSorted x r

def hostsOf (s : Objs) : List String := (claims s).foldl (fun l c => insertSorted c.host l) []

/-! ### listeners -/

/-- Claims of TCP/UDP TransportServers on (listener, host) pairs: a TransportServer claims
`listener|host` iff the GlobalConfiguration defines a listener with its name and protocol.
The enumeration order `tss` is irrelevant to the owner (theorem `lowner_order_free`). -/
def lclaimsOf (gc : Option (List Listener)) (tss : List (String × TS)) : List Claim :=
  tss.filterMap fun kv =>
    let t := kv.2
    if t.proto = "TLS_PASSTHROUGH" then none else
    (listenerFor gc t).map fun l => ⟨lkey l.name t.host, tsKey t, t.md⟩

def lclaims (s : Objs) : List Claim := lclaimsOf s.gc s.tss

/-- **Owner of a (listener, host) pair** = the claimant that beats all other claimants of the pair. -/
def lowner (s : Objs) (lk : String) : Option String :=
  (champion ((lclaims s).filter (·.host = lk))).map (·.key)

def lkeysOf (s : Objs) : List String := (lclaims s).foldl (fun l c => insertSorted c.host l) []

/-- The listener an active TransportServer must be bound to. -/
def bindingOf (s : Objs) (key : String) : Option Listener :=
  (s.tss.find? fun kv => tsKey kv.2 = key).bind fun kv => listenerFor s.gc kv.2

/-! ### listener admission -/

def ip4 (l : Listener) : String := ipOr l.v4 "0.0.0.0"
def ip6 (l : Listener) : String := ipOr l.v6 "::"

/-- Two listeners cannot coexist: same port, conflicting protocols ({HTTP,TCP} mutually, UDP with UDP),
and the same IPv4 or the same IPv6 address (defaults 0.0.0.0 / ::). -/
def clash (a b : Listener) : Bool :=
  a.port = b.port && conflicts b.proto a.proto && (ip4 a = ip4 b || ip6 a = ip6 b)

/-- **Admission spec**: going through the entries in order, an entry is admitted iff it is valid on
its own, no *admitted* earlier entry has its name, and it clashes with no *admitted* earlier entry.
Entries that were dropped have no influence on later ones. -/
def admitSpec (forb : List Nat) (ok4 ok6 : String → Bool) (ls : List Listener) : List Listener :=
  ls.foldl (fun acc l =>
    if selfOk forb ok4 ok6 l && acc.all (fun a => a.name ≠ l.name && !(clash a l)) then acc ++ [l] else acc) []

/-! ### composition -/

/-- Minions of a master host, in key order, each with the verdict for each of its paths:
a path is served by the minion that beats every other minion listing it. -/
def minionsOf (s : Objs) (host : String) : List (Ing × List (String × Bool)) :=
  let ms := (s.ings.filter fun kv => isMinion kv.2 && h0 kv.2 = host).map (·.2)
  ms.map fun m =>
    let paths := (m.rules.head?.map (·.2)).getD []
    (m, paths.map fun p =>
      (p, ms.all fun m' => m'.md.key = m.md.key ||
        !(((m'.rules.head?.map (·.2)).getD []).contains p) || beats m.md m'.md))

/-- Routes attached to a VirtualServer: for each `route:` entry in order, the stored
VirtualServerRoute under that key iff its host equals the VirtualServer's and its
subroutes obey the path rule; then the challenge routes of the host. -/
def routesOf (s : Objs) (v : VS) : List String :=
  let regular := v.routes.filterMap fun (path, ref) =>
    if ref = "" then none else
    let key := if ref.contains '/' then ref else v.md.ns ++ "/" ++ ref
    match s.vsrs.get? key with
    | some r => if vsrFits r v.host path then some r.md.key else none
    | none => none
  -- a route referenced by several entries is attached once, at its first fitting reference
  let regular := regular.foldl (fun l k => if l.contains k then l else l ++ [k]) []
  let chal := s.ings.filterMap fun kv =>
    if !isMinion kv.2 && converted s kv.2 && h0 kv.2 = v.host then some kv.2.md.key else none
  regular ++ chal

/-! ### status of every known object -/

def tsStatus (s : Objs) (t : TS) : String :=
  let k := "TransportServer/" ++ t.md.key
  if isPassthroughTS t then
    if !s.cfg.passthrough then "unknown" else
    if owner s t.host = some k then "active" else "host-taken"
  else
    match listenerFor s.gc t with
    | none =>
      -- no such listener: unless another TransportServer holds (name, host), the listener "doesn't exist"
      match lowner s (lkey t.lname t.host) with
      | some _ => "listener-taken"
      | none => "listener-missing"
    | some l =>
      match lowner s (lkey l.name t.host) with
      | some c => if c = k then "active" else "listener-taken"
      | none => "listener-missing"

def status (s : Objs) : List (String × String) :=
  let ing := s.ings.filterMap fun kv =>
    let i := kv.2
    let k := "Ingress/" ++ i.md.key
    if isMinion i then
      let ok := s.ings.any fun kv' => isMaster kv'.2 && !(converted s kv'.2) &&
        owner s (h0 i) = some ("Ingress/" ++ kv'.2.md.key)
      some (k, if ok then "active" else "no-master")
    else if converted s i then none
    else some (k, if i.rules.any (fun r => owner s r.1 = some k) then "active" else "all-hosts-taken")
  let vs := s.vss.map fun kv =>
    let k := "VirtualServer/" ++ kv.2.md.key
    (k, if owner s kv.2.host = some k then "active" else "host-taken")
  let vsr := s.vsrs.map fun kv =>
    let r := kv.2
    let k := "VirtualServerRoute/" ++ r.md.key
    match (s.vss.find? fun kv' => owner s r.host = some ("VirtualServer/" ++ kv'.2.md.key)) with
    | none => (k, "no-vs")
    | some kv' => (k, if (routesOf s kv'.2).contains r.md.key then "active" else "ignored")
  let ts := s.tss.map fun kv => ("TransportServer/" ++ kv.2.md.key, tsStatus s kv.2)
  ing ++ vs ++ vsr ++ ts

/-! ### rendering for the direct Spec check -/

def join (sep : String) (l : List String) : String := sep.intercalate l
def b01 (b : Bool) : String := if b then "1" else "0"

def render (s : Objs) : String :=
  let o := (hostsOf s).filterMap fun h => (owner s h).map fun k => h ++ "=" ++ k
  let lo := (lkeysOf s).filterMap fun lk => (lowner s lk).bind fun k =>
    (bindingOf s k).map fun l => s!"{lk}={k}:{l.port}:{l.v4}:{l.v6}"
  let masters := s.ings.filterMap fun kv =>
    let i := kv.2
    let k := "Ingress/" ++ i.md.key
    if isMaster i && !(converted s i) && owner s (h0 i) = some k then
      some (k ++ ":" ++ join "+" ((minionsOf s (h0 i)).map fun (m, ps) =>
        -- a path listed twice by one minion is printed once (the Go side prints a map)
        let ps := ps.foldl (fun (acc : Map Bool) pv => acc.set pv.1 pv.2) []
        s!"{m.md.key}({join "+" (ps.map fun pv => pv.1 ++ "=" ++ b01 pv.2)})"))
    else none
  let vss := s.vss.filterMap fun kv =>
    let k := "VirtualServer/" ++ kv.2.md.key
    if owner s kv.2.host = some k then some (k ++ ":" ++ join "+" (routesOf s kv.2)) else none
  let st := (status s).map fun (k, v) => k ++ "=" ++ v
  s!"O={join "," o}#LO={join "," lo}#M={join "," (masters ++ vss)}#S={join "," st}"

end Nic.Arb.Spec
