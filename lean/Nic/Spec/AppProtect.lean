/-
  C19 — from scratch, over the current object set: which signature set is in force for a
  tag, and which WAF policies are usable.
-/
import Nic.Model.AppProtect
namespace Nic.AP.Spec
open Nic.AP Nic.Arb

/-- Well-formed: passes schema validation and its revision time (if any) parses. -/
def wellFormed (s : Sig) : Bool := s.wellFormed && s.tsOk

/-- **In force for a tag**: the oldest well-formed signature set declaring it (ties by UID). -/
def inForce (sigs : List Sig) (tag : String) : Option Sig :=
  let c := sigs.filter fun s => wellFormed s && s.tag = tag
  c.find? fun s => c.all fun s' => s'.md.uid = s.md.uid || beats s.md s'.md

def acceptable (r : Req) (s : Sig) : Bool :=
  match s.rev with
  | none => true
  | some rev => (match r.min with | some mn => decide (mn < rev) | none => true) &&
                (match r.max with | some mx => decide (rev < mx) | none => true)

/-- **Usable policy**: well-formed, and every requirement's tag is in force with an acceptable revision. -/
def polUsable (sigs : List Sig) (p : Pol) : Bool :=
  p.wellFormed && p.tsOk && p.reqs.all fun r =>
    r.tag ≠ "" && (match inForce sigs r.tag with | some s => acceptable r s | none => false)

/-- A signature set is usable iff it is well-formed and (has no tag or is the one in force for its tag). -/
def sigUsable (sigs : List Sig) (s : Sig) : Bool :=
  wellFormed s && (s.tag = "" || (inForce sigs s.tag).map (·.md.key) = some s.md.key)

end Nic.AP.Spec
