/-
  C14 — the property's own words: the upstream servers of a backend are exactly the
  addresses of the ready endpoints of the referenced Service's slices that carry the
  target port of the referenced service port, each once, bracketed for IPv6.
-/
import Nic.Model.Endpoints
namespace Nic.Eps.Spec
open Nic.Eps

/-- `a` is an upstream server for target port `tp` of service `svc`. -/
def IsServer (all : List Slice) (svc : Svc) (tp : Nat) (a : String) : Prop :=
  ∃ s ∈ all, s.svc = svc.name ∧ s.ns = svc.ns ∧ some tp ∈ s.ports ∧
    ∃ e ∈ s.eps, e.ready = some true ∧ ∃ addr ∈ e.addrs, a = joinHostPort addr tp

/-- The service port a backend means: the one with the given name, or — when the reference is
numeric — the one with that number. -/
def Refers (bname : String) (bnum : Nat) (sp : SvcPort) : Prop :=
  if bname = "" then sp.port = bnum else sp.name = bname

end Nic.Eps.Spec
