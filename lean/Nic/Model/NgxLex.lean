/-
  NgxLex — character-level model of NGINX's configuration token reader
  (src/core/ngx_conf_file.c, `ngx_conf_read_token`) and of the block bookkeeping of
  `ngx_conf_parse`.  Shared by C06 (user strings stay inside argument tokens) and C07
  (every generated file is lexically well formed).

  There is no NGINX binary in the sandbox: this transcription is in the trusted base.  It is tied to the
  Go twin `harness/internal/verifio/ngxlex.go` (used on every rendered file) by the `lex` correspondence.

  The C flags map to the state as follows: `last_space` = mode `space`; inside a token with neither
  quote flag = `word`; `d_quoted`/`s_quoted` = `dq`/`sq`; `need_space` = `need`; `sharp_comment` = `comment`;
  `quoted` = `esc`; `variable` = `var`; `cf->args->nelts` = `nargs`.  The C function returns at `;`, `{`, `}`
  and is re-entered with all flags cleared: that is `fresh`.
-/
namespace Nic.NgxLex

inductive Mode where
  | space | word | dq | sq | need | comment
  deriving DecidableEq, Repr, Inhabited

/-- Structural events; the payload is the number of arguments of the directive. -/
inductive Ev where
  | dir (nargs : Nat)      -- `name a b c;`
  | opn (nargs : Nat)      -- `name a b {`
  | cls                    -- `}`
  | err
  deriving DecidableEq, Repr

structure St where
  mode  : Mode := .space
  esc   : Bool := false
  var   : Bool := false
  nargs : Nat := 0
  depth : Nat := 0
  err   : Bool := false
  deriving DecidableEq, Repr

def init : St := {}

def isWs (c : Char) : Bool := c == ' ' || c == '\t' || c == '\r' || c == '\n'

/-- State after the token reader returned and is called again. -/
def fresh (s : St) : St := { s with mode := .space, esc := false, var := false, nargs := 0 }

def fail (s : St) : St × List Ev := ({ s with err := true }, [.err])
def endDir (s : St) (n : Nat) : St × List Ev := (fresh s, [.dir n])
def openBlock (s : St) (n : Nat) : St × List Ev := ({ fresh s with depth := s.depth + 1 }, [.opn n])

/-- One character. -/
def step (s : St) (c : Char) : St × List Ev :=
  if s.err then (s, []) else
  match s.mode with
  | .comment => if c == '\n' then ({ s with mode := .space }, []) else (s, [])
  | .need =>
    if s.esc then ({ s with esc := false }, [])
    else if isWs c then ({ s with mode := .space }, [])
    else if c == ';' then endDir s s.nargs
    else if c == '{' then openBlock s s.nargs
    else if c == ')' then ({ s with mode := .word }, [])
    else fail s
  | .space =>
    if s.esc then ({ s with esc := false }, [])
    else if isWs c then (s, [])
    else if c == ';' then (if s.nargs == 0 then fail s else endDir s s.nargs)
    else if c == '{' then (if s.nargs == 0 then fail s else openBlock s s.nargs)
    else if c == '}' then
      (if s.nargs != 0 then fail s
       else if s.depth == 0 then fail s
       else ({ fresh s with depth := s.depth - 1 }, [.cls]))
    else if c == '#' then ({ s with mode := .comment }, [])
    else if c == '\\' then ({ s with mode := .word, esc := true }, [])
    else if c == '"' then ({ s with mode := .dq }, [])
    else if c == '\'' then ({ s with mode := .sq }, [])
    else if c == '$' then ({ s with mode := .word, var := true }, [])
    else ({ s with mode := .word }, [])
  | .word =>
    if s.esc then ({ s with esc := false }, [])
    else if c == '{' && s.var then (s, [])
    else if c == '\\' then ({ s with var := false, esc := true }, [])
    else if c == '$' then ({ s with var := true }, [])
    else if isWs c then ({ s with var := false, mode := .space, nargs := s.nargs + 1 }, [])
    else if c == ';' then endDir s (s.nargs + 1)
    else if c == '{' then openBlock s (s.nargs + 1)
    else ({ s with var := false }, [])
  | .dq =>
    if s.esc then ({ s with esc := false }, [])
    else if c == '{' && s.var then (s, [])
    else if c == '\\' then ({ s with var := false, esc := true }, [])
    else if c == '$' then ({ s with var := true }, [])
    else if c == '"' then ({ s with var := false, mode := .need, nargs := s.nargs + 1 }, [])
    else ({ s with var := false }, [])
  | .sq =>
    if s.esc then ({ s with esc := false }, [])
    else if c == '{' && s.var then (s, [])
    else if c == '\\' then ({ s with var := false, esc := true }, [])
    else if c == '$' then ({ s with var := true }, [])
    else if c == '\'' then ({ s with var := false, mode := .need, nargs := s.nargs + 1 }, [])
    else ({ s with var := false }, [])

/-- Run over a string, collecting events. -/
def run (s : St) : List Char → St × List Ev
  | [] => (s, [])
  | c :: cs =>
    let (s1, e1) := step s c
    let (s2, e2) := run s1 cs
    (s2, e1 ++ e2)

/-- The end-of-file check of `ngx_conf_read_token` / `ngx_conf_parse`. -/
def eofOk (s : St) : Bool :=
  !s.err && (s.mode == .space || s.mode == .comment) && s.nargs == 0 && s.depth == 0

/-- Events of a whole file, with the end-of-file error appended. -/
def events (cs : List Char) : List Ev :=
  let (s, es) := run init cs
  if s.err || eofOk s then es else es ++ [.err]

/-- A file loads, as far as the tokenizer and block structure are concerned. -/
def wellFormed (cs : List Char) : Bool :=
  let (s, _) := run init cs
  eofOk s

/-! ### Executable token collector (driver side); its structural projection is `step`. -/

structure TSt where
  core : St := {}
  args : List String := []
  cur  : List Char := []
  deriving Repr

inductive TEv where
  | dir (depth : Nat) (args : List String)
  | opn (depth : Nat) (args : List String)
  | cls (depth : Nat)
  | err (depth : Nat)
  deriving Repr

def tstep (t : TSt) (c : Char) : TSt × List TEv :=
  let s := t.core
  let r := step s c
  let s' := r.1
  let closing : List String := if s.mode == .word then t.args ++ [String.ofList t.cur] else t.args
  let tevs := r.2.map fun e => match e with
    | .err => TEv.err s.depth
    | .cls => TEv.cls s'.depth
    | .dir _ => TEv.dir s.depth closing
    | .opn _ => TEv.opn s.depth closing
  let ac : List String × List Char :=
    if s.err then (t.args, t.cur)
    else if !r.2.isEmpty then (if s'.err then (t.args, t.cur) else ([], []))
    else if s.mode == .comment then (t.args, t.cur)
    else if s'.nargs == s.nargs + 1 then (t.args ++ [String.ofList t.cur], [])
    else if s.mode == .space || s.mode == .need then (t.args, if s'.mode == .word then [c] else [])
    else (t.args, t.cur ++ [c])
  ({ core := s', args := ac.1, cur := ac.2 }, tevs)

theorem tstep_core (t : TSt) (c : Char) : (tstep t c).1.core = (step t.core c).1 := rfl

/-- Tail-recursive run for the driver (files are long). -/
def trunAcc (t : TSt) (acc : List TEv) : List Char → TSt × List TEv
  | [] => (t, acc.reverse)
  | c :: cs =>
    let r := tstep t c
    trunAcc r.1 (r.2.reverse ++ acc) cs

def tevents (cs : List Char) : List TEv :=
  let (t, es) := trunAcc {} [] cs
  if t.core.err || eofOk t.core then es else es ++ [.err t.core.depth]

end Nic.NgxLex
