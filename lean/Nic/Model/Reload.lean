/-
  C12 — model of the reload discipline.

  Part 1 (Configurator): every public operation of `internal/configs/configurator.go` is, as far as NGINX
  can observe, a sequence of file writes followed by a decision to reload, to push through the NGINX Plus
  API, or to do neither. The model is parameterised by what the content comparison reports for each write
  (`Res.changed`), by the number of upstreams an endpoints operation pushes per resource (`Res.ups`) and by
  the injected failures of the n-th `Reload` / API call (`Faults`).

  Part 2 (controller): `LoadBalancerController.sync`'s start-up / batch machine.
-/
namespace Nic.Reload

inductive Ev where
  | write (i : Nat) (changed : Bool)   -- the i-th resource of the operation is written
  | reload (ok : Bool)
  | api (i : Nat) (ok : Bool)          -- one upstream of resource i pushed through the API
  | ret (ok : Bool)
  deriving DecidableEq, Repr

/-- Which `Reload` / API call (1-based, counted over the whole run) fails. -/
structure Faults where
  reload : Nat → Bool
  api : Nat → Bool

structure CS where
  enabled : Bool        -- isReloadsEnabled
  nReload : Nat
  nApi : Nat
  deriving DecidableEq, Repr

structure Res where
  changed : Bool
  ups : Nat
  deriving DecidableEq, Repr

structure Out where
  evs : List Ev
  cs : CS
  ok : Bool

/-- `cnf.Reload`: gated by `isReloadsEnabled`. -/
def doReload (f : Faults) (cs : CS) : Out :=
  if cs.enabled then
    ⟨[Ev.reload (!f.reload (cs.nReload + 1))], { cs with nReload := cs.nReload + 1 }, !f.reload (cs.nReload + 1)⟩
  else ⟨[], cs, true⟩

/-- `updatePlusEndpoints*` for resource `i`: push its `n` upstreams in order, stop at the first failure.
`cnf.updateServersInPlus` is gated by `isReloadsEnabled` (returns nil without a call). -/
def push (f : Faults) (i : Nat) : Nat → CS → Out
  | 0, cs => ⟨[], cs, true⟩
  | n + 1, cs =>
    if cs.enabled then
      if f.api (cs.nApi + 1) then ⟨[Ev.api i false], { cs with nApi := cs.nApi + 1 }, false⟩
      else
        let r := push f i n { cs with nApi := cs.nApi + 1 }
        ⟨Ev.api i true :: r.evs, r.cs, r.ok⟩
    else ⟨[], cs, true⟩

def writes : List Res → Nat → List Ev
  | [], _ => []
  | r :: rs, i => Ev.write i r.changed :: writes rs (i + 1)

/-- Operations that write and then always call `cnf.Reload`: AddOrUpdateIngress / MergeableIngress /
TransportServer / VirtualServers, UpdateConfig, Update{VirtualServers,TransportServers}, BatchDelete*,
DeleteTransportServer, the App Protect / DoS operations. -/
def always (f : Faults) (rs : List Res) (cs : CS) : Out :=
  let r := doReload f cs
  ⟨writes rs 0 ++ r.evs ++ [Ev.ret r.ok], r.cs, r.ok⟩

/-- `AddOrUpdateVirtualServer`: as `always`, but weight updates (`-weight-changes-dynamic-reload`) switch reloads on first. -/
def single (f : Faults) (r : Res) (weightUpdates : Bool) (cs : CS) : Out :=
  always f [r] (if weightUpdates then { cs with enabled := true } else cs)

/-- `DeleteIngress` / `DeleteVirtualServer` with their `skipReload` parameter. -/
def delete (f : Faults) (r : Res) (skipReload : Bool) (cs : CS) : Out :=
  if skipReload then ⟨[Ev.write 0 r.changed, Ev.ret true], cs, true⟩ else always f [r] cs

/-- `AddOrUpdateResources`: reload iff some write changed a file or the caller insists. -/
def resources (f : Faults) (rs : List Res) (reloadIfUnchanged : Bool) (cs : CS) : Out :=
  if rs.any (·.changed) || reloadIfUnchanged then always f rs cs
  else ⟨writes rs 0 ++ [Ev.ret true], cs, true⟩

structure EpOut where
  evs : List Ev
  cs : CS
  reloadPlus : Bool

/-- The loop of `UpdateEndpoints*`: write each resource; on NGINX Plus push its upstreams, remembering any failure. -/
def epLoop (plus : Bool) (f : Faults) : List Res → Nat → CS → EpOut
  | [], _, cs => ⟨[], cs, false⟩
  | r :: rs, i, cs =>
    let p := if plus then push f i r.ups cs else ⟨[], cs, true⟩
    let rest := epLoop plus f rs (i + 1) p.cs
    ⟨Ev.write i r.changed :: (p.evs ++ rest.evs), rest.cs, !p.ok || rest.reloadPlus⟩

/-- `UpdateEndpoints`, `UpdateEndpointsMergeableIngress`, `UpdateEndpointsForVirtualServers`, `…ForTransportServers`. -/
def endpoints (plus : Bool) (f : Faults) (rs : List Res) (cs : CS) : Out :=
  let l := epLoop plus f rs 0 cs
  if plus && !l.reloadPlus then ⟨l.evs ++ [Ev.ret true], l.cs, true⟩
  else
    let r := doReload f l.cs
    ⟨l.evs ++ r.evs ++ [Ev.ret r.ok], r.cs, r.ok⟩

/-- `ReloadForBatchUpdates`. -/
def batchReload (f : Faults) (flag : Bool) (cs : CS) : Out :=
  if flag then
    let r := doReload f cs
    ⟨r.evs ++ [Ev.ret r.ok], r.cs, r.ok⟩
  else ⟨[Ev.ret true], cs, true⟩

inductive Op where
  | enable | disable
  | always (rs : List Res)
  | single (r : Res) (weightUpdates : Bool)
  | delete (r : Res) (skipReload : Bool)
  | resources (rs : List Res) (reloadIfUnchanged : Bool)
  | endpoints (rs : List Res)
  | batchReload (flag : Bool)
  deriving Repr

def exec (plus : Bool) (f : Faults) (cs : CS) : Op → Out
  | .enable => ⟨[Ev.ret true], { cs with enabled := true }, true⟩
  | .disable => ⟨[Ev.ret true], { cs with enabled := false }, true⟩
  | .always rs => always f rs cs
  | .single r w => single f r w cs
  | .delete r s => delete f r s cs
  | .resources rs riu => resources f rs riu cs
  | .endpoints rs => endpoints plus f rs cs
  | .batchReload flag => batchReload f flag cs

/-! ### trace predicates -/

/-- Every changed write is followed, later in the same trace, by a successful reload. -/
def AppliedByReload (tr : List Ev) : Prop :=
  ∀ pre post i, tr = pre ++ Ev.write i true :: post → Ev.reload true ∈ post

/-- Every changed write of resource `i` is followed by a successful reload or by successful API pushes of all its upstreams. -/
def AppliedOrPushed (rs : List Res) (tr : List Ev) : Prop :=
  ∀ pre post i r, tr = pre ++ Ev.write i true :: post → rs[i]? = some r →
    Ev.reload true ∈ post ∨ post.count (Ev.api i true) = r.ups

def Quiet (tr : List Ev) : Prop := ∀ e ∈ tr, (∀ ok, e ≠ Ev.reload ok) ∧ (∀ i ok, e ≠ Ev.api i ok)

/-! ### Part 2: the controller's start-up / batch machine (`sync`) -/

inductive Kind where
  | endpoint (found : Bool)   -- EndpointSlice task; `found` = some served resource references it
  | configMap
  | other
  deriving DecidableEq, Repr

structure BS where
  ready : Bool            -- isNginxReady
  batch : Bool            -- batchSyncEnabled
  flag : Bool             -- enableBatchReload
  updateAll : Bool        -- updateAllConfigsOnBatch
  enabled : Bool          -- the Configurator's reload gate
  deriving DecidableEq, Repr

inductive BEv where
  | handler (k : Kind) (gateOpen : Bool)   -- the task's handler runs with the reload gate in this position
  | updateAll                              -- updateAllConfigs: regenerates everything and reloads
  | batchReload (flag : Bool)              -- ReloadForBatchUpdates(flag)
  deriving DecidableEq, Repr

structure BOut where
  s : BS
  evs : List BEv

/-- One `sync(task)`: `qBefore` = queue length when the task is examined (it still counts the task),
`qAfter` = queue length when its handler has returned. -/
def syncStep (s : BS) (k : Kind) (qBefore qAfter : Nat) : BOut :=
  let s1 : BS := if s.ready && decide (qBefore > 1) && !s.batch then { s with batch := true, enabled := false } else s
  let s2 : BS := if s1.batch && (k != Kind.endpoint true) && (k != Kind.endpoint false) then { s1 with flag := true } else s1
  let s3 : BS := if s2.batch && k == Kind.configMap then { s2 with updateAll := true } else s2
  let s4 : BS := if s3.batch && k == Kind.endpoint true then { s3 with flag := true } else s3
  let ev1 := [BEv.handler k s4.enabled]
  let s5 : BS := if !s4.ready && qAfter == 0 then { s4 with enabled := true, ready := true } else s4
  let ev2 := if !s4.ready && qAfter == 0 then [BEv.updateAll] else []
  if s5.batch && qAfter == 0 then
    ⟨{ s5 with batch := false, enabled := true, flag := false, updateAll := false },
     ev1 ++ ev2 ++ (if s5.updateAll then [BEv.updateAll] else [BEv.batchReload s5.flag])⟩
  else ⟨s5, ev1 ++ ev2⟩

end Nic.Reload
