/-
  C05 / C16 — model of the controller's reporting glue (internal/k8s/controller.go
  processChanges / processProblems and the update*StatusAndEvents* functions,
  internal/k8s/transport_server.go): which events are sent, to which object,
  with which polarity, for one batch of changes and problems.  The configurator
  calls in between are not modelled (every apply succeeds; no NGINX).
-/
import Nic.Model.Arb
namespace Nic.Arb

structure Event where
  key : String          -- Kind/ns/name of the object the event is attached to
  typ : String          -- "Normal" | "Warning"
  reason : String
  codes : List String   -- warning codes, "validation-error" for an attached validation error, problem message code
  deriving DecidableEq, Repr, Inhabited

def okOrWarn (key : String) (ws : List String) : Event :=
  if ws.isEmpty then ⟨key, "Normal", "AddedOrUpdated", []⟩
  else ⟨key, "Warning", "AddedOrUpdatedWithWarning", ws⟩

/-- Events for one change. `gone` = key of an object removed from the cluster by this very event. -/
def changeEvents (gone : String) (c : Change) : List Event :=
  match c.op with
  | .update =>
    match c.res with
    | .ing i =>
      okOrWarn c.res.key i.warnings ::
        (if i.isMaster then i.minions.map fun m =>
          okOrWarn ("Ingress/" ++ m.md.key) ((i.childWarnings.get? m.md.key).getD []) else [])
    | .vs v =>
      okOrWarn c.res.key v.warnings ::
        v.vsrs.map fun r => ⟨"VirtualServerRoute/" ++ r.key, "Normal", "AddedOrUpdated", []⟩
    | .ts t => [okOrWarn c.res.key t.warnings]
  | .delete =>
    if c.res.key = gone then [] else
    if c.err then [⟨c.res.key, "Warning", "Rejected", ["validation-error"]⟩]
    else if !c.res.warnings.isEmpty then [⟨c.res.key, "Warning", "Rejected", c.res.warnings⟩]
    else []        -- silent: the class changed away, another controller owns the object now

def problemEvent (p : Problem) : Event := ⟨p.key, "Warning", p.reason, [p.msg]⟩

/-- `processChanges` followed by `processProblems`. -/
def eventsOf (gone : String) (cs : List Change) (ps : List Problem) : List Event :=
  cs.flatMap (changeEvents gone) ++ ps.map problemEvent

end Nic.Arb
