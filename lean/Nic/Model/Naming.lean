/-
  Naming — how the generators build the NGINX identifiers that must be unique across all files
  (internal/configs/virtualserver.go upstreamNamer / VariableNamer / rate-limit zone, internal/configs/ingress.go
  getNameForUpstream, internal/configs/transportserver.go newUpstreamNamerForTransportServer), as functions on strings.
  Compared with the real functions by the `nm` correspondence.  Core Lean only.
-/
namespace Nic.NamingModel

/-- `fmt.Sprintf("%s<sep>%s<sep>…")`: the components joined by one separator character. -/
def joinS {α} (sep : α) : List (List α) → List α
  | [] => []
  | [x] => x
  | x :: y :: rest => x ++ sep :: joinS sep (y :: rest)

def str (l : List Char) : String := String.ofList l

/-- upstreamNamer for a VirtualServer: `vs_<ns>_<name>_<upstream>` -/
def vsUpstream (ns name up : String) : String :=
  str (joinS '_' ["vs".toList, ns.toList, name.toList, up.toList])

/-- upstreamNamer for a VirtualServerRoute: `vs_<ns>_<name>_vsr_<ns2>_<name2>_<upstream>` -/
def vsrUpstream (ns name ns2 name2 up : String) : String :=
  str (joinS '_' ["vs".toList, ns.toList, name.toList, "vsr".toList, ns2.toList, name2.toList, up.toList])

/-- TransportServer: `ts_<ns>_<name>_<upstream>` -/
def tsUpstream (ns name up : String) : String :=
  str (joinS '_' ["ts".toList, ns.toList, name.toList, up.toList])

/-- Ingress: `<ns>-<name>-<host>-<service>-<port>` -/
def ingUpstream (ns name host svc port : String) : String :=
  str (joinS '-' [ns.toList, name.toList, host.toList, svc.toList, port.toList])

/-- rate-limit zone: `pol_rl_<polNs>_<polName>_<vsNs>_<vsName>` -/
def rlZone (pns pname vns vname : String) : String :=
  str (joinS '_' ["pol".toList, "rl".toList, pns.toList, pname.toList, vns.toList, vname.toList])

/-- VariableNamer: `strings.ReplaceAll(ns + "_" + name, "-", "_")` -/
def safeNsName (ns name : String) : String :=
  str ((joinS '_' [ns.toList, name.toList]).map fun c => if c == '-' then '_' else c)

end Nic.NamingModel
