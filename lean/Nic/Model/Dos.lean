/-
  C19 (DoS half) — model of internal/k8s/appprotectdos/app_protect_dos_configuration.go:
  AddOrUpdate/Delete of APDosPolicy, APDosLogConf, DosProtectedResource with re-evaluation of the
  referrers, and GetValidDosEx.
-/
import Nic.Model.Arb
namespace Nic.Dos
open Nic.Arb (Map)

structure Prot where
  ns : String
  name : String
  valid : Bool               -- ValidateDosProtectedResource
  polRef : String            -- "" = none
  logRef : String
  deriving DecidableEq, Repr, Inhabited

structure St where
  pols : Map Bool := []      -- key → valid
  logs : Map Bool := []
  prots : Map Prot := []
  deriving Repr

/-- A reference without namespace is resolved in the namespace of the DosProtectedResource. -/
def resolve (ns ref : String) : String := if ref.contains '/' then ref else ns ++ "/" ++ ref

def refOk (m : Map Bool) (ns ref : String) : Bool := ref = "" || (m.get? (resolve ns ref)).getD false

/-- `AddOrUpdateDosProtectedResource`'s verdict (what is reported: AddOrUpdate vs Delete + problem). -/
def protReported (s : St) (p : Prot) : Bool := p.valid && refOk s.pols p.ns p.polRef && refOk s.logs p.ns p.logRef

/-- `GetValidDosEx parentNamespace ref`: the protected resource is looked up relative to the referrer's
namespace, its own references relative to its own namespace. -/
def getValid (s : St) (parentNs ref : String) : Option (String × String × String) :=
  match s.prots.get? (resolve parentNs ref) with
  | none => none
  | some p =>
    if !p.valid then none else
    if !(refOk s.pols p.ns p.polRef) then none else
    if !(refOk s.logs p.ns p.logRef) then none else
    some (p.ns ++ "/" ++ p.name, if p.polRef = "" then "_" else resolve p.ns p.polRef,
          if p.logRef = "" then "_" else resolve p.ns p.logRef)

def refersPol (key : String) (p : Prot) : Bool := key = p.polRef || key = p.ns ++ "/" ++ p.polRef
def refersLog (key : String) (p : Prot) : Bool := p.logRef ≠ "" && (key = p.logRef || key = p.ns ++ "/" ++ p.logRef)

/-- Changes ("U"/"D" ++ kind:key) and problem keys of one operation, as sets. -/
def reeval (s : St) (ps : List Prot) : List String × List String :=
  (ps.map fun p => (if protReported s p then "U" else "D") ++ "prot:" ++ p.ns ++ "/" ++ p.name,
   (ps.filter fun p => !(protReported s p)).map fun p => "prot:" ++ p.ns ++ "/" ++ p.name)

def addPol (s : St) (key : String) (ok : Bool) : St × List String × List String :=
  let s' := { s with pols := s.pols.set key ok }
  let (c, p) := reeval s' ((s'.prots.filter fun kv => refersPol key kv.2).map (·.2))
  (s', ((if ok then "U" else "D") ++ "pol:" ++ key) :: c, (if ok then [] else ["APDosPolicy:" ++ key]) ++ p)

def addLog (s : St) (key : String) (ok : Bool) : St × List String × List String :=
  let s' := { s with logs := s.logs.set key ok }
  let (c, p) := reeval s' ((s'.prots.filter fun kv => refersLog key kv.2).map (·.2))
  (s', ((if ok then "U" else "D") ++ "log:" ++ key) :: c, (if ok then [] else ["APDosLogConf:" ++ key]) ++ p)

def addProt (s : St) (p : Prot) : St × List String × List String :=
  let s' := { s with prots := s.prots.set (p.ns ++ "/" ++ p.name) p }
  let (c, pr) := reeval s' [p]
  (s', c, pr)

def delPol (s : St) (key : String) : St × List String × List String :=
  let had := s.pols.contains key
  let s' := { s with pols := s.pols.erase key }
  let (c, p) := reeval s' ((s'.prots.filter fun kv => refersPol key kv.2).map (·.2))
  (s', (if had then ["Dpol:" ++ key] else []) ++ c, p)

def delLog (s : St) (key : String) : St × List String × List String :=
  let had := s.logs.contains key
  let s' := { s with logs := s.logs.erase key }
  let (c, p) := reeval s' ((s'.prots.filter fun kv => refersLog key kv.2).map (·.2))
  (s', (if had then ["Dlog:" ++ key] else []) ++ c, p)

def delProt (s : St) (key : String) : St × List String × List String :=
  if s.prots.contains key then ({ s with prots := s.prots.erase key }, ["Dprot:" ++ key], []) else (s, [], [])

end Nic.Dos
