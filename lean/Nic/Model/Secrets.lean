/-
  C11 — model of LocalSecretStore (internal/k8s/secrets/store.go) together with the
  Configurator's secret file handling (configurator.go AddOrUpdateSecret / DeleteSecret,
  AddOrUpdateCASecret, addOrUpdate{TLS,JWK,Htpasswd}Secret) and the LocalManager's secrets
  directory.  `valid` is the verdict of the real ValidateSecret (a parameter).
-/
import Nic.Model.Arb
namespace Nic.Sec
open Nic.Arb (Map)

inductive Typ where
  | tls | jwk | htp | ca | oidc | api | other
  deriving DecidableEq, Repr, Inhabited

structure Entry where
  typ : Typ
  ver : Nat
  valid : Bool
  hasPath : Bool            -- SecretReference.Path ≠ ""
  deriving DecidableEq, Repr, Inhabited

/-- A file in the secrets directory: which secret version it was derived from, which part, mode. -/
structure File where
  key : String
  ver : Nat
  part : String             -- "" | "crt" | "crl"
  mode : Nat                -- octal digits as a decimal number, e.g. 600
  deriving DecidableEq, Repr, Inhabited

structure St where
  store : Map Entry := []
  dir : Map File := []
  deriving Repr

def fileName (key : String) : String := String.ofList (key.toList.map fun x => if x = '/' then '-' else x)

/-- `Configurator.AddOrUpdateSecret`: writes the files of the secret; returns the new directory and
whether a path is reported (OIDC / API key / license secrets have no file). -/
def writeFiles (dir : Map File) (key : String) (e : Entry) : Map File × Bool :=
  match e.typ with
  | .ca => ((dir.set (fileName key ++ "-ca.crt") ⟨key, e.ver, "crt", 600⟩).set (fileName key ++ "-ca.crl") ⟨key, e.ver, "crl", 600⟩, true)
  | .jwk => (dir.set (fileName key) ⟨key, e.ver, "", 644⟩, true)
  | .htp => (dir.set (fileName key) ⟨key, e.ver, "", 644⟩, true)
  | .oidc => (dir, false)
  | .api => (dir, false)
  | _ => (dir.set (fileName key) ⟨key, e.ver, "", 600⟩, true)   -- TLS (and anything else that got this far)

/-- `Configurator.DeleteSecret`: removes `ns-name` — also for CA secrets, whose files are named differently. -/
def deleteFiles (dir : Map File) (key : String) : Map File := dir.erase (fileName key)

inductive Op where
  | add (key : String) (typ : Typ) (ver : Nat) (valid : Bool)
  | del (key : String)
  | get (key : String)
  deriving Repr

structure GetObs where
  hasPath : Bool
  isError : Bool
  deriving DecidableEq, Repr

def step (s : St) : Op → St × Option GetObs
  | .add key typ ver valid =>
    -- a Secret's type is immutable: another type under the same key is a re-created Secret, and the files of the old type are
    -- not the files of the new one — they are removed, the new ones are written by the next lookup (fix of S-C11-c)
    let retyped := match s.store.get? key with | some e => e.hasPath && e.typ ≠ typ | none => false
    let dir0 := if retyped then deleteFiles s.dir key else s.dir
    let hadPath := match s.store.get? key with | some e => e.hasPath && !retyped | none => false
    let e : Entry := ⟨typ, ver, valid, hadPath⟩
    if hadPath then
      if !valid then
        ({ store := s.store.set key { e with hasPath := false }, dir := deleteFiles dir0 key }, none)
      else
        let (dir, p) := writeFiles dir0 key e
        ({ store := s.store.set key { e with hasPath := p }, dir := dir }, none)
    else ({ store := s.store.set key e, dir := dir0 }, none)
  | .del key =>
    match s.store.get? key with
    | none => (s, none)
    | some e =>
      let s' := { s with store := s.store.erase key }
      if e.hasPath then ({ s' with dir := deleteFiles s.dir key }, none) else (s', none)
  | .get key =>
    match s.store.get? key with
    | none => (s, some ⟨false, true⟩)
    | some e =>
      if e.valid && !e.hasPath then
        let (dir, p) := writeFiles s.dir key e
        ({ store := s.store.set key { e with hasPath := p }, dir := dir }, some ⟨p, false⟩)
      else (s, some ⟨e.hasPath, !e.valid⟩)

end Nic.Sec
