/-
  C16 — model of LoadBalancerController.HasCorrectIngressClass (controller.go:3262).
  `none` stands for an absent annotation / nil field.
-/
namespace Nic.Class

inductive Kind where
  | ingress | vs | vsr | ts | policy | other
  deriving DecidableEq, Repr

/-- `ours` is the controller's -ingress-class. For an Ingress the deprecated annotation, when
present and non-empty, takes precedence over `spec.ingressClassName`; an Ingress without any class
is not ours. Custom resources are ours when their class is ours or empty. -/
def hasCorrectClass (ours : String) (k : Kind) (ann field : Option String) : Bool :=
  match k with
  | .ingress =>
    let a := ann.getD ""
    let cls := if a = "" then (match field with | some f => f | none => "") else a
    cls = ours
  | .vs | .vsr | .ts | .policy =>
    let f := field.getD ""
    f = ours || f = ""
  | .other => false

/-- `statusUpdater.UpdatePolicyStatus`: a status write is issued iff the *latest stored* version exists
and is of our class — the class of the object the caller happens to hold is irrelevant. -/
def policyStatusWrite (ours : String) (stored : Option String) : Bool :=
  match stored with
  | none => false
  | some c => hasCorrectClass ours .policy none (some c)

end Nic.Class
