/-
  C19 — model of internal/k8s/appprotect/app_protect_configuration.go
  (ConfigurationImpl: AddOrUpdate/Delete of APPolicy, APLogConf, APUserSig; detectDuplicateTags,
  reconcileUserSigs, verifyPolicies, isReqSatisfiedByUserSig, GetAppResource).
  Go map ranges are folds over key-sorted association lists; the flags they compute do not
  depend on the order (theorems in Props/C19), the reported lists are compared as sets.
  Parameters: the verdict of the App Protect schema validators (`wellFormed`) and of the
  RFC 3339 parser (`tsOk`).
-/
import Nic.Model.Arb
namespace Nic.AP
open Nic.Arb (Map Meta beats)

structure Sig where
  md : Meta
  tag : String
  rev : Option Nat           -- revisionDatetime (minutes)
  wellFormed : Bool          -- ValidateAppProtectUserSig
  tsOk : Bool                -- revisionDatetime parses
  deriving DecidableEq, Repr, Inhabited

structure SigEx where
  sig : Sig
  tag : String               -- "" when the spec has no tag or the timestamp is bad
  valid : Bool
  err : String               -- "" | validation | dup-tag | bad-ts
  deriving DecidableEq, Repr, Inhabited

structure Req where
  tag : String
  min : Option Nat
  max : Option Nat
  deriving DecidableEq, Repr, Inhabited

structure Pol where
  key : String
  wellFormed : Bool
  tsOk : Bool
  reqs : List Req
  deriving DecidableEq, Repr, Inhabited

structure PolEx where
  pol : Pol
  valid : Bool
  err : String               -- "" | validation | missing-sig | bad-ts
  deriving DecidableEq, Repr, Inhabited

structure St where
  sigs : Map SigEx := []
  pols : Map PolEx := []
  logs : Map Bool := []      -- key → valid
  deriving Repr

/-- `createAppProtectUserSigEx` -/
def mkSigEx (s : Sig) : SigEx :=
  if !s.wellFormed then ⟨s, "", false, "validation"⟩
  else if !s.tsOk then ⟨s, "", false, "bad-ts"⟩
  else ⟨s, s.tag, true, ""⟩

/-- `isReqSatisfiedByUserSig` (after the S-C19-a fix) -/
def reqSatisfiedBy (r : Req) (s : SigEx) : Bool :=
  if s.tag = "" || s.tag ≠ r.tag then false else
  match s.sig.rev with
  | none => true
  | some rev =>
    match r.min, r.max with
    | none, none => true
    | some mn, some mx => decide (rev < mx) && decide (mn < rev)
    | none, some mx => decide (rev < mx)
    | some mn, none => decide (mn < rev)

def reqSatisfied (r : Req) (sigs : Map SigEx) : Bool := sigs.any fun kv => reqSatisfiedBy r kv.2 && kv.2.valid

def polSatisfied (p : Pol) (sigs : Map SigEx) : Bool := p.reqs.all fun r => reqSatisfied r sigs

/-- `createAppProtectPolicyEx` + the check in `AddOrUpdatePolicy`. -/
def mkPolEx (p : Pol) (sigs : Map SigEx) : PolEx :=
  if !p.wellFormed then ⟨p, false, "validation"⟩
  else if !p.tsOk then ⟨p, false, "bad-ts"⟩
  else if polSatisfied p sigs then ⟨p, true, ""⟩
  else ⟨p, false, "missing-sig"⟩

/-- Members of a tag group (`detectDuplicateTags`): every signature set with that tag that did not
fail schema validation. -/
def group (sigs : Map SigEx) (tag : String) : List (String × SigEx) :=
  sigs.filter fun kv => kv.2.tag = tag && kv.2.err ≠ "validation"

/-- The winner of a group: first element of the sorted slice = the member that beats all others. -/
def winnerKey (g : List (String × SigEx)) : Option String :=
  (g.find? fun kv => g.all fun kv' => kv'.1 = kv.1 || beats kv.2.sig.md kv'.2.sig.md).map (·.1)

/-- `reconcileUserSigs`: in every group with a non-empty tag the winner becomes valid, the others
invalid ("duplicate tag set"). Returns the new map and the keys flipped to invalid (problems). -/
def reconcile (sigs : Map SigEx) : Map SigEx × List String :=
  let out := sigs.map fun kv =>
    let s := kv.2
    if s.tag = "" || s.err = "validation" then kv else
    let g := group sigs s.tag
    if winnerKey g = some kv.1 then (kv.1, { s with valid := true, err := "" })
    else if s.valid then (kv.1, { s with valid := false, err := "dup-tag" }) else kv
  let losers := (sigs.filter fun kv =>
    let s := kv.2
    !(s.tag = "" || s.err = "validation") && winnerKey (group sigs s.tag) ≠ some kv.1 && s.valid).map (·.1)
  (out, losers)

/-- `verifyPolicies`: returns new map, policies switched on, policies switched off. -/
def verifyPolicies (pols : Map PolEx) (sigs : Map SigEx) : Map PolEx × List String × List String :=
  let out := pols.map fun kv =>
    let p := kv.2
    if !p.valid && p.err = "missing-sig" then
      if polSatisfied p.pol sigs then (kv.1, { p with valid := true, err := "" }) else kv
    else if p.valid then
      if !(polSatisfied p.pol sigs) then (kv.1, { p with valid := false, err := "missing-sig" }) else kv
    else kv
  let on := (pols.filter fun kv => !kv.2.valid && kv.2.err = "missing-sig" && polSatisfied kv.2.pol sigs).map (·.1)
  let off := (pols.filter fun kv => kv.2.valid && !(polSatisfied kv.2.pol sigs)).map (·.1)
  (out, on, off)

structure SigOut where
  polDel : List String
  polAdd : List String
  userSigs : List String       -- keys of all valid signature sets
  problems : List (String × String)
  deriving Repr

def afterSigChange (s : St) (pre : List (String × String)) : St × SigOut :=
  let (sigs, losers) := reconcile s.sigs
  let (pols, on, off) := verifyPolicies s.pols sigs
  ({ s with sigs := sigs, pols := pols },
   ⟨off, on, (sigs.filter (·.2.valid)).map (·.1),
    pre ++ losers.map (fun k => (k, "dup-tag")) ++ off.map (fun k => (k, "missing-sig"))⟩)

def addSig (s : St) (x : Sig) : St × SigOut :=
  let e := mkSigEx x
  afterSigChange { s with sigs := s.sigs.set x.md.key e } (if e.err ≠ "" then [(x.md.key, e.err)] else [])

def delSig (s : St) (key : String) : St × Option SigOut :=
  if s.sigs.contains key then
    let (s', o) := afterSigChange { s with sigs := s.sigs.erase key } []
    (s', some o)
  else (s, none)

structure ChOut where
  changes : List (String × String)      -- ("U"|"D", key)
  problems : List (String × String)
  deriving Repr

def addPol (s : St) (p : Pol) : St × ChOut :=
  let e := mkPolEx p s.sigs
  ({ s with pols := s.pols.set p.key e },
   if e.valid then ⟨[("U", p.key)], []⟩ else ⟨[("D", p.key)], [(p.key, e.err)]⟩)

def delPol (s : St) (key : String) : St × ChOut :=
  if s.pols.contains key then ({ s with pols := s.pols.erase key }, ⟨[("D", key)], []⟩) else (s, ⟨[], []⟩)

def addLog (s : St) (key : String) (ok : Bool) : St × ChOut :=
  ({ s with logs := s.logs.set key ok }, if ok then ⟨[("U", key)], []⟩ else ⟨[("D", key)], [(key, "validation")]⟩)

def delLog (s : St) (key : String) : St × ChOut :=
  if s.logs.contains key then ({ s with logs := s.logs.erase key }, ⟨[("D", key)], []⟩) else (s, ⟨[], []⟩)

/-- `GetAppResource`: usable iff stored and valid. -/
def usable (s : St) (kind key : String) : Bool :=
  match kind with
  | "APPolicy" => (s.pols.get? key).map (·.valid) |>.getD false
  | "APLogConf" => (s.logs.get? key).getD false
  | "APUserSig" => (s.sigs.get? key).map (·.valid) |>.getD false
  | _ => false

end Nic.AP
