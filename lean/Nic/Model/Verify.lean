/-
  C13 — model of internal/nginx/verify.go (WaitForCorrectVersion,
  GetConfigVersion, strconv.Atoi on the body) and of the version bookkeeping of
  internal/nginx/manager.go (Reload, UpdateServersInPlus,
  UpdateStreamServersInPlus).  Core Lean only, executable.

  Time is abstract (milliseconds as `Nat`).  A schedule is the finite list of
  answers the version endpoint gives to successive polls; when it is exhausted
  the endpoint hangs (the poll ends with the request timeout).
-/
namespace Nic.Verify

/-- What the endpoint answers to one poll. Bodies are bytes (one `Char` each). -/
inductive Ans where
  | body (s : List Char)   -- HTTP 200 with this body
  | non200                 -- any other status
  | err                    -- transport error
  deriving Repr, DecidableEq

structure Poll where
  ans : Ans
  cost : Nat               -- time the answer takes
  deriving Repr, DecidableEq

/-! ### strconv.Atoi -/

def digitVal (c : Char) : Option Nat :=
  if 48 ≤ c.toNat ∧ c.toNat ≤ 57 then some (c.toNat - 48) else none

/-- Value of a non-empty all-digit string (accumulator form). -/
def digits : List Char → Nat → Option Nat
  | [], acc => some acc
  | c :: r, acc => match digitVal c with
    | some d => digits r (acc * 10 + d)
    | none => none

def stripSign : List Char → Bool × List Char
  | '-' :: r => (true, r)
  | '+' :: r => (false, r)
  | s => (false, s)

/-- `strconv.Atoi` on a 64-bit platform: optional sign, at least one decimal
digit, nothing else (no spaces, no underscores), value within int64. -/
def atoi (s : List Char) : Option Int :=
  match stripSign s with
  | (neg, ds) =>
    if ds = [] then none else
    match digits ds 0 with
    | none => none
    | some n =>
      let v : Int := if neg then -(n : Int) else (n : Int)
      if -(9223372036854775808 : Int) ≤ v ∧ v < 9223372036854775808 then some v else none

/-! ### one poll -/

inductive Outcome where
  | hit      -- 200, parses, equals the expected version
  | wrong    -- 200, parses, another version
  | error    -- anything else (GetConfigVersion returns an error)
  deriving Repr, DecidableEq

/-- `GetConfigVersion` followed by the comparison in `WaitForCorrectVersion`.
The request carries a context with the same timeout as the whole wait, so an
answer slower than that is a transport error. -/
def outcome (expected : Int) (timeout : Nat) (p : Poll) : Outcome :=
  if timeout ≤ p.cost then .error else
  match p.ans with
  | .body s => match atoi s with
    | some v => if v = expected then .hit else .wrong
    | none => .error
  | .non200 => .error
  | .err => .error

/-- Time consumed by one loop iteration that did not return. -/
def stepTime (expected : Int) (timeout interval : Nat) (p : Poll) : Nat :=
  if outcome expected timeout p = .wrong then p.cost + interval else min p.cost timeout

inductive Res where
  | ok | fail
  deriving Repr, DecidableEq

/-- `WaitForCorrectVersion`: the deadline is checked at the head of the loop;
an error `continue`s at once, a wrong version sleeps `interval`. `t` is the
time elapsed since the start. -/
def wait (expected : Int) (timeout interval : Nat) : Nat → List Poll → Res
  | _, [] => .fail                       -- endpoint hangs: last poll times out, then the deadline has passed
  | t, p :: rest =>
    if timeout ≤ t then .fail
    else if outcome expected timeout p = .hit then .ok
    else wait expected timeout interval (t + stepTime expected timeout interval p) rest

/-- Instrumented twin used by the driver: also counts the polls issued and the
smallest distance of any timing comparison from its threshold (so that the
correspondence check can skip schedules whose verdict depends on jitter). -/
structure Trace where
  res : Res
  polls : Nat
  margin : Nat
  elapsed : Nat
  deriving Repr

def dist (a b : Nat) : Nat := if a < b then b - a else a - b + 1

def waitT (expected : Int) (timeout interval : Nat) : Nat → Nat → Nat → List Poll → Trace
  | t, n, m, [] =>
    if timeout ≤ t then ⟨.fail, n, min m (dist t timeout), t⟩
    else ⟨.fail, n + 1, min m (dist t timeout), t + timeout⟩
  | t, n, m, p :: rest =>
    let m := min m (dist t timeout)
    if timeout ≤ t then ⟨.fail, n, m, t⟩ else
    let m := min m (dist p.cost timeout)
    if outcome expected timeout p = .hit then ⟨.ok, n + 1, m, t + p.cost⟩
    else waitT expected timeout interval (t + stepTime expected timeout interval p) (n + 1) m rest

/-! ### manager bookkeeping -/

structure Mgr where
  ver : Nat := 0
  deriving Repr

structure ReloadObs where
  res : Res
  tag : Nat        -- version this reload was tagged with
  file : Nat       -- version written to config-version.conf
  polls : Nat
  margin : Nat
  deriving Repr

/-- `LocalManager.Reload`: the version is incremented and written *before*
anything else; the binary's failure is returned; otherwise the verdict is the
wait for exactly the new version. -/
def reload (timeout interval : Nat) (m : Mgr) (binOk : Bool) (sched : List Poll) : Mgr × ReloadObs :=
  let v := m.ver + 1
  let m' : Mgr := { ver := v }
  if binOk then
    let tr := waitT (v : Int) timeout interval 0 0 (timeout + 1) sched
    (m', ⟨tr.res, v, v, tr.polls, tr.margin⟩)
  else (m', ⟨.fail, v, v, 0, timeout + 1⟩)

structure UpdateObs where
  res : Res
  header : Nat     -- x-expected-config-version sent with the check
  apiCalled : Bool
  deriving Repr

/-- `UpdateServersInPlus` / `UpdateStreamServersInPlus`: the worker behind the
API socket is asked whether it runs the current version (`worker = none`
stands for a failing check request); the API is touched only on 200. The API
itself is scripted to fail, so the operation's result is always an error. -/
def update (m : Mgr) (worker : Option Nat) : UpdateObs :=
  let confirmed := worker = some m.ver
  ⟨.fail, m.ver, confirmed⟩

structure ConnObs where
  res : Res
  unconfirmed : Nat      -- API requests served by a worker that had not confirmed the version on that connection
  apiSeen : Bool
  deriving Repr

/-- The same operation at the level of connections: the i-th connection accepted on the API socket belongs to a worker process
running `workers[i]`. The version check and the API requests share one keep-alive client, so the requests that follow a successful
check travel on the connection — to the worker — that answered it; nothing is sent when the first worker does not confirm. -/
def updateConn (m : Mgr) (workers : List (Option Nat)) : ConnObs :=
  match workers with
  | w0 :: _ => if w0 = some m.ver then ⟨.ok, 0, true⟩ else ⟨.fail, 0, false⟩
  | [] => ⟨.fail, 0, false⟩

/-- Decimal rendering used by the version file template (`{{.ConfigVersion}}`). -/
def versionText (v : Nat) : String := toString v

end Nic.Verify
