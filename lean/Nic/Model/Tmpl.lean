import Nic.Model.NgxLex
/-
  Tmpl — the NGINX configuration templates as data (regenerated from /repo by tools/templates into
  `Nic/Gen/Templates.lean`) and an abstract interpreter that computes, for **all** environments at once (every
  combination of `if` branches, every number of `range` iterations, every value of the expected class at every
  interpolation site), the set of tokenizer states a template can be in.  The obligation per template is that no
  lexical error is reachable and that every state at the end of the file is an acceptable end of file: blocks
  balanced, quotes closed, every directive terminated — whatever the resources look like.

  What is assumed about an interpolation site (checked by C06's theorems and search, not here): a *value* site
  writes a possibly empty sequence of tokens when it stands between tokens, and text that is inert in its context
  (`WordSafe`, `QuoteSafe`) when it stands inside a word or a quoted token; a *fragment* site (helper functions that
  return whole directives) writes a closed piece of configuration.
-/
namespace Nic.Tmpl
open Nic.NgxLex

mutual
inductive T where
  | text (s : String)
  | hole (frag : Bool) (label : String)
  | ite (a b : TL)
  | loop (body els : TL)
inductive TL where
  | nil
  | cons (t : T) (r : TL)
end

/-- argument counts only matter as zero / non-zero; clipping keeps the state space finite -/
def clip (s : St) : St := { s with nargs := min s.nargs 1 }

/-- literal text: the tokenizer itself; `none` on a lexical error -/
def runText (s : St) : List Char → Option St
  | [] => some s
  | c :: cs =>
    let r := step s c
    if r.1.err then none else runText (clip r.1) cs

def addState (acc : List St) (s : St) : List St := if acc.contains s then acc else acc ++ [s]

def union (a b : List St) : List St := b.foldl addState a

/-- states after an interpolation site -/
def holeStates (frag : Bool) (s : St) : Option (List St) :=
  if s.esc then none
  else if frag then (if s.mode == .space && s.nargs == 0 then some [s] else none)
  else match s.mode with
    | .space =>
      -- at the start of a directive the value is taken to be non-empty (such sites are guarded by an `if` in the
      -- templates: `{{if $u.LBMethod}}{{$u.LBMethod}};{{end}}`); as an argument it may be empty
      -- a value that ends in a closing quote (`need`) behaves like one that ends inside a word for every separator that
      -- can follow; it is represented by the word state, which also allows a literal suffix (`{{ .T }}s;`)
      if s.nargs == 0 then some [{ s with mode := .word }, { s with mode := .word, nargs := 1 }]
      else some [s, { s with mode := .word }]
    | .word => some (if s.var then [s, { s with var := false }] else [s])
    | .dq => some [{ s with var := false }, { s with var := true }]
    | .sq => some [{ s with var := false }, { s with var := true }]
    | .need => some [s]
    | .comment => some [s]

def mapStates (f : St → Option (List St)) : List St → Option (List St)
  | [] => some []
  | s :: rest =>
    match f s, mapStates f rest with
    | some a, some b => some (union a b)
    | _, _ => none

mutual
def runT : T → List St → Option (List St)
  | .text s, ss => mapStates (fun q => (runText q s.toList).map fun r => [r]) ss
  | .hole frag _, ss => mapStates (holeStates frag) ss
  | .ite a b, ss =>
    match runTL a ss, runTL b ss with
    | some x, some y => some (union x y)
    | _, _ => none
  | .loop body els, ss =>
    -- zero iterations: the else branch; one or more: the states before an iteration are closed under the body after
    -- at most three rounds (checked: `none` otherwise), and the loop may end in any state the body then produces
    match runTL els ss, runTL body ss with
    | some z, some f0 =>
      let x1 := union ss f0
      match runTL body x1 with
      | none => none
      | some f1 =>
        let x2 := union x1 f1
        match runTL body x2 with
        | none => none
        | some f2 =>
          let x3 := union x2 f2
          match runTL body x3 with
          | none => none
          | some f3 => if (union x3 f3).length == x3.length then some (union z f3) else none
    | _, _ => none
def runTL : TL → List St → Option (List St)
  | .nil, ss => some ss
  | .cons t r, ss =>
    match runT t ss with
    | none => none
    | some ss' => runTL r ss'
end

/-- The obligation: from the start of a file, no error is reachable and every final state is an acceptable end. -/
def wellFormedForAll (t : TL) : Bool :=
  match runTL t [init] with
  | some ss => ss.all eofOk
  | none => false

end Nic.Tmpl
