/-
  C08 — model of how an unusable policy or certificate is turned into "answer with an error".
  `generatePolicies` (internal/configs/virtualserver.go): walk the references of one scope in order; a reference that
  is not in the policy table (missing / invalid / of another class: `getPolicies` drops those) or whose policy reports
  `isError` ends the walk with `ErrorReturn 500`.
-/
namespace Nic.Policies

inductive Dep | ok | missing | invalid | wrongType
  deriving DecidableEq, Repr

inductive Kind | acl | rl | jwt | basic | imtls | emtls | oidc | apikey | waf
  deriving DecidableEq, Repr

inductive Ctx | spec | route | subroute
  deriving DecidableEq, Repr

/-- A policy as the generator sees it: its kind and the state of what it depends on (dep1: the secret / App Protect
policy; dep2: the second secret of egressMTLS / the App Protect log configuration; unused ones are `ok`).
`addWAFConfig` returns early only for a missing App Protect policy; a missing bundle, log configuration or log bundle sets
`isError` and goes on — every one of them must make the scope answer with an error. -/
structure Pol where
  kind : Kind
  dep1 : Dep
  dep2 : Dep
  /-- further things a WAF policy depends on, each of which must be usable: the App Protect bundle (`apBundle`, checked on
  disk), the log configuration / log bundle of every further `securityLogs` entry. Empty for every other kind. -/
  extra : List Dep := []
  deriving DecidableEq, Repr

def Dep.bad (d : Dep) : Bool := d != .ok

/-- Kinds of which a second policy in the same context is ignored with a warning. -/
def Kind.single : Kind → Bool
  | .jwt | .basic | .imtls | .emtls | .oidc | .waf => true
  | _ => false

/-- `res.isError` of the add…Config function of the policy's kind, for a policy that is not ignored. -/
def isError (ctx : Ctx) (tls : Bool) (configured : List Kind) (p : Pol) : Bool :=
  match p.kind with
  | .acl | .rl => false
  | .jwt | .basic | .oidc => p.dep1.bad
  | .imtls => !tls || ctx != .spec || p.dep1.bad
  | .emtls => p.dep1.bad || p.dep2.bad
  | .apikey => configured.contains .apikey || p.dep1.bad
  | .waf => p.dep1.bad || p.dep2.bad || p.extra.any Dep.bad

/-- ingressMTLS checks TLS and context before it checks for an earlier policy of its kind. -/
def ignored (ctx : Ctx) (tls : Bool) (configured : List Kind) (p : Pol) : Bool :=
  p.kind.single && configured.contains p.kind && !(p.kind == .imtls && (!tls || ctx != .spec))

/-- generatePolicies: does the scope end up with `ErrorReturn 500`? -/
def errorReturn (ctx : Ctx) (tls : Bool) (table : String → Option Pol) : List String → List Kind → Bool
  | [], _ => false
  | r :: rs, configured =>
    match table r with
    | none => true
    | some p =>
      if ignored ctx tls configured p then errorReturn ctx tls table rs configured
      else if isError ctx tls configured p then true
      else errorReturn ctx tls table rs (p.kind :: configured)

/-- Scope wiring of GenerateVirtualServerConfig: the spec's result goes on the server, a route's on each of its locations,
a subroute's likewise; a subroute without policies of its own inherits those of the VirtualServer route that delegates to it. -/
def subrouteRefs (own inherited : List String) : List String := if own.isEmpty then inherited else own

/-- A request for a location is answered with an error when the server or the location carries the error return. -/
def answeredWithError (tls : Bool) (table : String → Option Pol) (specRefs locRefs : List String) (locCtx : Ctx) : Bool :=
  errorReturn .spec tls table specRefs [] || errorReturn locCtx tls table locRefs []

/-! ### TLS termination and Ingress authentication -/

structure SSL where
  reject : Bool
  certificate : Option String
  deriving DecidableEq, Repr

/-- generateSSLConfig / addSSLConfig for a host that names a TLS Secret. -/
def sslConfig (secret : Dep) (path : String) : SSL :=
  match secret with
  | .ok => ⟨false, some path⟩
  | _ => ⟨true, none⟩

/-- Ingress `generateJWTConfig` / `generateBasicAuthConfig`: the directives are emitted whenever the annotation is present;
the key file path is always set (configurator.go sets `SecretRefs[…].Path` even for an unusable Secret). -/
def ingressAuthConfigured (annotationPresent : Bool) (_secret : Dep) : Bool := annotationPresent

end Nic.Policies
