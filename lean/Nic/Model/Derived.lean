/-
  C20 — model of the derived-object synchronisation:
  internal/certmanager/sync.go (SyncFnFor, buildCertificates, certNeedsUpdate,
  findCertificatesToBeRemoved) and internal/externaldns/sync.go (SyncFnFor, buildDNSEndpoint,
  extdnsendpointNeedsUpdate).  The specification part of an object (spec, labels and the
  annotations the controller manages) is an opaque value `σ`; `desired` is what
  translateVsSpec / buildDNSEndpoint compute from the VirtualServer.
-/
import Nic.Model.Arb
namespace Nic.Derived
open Nic.Arb (Map)

inductive Owner where
  | none | other | own           -- no controller reference | another controller | this VirtualServer
  deriving DecidableEq, Repr, Inhabited

structure Obj (σ : Type) where
  owner : Owner
  spec : σ
  deriving Repr

inductive Action (σ : Type) where
  | create (name : String) (spec : σ)
  | update (name : String) (spec : σ)
  | delete (name : String)
  deriving Repr

def apply {σ} (c : Map (Obj σ)) : Action σ → Map (Obj σ)
  | .create n s => c.set n ⟨.own, s⟩
  | .update n s => c.set n ⟨.own, s⟩
  | .delete n => c.erase n

/-- Writes for the object named `name` (buildCertificates / buildDNSEndpoint). -/
def upsert {σ} [DecidableEq σ] (c : Map (Obj σ)) (name : String) (want : σ) : List (Action σ) :=
  match c.get? name with
  | none => [.create name want]
  | some o =>
    if o.owner ≠ .own then []            -- not ours: never touched
    else if o.spec ≠ want then [.update name want] else []

/-- `findCertificatesToBeRemoved`: Certificates controlled by this VirtualServer that it no longer needs. -/
def garbage {σ} (c : Map (Obj σ)) (keep : String) : List (Action σ) :=
  (c.filter fun kv => kv.2.owner = .own && kv.1 ≠ keep).map fun kv => .delete kv.1

/-- One synchronisation of the cert-manager side. `desired = none`: the VirtualServer has no
`tls.cert-manager` block (the function returns at once). -/
def syncCert {σ} [DecidableEq σ] (c : Map (Obj σ)) (desired : Option (String × σ)) : List (Action σ) :=
  match desired with
  | none => []
  | some (name, want) =>
    let a := upsert c name want
    a ++ garbage (a.foldl apply c) name

/-- One synchronisation of the ExternalDNS side (the DNSEndpoint is named after the VirtualServer; nothing is collected). -/
def syncDns {σ} [DecidableEq σ] (c : Map (Obj σ)) (name : String) (desired : Option σ) : List (Action σ) :=
  match desired with
  | none => []
  | some want => upsert c name want

def run {σ} (c : Map (Obj σ)) (as : List (Action σ)) : Map (Obj σ) := as.foldl apply c

end Nic.Derived
