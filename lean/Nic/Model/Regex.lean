/-
  Regex — the regular expressions of the controller's validators as data (regenerated from /repo's source by
  tools/regexes into `Nic/Gen/Regexes.lean`), their denotational semantics, an executable matcher (Brzozowski
  derivatives, compared with Go's `regexp` by the `re` correspondence), and an abstract interpreter that runs a
  regular expression against a small deterministic automaton (`Dfa`) — e.g. "stays inside a double-quoted NGINX
  token" — and decides whether *every* string of the language is accepted by the automaton.
  Core Lean only.
-/
namespace Nic.Regex

/-- Character ranges are inclusive code-point intervals. -/
abbrev Ranges := List (Nat × Nat)

inductive Re where
  | eps                      -- the empty string
  | nil                      -- nothing
  | cls (rs : Ranges)        -- one character in the ranges
  | cat (a b : Re)
  | alt (a b : Re)
  | star (a : Re)
  deriving Repr, Inhabited, DecidableEq

def inRanges (rs : Ranges) (n : Nat) : Bool := rs.any fun r => r.1 ≤ n && n ≤ r.2

/-- The language of a regular expression. -/
inductive Matches : Re → List Char → Prop where
  | eps : Matches .eps []
  | cls {rs : Ranges} {c : Char} : inRanges rs c.toNat = true → Matches (.cls rs) [c]
  | cat {a b : Re} {s t : List Char} : Matches a s → Matches b t → Matches (.cat a b) (s ++ t)
  | altL {a b : Re} {s : List Char} : Matches a s → Matches (.alt a b) s
  | altR {a b : Re} {s : List Char} : Matches b s → Matches (.alt a b) s
  | starNil {a : Re} : Matches (.star a) []
  | starCons {a : Re} {s t : List Char} : Matches a s → Matches (.star a) t → Matches (.star a) (s ++ t)

/-! ### executable matcher (derivatives) -/

def nullable : Re → Bool
  | .eps => true
  | .nil => false
  | .cls _ => false
  | .cat a b => nullable a && nullable b
  | .alt a b => nullable a || nullable b
  | .star _ => true

/-- Smart constructors keep derivatives small. -/
def mkCat : Re → Re → Re
  | .nil, _ => .nil
  | _, .nil => .nil
  | .eps, b => b
  | a, .eps => a
  | a, b => .cat a b

def mkAlt : Re → Re → Re
  | .nil, b => b
  | a, .nil => a
  | a, b => if a = b then a else .alt a b

def deriv (c : Char) : Re → Re
  | .eps => .nil
  | .nil => .nil
  | .cls rs => if inRanges rs c.toNat then .eps else .nil
  | .cat a b => if nullable a then mkAlt (mkCat (deriv c a) b) (deriv c b) else mkCat (deriv c a) b
  | .alt a b => mkAlt (deriv c a) (deriv c b)
  | .star a => mkCat (deriv c a) (.star a)

def matchB (r : Re) : List Char → Bool
  | [] => nullable r
  | c :: cs => matchB (deriv c r) cs

/-! ### abstract interpretation against a small automaton -/

/-- A deterministic automaton that reads characters by class: class `i < specials.length` is the single code point
`specials[i]`; class `specials.length` is every other character. -/
structure Dfa where
  specials : List Nat
  states : Nat
  δ : Nat → Nat → Nat

def Dfa.classOf (d : Dfa) (c : Char) : Nat := d.specials.idxOf c.toNat

def Dfa.run (d : Dfa) (p : Nat) : List Char → Nat
  | [] => p
  | c :: cs => d.run (d.δ p (d.classOf c)) cs

/-- Transitions stay inside the state set. -/
def Dfa.wf (d : Dfa) : Bool :=
  (List.range d.states).all fun p => (List.range (d.specials.length + 1)).all fun k => d.δ p k < d.states

abbrev Rel := List (Nat × Nat)

/-- Classes a range list can produce (over-approximated: a range that is not exactly one special character may
produce "other"). -/
def Dfa.hit (d : Dfa) (rs : Ranges) : List Nat :=
  ((List.range d.specials.length).filter fun i => inRanges rs (d.specials.getD i 0)) ++
    (if rs.any (fun r => !(r.1 == r.2 && d.specials.contains r.1)) then [d.specials.length] else [])

def Dfa.idRel (d : Dfa) : Rel := (List.range d.states).map fun p => (p, p)

def Dfa.clsRel (d : Dfa) (ks : List Nat) : Rel :=
  (List.range d.states).flatMap fun p => ks.map fun k => (p, d.δ p k)

def addNew (X Y : Rel) : Rel := Y.foldl (fun acc e => if acc.contains e then acc else acc ++ [e]) X

/-- `comp X Y` = first `X`, then `Y` (without duplicates: relations stay small). -/
def comp (X Y : Rel) : Rel :=
  addNew [] (X.flatMap fun pq => (Y.filter fun qr => qr.1 == pq.2).map fun qr => (pq.1, qr.2))

def subRel (X Y : Rel) : Bool := X.all fun e => Y.contains e

/-- Least relation containing `X` and closed under prefixing by `R`, if found within the fuel. -/
def starRel (R : Rel) : Nat → Rel → Option Rel
  | 0, X => if subRel (comp R X) X then some X else none
  | fuel + 1, X => if subRel (comp R X) X then some X else starRel R fuel (addNew X (comp R X))

/-- For every start state, an over-approximation of the states the automaton can be in after reading a string of
the language. -/
def Dfa.rel (d : Dfa) : Re → Option Rel
  | .eps => some d.idRel
  | .nil => some []
  | .cls rs => some (d.clsRel (d.hit rs))
  | .cat a b => match d.rel a, d.rel b with
    | some X, some Y => some (comp X Y)
    | _, _ => none
  | .alt a b => match d.rel a, d.rel b with
    | some X, some Y => some (addNew X Y)
    | _, _ => none
  | .star a => match d.rel a with
    | some R => starRel R (d.states * d.states + 1) d.idRel
    | none => none

/-- Decides: every string of the language, read from `start`, ends in a state satisfying `good`. -/
def Dfa.check (d : Dfa) (start : Nat) (good : Nat → Bool) (r : Re) : Bool :=
  d.wf && decide (start < d.states) &&
  match d.rel r with
  | some X => X.all fun e => e.1 != start || good e.2
  | none => false

/-! ### helpers for generated regex terms -/

def lit (s : String) : Re := s.toList.foldr (fun c acc => mkCat (.cls [(c.toNat, c.toNat)]) acc) .eps
def plus (a : Re) : Re := .cat a (.star a)
def opt (a : Re) : Re := .alt a .eps
def rep : Nat → Re → Re
  | 0, _ => .eps
  | n + 1, a => .cat a (rep n a)
def repOpt : Nat → Re → Re
  | 0, _ => .eps
  | n + 1, a => .alt .eps (.cat a (repOpt n a))
/-- `a{n,m}` -/
def repeatRange (n m : Nat) (a : Re) : Re := .cat (rep n a) (repOpt (m - n) a)
/-- `a{n,}` -/
def repeatMin (n : Nat) (a : Re) : Re := .cat (rep n a) (.star a)
def anyChar : Re := .cls [(0, 0x10FFFF)]
/-- An unanchored pattern matches if it matches somewhere. -/
def anywhere (a : Re) : Re := .cat (.star anyChar) (.cat a (.star anyChar))

end Nic.Regex
