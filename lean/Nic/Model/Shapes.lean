/-
  C17 — Go pointers made explicit. The model of every pointer-sensitive function on the Ingress path returns
  `Except Unit α`: `.error ()` is a nil-pointer / index panic. `Option` stands for a Go pointer, `List` for a slice.
-/
namespace Nic.Shapes

structure Svc where
  name : String
  portName : String
  portNumber : Nat
  deriving DecidableEq, Repr

structure Backend where
  service : Option Svc
  resource : Option String
  deriving DecidableEq, Repr

structure Path where
  backend : Backend
  deriving DecidableEq, Repr

structure Rule where
  host : String
  http : Option (List Path)        -- nil | &HTTPIngressRuleValue{Paths}
  deriving DecidableEq, Repr

inductive MType | regular | master | minion
  deriving DecidableEq, Repr

structure Ing where
  rules : List Rule
  defaultBackend : Option Backend
  tls : Nat
  challenge : Bool                 -- label acme.cert-manager.io/http01-solver=true
  mtype : MType
  deriving DecidableEq, Repr

abbrev P := Except Unit

def deref {α} : Option α → P α
  | some a => .ok a
  | none => .error ()

/-- What the API server guarantees about an Ingress: exactly one of service / resource per backend,
and an `http` value has at least one path. -/
def Backend.admissible (b : Backend) : Bool := b.service.isSome != b.resource.isSome

def Ing.admissible (i : Ing) : Bool :=
  (match i.defaultBackend with | some b => b.admissible | none => true) &&
  i.rules.all fun r => match r.http with
    | none => true
    | some ps => !ps.isEmpty && ps.all fun p => p.backend.admissible

/-- validateBackend: a resource backend is an error; the Service is not looked at. -/
def validateBackend (b : Backend) : Nat := if b.resource.isSome then 1 else 0

def defaultErrors (i : Ing) : Nat :=
  match i.defaultBackend with
  | some b => validateBackend b
  | none => 0

def ruleErrors (r : Rule) : Nat :=
  match r.http with
  | none => 0
  | some ps => (ps.map fun (p : Path) => validateBackend p.backend).sum

/-- validateIngressSpec, structural part (host and path syntax errors are not modelled: they never dereference anything). -/
def validateSpec (i : Ing) : Nat :=
  defaultErrors i + (if i.rules.isEmpty then 1 else (i.rules.map ruleErrors).sum)

def validateMaster (i : Ing) : Nat :=
  match i.rules with
  | [r] => (match r.http with | some (_ :: _) => 1 | _ => 0)
  | _ => 1

def validateMinion (i : Ing) : Nat :=
  (if i.tls > 0 then 1 else 0) +
  (match i.rules with
   | [r] => (match r.http with | some (_ :: _) => 0 | _ => 1)
   | _ => 1)

/-- validateChallengeIngress as it is now (after the fix): returns as soon as the Service is found missing. -/
def validateChallenge (i : Ing) : P Nat :=
  match i.rules with
  | [r] =>
    match r.http with
    | some [p] =>
      match p.backend.service with
      | none => .ok 1
      | some s => .ok (if s.portName ≠ "" then 1 else 0)
    | _ => .ok 1
  | _ => .ok 1

/-- validateChallengeIngress before the fix: records the error and reads `Service.Port.Name` regardless. -/
def validateChallengeOld (i : Ing) : P Nat :=
  match i.rules with
  | [r] =>
    match r.http with
    | some [p] =>
      match p.backend.service with
      | none => .error ()               -- p.Backend.Service.Port.Name with Service == nil
      | some s => .ok (if s.portName ≠ "" then 1 else 0)
    | _ => .ok 1
  | _ => .ok 1

def mergeableErrors (i : Ing) : Nat :=
  match i.mtype with
  | .master => validateMaster i
  | .minion => validateMinion i
  | .regular => 0

/-- validateIngress: the number of structural errors, or a panic. -/
def validate (i : Ing) : P Nat :=
  match (if i.challenge then validateChallenge i else .ok 0) with
  | .ok c => .ok (validateSpec i + mergeableErrors i + c)
  | .error e => .error e

def validateOld (i : Ing) : P Nat :=
  match (if i.challenge then validateChallengeOld i else .ok 0) with
  | .ok c => .ok (validateSpec i + mergeableErrors i + c)
  | .error e => .error e

/-- Every dereference that arbitration and generation perform on an accepted Ingress succeeds: `Backend.Service.*` of the
default backend and of every path (createIngressEx, the service reference checker, ingress.go, updatePlusEndpoints), `Rules[0]`
for master / minion / challenge Ingresses (rebuildHosts, buildMinionConfigs, convertIngressToVSR), `Rules[0].HTTP.Paths` for
minions and `Rules[0].HTTP.Paths[0].Backend.Service` for challenge Ingresses. -/
def derefsOk (i : Ing) : Bool :=
  (match i.defaultBackend with | some b => b.service.isSome | none => true) &&
  (i.rules.all fun r => match r.http with
    | none => true
    | some ps => ps.all fun p => p.backend.service.isSome) &&
  (if i.mtype ≠ .regular || i.challenge then
    match i.rules.head? with
    | none => false
    | some r =>
      (if i.mtype = .minion then r.http.isSome else true) &&
      (if i.challenge then (match r.http with | some (p :: _) => p.backend.service.isSome | _ => false) else true)
   else true)

def generate (i : Ing) : P Unit := if derefsOk i then .ok () else .error ()

end Nic.Shapes
