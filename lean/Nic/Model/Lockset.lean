/-
  C18 — lock discipline. One reader/writer mutex guards a set of locations; threads acquire and release it; an access
  to a guarded location is possible only while the thread holds the mutex in the mode the access needs (shared for a
  read, exclusive for a write). What a theorem can carry is the discipline, not the Go memory model.
-/
namespace Nic.Lockset

abbrev Thread := Nat

structure Mutex where
  writer : Option Thread
  readers : List Thread
  deriving Repr

inductive Step where
  | lock (t : Thread) | unlock (t : Thread) | rlock (t : Thread) | runlock (t : Thread)
  deriving Repr

/-- sync.RWMutex: Lock succeeds only when nobody holds it, RLock only when no writer holds it (a step that cannot
happen leaves the state unchanged — the goroutine blocks). -/
def step (m : Mutex) : Step → Mutex
  | .lock t => if m.writer.isNone && m.readers.isEmpty then { m with writer := some t } else m
  | .unlock t => if m.writer = some t then { m with writer := none } else m
  | .rlock t => if m.writer.isNone then { m with readers := t :: m.readers } else m
  | .runlock t => { m with readers := m.readers.erase t }

def run (m : Mutex) (tr : List Step) : Mutex := tr.foldl step m

def holdsW (m : Mutex) (t : Thread) : Prop := m.writer = some t
def holdsR (m : Mutex) (t : Thread) : Prop := t ∈ m.readers

/-- A read needs the mutex in either mode, a write needs it exclusively. -/
def canRead (m : Mutex) (t : Thread) : Prop := holdsW m t ∨ holdsR m t
def canWrite (m : Mutex) (t : Thread) : Prop := holdsW m t

def Inv (m : Mutex) : Prop := m.writer.isSome → m.readers = []

def init : Mutex := ⟨none, []⟩

/-! ### the regenerated table: which methods take the lock, which fields they touch -/

structure Fact where
  type : String
  method : String
  lock : String            -- "none" | "r" | "w"
  reads : List String
  writes : List String
  deriving Repr

/-- Does method `o` (run by an observer goroutine) respect the discipline against every method of the same type that the
worker may run: every field `o` touches and somebody writes is touched under the lock, in the right mode, by both. -/
def respects (facts : List Fact) (o : Fact) : Bool :=
  let written := fun (f : String) => facts.any fun w => w.type == o.type && w.writes.contains f
  (o.reads.all fun f => !written f || (o.lock != "none" && facts.all fun w => !(w.type == o.type && w.writes.contains f) || w.lock == "w")) &&
  (o.writes.all fun f => o.lock == "w" && facts.all fun w => !(w.type == o.type && (w.writes.contains f || w.reads.contains f)) || w.lock != "none")

end Nic.Lockset
