/-
  Twins of the Go data types and library functions that the translated functions (Nic/Gen/Fns.lean, written by tools/gofn from
  /repo on every run) are stated over. This file is hand-written and trusted as the meaning of those Go constructs:

  * `Time`: a `metav1.Time` as the instant it denotes (`Equal` / `Before` compare instants).
  * `StrMap`: a `map[string]string`; indexing an absent key gives "" (Go's zero value).
  * optional (pointer) fields are `Option`; `Go.notNil` is `!= nil`; `Go.deref` of `none` is the zero value — the translated
    definitions therefore say nothing about nil-dereference panics (that is C17's explicit-panic model, not this tie).
  * strings are compared by code point, which for valid UTF-8 is Go's byte-wise order.
  Core Lean only.
-/
namespace Nic.Go

structure Time where
  t : Int := 0
  deriving Repr, BEq, DecidableEq, Inhabited

def Time.Equal (a b : Time) : Bool := a.t == b.t
def Time.Before (a b : Time) : Bool := decide (a.t < b.t)

abbrev StrMap := List (String × String)

class Idx (α : Type) (κ : Type) (β : outParam Type) where
  idx : α → κ → β
instance : Idx StrMap String String where
  idx m k := ((m.find? (fun p => p.1 == k)).map (·.2)).getD ""
def idx {α κ β} [Idx α κ β] (m : α) (k : κ) : β := Idx.idx m k

class Fmt (α : Type) where
  fmt : α → String
instance : Fmt String where fmt s := s
instance : Fmt Int where fmt i := toString i
def fmt {α} [Fmt α] (a : α) : String := Fmt.fmt a

class Add (α : Type) where
  add : α → α → α
instance : Add String where add a b := a ++ b
instance : Add Int where add a b := a + b
def add {α} [Add α] (a b : α) : α := Add.add a b

def notNil {α} (o : Option α) : Bool := o.isSome
def deref {α} [Inhabited α] (o : Option α) : α := o.getD default

/-- `strings.ReplaceAll` for a one-character pattern (the only use in the translated functions); other patterns are rejected by
falling back to `String.replace`, whose agreement with Go is then part of the trusted base. -/
def replaceAll (s old new : String) : String :=
  match old.toList with
  | [c] => String.ofList (s.toList.flatMap fun x => if x = c then new.toList else [x])
  | _ => s.replace old new

def containsChars : List Char → List Char → Bool
  | [], [] => true
  | [], _ :: _ => false
  | s@(_ :: rest), p => p.isPrefixOf s || containsChars rest p
def contains (s sub : String) : Bool := containsChars s.toList sub.toList
def hasPrefix (s p : String) : Bool := p.toList.isPrefixOf s.toList
def hasSuffix (s p : String) : Bool := p.toList.isSuffixOf s.toList
class Len (α : Type) where
  len : α → Int
instance : Len String where len s := s.utf8ByteSize
instance {α} : Len (List α) where len l := l.length
def len {α} [Len α] (a : α) : Int := Len.len a

/-- A Go map with string keys and any other value type is its association list; the twins keep the keys distinct. Indexing an absent
key gives the zero value, the comma-ok form says whether the key is there, and `getSortedProblemKeys` (a loop that collects the keys
of the map and sorts them) is the list of keys of the key-sorted association list. -/
instance (priority := low) {β} [Inhabited β] : Idx (List (String × β)) String β where
  idx m k := ((m.find? (fun p => p.1 == k)).map (·.2)).getD default
def has {β} (m : List (String × β)) (k : String) : Bool := m.any (fun p => p.1 == k)
def sortedKeys {β} (m : List (String × β)) : List String := m.map (·.1)

/-- `xs[i]` on a slice: out of range is a panic in Go; the translated loops only index below `len` -/
instance {α} [Inhabited α] : Idx (List α) Nat α where
  idx l i := l.getD i default

structure ObjectMeta where
  Namespace : String := ""
  Name : String := ""
  UID : String := ""
  Generation : Int := 0
  CreationTimestamp : Time := {}
  Annotations : StrMap := []
  Labels : StrMap := []
  deriving Repr, BEq, DecidableEq, Inhabited

structure IngressSpec where
  IngressClassName : Option String := none
  deriving Repr, BEq, DecidableEq, Inhabited

structure Ingress where
  ObjectMeta : Nic.Go.ObjectMeta := {}
  Spec : IngressSpec := {}
  deriving Repr, BEq, DecidableEq, Inhabited

/-- the `spec` of the custom resources, as far as the translated functions read it -/
structure CRSpec where
  IngressClass : String := ""
  deriving Repr, BEq, DecidableEq, Inhabited

structure VirtualServer where
  ObjectMeta : Nic.Go.ObjectMeta := {}
  Spec : CRSpec := {}
  deriving Repr, BEq, DecidableEq, Inhabited
structure VirtualServerRoute where
  ObjectMeta : Nic.Go.ObjectMeta := {}
  Spec : CRSpec := {}
  deriving Repr, BEq, DecidableEq, Inhabited
structure TransportServer where
  ObjectMeta : Nic.Go.ObjectMeta := {}
  Spec : CRSpec := {}
  deriving Repr, BEq, DecidableEq, Inhabited
structure Policy where
  ObjectMeta : Nic.Go.ObjectMeta := {}
  Spec : CRSpec := {}
  deriving Repr, BEq, DecidableEq, Inhabited

structure ActionProxy where
  Upstream : String := ""
  deriving Repr, BEq, DecidableEq, Inhabited
/-- Go selects a field through a pointer; through `nil` this model gives the zero value (see the header). -/
def _root_.Option.Upstream (o : Option ActionProxy) : String := (deref o).Upstream
structure Action where
  Pass : String := ""
  Proxy : Option ActionProxy := none
  deriving Repr, BEq, DecidableEq

/-- `ConfigurationProblem` (internal/k8s/configuration.go); `Object` is the object the problem is about, here its key -/
structure ConfigurationProblem where
  Object : String := ""
  IsError : Bool := false
  Reason : String := ""
  Message : String := ""
  deriving Repr, BEq, DecidableEq, Inhabited

/-- what a type switch over `interface{}` distinguishes -/
inductive Obj where
  | VirtualServer (o : Nic.Go.VirtualServer)
  | VirtualServerRoute (o : Nic.Go.VirtualServerRoute)
  | TransportServer (o : Nic.Go.TransportServer)
  | Policy (o : Nic.Go.Policy)
  | Ingress (o : Nic.Go.Ingress)
  | other
  deriving Repr

/-- the one field of the controller that the translated methods read -/
structure LoadBalancerController where
  ingressClass : String := ""
  deriving Repr

end Nic.Go
