/-
  Arbitration model shared by C01–C05 and C16: a step-for-step functional twin
  of internal/k8s/configuration.go (Configuration.AddOrUpdate*/Delete*,
  rebuildHosts, rebuildListenerHosts, buildHostsAndResources,
  buildMinionConfigs, buildVirtualServerRoutes, detectChangesIn*,
  createResourceChangesFor*, squashResourceChanges, the problem producers) and
  of getValidListeners (pkg/apis/configuration/validation/globalconfiguration.go).

  Go maps are association lists kept sorted by key (the Go code iterates
  `getSorted*Keys` almost everywhere; the one unsorted range — over
  `transportServers` in buildListenerHostsAndTSConfigurations — takes the
  iteration order as an explicit argument).  Pointers to mutable *Configuration
  objects become keys into a resource map that is resolved after the build.

  Parameters, not modelled: the verdict of the standalone validators
  (`valid` bit on each op) and of the class predicate (`cls` bit; C16 models it
  separately and cross-checks).  UIDs are numbers (the harness uses fixed-width
  UID strings whose byte order is the numeric order).
-/
namespace Nic.Arb

/-! ### finite maps as sorted association lists -/

abbrev Map (α : Type) := List (String × α)

namespace Map
def get? {α} (m : Map α) (k : String) : Option α :=
  match m with
  | [] => none
  | (k', v) :: r => if k' = k then some v else get? r k

def contains {α} (m : Map α) (k : String) : Bool := (get? m k).isSome

/-- Insert or replace, keeping keys strictly increasing. -/
def set {α} (m : Map α) (k : String) (v : α) : Map α :=
  match m with
  | [] => [(k, v)]
  | (k', v') :: r =>
    if k < k' then (k, v) :: (k', v') :: r
    else if k = k' then (k, v) :: r
    else (k', v') :: set r k v

def erase {α} (m : Map α) (k : String) : Map α := m.filter (fun p => p.1 ≠ k)

def keys {α} (m : Map α) : List String := m.map (·.1)
end Map

/-! ### objects -/

structure Meta where
  ns : String
  name : String
  uid : Nat
  ts : Nat
  gen : Nat
  ann : String := ""
  deriving DecidableEq, Repr, Inhabited

def Meta.key (m : Meta) : String := m.ns ++ "/" ++ m.name

/-- `chooseObjectMetaWinner`: older wins; on equal timestamps the greater UID wins. -/
def beats (a b : Meta) : Bool :=
  if a.ts = b.ts then decide (a.uid > b.uid) else decide (a.ts < b.ts)

inductive IngKind where
  | regular | master | minion
  deriving DecidableEq, Repr, Inhabited

structure Ing where
  md : Meta
  kind : IngKind
  chal : Bool                              -- carries the cert-manager http01-solver label
  rules : List (String × List String)      -- (host, paths)
  deriving DecidableEq, Repr, Inhabited

structure VS where
  md : Meta
  host : String
  routes : List (String × String)          -- (path, route reference; "" = none)
  listener : Option (String × String)      -- spec.listener (http, https)
  deriving DecidableEq, Repr, Inhabited

structure VSR where
  md : Meta
  host : String
  subs : List String                        -- subroute paths
  deriving DecidableEq, Repr, Inhabited

structure TS where
  md : Meta
  lname : String
  proto : String
  host : String
  deriving DecidableEq, Repr, Inhabited

structure Listener where
  name : String
  port : Nat
  proto : String
  ssl : Bool
  v4 : String
  v6 : String
  deriving DecidableEq, Repr, Inhabited

/-! ### resource snapshots (what a `Resource` pointer shows once a build is complete) -/

structure MinionCfg where
  md : Meta
  validPaths : Map Bool
  deriving DecidableEq, Repr, Inhabited

structure IngCfg where
  md : Meta
  isMaster : Bool
  hostsDecl : List String                  -- rule hosts in order
  minions : List MinionCfg := []
  validHosts : Map Bool := []
  warnings : List String := []
  childWarnings : Map (List String) := []
  deriving DecidableEq, Repr, Inhabited

structure VSCfg where
  md : Meta
  host : String
  listener : Option (String × String)
  vsrs : List Meta := []                   -- attached routes (cert-manager challenge routes carry only ns/name)
  warnings : List String := []
  httpPort : Nat := 0
  httpsPort : Nat := 0
  httpV4 : String := ""
  httpV6 : String := ""
  httpsV4 : String := ""
  httpsV6 : String := ""
  deriving DecidableEq, Repr, Inhabited

structure TSCfg where
  md : Meta
  host : String
  lname : String
  proto : String
  port : Nat := 0
  v4 : String := ""
  v6 : String := ""
  warnings : List String := []
  deriving DecidableEq, Repr, Inhabited

inductive Res where
  | ing (c : IngCfg)
  | vs (c : VSCfg)
  | ts (c : TSCfg)
  deriving DecidableEq, Repr, Inhabited

def Res.md : Res → Meta
  | .ing c => c.md | .vs c => c.md | .ts c => c.md

def Res.kind : Res → String
  | .ing _ => "Ingress" | .vs _ => "VirtualServer" | .ts _ => "TransportServer"

/-- `GetKeyWithKind`. -/
def Res.key (r : Res) : String := r.kind ++ "/" ++ r.md.key

def Res.addWarning (r : Res) (w : String) : Res :=
  match r with
  | .ing c => .ing { c with warnings := c.warnings ++ [w] }
  | .vs c => .vs { c with warnings := c.warnings ++ [w] }
  | .ts c => .ts { c with warnings := c.warnings ++ [w] }

def Res.warnings : Res → List String
  | .ing c => c.warnings | .vs c => c.warnings | .ts c => c.warnings

/-- `compareObjectMetas`: namespace, name, UID (a re-created object is not the one it replaces — fix of S-C05-b) and generation. -/
def metaEq (a b : Meta) : Bool := a.ns = b.ns && a.name = b.name && a.uid = b.uid && a.gen = b.gen
def metaEqAnn (a b : Meta) : Bool := metaEq a b && a.ann = b.ann

def listAll2 {α} (f : α → α → Bool) : List α → List α → Bool
  | [], [] => true
  | a :: r, b :: s => f a b && listAll2 f r s
  | _, _ => false

/-- The three `IsEqual` implementations (configuration.go:158,252,314). -/
def Res.isEqual : Res → Res → Bool
  | .ing a, .ing b =>
    metaEqAnn a.md b.md && decide (a.validHosts = b.validHosts) && (a.isMaster == b.isMaster) &&
      listAll2 (fun x y => metaEqAnn x.md y.md) a.minions b.minions
  | .vs a, .vs b => metaEq a.md b.md && listAll2 metaEq a.vsrs b.vsrs
  | .ts a, .ts b => metaEq a.md b.md && a.port = b.port && a.v4 = b.v4 && a.v6 = b.v6
  | _, _ => false

/-! ### changes and problems -/

inductive OpKind where
  | delete | update
  deriving DecidableEq, Repr, Inhabited

structure Change where
  op : OpKind
  res : Res
  err : Bool := false                      -- a validation error is attached
  deriving DecidableEq, Repr, Inhabited

structure Problem where
  key : String                             -- kind/ns/name of the object
  isError : Bool
  reason : String
  msg : String
  deriving DecidableEq, Repr, Inhabited

/-! ### state -/

structure Cfg where
  passthrough : Bool := true
  certManager : Bool := false
  deriving DecidableEq, Repr, Inhabited

/-- The current object set: stored (valid, own-class) objects, the GlobalConfiguration, feature flags. -/
structure Objs where
  cfg : Cfg := {}
  ings : Map Ing := []
  vss : Map VS := []
  vsrs : Map VSR := []
  tss : Map TS := []
  gc : Option (List Listener) := none
  deriving Repr, Inhabited

structure State extends Objs where
  hosts : Map Res := []
  lhosts : Map TSCfg := []                 -- key "listener|host"
  hostProblems : Map Problem := []
  listenerProblems : Map Problem := []
  deriving Repr, Inhabited

/-! ### listener admission (getValidListeners) -/

def isDNS1035 (s : String) : Bool :=
  let cs := s.toList
  match cs with
  | [] => false
  | c :: _ =>
    cs.length ≤ 63 && c.isLower &&
    cs.all (fun x => x.isLower || x.isDigit || x = '-') &&
    (cs.getLast? |>.map (fun x => x.isLower || x.isDigit) |>.getD false)

def conflictClass (p : String) : Nat := if p = "UDP" then 1 else 0

def ipOr (ip dflt : String) : String := if ip = "" then dflt else ip

structure Adm where
  names : List String := []
  v4 : List (String × Nat × String) := []     -- (ip, port, protocol) seen, including dropped entries
  v6 : List (String × Nat × String) := []
  out : List Listener := []
  dropped : List (String × String) := []      -- (name, cause) for reporting

/-- `checkIPPortProtocolConflicts`' switch: does a listener of protocol `proto` conflict with an
existing entry of protocol `pr` on the same ip:port? -/
def conflicts (proto pr : String) : Bool :=
  if proto = "HTTP" || proto = "TCP" then pr = "HTTP" || pr = "TCP"
  else if proto = "UDP" then pr = "UDP" else false

def clashes (seen : List (String × Nat × String)) (ip : String) (port : Nat) (proto : String) : Bool :=
  seen.any fun (i, p, pr) => i = ip && p = port && conflicts proto pr

/-- `validateListener`: the entry is acceptable on its own. -/
def selfOk (forbidden : List Nat) (okIp4 okIp6 : String → Bool) (l : Listener) : Bool :=
  l.name ≠ "tls-passthrough" && isDNS1035 l.name && !(forbidden.contains l.port) &&
    decide (1 ≤ l.port ∧ l.port ≤ 65535) && (l.proto = "TCP" || l.proto = "UDP" || l.proto = "HTTP") &&
    (l.v4 = "" || okIp4 l.v4) && (l.v6 = "" || okIp6 l.v6)

/-- One listener entry. `okIp4`/`okIp6` are the verdicts of the k8s IP validators
(parameters); `forbidden` is the reserved-port table handed to the validator. -/
def admitOne (forbidden : List Nat) (okIp4 okIp6 : String → Bool) (a : Adm) (l : Listener) : Adm :=
  if !(selfOk forbidden okIp4 okIp6 l) then { a with dropped := a.dropped ++ [(l.name, "invalid")] } else
  if a.names.contains l.name then { a with dropped := a.dropped ++ [(l.name, "dupname")] } else
  let ip4 := ipOr l.v4 "0.0.0.0"
  let ip6 := ipOr l.v6 "::"
  if clashes a.v4 ip4 l.port l.proto then
    { a with v4 := a.v4 ++ [(ip4, l.port, l.proto)], dropped := a.dropped ++ [(l.name, "clash4")] } else
  if clashes a.v6 ip6 l.port l.proto then
    { a with v6 := a.v6 ++ [(ip6, l.port, l.proto)], dropped := a.dropped ++ [(l.name, "clash6")] } else
  -- the name is reserved only once the entry is admitted (fix of S-C02-a)
  { a with names := l.name :: a.names, v4 := a.v4 ++ [(ip4, l.port, l.proto)], v6 := a.v6 ++ [(ip6, l.port, l.proto)],
           out := a.out ++ [l] }

def admitAll (forbidden : List Nat) (okIp4 okIp6 : String → Bool) (ls : List Listener) : Adm :=
  ls.foldl (admitOne forbidden okIp4 okIp6) {}

/-! ### building hosts -/

def isMinion (i : Ing) : Bool := i.kind = .minion
def isMaster (i : Ing) : Bool := i.kind = .master

def wHostTaken (h : String) : String := "host-taken:" ++ h
def wPathTaken (p : String) : String := "path-taken:" ++ p

structure Build where
  hosts : Map (String × Meta) := []        -- host → (key, ObjectMeta) of the holder (the Go map holds the pointer)
  res : Map Res := []                      -- resource key → snapshot

def Build.holderKey (b : Build) (h : String) : Option String := (b.hosts.get? h).map (·.1)

def Build.addWarning (b : Build) (key w : String) : Build :=
  match b.res.get? key with
  | some r => { b with res := b.res.set key (r.addWarning w) }
  | none => b

/-- The holder comparison applied for every claimed host (three copies in the Go code). -/
def Build.claim (b : Build) (host : String) (r : Res) : Build :=
  match b.hosts.get? host with
  | none => { b with hosts := b.hosts.set host (r.key, r.md) }
  | some (hk, hmd) =>
    if !(beats hmd r.md) then
      { (b.addWarning hk (wHostTaken host)) with hosts := b.hosts.set host (r.key, r.md) }
    else b.addWarning r.key (wHostTaken host)

/-- `buildMinionConfigs`. -/
structure MinAcc where
  cfgs : List MinionCfg := []
  paths : Map Nat := []                     -- path → index of the holder in cfgs
  cw : Map (List String) := []

def setValid (cfgs : List MinionCfg) (i : Nat) (p : String) (v : Bool) : List MinionCfg :=
  cfgs.mapIdx fun j c => if j = i then { c with validPaths := c.validPaths.set p v } else c

def minionPath (self : Nat) (m : Meta) (a : MinAcc) (p : String) : MinAcc :=
  match a.paths.get? p with
  | none => { a with paths := a.paths.set p self, cfgs := setValid a.cfgs self p true }
  | some hi =>
    if hi = self then a else          -- the same minion lists the path again: it keeps it
    match a.cfgs[hi]? with
    | none => a
    | some holder =>
      if !(beats holder.md m) then
        let cfgs := setValid a.cfgs self p true
        let cfgs := setValid cfgs hi p false
        let k := holder.md.key
        { a with paths := a.paths.set p self, cfgs := cfgs,
                 cw := a.cw.set k ((a.cw.get? k).getD [] ++ [wPathTaken p]) }
      else
        let k := m.key
        { a with cw := a.cw.set k ((a.cw.get? k).getD [] ++ [wPathTaken p]) }

def minionStep (masterHost : String) (a : MinAcc) (kv : String × Ing) : MinAcc :=
  let i := kv.2
  if !isMinion i then a else
  match i.rules with
  | [] => a
  | (h, paths) :: _ =>
    if masterHost ≠ h then a else
    paths.foldl (minionPath a.cfgs.length i.md) { a with cfgs := a.cfgs ++ [{ md := i.md, validPaths := [] }] }

def buildMinions (ings : Map Ing) (masterHost : String) : List MinionCfg × Map (List String) :=
  let a := ings.foldl (minionStep masterHost) {}
  (a.cfgs, a.cw)

def isRegexOrExact (p : String) : Bool := p.startsWith "~" || p.startsWith "="

/-- `ValidateVirtualServerRouteForVirtualServer` for a VSR that already passed
standalone validation: host equality and the path rule. -/
def vsrFits (r : VSR) (vsHost vsPath : String) : Bool :=
  r.host = vsHost &&
  (if isRegexOrExact vsPath then
     (match r.subs with | [p] => p = vsPath | _ => false)
   else r.subs.all (fun p => p.startsWith vsPath))

def vsrKeyOf (v : VS) (ref : String) : String := if ref.contains '/' then ref else v.md.ns ++ "/" ++ ref

/-- The route attached for one entry of `spec.routes` (path, reference), if any. -/
def routeOf (vsrs : Map VSR) (v : VS) (pr : String × String) : Option Meta :=
  if pr.2 = "" then none else
  match vsrs.get? (vsrKeyOf v pr.2) with
  | some r => if vsrFits r v.host pr.1 then some r.md else none
  | none => none

/-- The warning produced for one entry of `spec.routes`, if any. -/
def routeWarnOf (vsrs : Map VSR) (v : VS) (pr : String × String) : Option String :=
  if pr.2 = "" then none else
  match vsrs.get? (vsrKeyOf v pr.2) with
  | some r => if vsrFits r v.host pr.1 then none else some ("vsr-invalid:" ++ vsrKeyOf v pr.2)
  | none => some ("vsr-missing:" ++ vsrKeyOf v pr.2)

def wVsrDuplicate (key : String) : String := "vsr-duplicate:" ++ key

/-- One `route` entry of `buildVirtualServerRoutes`: it attaches the referenced route, or warns; a route that is
already attached (referenced by name and by namespace/name, or under nested paths) is not attached again (fix of S-C07-i). -/
def vsrStep (vsrs : Map VSR) (v : VS) (acc : List Meta × List String) (pr : String × String) : List Meta × List String :=
  match routeOf vsrs v pr with
  | some m => if acc.1.any (fun a => a.key = m.key) then (acc.1, acc.2 ++ [wVsrDuplicate m.key]) else (acc.1 ++ [m], acc.2)
  | none =>
    match routeWarnOf vsrs v pr with
    | some w => (acc.1, acc.2 ++ [w])
    | none => acc

/-- `buildVirtualServerRoutes`: every `route` entry, in order. -/
def buildVsrs (vsrs : Map VSR) (v : VS) : List Meta × List String :=
  v.routes.foldl (vsrStep vsrs v) ([], [])

def listenerMap (gc : Option (List Listener)) : Map Listener :=
  match gc with
  | none => []
  | some ls => ls.foldl (fun m l => m.set l.name l) []

/-- `buildListenersForVSConfiguration`. -/
def assignListeners (gc : Option (List Listener)) (c : VSCfg) : VSCfg :=
  match c.listener, gc with
  | some (h, s), some _ =>
    let lm := listenerMap gc
    let c := match lm.get? h with
      | some l => if l.proto = "HTTP" && l.ssl = false then
          { c with httpPort := l.port, httpV4 := l.v4, httpV6 := l.v6 } else c
      | none => c
    match lm.get? s with
      | some l => if l.proto = "HTTP" && l.ssl = true then
          { c with httpsPort := l.port, httpsV4 := l.v4, httpsV6 := l.v6 } else c
      | none => c
  | _, _ => c

def isChallenge (cfg : Cfg) (i : Ing) : Bool := cfg.certManager && i.chal

def challengeOwnerVs (vss : Map VS) (host : String) : Bool := vss.any (fun kv => kv.2.host = host)

def isPassthroughTS (t : TS) : Bool := !(t.lname ≠ "tls-passthrough" && t.proto ≠ "TLS_PASSTHROUGH")

def ingH0 (i : Ing) : String := (i.rules.head?.map (·.1)).getD ""

def ingCfgOf (s : Objs) (i : Ing) : IngCfg :=
  if isMaster i then
    let (ms, cw) := buildMinions s.ings (ingH0 i)
    { md := i.md, isMaster := true, hostsDecl := i.rules.map (·.1), minions := ms, childWarnings := cw }
  else { md := i.md, isMaster := false, hostsDecl := i.rules.map (·.1) }

/-- A challenge Ingress whose host belongs to a VirtualServer is served as a route of that VirtualServer. -/
def convertedIng (s : Objs) (i : Ing) : Bool := isChallenge s.cfg i && challengeOwnerVs s.vss (ingH0 i)

def claimAll (b : Build) (r : Res) (hosts : List String) : Build :=
  hosts.foldl (fun b h => b.claim h r) b

def ingStep (s : Objs) (acc : Build × List (String × Meta)) (kv : String × Ing) : Build × List (String × Meta) :=
  let i := kv.2
  if isMinion i then acc else
  if convertedIng s i then
    (acc.1, acc.2 ++ [(ingH0 i, { ns := i.md.ns, name := i.md.name, uid := 0, ts := 0, gen := 0 })])
  else
    let r := Res.ing (ingCfgOf s i)
    (claimAll { acc.1 with res := acc.1.res.set r.key r } r (i.rules.map (·.1)), acc.2)

/-- Step 1 of `buildHostsAndResources`: Ingresses (sorted by key). Returns the
build and the challenge routes (host, ns/name md). -/
def buildIngs (s : Objs) : Build × List (String × Meta) := s.ings.foldl (ingStep s) ({}, [])

def vsCfgOf (s : Objs) (ch : List (String × Meta)) (v : VS) : VSCfg :=
  let (attached, warns) := buildVsrs s.vsrs v
  let attached := attached ++ (ch.filter (fun c => c.1 = v.host)).map (·.2)
  assignListeners s.gc { md := v.md, host := v.host, listener := v.listener, vsrs := attached, warnings := warns }

def vsStep (s : Objs) (ch : List (String × Meta)) (b : Build) (kv : String × VS) : Build :=
  let r := Res.vs (vsCfgOf s ch kv.2)
  Build.claim { b with res := b.res.set r.key r } kv.2.host r

/-- Step 2: VirtualServers. -/
def buildVss (s : Objs) (b : Build) (ch : List (String × Meta)) : Build := s.vss.foldl (vsStep s ch) b

def tsStep (b : Build) (kv : String × TS) : Build :=
  let t := kv.2
  if !isPassthroughTS t then b else
  let r := Res.ts { md := t.md, host := t.host, lname := t.lname, proto := t.proto }
  Build.claim { b with res := b.res.set r.key r } t.host r

/-- Step 3: TLS-passthrough TransportServers. -/
def buildTss (s : Objs) (b : Build) : Build :=
  if !s.cfg.passthrough then b else s.tss.foldl tsStep b

/-- `updateActiveHostsForIngresses`. -/
def markValidHosts (b : Build) : Build :=
  { b with res := b.res.map fun (k, r) =>
      match r with
      | .ing c =>
        let vh : Map Bool := c.hostsDecl.foldl (fun m h => m.set h (b.holderKey h == some k)) []
        (k, .ing { c with validHosts := vh })
      | r => (k, r) }

def buildHosts (s : Objs) : Build :=
  let (b, ch) := buildIngs s
  markValidHosts (buildTss s (buildVss s b ch))

/-! ### diffing -/

/-- How many times `detectChangesInHosts` appends a host that exists in both tables to `updatedHosts`. -/
def updatedTimes (o n : Res) : Nat :=
  if !(o.isEqual n) then 1 else
  match o, n with
  | .vs a, .vs n =>
    (if n.httpPort ≠ a.httpPort || n.httpsPort ≠ a.httpsPort then 1 else 0) +
    (if n.httpV4 ≠ a.httpV4 then 1 else 0) + (if n.httpV6 ≠ a.httpV6 then 1 else 0) +
    (if n.httpsV4 ≠ a.httpsV4 then 1 else 0) + (if n.httpsV6 ≠ a.httpsV6 then 1 else 0)
  | _, _ => 0

def updStep (old : Map Res) (acc : List String) (kv : String × Res) : List String :=
  match old.get? kv.1 with
  | none => acc
  | some o => acc ++ List.replicate (updatedTimes o kv.2) kv.1

def detectHostChanges (old new : Map Res) : List String × List String × List String :=
  let removed := (old.filter (fun kv => !(Map.contains new kv.1))).map (·.1)
  let added := (new.filter (fun kv => !(Map.contains old kv.1))).map (·.1)
  let updated := new.foldl (updStep old) []
  (removed, updated, added)

def changesFor (removed updated added : List String) (old new : Map Res) : List Change :=
  let dels := removed.filterMap (fun h => (old.get? h).map (fun r => { op := .delete, res := r : Change }))
  let (dels, ups) := updated.foldl (fun (acc : List Change × List Change) h =>
    match old.get? h, new.get? h with
    | some o, some n =>
      let d := if o.key ≠ n.key then acc.1 ++ [{ op := .delete, res := o }] else acc.1
      (d, acc.2 ++ [{ op := .update, res := n }])
    | _, _ => acc) (dels, [])
  let ups := ups ++ added.filterMap (fun h => (new.get? h).map (fun r => { op := .update, res := r : Change }))
  dels ++ ups

/-- `squashResourceChanges`: per resource keep the last change; deletes first. -/
def squash (cs : List Change) : List Change :=
  let firsts := cs.foldl (fun (seen : List String) c => if seen.contains c.res.key then seen else seen ++ [c.res.key]) []
  let lastOf := fun k => (cs.filter (fun c => c.res.key = k)).getLast?
  let sq := firsts.filterMap lastOf
  sq.filter (·.op = .delete) ++ sq.filter (·.op = .update)

def detectProblemChanges (new old : Map Problem) : List Problem :=
  new.filterMap fun (k, p) =>
    match old.get? k with
    | none => some p
    | some o => if p.isError = o.isError && p.reason = o.reason && p.msg = o.msg then none else some p

/-! ### rebuildHosts -/

def noActiveStep (hosts : Map (String × Meta)) (m : Map Problem) (kv : String × Res) : Map Problem :=
  match kv.2 with
  | .ing c =>
    if c.validHosts.any (·.2) then m else m.set kv.1 ⟨kv.1, false, "Rejected", "all-hosts-taken"⟩
  | .vs c => if (hosts.get? c.host).map (·.1) ≠ some kv.1 then m.set kv.1 ⟨kv.1, false, "Rejected", "host-taken"⟩ else m
  | .ts c => if (hosts.get? c.host).map (·.1) ≠ some kv.1 then m.set kv.1 ⟨kv.1, false, "Rejected", "host-taken"⟩ else m

def noActiveHostProblems (hosts : Map (String × Meta)) (res : Map Res) : Map Problem :=
  res.foldl (noActiveStep hosts) []

def orphanStep (hosts : Map (String × Meta)) (res : Map Res) (m : Map Problem) (kv : String × Ing) : Map Problem :=
  let i := kv.2
  if !isMinion i then m else
  let ok := match ((hosts.get? (ingH0 i)).map (·.1)).bind res.get? with
    | some (.ing c) => c.isMaster
    | _ => false
  if ok then m else
    m.set ("Ingress/" ++ i.md.key) ⟨"Ingress/" ++ i.md.key, false, "NoIngressMasterFound", "no-master"⟩

def orphanMinionProblems (s : Objs) (hosts : Map (String × Meta)) (res : Map Res) (m : Map Problem) : Map Problem :=
  s.ings.foldl (orphanStep hosts res) m

def vsrProbStep (hosts : Map (String × Meta)) (res : Map Res) (m : Map Problem) (kv : String × VSR) : Map Problem :=
  let r := kv.2
  let k := "VirtualServerRoute/" ++ r.md.key
  match ((hosts.get? r.host).map (·.1)).bind res.get? with
  | some (.vs c) =>
    if c.vsrs.any (fun v => v.ns = r.md.ns && v.name = r.md.name) then m
    else m.set k ⟨k, false, "Ignored", "ignored-by:" ++ c.md.key⟩
  | _ => m.set k ⟨k, false, "NoVirtualServerFound", "no-vs"⟩

def vsrProblems (s : Objs) (hosts : Map (String × Meta)) (res : Map Res) (m : Map Problem) : Map Problem :=
  s.vsrs.foldl (vsrProbStep hosts res) m

/-- `addWarningsForVirtualServersWithMissConfiguredListeners`: the warning goes
to whoever *holds the host*, which need not be the VirtualServer itself. -/
def inBlock (lm : Map Listener) (n : String) (ssl : Bool) : Bool :=
  match lm.get? n with | some l => !(l.ssl ≠ ssl) | none => true

/-- The warning (if any) for a VirtualServer's `listener` block. -/
def listenerWarningFor (gc : Option (List Listener)) (h sname : String) : Option String :=
  let lm := listenerMap gc
  if gc.isNone then some "listeners-no-gc" else
  if !(inBlock lm h false) then some ("listener-http-ssl:" ++ h) else
  if !(inBlock lm sname true) then some ("listener-https-nossl:" ++ sname) else
  if h ≠ "" && !(lm.contains h) then some ("listener-undefined:" ++ h) else
  if sname ≠ "" && !(lm.contains sname) then some ("listener-undefined:" ++ sname) else none

def lwStep (gc : Option (List Listener)) (b : Build) (kv : String × Res) : Build :=
  match kv.2 with
  | .vs c =>
    match c.listener with
    | none => b
    | some (h, sname) =>
      match listenerWarningFor gc h sname with
      | some w => b.addWarning ((b.holderKey c.host).getD "") w
      | none => b
  | _ => b

def listenerWarnings (s : Objs) (b : Build) : Build := b.res.foldl (lwStep s.gc) b

def resolveHosts (b : Build) : Map Res :=
  b.hosts.filterMap fun (h, k) => (b.res.get? k.1).map (fun r => (h, r))

def rebuildHosts (s : State) : State × List Change × List Problem :=
  -- The Go code diffs the old table against the new one before the listener warnings are appended and
  -- lets the changes see them later through the shared pointers; `IsEqual` and the extra port/address
  -- comparisons never read warnings, so diffing the final snapshots is the same computation.
  let b := listenerWarnings s.toObjs (buildHosts s.toObjs)
  let new := resolveHosts b
  let d := detectHostChanges s.hosts new
  let cs := squash (changesFor d.1 d.2.1 d.2.2 s.hosts new)
  let cs := cs.map fun c => match b.res.get? c.res.key with
    | some r => { c with res := r }
    | none => c
  let probs := vsrProblems s.toObjs b.hosts b.res (orphanMinionProblems s.toObjs b.hosts b.res (noActiveHostProblems b.hosts b.res))
  let delta := detectProblemChanges probs s.hostProblems
  ({ s with hosts := new, hostProblems := probs }, cs, delta)

/-! ### rebuildListenerHosts -/

def lkey (l h : String) : String := l ++ "|" ++ h

structure LBuild where
  lhosts : Map (String × Meta) := []       -- "listener|host" → (TS resource key, ObjectMeta) of the holder
  cfgs : Map TSCfg := []                   -- TS resource key → snapshot

def LBuild.holderKey (b : LBuild) (lk : String) : Option String := (b.lhosts.get? lk).map (·.1)

def LBuild.addWarning (b : LBuild) (k w : String) : LBuild :=
  match b.cfgs.get? k with
  | some c => { b with cfgs := b.cfgs.set k { c with warnings := c.warnings ++ [w] } }
  | none => b

/-- The GlobalConfiguration listener a TransportServer refers to: same name *and* protocol. -/
def listenerFor (gc : Option (List Listener)) (t : TS) : Option Listener :=
  match gc with
  | none => none
  | some ls => ls.find? (fun l => t.lname = l.name && t.proto = l.proto)

def tsKey (t : TS) : String := "TransportServer/" ++ t.md.key

def tsCfgOf (gc : Option (List Listener)) (t : TS) : TSCfg :=
  match listenerFor gc t with
  | none => { md := t.md, host := t.host, lname := t.lname, proto := t.proto }
  | some l => { md := t.md, host := t.host, lname := t.lname, proto := t.proto, port := l.port, v4 := l.v4, v6 := l.v6 }

def lstep (gc : Option (List Listener)) (b : LBuild) (kv : String × TS) : LBuild :=
  let t := kv.2
  if t.proto = "TLS_PASSTHROUGH" then b else
  let k := tsKey t
  let b := { b with cfgs := b.cfgs.set k (tsCfgOf gc t) }
  match listenerFor gc t with
  | none => b
  | some l =>
    let lk := lkey l.name t.host
    let w := "listener-taken:" ++ l.name ++ ":" ++ t.host
    match b.lhosts.get? lk with
    | none => { b with lhosts := b.lhosts.set lk (k, t.md) }
    | some (hk, hmd) =>
      if !(beats hmd t.md) then { (b.addWarning hk w) with lhosts := b.lhosts.set lk (k, t.md) }
      else b.addWarning k w

/-- `buildListenerHostsAndTSConfigurations`; `order` is the Go map iteration order. -/
def buildListenerHosts (s : Objs) (order : List (String × TS)) : LBuild := order.foldl (lstep s.gc) {}

def resolveLHosts (b : LBuild) : Map TSCfg :=
  b.lhosts.filterMap fun (lk, k) => (b.cfgs.get? k.1).map (fun c => (lk, c))

def tsIsEqual (a b : TSCfg) : Bool := metaEq a.md b.md && a.port = b.port && a.v4 = b.v4 && a.v6 = b.v6

def listenerProblemsOf (b : LBuild) : Map Problem :=
  let lh := resolveLHosts b
  b.cfgs.foldl (fun (m : Map Problem) (kv : String × TSCfg) =>
    let c := kv.2
    match lh.get? (lkey c.lname c.host) with
    | none => m.set kv.1 ⟨kv.1, false, "Rejected", "listener-missing:" ++ c.lname⟩
    | some holder =>
      if !(tsIsEqual c holder) then
        m.set kv.1 ⟨kv.1, false, "Rejected", "listener-taken:" ++ c.lname ++ ":" ++ (if c.host = "" then "empty host" else c.host)⟩
      else m) []

def rebuildListenerHosts (s : State) (order : List (String × TS)) : State × List Change × List Problem :=
  let b := buildListenerHosts s.toObjs order
  let new := resolveLHosts b
  let oldR : Map Res := s.lhosts.map fun (k, c) => (k, Res.ts c)
  let newR : Map Res := new.map fun (k, c) => (k, Res.ts c)
  let removed := (oldR.filter (fun kv => !(Map.contains newR kv.1))).map (·.1)
  let added := (newR.filter (fun kv => !(Map.contains oldR kv.1))).map (·.1)
  let updated := (newR.filter (fun kv => match oldR.get? kv.1 with
    | some o => !(o.isEqual kv.2) | none => false)).map (·.1)
  let cs := squash (changesFor removed updated added oldR newR)
  -- The Go code then tries to point every change at the latest TransportServerConfiguration, but looks
  -- `GetKeyWithKind()` ("TransportServer/ns/name") up in a map keyed by "ns/name": the lookup never
  -- succeeds, so changes keep the snapshot chosen by the diff (the old one for a Delete).
  let probs := listenerProblemsOf b
  let delta := detectProblemChanges probs s.listenerProblems
  ({ s with lhosts := new, listenerProblems := probs }, cs, delta)

/-! ### operations -/

inductive Op where
  | ing (i : Ing) (cls valid : Bool)
  | vs (v : VS) (cls valid : Bool)
  | vsr (r : VSR) (cls valid : Bool)
  | ts (t : TS) (cls valid : Bool)
  | gc (ls : List Listener)               -- listeners as admitted by the validator
  | delIng (key : String)
  | delVs (key : String)
  | delVsr (key : String)
  | delTs (key : String)
  | delGc
  deriving Repr, Inhabited

/-- Attach the validation error to the change for the object itself, or raise it as a problem. -/
def attachError (kk : String) (cs : List Change) (ps : List Problem) : List Change × List Problem :=
  if cs.any (fun c => c.res.key = kk) then
    let rec go : List Change → List Change
      | [] => []
      | c :: r => if c.res.key = kk then { c with err := true } :: r else c :: go r
    (go cs, ps)
  else (cs, ps ++ [⟨kk, true, "Rejected", "validation-error"⟩])

/-- `deletesFirst`: stable partition of a concatenated batch, Delete changes first. -/
def deletesFirst (cs : List Change) : List Change :=
  cs.filter (·.op = .delete) ++ cs.filter (·.op = .update)

def tsBoth (s : State) (order : List (String × TS)) : State × List Change × List Problem :=
  let r1 := rebuildListenerHosts s order
  if s.cfg.passthrough then
    let r2 := rebuildHosts r1.1
    (r2.1, deletesFirst (r1.2.1 ++ r2.2.1), r1.2.2 ++ r2.2.2)
  else r1

def gcBoth (s : State) (order : List (String × TS)) : State × List Change × List Problem :=
  let r1 := rebuildListenerHosts s order
  let r2 := rebuildHosts r1.1
  (r2.1, deletesFirst (r1.2.1 ++ r2.2.1), r1.2.2 ++ r2.2.2)

/-- One public operation of `Configuration`. `perm` reorders the TransportServer
map for the unsorted range (identity = sorted order). -/
def step (perm : List (String × TS) → List (String × TS)) (s : State) (op : Op) : State × List Change × List Problem :=
  match op with
  | .ing i cls valid =>
    let k := i.md.key
    let r := rebuildHosts (if cls && valid then { s with ings := s.ings.set k i } else { s with ings := s.ings.erase k })
    if cls && !valid then
      let e := attachError ("Ingress/" ++ k) r.2.1 r.2.2; (r.1, e.1, e.2)
    else r
  | .vs v cls valid =>
    let k := v.md.key
    let r := rebuildHosts (if cls && valid then { s with vss := s.vss.set k v } else { s with vss := s.vss.erase k })
    if cls && !valid then
      let e := attachError ("VirtualServer/" ++ k) r.2.1 r.2.2; (r.1, e.1, e.2)
    else r
  | .vsr x cls valid =>
    let k := x.md.key
    let r := rebuildHosts (if cls && valid then { s with vsrs := s.vsrs.set k x } else { s with vsrs := s.vsrs.erase k })
    if cls && !valid then (r.1, r.2.1, r.2.2 ++ [⟨"VirtualServerRoute/" ++ k, true, "Rejected", "validation-error"⟩])
    else r
  | .ts t cls valid =>
    let k := t.md.key
    let m := if cls && valid then s.tss.set k t else s.tss.erase k
    let r := tsBoth { s with tss := m } (perm m)
    if cls && !valid then
      let e := attachError ("TransportServer/" ++ k) r.2.1 r.2.2; (r.1, e.1, e.2)
    else r
  | .gc ls => gcBoth { s with gc := some ls } (perm s.tss)
  | .delIng k => if s.ings.contains k then rebuildHosts { s with ings := s.ings.erase k } else (s, [], [])
  | .delVs k => if s.vss.contains k then rebuildHosts { s with vss := s.vss.erase k } else (s, [], [])
  | .delVsr k => if s.vsrs.contains k then rebuildHosts { s with vsrs := s.vsrs.erase k } else (s, [], [])
  | .delTs k => if s.tss.contains k then tsBoth { s with tss := s.tss.erase k } (perm (s.tss.erase k)) else (s, [], [])
  | .delGc => gcBoth { s with gc := none } (perm s.tss)

/-- `GetResources`: resources holding a host or a listener, keyed by kind/ns/name (sorted). -/
def resources (s : State) : Map Res :=
  let m := s.hosts.foldl (fun (m : Map Res) kv => m.set kv.2.key kv.2) []
  s.lhosts.foldl (fun (m : Map Res) kv => m.set (Res.ts kv.2).key (Res.ts kv.2)) m

def run (perm : List (String × TS) → List (String × TS)) (s : State) (ops : List Op) : State :=
  ops.foldl (fun s op => (step perm s op).1) s

end Nic.Arb
