/-
  C10 — model of the Configurator's file bookkeeping (internal/configs/configurator.go:
  addOrUpdateIngress, addOrUpdateVirtualServer, addOrUpdateTransportServer, DeleteIngress,
  DeleteVirtualServer, deleteTransportServer, BatchDelete*, updateTLSPassthroughHostsConfig,
  the file-name functions) on top of the LocalManager's directories
  (internal/nginx/manager.go CreateConfig / DeleteConfig / CreateStreamConfig / ...).
  A file's content is represented by the uid of the resource it was generated from.
-/
import Nic.Model.Arb
namespace Nic.Files
open Nic.Arb (Map)

def replaceSlash (s : String) (c : Char) : String := String.ofList (s.toList.map fun x => if x = '/' then c else x)

/-- `objectMetaToFileName` -/
def ingFile (ns name : String) : String := ns ++ "-" ++ name
/-- `keyToFileName` -/
def ingFileKey (key : String) : String := replaceSlash key '-'
/-- `getFileNameForVirtualServer` / `...FromKey` -/
def vsFile (ns name : String) : String := "vs_" ++ ns ++ "_" ++ name
def vsFileKey (key : String) : String := "vs_" ++ replaceSlash key '_'
/-- `getFileNameForTransportServer` / `...FromKey` -/
def tsFile (ns name : String) : String := "ts_" ++ ns ++ "_" ++ name
def tsFileKey (key : String) : String := "ts_" ++ replaceSlash key '_'

structure St where
  conf : Map Nat := []                   -- conf.d: file name (without .conf) → uid of the content
  stream : Map Nat := []                 -- stream-conf.d
  pairs : Map (String × String) := []    -- tlsPassthroughPairs: "ns/name" → (host, socket name)
  ptFile : Option (Map String) := none   -- tls-passthrough-hosts.conf: host → socket name (none: never written)
  deriving Repr

inductive Op where
  | addIng (ns name : String) (uid : Nat)
  | addVs (ns name : String) (uid : Nat)
  | addTs (ns name : String) (uid : Nat) (host : String)     -- host "" = TCP/UDP listener, else TLS passthrough
  | delIng (key : String)
  | delVs (key : String)
  | delTs (key : String)
  | batchIng (keys : List String)
  | batchVs (keys : List String)
  | batchTs (keys : List String)          -- `UpdateTransportServers(nil, keys)`: the batch path used when a namespace stops being watched
  | restart
  deriving Repr

/-- `generateTLSPassthroughHostsConfig` -/
def renderPt (pairs : Map (String × String)) : Map String :=
  pairs.foldl (fun m kv => m.set kv.2.1 kv.2.2) []

/-- `deleteTransportServer(key)`: the stream file goes, and — for a TLS-passthrough TransportServer — its host leaves the map. -/
def delTs (s : St) (key : String) : St :=
  let s := { s with stream := s.stream.erase (tsFileKey key) }
  if s.pairs.contains key then
    let pairs := s.pairs.erase key
    { s with pairs := pairs, ptFile := some (renderPt pairs) }
  else s

def step (s : St) : Op → St
  | .addIng ns name uid => { s with conf := s.conf.set (ingFile ns name) uid }
  | .addVs ns name uid => { s with conf := s.conf.set (vsFile ns name) uid }
  | .addTs ns name uid host =>
    let s := { s with stream := s.stream.set (tsFile ns name) uid }
    if host ≠ "" then
      let pairs := s.pairs.set (ns ++ "/" ++ name) (host, ns ++ "_" ++ name)
      { s with pairs := pairs, ptFile := some (renderPt pairs) }
    else if s.pairs.contains (ns ++ "/" ++ name) then
      -- it was a TLS passthrough TransportServer and no longer is: its host leaves the map (fix of S-C10-c)
      let pairs := s.pairs.erase (ns ++ "/" ++ name)
      { s with pairs := pairs, ptFile := some (renderPt pairs) }
    else s
  | .delIng key => { s with conf := s.conf.erase (ingFileKey key) }
  | .delVs key => { s with conf := s.conf.erase (vsFileKey key) }
  | .delTs key => delTs s key
  | .batchIng keys => { s with conf := keys.foldl (fun m k => m.erase (ingFileKey k)) s.conf }
  | .batchVs keys => { s with conf := keys.foldl (fun m k => m.erase (vsFileKey k)) s.conf }
  | .batchTs keys => keys.foldl delTs s
  -- the process state is gone, the volume survived; start-up (cmd/nginx-ingress/main.go) writes the passthrough hosts map empty
  | .restart => { s with pairs := [], ptFile := some [] }

def run (s : St) (ops : List Op) : St := ops.foldl step s

end Nic.Files
