/-
  C14 — model of the endpoint resolution in internal/k8s/controller.go:
  getEndpointsForIngressBackend, getEndpointsForPortFromEndpointSlices,
  getTargetPort, findPort (utils.go), selectEndpointSlicesForPort,
  filterReadyEndpointsFrom, getEndpointsForSubselector,
  getEndpointsFromEndpointSlicesForSubselectedPods, ipv6SafeAddrPort and
  storeToEndpointSliceLister.GetServiceEndpointSlices.
-/
namespace Nic.Eps

inductive TargetPort where
  | unset                 -- intstr.IntOrString{}
  | int (n : Nat)
  | named (s : String)
  deriving DecidableEq, Repr, Inhabited

structure SvcPort where
  name : String
  port : Nat
  tp : TargetPort
  proto : String
  deriving DecidableEq, Repr, Inhabited

structure Ep where
  addrs : List String
  ready : Option Bool        -- Conditions.Ready (*bool)
  deriving DecidableEq, Repr, Inhabited

structure Slice where
  svc : String               -- label kubernetes.io/service-name
  ns : String
  ports : List (Option Nat)  -- Port is *int32
  eps : List Ep
  deriving DecidableEq, Repr, Inhabited

structure Pod where
  name : String
  ip : String
  labels : List (String × String)
  cports : List (String × String × Nat)   -- (name, protocol, containerPort), all containers flattened in order
  deriving DecidableEq, Repr, Inhabited

structure Svc where
  name : String
  ns : String
  ports : List SvcPort
  selector : List (String × String)
  external : Bool            -- type ExternalName
  extName : String
  deriving Repr, Inhabited

inductive Err where
  | noPort | noSlices | noPods | noNamedPort | externalOss | noService
  deriving DecidableEq, Repr

/-- `net.JoinHostPort`: brackets iff the host contains a colon. -/
def joinHostPort (addr : String) (port : Nat) : String :=
  if addr.contains ':' then "[" ++ addr ++ "]:" ++ toString port else addr ++ ":" ++ toString port

def matchesSelector (sel : List (String × String)) (p : Pod) : Bool :=
  sel.all fun (k, v) => p.labels.any fun (k', v') => k' = k && v' = v

/-- `findPort` on the first pod of the service. -/
def findNamedPort (p : Pod) (name proto : String) : Option Nat :=
  (p.cports.find? fun (n, pr, _) => n = name && pr = proto).map (·.2.2)

/-- `getTargetPort`. `pods` = pods of the namespace matching the service selector, in lister order. -/
def targetPortOf (sp : SvcPort) (pods : List Pod) : Except Err Nat :=
  match sp.tp with
  | .unset => .ok sp.port
  | .int n => .ok n
  | .named s =>
    match pods with
    | [] => .error .noPods
    | p :: _ => match findNamedPort p s sp.proto with
      | some n => .ok n
      | none => .error .noNamedPort

/-- The service port a backend refers to: by number when no name is given, by name otherwise
(getEndpointsForPortFromEndpointSlices, after the S-C14-a fix). -/
def refersTo (bname : String) (bnum : Nat) (sp : SvcPort) : Bool :=
  (bname = "" && sp.port = bnum) || (bname ≠ "" && sp.name = bname)

def selectSlices (tp : Nat) (sl : List Slice) : List Slice :=
  sl.flatMap fun s => (s.ports.filter (· = some tp)).map fun _ => s

def readyEps (sl : List Slice) : List Ep :=
  sl.flatMap fun s => s.eps.filter (·.ready = some true)

/-- Insertion into a Go map used as a set. -/
def dedupe (l : List String) : List String :=
  l.foldl (fun acc a => if acc.contains a then acc else acc ++ [a]) []

def svcSlices (svc : Svc) (all : List Slice) : List Slice :=
  all.filter fun s => s.svc = svc.name && s.ns = svc.ns

/-- `getEndpointsForPortFromEndpointSlices` -/
def endpointsForPort (slices : List Slice) (bname : String) (bnum : Nat) (svc : Svc) (pods : List Pod) :
    Except Err (List String) :=
  match svc.ports.find? (refersTo bname bnum) with
  | none => .error .noPort
  | some sp =>
    match targetPortOf sp pods with
    | .error e => .error e
    | .ok tp =>
      if tp = 0 then .error .noPort else
      let addrs := (readyEps (selectSlices tp slices)).flatMap fun e => e.addrs.map fun a => joinHostPort a tp
      let out := dedupe addrs
      if out.isEmpty then .error .noSlices else .ok out

/-- `getEndpointsForIngressBackend` -/
def endpointsForBackend (isPlus : Bool) (all : List Slice) (bname : String) (bnum : Nat) (svc : Svc) (pods : List Pod) :
    Except Err (List String) :=
  let sl := svcSlices svc all
  if sl.isEmpty then
    if svc.external then
      if isPlus then .ok [svc.extName ++ ":" ++ toString bnum] else .error .externalOss
    else .error .noSlices
  else endpointsForPort sl bname bnum svc (pods.filter (matchesSelector svc.selector))

/-- `getEndpointsForSubselector` (the port is matched by number only). -/
def endpointsForSubselector (all : List Slice) (bnum : Nat) (svc : Svc) (sub : List (String × String)) (pods : List Pod) :
    Except Err (List String) :=
  match svc.ports.find? (fun sp => sp.port = bnum) with
  | none => .error .noPort
  | some sp =>
    match targetPortOf sp (pods.filter (matchesSelector svc.selector)) with
    | .error e => .error e
    | .ok tp =>
      if tp = 0 then .error .noPort else
      let sl := svcSlices svc all
      if sl.isEmpty then .error .noSlices else
      let eps := readyEps (selectSlices tp sl)
      let sel := svc.selector ++ sub
      let addrs := (pods.filter (matchesSelector sel)).flatMap fun p =>
        eps.flatMap fun e => (e.addrs.filter (· = p.ip)).map fun _ => joinHostPort p.ip tp
      .ok (dedupe addrs)

/-! ### the glue: every backend / upstream of one resource is resolved on its own

`createIngressEx`, `createVirtualServerEx`, `createTransportServerEx` walk the backends (default backend, then rules and paths;
upstreams with their backups) and store, per backend, the server list of *that* backend's Service and port; any failure — no such
Service, no EndpointSlices, no matching port — leaves the list empty. `cip`: nginx.org/use-cluster-ip on an Ingress. -/

structure Backend where
  svc : String
  port : Nat
  deriving DecidableEq, Repr, Inhabited

def resolveOne (isPlus cip : Bool) (all : List Slice) (svcs : List (Svc × String)) (pods : List Pod) (b : Backend) : List String :=
  match svcs.find? (fun s => s.1.name = b.svc) with
  | none => []
  | some (svc, clusterIP) =>
    if cip && !svc.external then [joinHostPort clusterIP b.port]
    else match endpointsForBackend isPlus all "" b.port svc pods with
      | .ok l => l
      | .error _ => []

def resolveAll (isPlus cip : Bool) (all : List Slice) (svcs : List (Svc × String)) (pods : List Pod) (bs : List Backend) :
    List (List String) :=
  bs.map (resolveOne isPlus cip all svcs pods)

end Nic.Eps
