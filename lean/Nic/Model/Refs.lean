/-
  C15 — model of the dependency bookkeeping: what createVirtualServerEx / createIngressEx /
  createTransportServerEx consult (forward), and what the reverse lookups
  (reference_checkers.go + findPoliciesForSecret + getWAFPoliciesForAppProtect*) find.
-/
namespace Nic.Refs

inductive Dep where
  | secret (ns name : String)
  | service (ns name : String)
  | policy (ns name : String)
  | apPolicy (key : String)
  | apLogConf (key : String)
  deriving DecidableEq, Repr

structure PolRef where
  name : String
  ns : String            -- "" = not given: the referrer's namespace
  deriving DecidableEq, Repr

/-- A (valid, own-class) Policy object with the objects it names. -/
structure Policy where
  ns : String
  name : String
  secrets : List String          -- jwt / basicAuth / ingressMTLS / egressMTLS (2) / oidc / apiKey secrets, in the policy's namespace
  apPolicy : String              -- "" = none; bare names are resolved in the policy's namespace
  apLogConfs : List String
  deriving DecidableEq, Repr

structure Upstream where
  service : String
  backup : String                -- "" = none (a backup needs a backupPort; both or none here)
  clusterIP : Bool
  deriving DecidableEq, Repr

structure VS where
  ns : String
  tlsSecret : String             -- "" = none
  upstreams : List Upstream
  specPolicies : List PolRef
  routePolicies : List (List PolRef)
  deriving Repr

structure VSR where
  ns : String
  upstreams : List Upstream
  subroutePolicies : List (List PolRef)
  deriving Repr

def polKey (ownerNs : String) (r : PolRef) : String × String := (if r.ns = "" then ownerNs else r.ns, r.name)

def lookup (pols : List Policy) (k : String × String) : Option Policy := pols.find? fun p => p.ns = k.1 ∧ p.name = k.2

def qualify (ns ref : String) : String := if ref.contains '/' then ref else ns ++ "/" ++ ref

/-- What resolving one policy reference consults: the policy itself and, if it exists, what it names. -/
def polDeps (pols : List Policy) (ownerNs : String) (r : PolRef) : List Dep :=
  let k := polKey ownerNs r
  Dep.policy k.1 k.2 ::
    match lookup pols k with
    | none => []
    | some p =>
      p.secrets.map (Dep.secret p.ns) ++
      (if p.apPolicy = "" then [] else [Dep.apPolicy (qualify p.ns p.apPolicy)]) ++
      p.apLogConfs.map (fun l => Dep.apLogConf (qualify p.ns l))

def upstreamDeps (ns : String) (u : Upstream) : List Dep :=
  Dep.service ns u.service :: (if u.backup = "" then [] else [Dep.service ns u.backup])

/-- `createVirtualServerEx` (after the fix that resolves a route's backup service in the route's namespace). -/
def forwardVS (pols : List Policy) (v : VS) (rs : List VSR) : List Dep :=
  (if v.tlsSecret = "" then [] else [Dep.secret v.ns v.tlsSecret]) ++
  v.specPolicies.flatMap (polDeps pols v.ns) ++
  v.upstreams.flatMap (upstreamDeps v.ns) ++
  v.routePolicies.flatMap (fun ps => ps.flatMap (polDeps pols v.ns)) ++
  rs.flatMap fun r =>
    r.subroutePolicies.flatMap (fun ps => ps.flatMap (polDeps pols r.ns)) ++ r.upstreams.flatMap (upstreamDeps r.ns)

/-! ### reverse lookups -/

def polReferenced (refs : List PolRef) (ownerNs pns pname : String) : Bool :=
  refs.any fun r => r.name = pname && (if r.ns = "" then ownerNs else r.ns) = pns

/-- policyReferenceChecker on a VirtualServer with its attached routes. -/
def policyFinds (v : VS) (rs : List VSR) (pns pname : String) : Bool :=
  polReferenced v.specPolicies v.ns pns pname || v.routePolicies.any (fun ps => polReferenced ps v.ns pns pname) ||
  rs.any fun r => r.subroutePolicies.any fun ps => polReferenced ps r.ns pns pname

/-- serviceReferenceChecker (the Service flavour: ClusterIP upstreams count). -/
def serviceFinds (v : VS) (rs : List VSR) (sns sname : String) : Bool :=
  (v.ns = sns && v.upstreams.any fun u => u.service = sname || u.backup = sname) ||
  rs.any fun r => r.ns = sns && r.upstreams.any fun u => u.service = sname || u.backup = sname

/-- secretReferenceChecker + the secret → policy → resource hop. -/
def secretFinds (pols : List Policy) (v : VS) (rs : List VSR) (sns sname : String) : Bool :=
  (v.ns = sns && v.tlsSecret = sname && sname ≠ "") ||
  pols.any fun p => p.ns = sns && p.secrets.contains sname && policyFinds v rs p.ns p.name

def apPolicyFinds (pols : List Policy) (v : VS) (rs : List VSR) (key : String) : Bool :=
  pols.any fun p => p.apPolicy ≠ "" && qualify p.ns p.apPolicy = key && policyFinds v rs p.ns p.name

def apLogConfFinds (pols : List Policy) (v : VS) (rs : List VSR) (key : String) : Bool :=
  pols.any fun p => p.apLogConfs.any (fun l => qualify p.ns l = key) && policyFinds v rs p.ns p.name

def reverseVS (pols : List Policy) (v : VS) (rs : List VSR) : Dep → Bool
  | .secret ns n => secretFinds pols v rs ns n
  | .service ns n => serviceFinds v rs ns n
  | .policy ns n => policyFinds v rs ns n
  | .apPolicy k => apPolicyFinds pols v rs k
  | .apLogConf k => apLogConfFinds pols v rs k

/-! ### TransportServer and Ingress -/

structure TS where
  ns : String
  tlsSecret : String
  upstreams : List Upstream
  deriving Repr

def forwardTS (t : TS) : List Dep :=
  t.upstreams.flatMap (upstreamDeps t.ns) ++ (if t.tlsSecret = "" then [] else [Dep.secret t.ns t.tlsSecret])

def reverseTS (t : TS) : Dep → Bool
  | .secret ns n => t.ns = ns && t.tlsSecret = n && n ≠ ""
  | .service ns n => t.ns = ns && t.upstreams.any fun u => u.service = n || u.backup = n
  | _ => false

structure Ing where
  ns : String
  tlsSecrets : List String
  services : List String          -- default backend + path backends
  jwtKey : String                 -- annotation (NGINX Plus), "" = none
  basicAuth : String
  apPolicy : String
  apLogConfs : List String
  deriving Repr

/-- `createIngressEx` for one Ingress (master or regular) and `createMergeableIngresses` for its minions. -/
def forwardIng (i : Ing) (minions : List Ing) : List Dep :=
  let one := fun (x : Ing) (withTls : Bool) =>
    (if withTls then x.tlsSecrets.map (Dep.secret x.ns) else []) ++
    (if x.jwtKey = "" then [] else [Dep.secret x.ns x.jwtKey]) ++
    (if x.basicAuth = "" then [] else [Dep.secret x.ns x.basicAuth]) ++
    x.services.map (Dep.service x.ns)
  one i true ++ (if i.apPolicy = "" then [] else [Dep.apPolicy (qualify i.ns i.apPolicy)]) ++
    i.apLogConfs.map (fun l => Dep.apLogConf (qualify i.ns l)) ++ minions.flatMap (fun m => one m false)

def reverseIng (i : Ing) (minions : List Ing) : Dep → Bool
  | .secret ns n =>
    (i.ns = ns && (i.tlsSecrets.contains n || (i.jwtKey = n && n ≠ "") || (i.basicAuth = n && n ≠ ""))) ||
    minions.any fun m => m.ns = ns && ((m.jwtKey = n && n ≠ "") || (m.basicAuth = n && n ≠ ""))
  | .service ns n => (i.ns = ns && i.services.contains n) || minions.any fun m => m.ns = ns && m.services.contains n
  | .apPolicy k => i.apPolicy ≠ "" && qualify i.ns i.apPolicy = k
  | .apLogConf k => i.apLogConfs.any fun l => qualify i.ns l = k
  | .policy _ _ => false

end Nic.Refs
