/-
  String-level injectivity of separator-joined names.
-/
namespace Nic.Naming

/-- `a ++ sep :: b` determines `a` and `b` when `sep` does not occur in `a`. -/
theorem sepJoin_inj {α} [DecidableEq α] (sep : α) (a a' b b' : List α) (ha : sep ∉ a) (ha' : sep ∉ a')
    (h : a ++ sep :: b = a' ++ sep :: b') : a = a' ∧ b = b' := by
  induction a generalizing a' with
  | nil =>
    cases a' with
    | nil => simpa using h
    | cons x r =>
      simp at h
      exact absurd (by rw [← h.1]; exact List.mem_cons_self) ha'
  | cons x r ih =>
    cases a' with
    | nil =>
      simp at h
      exact absurd (by rw [h.1]; exact List.mem_cons_self) ha
    | cons y r' =>
      simp only [List.cons_append, List.cons.injEq] at h
      have hr : sep ∉ r := fun m => ha (List.mem_cons_of_mem _ m)
      have hr' : sep ∉ r' := fun m => ha' (List.mem_cons_of_mem _ m)
      obtain ⟨e1, e2⟩ := ih r' hr hr' h.2
      exact ⟨by rw [h.1, e1], e2⟩

/-- A string without the character `c`. -/
def Free (c : Char) (s : String) : Prop := c ∉ s.toList

theorem join3_inj (pre sepS : String) (sep : Char) (hsep : sepS.toList = [sep]) (a a' b b' : String)
    (ha : Free sep a) (ha' : Free sep a')
    (h : pre ++ a ++ sepS ++ b = pre ++ a' ++ sepS ++ b') : a = a' ∧ b = b' := by
  have h' := congrArg String.toList h
  simp only [String.toList_append, hsep] at h'
  simp only [List.append_assoc] at h'
  have := List.append_cancel_left h'
  simp only [List.singleton_append] at this
  obtain ⟨e1, e2⟩ := sepJoin_inj sep a.toList a'.toList b.toList b'.toList ha ha' this
  exact ⟨String.toList_injective e1, String.toList_injective e2⟩

end Nic.Naming
