/-
  `beats` (chooseObjectMetaWinner) is a strict total order on metas with
  distinct UIDs, and the running-holder fold returns the champion.
-/
import Nic.Model.Arb
namespace Nic.Arb

theorem beats_iff (a b : Meta) :
    beats a b = true ↔ (a.ts = b.ts ∧ b.uid < a.uid) ∨ a.ts < b.ts := by
  unfold beats
  by_cases e : a.ts = b.ts
  · simp [e]
  · simp [e]

theorem beats_irrefl (a : Meta) : beats a a = false := by simp [beats]

theorem beats_asymm {a b : Meta} (h : beats a b = true) : beats b a = false := by
  cases hb : beats b a with
  | false => rfl
  | true => rw [beats_iff] at h hb; omega

theorem beats_trans {a b c : Meta} (h1 : beats a b = true) (h2 : beats b c = true) : beats a c = true := by
  rw [beats_iff] at *; omega

theorem beats_total {a b : Meta} (h : a.uid ≠ b.uid) : beats a b = true ∨ beats b a = true := by
  rw [beats_iff, beats_iff]; omega

/-- With distinct UIDs, "does not beat" is "is beaten by". -/
theorem not_beats {a b : Meta} (h : a.uid ≠ b.uid) (hb : beats a b = false) : beats b a = true := by
  rcases beats_total h with h' | h'
  · rw [hb] at h'; cases h'
  · exact h'

/-! ### the running holder -/

section Holder
variable {α : Type} (md : α → Meta)

/-- One step of the holder comparison used in every build loop:
`if !holder.Wins(r) { holder = r }`. -/
def hstep (holder : Option α) (r : α) : Option α :=
  match holder with
  | none => some r
  | some h => if !(beats (md h) (md r)) then some r else some h

/-- `c` is a champion of `l`: a member that beats every member with another UID. -/
def IsChampion (l : List α) (c : α) : Prop :=
  c ∈ l ∧ ∀ x ∈ l, (md x).uid ≠ (md c).uid → beats (md c) (md x) = true

theorem fold_hstep_some (h : α) (l : List α) : ∃ c, l.foldl (hstep md) (some h) = some c := by
  induction l generalizing h with
  | nil => exact ⟨h, rfl⟩
  | cons a r ih =>
    simp only [List.foldl_cons, hstep]
    split <;> exact ih _

/-- **The running-holder fold returns the champion** of holder :: l, for any list with
pairwise distinct UIDs. -/
theorem fold_hstep_champion (h : α) (l : List α)
    (hd : (h :: l).Pairwise (fun a b => (md a).uid ≠ (md b).uid)) :
    ∃ c, l.foldl (hstep md) (some h) = some c ∧ IsChampion md (h :: l) c := by
  induction l generalizing h with
  | nil =>
    refine ⟨h, rfl, List.mem_cons_self, ?_⟩
    intro x hx hne
    simp at hx; subst hx; exact absurd rfl hne
  | cons a r ih =>
    simp only [List.foldl_cons, hstep]
    have hpa : (md h).uid ≠ (md a).uid := by
      have := List.rel_of_pairwise_cons hd (List.mem_cons_self); exact this
    have hdr : (h :: r).Pairwise (fun a b => (md a).uid ≠ (md b).uid) := by
      rw [List.pairwise_cons] at hd ⊢
      refine ⟨fun x hx => hd.1 x (List.mem_cons_of_mem _ hx), ?_⟩
      exact (List.pairwise_cons.mp hd.2).2
    have har : (a :: r).Pairwise (fun a b => (md a).uid ≠ (md b).uid) := (List.pairwise_cons.mp hd).2
    by_cases hb : beats (md h) (md a) = true
    · simp only [hb, Bool.not_true, Bool.false_eq_true, if_false]
      obtain ⟨c, hc, hmem, hbeat⟩ := ih h hdr
      refine ⟨c, hc, ?_, ?_⟩
      · rcases List.mem_cons.mp hmem with rfl | hm
        · exact List.mem_cons_self
        · exact List.mem_cons_of_mem _ (List.mem_cons_of_mem _ hm)
      · intro x hx hne
        rcases List.mem_cons.mp hx with rfl | hx
        · exact hbeat _ List.mem_cons_self hne
        · rcases List.mem_cons.mp hx with rfl | hx
          · -- c beats (or is) h, h beats a
            by_cases hch : (md h).uid = (md c).uid
            · -- c has h's uid, so c = h as far as beats is concerned: c ∈ h :: r with pairwise distinct uids
              rcases List.mem_cons.mp hmem with rfl | hm
              · exact hb
              · exact absurd hch ((List.pairwise_cons.mp hdr).1 c hm)
            · exact beats_trans (hbeat h List.mem_cons_self hch) hb
          · exact hbeat x (List.mem_cons_of_mem _ hx) hne
    · have hb' : beats (md h) (md a) = false := by simpa using hb
      simp only [hb', Bool.not_false, if_true]
      obtain ⟨c, hc, hmem, hbeat⟩ := ih a har
      refine ⟨c, hc, List.mem_cons_of_mem _ hmem, ?_⟩
      intro x hx hne
      rcases List.mem_cons.mp hx with rfl | hx
      · -- a beats h; c beats (or is) a
        have hah : beats (md a) (md x) = true := not_beats hpa hb'
        by_cases hca : (md a).uid = (md c).uid
        · rcases List.mem_cons.mp hmem with rfl | hm
          · exact hah
          · exact absurd hca ((List.pairwise_cons.mp har).1 c hm)
        · exact beats_trans (hbeat a List.mem_cons_self hca) hah
      · exact hbeat x hx hne

/-- A champion is unique up to UID. -/
theorem champion_unique {l : List α} {c d : α} (hc : IsChampion md l c) (hdd : IsChampion md l d) :
    (md c).uid = (md d).uid := by
  by_cases h : (md c).uid = (md d).uid
  · exact h
  · have h1 := hc.2 d hdd.1 (fun e => h e.symm)
    have h2 := hdd.2 c hc.1 h
    rw [beats_asymm h1] at h2; cases h2

/-- Being a champion only mentions membership, so it is invariant under permutation. -/
theorem champion_perm {l l' : List α} (hp : ∀ x, x ∈ l ↔ x ∈ l') {c : α} (hc : IsChampion md l c) :
    IsChampion md l' c :=
  ⟨(hp c).mp hc.1, fun x hx hne => hc.2 x ((hp x).mpr hx) hne⟩

end Holder
end Nic.Arb
