/-
  The hosts component of `buildHosts` is the holder fold over `Spec.claims`,
  and per host it is the champion of that host's claimants.
-/
import Nic.Model.Arb
import Nic.Spec.Arb
import Nic.Lemmas.Beats
import Nic.Lemmas.MapLemmas
namespace Nic.Arb
open Spec

abbrev HMap := Map (String × Meta)

def pairOf (c : Claim) : String × Meta := (c.key, c.md)

/-- The hosts component of `Build.claim`. -/
def ostep (m : HMap) (c : Claim) : HMap :=
  match m.get? c.host with
  | none => m.set c.host (pairOf c)
  | some holder => if !(beats holder.2 c.md) then m.set c.host (pairOf c) else m

theorem addWarning_hosts (b : Build) (k w : String) : (b.addWarning k w).hosts = b.hosts := by
  unfold Build.addWarning; split <;> rfl

theorem claim_hosts (b : Build) (host : String) (r : Res) :
    (b.claim host r).hosts = ostep b.hosts ⟨host, r.key, r.md⟩ := by
  unfold Build.claim ostep
  cases hg : b.hosts.get? host with
  | none => simp [pairOf]
  | some p =>
    obtain ⟨hk, hmd⟩ := p
    simp only [pairOf]
    by_cases hb : beats hmd r.md = true
    · simp [hb, addWarning_hosts]
    · have hb' : beats hmd r.md = false := by simpa using hb
      simp [hb']

theorem claimAll_hosts (b : Build) (r : Res) (hs : List String) :
    (claimAll b r hs).hosts = (hs.map fun h => (⟨h, r.key, r.md⟩ : Claim)).foldl ostep b.hosts := by
  unfold claimAll
  induction hs generalizing b with
  | nil => rfl
  | cons h t ih => simp only [List.foldl_cons, List.map_cons]; rw [ih, claim_hosts]

/-! ### per-host view of the fold -/

theorem get?_ostep_other (m : HMap) (c : Claim) (h : String) (hne : c.host ≠ h) :
    (ostep m c).get? h = m.get? h := by
  unfold ostep
  have hne' : h ≠ c.host := fun e => hne e.symm
  split
  · exact Map.get?_set_ne _ _ _ _ hne'
  · split
    · exact Map.get?_set_ne _ _ _ _ hne'
    · rfl

theorem get?_ostep_same (m : HMap) (c : Claim) :
    (ostep m c).get? c.host = hstep Prod.snd (m.get? c.host) (pairOf c) := by
  unfold ostep hstep
  cases hg : m.get? c.host with
  | none => simp [Map.get?_set_self]
  | some p =>
    simp only [pairOf]
    by_cases hb : beats p.2 c.md = true
    · simp [hb, hg]
    · have hb' : beats p.2 c.md = false := by simpa using hb
      simp [hb', Map.get?_set_self]

/-- Looking one host up in the result of the whole fold = folding only that host's claims. -/
theorem get?_fold_ostep (cl : List Claim) (m : HMap) (h : String) :
    (cl.foldl ostep m).get? h =
      ((cl.filter (fun c => c.host = h)).map pairOf).foldl (hstep Prod.snd) (m.get? h) := by
  induction cl generalizing m with
  | nil => rfl
  | cons c r ih =>
    simp only [List.foldl_cons]
    rw [ih]
    by_cases hc : c.host = h
    · subst hc
      simp [List.filter_cons, get?_ostep_same]
    · simp [List.filter_cons, hc, get?_ostep_other m c h hc]

/-! ### the three build stages fold their claims -/

theorem res_ing_key (c : IngCfg) : (Res.ing c).key = "Ingress/" ++ c.md.key := rfl
theorem res_vs_key (c : VSCfg) : (Res.vs c).key = "VirtualServer/" ++ c.md.key := rfl
theorem res_ts_key (c : TSCfg) : (Res.ts c).key = "TransportServer/" ++ c.md.key := rfl

theorem ingCfgOf_md (s : Objs) (i : Ing) : (ingCfgOf s i).md = i.md := by
  unfold ingCfgOf; split <;> rfl

theorem converted_eq (s : Objs) (i : Ing) : convertedIng s i = Spec.converted s i := by
  simp only [convertedIng, Spec.converted, isChallenge, challengeOwnerVs, ingH0, Spec.h0, Bool.and_assoc]
  congr 2

def ingClaimsOf (s : Objs) (kv : String × Ing) : List Claim :=
  if isMinion kv.2 || Spec.converted s kv.2 then [] else
    kv.2.rules.map fun r => ⟨r.1, "Ingress/" ++ kv.2.md.key, kv.2.md⟩

theorem ingClaims_eq (s : Objs) : Spec.ingClaims s = s.ings.flatMap (ingClaimsOf s) := rfl

theorem ingStep_hosts (s : Objs) (acc : Build × List (String × Meta)) (kv : String × Ing) :
    (ingStep s acc kv).1.hosts = (ingClaimsOf s kv).foldl ostep acc.1.hosts := by
  unfold ingStep ingClaimsOf
  by_cases hm : isMinion kv.2 = true
  · simp [hm]
  · have hm' : isMinion kv.2 = false := by simpa using hm
    by_cases hc : convertedIng s kv.2 = true
    · have : Spec.converted s kv.2 = true := by rw [← converted_eq]; exact hc
      simp [hm', hc, this]
    · have hc' : convertedIng s kv.2 = false := by simpa using hc
      have : Spec.converted s kv.2 = false := by rw [← converted_eq]; exact hc'
      simp only [hm', hc', this, Bool.false_eq_true, if_false, Bool.or_self]
      rw [claimAll_hosts]
      simp [res_ing_key, Res.md, ingCfgOf_md, List.map_map, Function.comp_def]

theorem fold_ingStep_hosts (s : Objs) (l : List (String × Ing)) (acc : Build × List (String × Meta)) :
    (l.foldl (ingStep s) acc).1.hosts = (l.flatMap (ingClaimsOf s)).foldl ostep acc.1.hosts := by
  induction l generalizing acc with
  | nil => rfl
  | cons a r ih =>
    simp only [List.foldl_cons, List.flatMap_cons, List.foldl_append]
    rw [ih, ingStep_hosts]

theorem vsCfgOf_md (s : Objs) (ch : List (String × Meta)) (v : VS) : (vsCfgOf s ch v).md = v.md := by
  unfold vsCfgOf assignListeners
  simp only
  split
  · split <;> split <;> (try split) <;> (try split) <;> rfl
  · rfl

theorem vsStep_hosts (s : Objs) (ch : List (String × Meta)) (b : Build) (kv : String × VS) :
    (vsStep s ch b kv).hosts = ostep b.hosts ⟨kv.2.host, "VirtualServer/" ++ kv.2.md.key, kv.2.md⟩ := by
  unfold vsStep
  rw [claim_hosts]
  simp [res_vs_key, Res.md, vsCfgOf_md]

theorem fold_vsStep_hosts (s : Objs) (ch : List (String × Meta)) (l : List (String × VS)) (b : Build) :
    (l.foldl (vsStep s ch) b).hosts =
      (l.map fun kv => (⟨kv.2.host, "VirtualServer/" ++ kv.2.md.key, kv.2.md⟩ : Claim)).foldl ostep b.hosts := by
  induction l generalizing b with
  | nil => rfl
  | cons a r ih => simp only [List.foldl_cons, List.map_cons]; rw [ih, vsStep_hosts]

def tsClaimOf (kv : String × TS) : Option Claim :=
  if isPassthroughTS kv.2 then some ⟨kv.2.host, "TransportServer/" ++ kv.2.md.key, kv.2.md⟩ else none

theorem tsStep_hosts (b : Build) (kv : String × TS) :
    (tsStep b kv).hosts = (tsClaimOf kv).toList.foldl ostep b.hosts := by
  unfold tsStep tsClaimOf
  by_cases hp : isPassthroughTS kv.2 = true
  · simp only [hp, Bool.not_true, Bool.false_eq_true, if_false, if_true, Option.toList_some,
      List.foldl_cons, List.foldl_nil]
    rw [claim_hosts]
    simp [res_ts_key, Res.md]
  · have hp' : isPassthroughTS kv.2 = false := by simpa using hp
    simp [hp']

theorem fold_tsStep_hosts (l : List (String × TS)) (b : Build) :
    (l.foldl tsStep b).hosts = (l.filterMap tsClaimOf).foldl ostep b.hosts := by
  induction l generalizing b with
  | nil => rfl
  | cons a r ih =>
    simp only [List.foldl_cons]
    rw [ih, tsStep_hosts]
    cases h : tsClaimOf a <;> simp [List.filterMap_cons, h]

theorem markValidHosts_hosts (b : Build) : (markValidHosts b).hosts = b.hosts := rfl

/-- **The owner map computed by `buildHostsAndResources` is the holder fold over all claims**
(Ingress rules in key order, then VirtualServers, then passthrough TransportServers). -/
theorem buildHosts_hosts (s : Objs) : (buildHosts s).hosts = (Spec.claims s).foldl ostep [] := by
  unfold buildHosts
  simp only [markValidHosts_hosts]
  unfold buildTss buildVss buildIngs Spec.claims
  simp only [List.foldl_append]
  have h1 := fold_ingStep_hosts s s.ings ({}, [])
  by_cases hp : s.cfg.passthrough = true
  · simp only [hp, Bool.not_true, Bool.false_eq_true, if_false]
    rw [fold_tsStep_hosts, fold_vsStep_hosts, h1]
    simp [Spec.tsClaims, hp, Spec.vsClaims, ingClaims_eq, tsClaimOf]
    rfl
  · have hp' : s.cfg.passthrough = false := by simpa using hp
    simp only [hp', Bool.not_false, if_true]
    rw [fold_vsStep_hosts, h1]
    simp [Spec.tsClaims, hp', Spec.vsClaims, ingClaims_eq]

/-! ### the fold's answer is the Spec's champion -/

theorem eq_of_pairwise_uid {l : List Claim}
    (hp : l.Pairwise (fun a b => a.md.uid ≠ b.md.uid)) {a b : Claim}
    (ha : a ∈ l) (hb : b ∈ l) (he : a.md.uid = b.md.uid) : a = b := by
  induction l with
  | nil => cases ha
  | cons x r ih =>
    rw [List.pairwise_cons] at hp
    rcases List.mem_cons.mp ha with rfl | ha' <;> rcases List.mem_cons.mp hb with rfl | hb'
    · rfl
    · exact absurd he (hp.1 b hb')
    · exact absurd he.symm (hp.1 a ha')
    · exact ih hp.2 ha' hb'

/-- `Spec.champion` (the first claim that beats all claims with another UID) is a champion
in the sense of the fold lemma. -/
theorem champion_spec {l : List Claim} {c : Claim} (h : Spec.champion l = some c) :
    IsChampion Claim.md l c := by
  unfold Spec.champion at h
  have hm := List.mem_of_find?_eq_some h
  have hp := List.find?_some h
  refine ⟨hm, fun x hx hne => ?_⟩
  have := (List.all_eq_true.mp hp) x hx
  simp only [Bool.or_eq_true, decide_eq_true_eq] at this
  rcases this with e | e
  · exact absurd e hne
  · exact e

theorem champion_test {l : List Claim} {c : Claim} (h : IsChampion Claim.md l c) :
    (l.all fun c' => c'.md.uid = c.md.uid || beats c.md c'.md) = true := by
  rw [List.all_eq_true]
  intro y hy
  by_cases e : y.md.uid = c.md.uid
  · simp [e]
  · simp [h.2 y hy e]

/-- A list with a champion makes `Spec.champion` find exactly it (distinct UIDs). -/
theorem champion_eq_of_isChampion {l : List Claim} (hd : l.Pairwise (fun a b => a.md.uid ≠ b.md.uid))
    {c : Claim} (h : IsChampion Claim.md l c) : Spec.champion l = some c := by
  cases hf : Spec.champion l with
  | none =>
    unfold Spec.champion at hf
    have := List.find?_eq_none.mp hf c h.1
    simp [champion_test h] at this
  | some c1 =>
    have h1 := champion_spec hf
    have hu := champion_unique Claim.md h1 h
    rw [eq_of_pairwise_uid hd h1.1 h.1 hu]

/-- **The running-holder fold over a claim list returns the Spec's champion.** -/
theorem fold_eq_champion (L : List Claim) (hd : L.Pairwise (fun a b => a.md.uid ≠ b.md.uid)) :
    ((L.map pairOf).foldl (hstep Prod.snd) none).map (·.1) = (Spec.champion L).map (·.key) := by
  cases L with
  | nil => simp [Spec.champion]
  | cons x r =>
    simp only [List.map_cons, List.foldl_cons, hstep]
    have hpw : (pairOf x :: r.map pairOf).Pairwise (fun a b => (Prod.snd a).uid ≠ (Prod.snd b).uid) := by
      have : ((x :: r).map pairOf).Pairwise (fun a b => (Prod.snd a).uid ≠ (Prod.snd b).uid) := by
        rw [List.pairwise_map]; exact hd
      simpa using this
    obtain ⟨c, hc, hmem, hbeat⟩ := fold_hstep_champion Prod.snd (pairOf x) (r.map pairOf) hpw
    rw [hc]
    have hmem' : c ∈ (x :: r).map pairOf := by simpa using hmem
    obtain ⟨c0, hc0, rfl⟩ := List.mem_map.mp hmem'
    have h0 : IsChampion Claim.md (x :: r) c0 := by
      refine ⟨hc0, fun y hy hne => ?_⟩
      have := hbeat (pairOf y) (by simpa using List.mem_map_of_mem (f := pairOf) hy) (by simpa [pairOf] using hne)
      simpa [pairOf] using this
    rw [champion_eq_of_isChampion hd h0]
    simp [pairOf]

/-- The champion's key does not depend on the order in which the claims are listed. -/
theorem champion_perm_key {L L' : List Claim} (hp : L.Perm L')
    (hd : L.Pairwise (fun a b => a.md.uid ≠ b.md.uid)) :
    (Spec.champion L).map (·.key) = (Spec.champion L').map (·.key) := by
  have hd' : L'.Pairwise (fun a b => a.md.uid ≠ b.md.uid) :=
    (hp.pairwise_iff (fun {a b} (h : a.md.uid ≠ b.md.uid) => fun e => h e.symm)).mp hd
  have hmem : ∀ x, x ∈ L ↔ x ∈ L' := fun x => hp.mem_iff
  cases h : Spec.champion L with
  | none =>
    cases h' : Spec.champion L' with
    | none => rfl
    | some c' =>
      have := champion_perm Claim.md (fun x => (hmem x).symm) (champion_spec h')
      rw [champion_eq_of_isChampion hd this] at h; cases h
  | some c =>
    have := champion_perm Claim.md hmem (champion_spec h)
    rw [champion_eq_of_isChampion hd' this]

end Nic.Arb
