/-
  The hosts component of `buildHosts` is the holder fold over `Spec.claims`,
  and per host it is the champion of that host's claimants.
-/
import Nic.Model.Arb
import Nic.Spec.Arb
import Nic.Lemmas.Beats
import Nic.Lemmas.MapLemmas
namespace Nic.Arb
open Spec

abbrev HMap := Map (String × Meta)

def pairOf (c : Claim) : String × Meta := (c.key, c.md)

/-- The hosts component of `Build.claim`. -/
def ostep (m : HMap) (c : Claim) : HMap :=
  match m.get? c.host with
  | none => m.set c.host (pairOf c)
  | some holder => if !(beats holder.2 c.md) then m.set c.host (pairOf c) else m

theorem addWarning_hosts (b : Build) (k w : String) : (b.addWarning k w).hosts = b.hosts := by
  unfold Build.addWarning; split <;> rfl

theorem claim_hosts (b : Build) (host : String) (r : Res) :
    (b.claim host r).hosts = ostep b.hosts ⟨host, r.key, r.md⟩ := by
  unfold Build.claim ostep
  cases hg : b.hosts.get? host with
  | none => simp [pairOf]
  | some p =>
    obtain ⟨hk, hmd⟩ := p
    simp only [pairOf]
    by_cases hb : beats hmd r.md = true
    · simp [hb, addWarning_hosts]
    · have hb' : beats hmd r.md = false := by simpa using hb
      simp [hb']

theorem claimAll_hosts (b : Build) (r : Res) (hs : List String) :
    (claimAll b r hs).hosts = (hs.map fun h => (⟨h, r.key, r.md⟩ : Claim)).foldl ostep b.hosts := by
  unfold claimAll
  induction hs generalizing b with
  | nil => rfl
  | cons h t ih => simp only [List.foldl_cons, List.map_cons]; rw [ih, claim_hosts]

/-! ### per-host view of the fold -/

theorem get?_ostep_other (m : HMap) (c : Claim) (h : String) (hne : c.host ≠ h) :
    (ostep m c).get? h = m.get? h := by
  unfold ostep
  have hne' : h ≠ c.host := fun e => hne e.symm
  split
  · exact Map.get?_set_ne _ _ _ _ hne'
  · split
    · exact Map.get?_set_ne _ _ _ _ hne'
    · rfl

theorem get?_ostep_same (m : HMap) (c : Claim) :
    (ostep m c).get? c.host = hstep Prod.snd (m.get? c.host) (pairOf c) := by
  unfold ostep hstep
  cases hg : m.get? c.host with
  | none => simp [Map.get?_set_self]
  | some p =>
    simp only [pairOf]
    by_cases hb : beats p.2 c.md = true
    · simp [hb, hg]
    · have hb' : beats p.2 c.md = false := by simpa using hb
      simp [hb', Map.get?_set_self]

/-- Looking one host up in the result of the whole fold = folding only that host's claims. -/
theorem get?_fold_ostep (cl : List Claim) (m : HMap) (h : String) :
    (cl.foldl ostep m).get? h =
      ((cl.filter (fun c => c.host = h)).map pairOf).foldl (hstep Prod.snd) (m.get? h) := by
  induction cl generalizing m with
  | nil => rfl
  | cons c r ih =>
    simp only [List.foldl_cons]
    rw [ih]
    by_cases hc : c.host = h
    · subst hc
      simp [List.filter_cons, get?_ostep_same]
    · simp [List.filter_cons, hc, get?_ostep_other m c h hc]

/-! ### the three build stages fold their claims -/

theorem res_ing_key (c : IngCfg) : (Res.ing c).key = "Ingress/" ++ c.md.key := rfl
theorem res_vs_key (c : VSCfg) : (Res.vs c).key = "VirtualServer/" ++ c.md.key := rfl
theorem res_ts_key (c : TSCfg) : (Res.ts c).key = "TransportServer/" ++ c.md.key := rfl

theorem ingCfgOf_md (s : Objs) (i : Ing) : (ingCfgOf s i).md = i.md := by
  unfold ingCfgOf; split <;> rfl

theorem converted_eq (s : Objs) (i : Ing) : convertedIng s i = Spec.converted s i := by
  simp only [convertedIng, Spec.converted, isChallenge, challengeOwnerVs, ingH0, Spec.h0, Bool.and_assoc]
  congr 2

def ingClaimsOf (s : Objs) (kv : String × Ing) : List Claim :=
  if isMinion kv.2 || Spec.converted s kv.2 then [] else
    kv.2.rules.map fun r => ⟨r.1, "Ingress/" ++ kv.2.md.key, kv.2.md⟩

theorem ingClaims_eq (s : Objs) : Spec.ingClaims s = s.ings.flatMap (ingClaimsOf s) := rfl

theorem ingStep_hosts (s : Objs) (acc : Build × List (String × Meta)) (kv : String × Ing) :
    (ingStep s acc kv).1.hosts = (ingClaimsOf s kv).foldl ostep acc.1.hosts := by
  unfold ingStep ingClaimsOf
  by_cases hm : isMinion kv.2 = true
  · simp [hm]
  · have hm' : isMinion kv.2 = false := by simpa using hm
    by_cases hc : convertedIng s kv.2 = true
    · have : Spec.converted s kv.2 = true := by rw [← converted_eq]; exact hc
      simp [hm', hc, this]
    · have hc' : convertedIng s kv.2 = false := by simpa using hc
      have : Spec.converted s kv.2 = false := by rw [← converted_eq]; exact hc'
      simp only [hm', hc', this, Bool.false_eq_true, if_false, Bool.or_self]
      rw [claimAll_hosts]
      simp [res_ing_key, Res.md, ingCfgOf_md, List.map_map, Function.comp_def]

theorem fold_ingStep_hosts (s : Objs) (l : List (String × Ing)) (acc : Build × List (String × Meta)) :
    (l.foldl (ingStep s) acc).1.hosts = (l.flatMap (ingClaimsOf s)).foldl ostep acc.1.hosts := by
  induction l generalizing acc with
  | nil => rfl
  | cons a r ih =>
    simp only [List.foldl_cons, List.flatMap_cons, List.foldl_append]
    rw [ih, ingStep_hosts]

theorem vsCfgOf_md (s : Objs) (ch : List (String × Meta)) (v : VS) : (vsCfgOf s ch v).md = v.md := by
  unfold vsCfgOf assignListeners
  simp only
  split
  · split <;> split <;> (try split) <;> (try split) <;> rfl
  · rfl

theorem vsStep_hosts (s : Objs) (ch : List (String × Meta)) (b : Build) (kv : String × VS) :
    (vsStep s ch b kv).hosts = ostep b.hosts ⟨kv.2.host, "VirtualServer/" ++ kv.2.md.key, kv.2.md⟩ := by
  unfold vsStep
  rw [claim_hosts]
  simp [res_vs_key, Res.md, vsCfgOf_md]

theorem fold_vsStep_hosts (s : Objs) (ch : List (String × Meta)) (l : List (String × VS)) (b : Build) :
    (l.foldl (vsStep s ch) b).hosts =
      (l.map fun kv => (⟨kv.2.host, "VirtualServer/" ++ kv.2.md.key, kv.2.md⟩ : Claim)).foldl ostep b.hosts := by
  induction l generalizing b with
  | nil => rfl
  | cons a r ih => simp only [List.foldl_cons, List.map_cons]; rw [ih, vsStep_hosts]

def tsClaimOf (kv : String × TS) : Option Claim :=
  if isPassthroughTS kv.2 then some ⟨kv.2.host, "TransportServer/" ++ kv.2.md.key, kv.2.md⟩ else none

theorem tsStep_hosts (b : Build) (kv : String × TS) :
    (tsStep b kv).hosts = (tsClaimOf kv).toList.foldl ostep b.hosts := by
  unfold tsStep tsClaimOf
  by_cases hp : isPassthroughTS kv.2 = true
  · simp only [hp, Bool.not_true, Bool.false_eq_true, if_false, if_true, Option.toList_some,
      List.foldl_cons, List.foldl_nil]
    rw [claim_hosts]
    simp [res_ts_key, Res.md]
  · have hp' : isPassthroughTS kv.2 = false := by simpa using hp
    simp [hp']

theorem fold_tsStep_hosts (l : List (String × TS)) (b : Build) :
    (l.foldl tsStep b).hosts = (l.filterMap tsClaimOf).foldl ostep b.hosts := by
  induction l generalizing b with
  | nil => rfl
  | cons a r ih =>
    simp only [List.foldl_cons]
    rw [ih, tsStep_hosts]
    cases h : tsClaimOf a <;> simp [List.filterMap_cons, h]

theorem markValidHosts_hosts (b : Build) : (markValidHosts b).hosts = b.hosts := rfl

/-- **The owner map computed by `buildHostsAndResources` is the holder fold over all claims**
(Ingress rules in key order, then VirtualServers, then passthrough TransportServers). -/
theorem buildHosts_hosts (s : Objs) : (buildHosts s).hosts = (Spec.claims s).foldl ostep [] := by
  unfold buildHosts
  simp only [markValidHosts_hosts]
  unfold buildTss buildVss buildIngs Spec.claims
  simp only [List.foldl_append]
  have h1 := fold_ingStep_hosts s s.ings ({}, [])
  by_cases hp : s.cfg.passthrough = true
  · simp only [hp, Bool.not_true, Bool.false_eq_true, if_false]
    rw [fold_tsStep_hosts, fold_vsStep_hosts, h1]
    simp [Spec.tsClaims, hp, Spec.vsClaims, ingClaims_eq, tsClaimOf]
    rfl
  · have hp' : s.cfg.passthrough = false := by simpa using hp
    simp only [hp', Bool.not_false, if_true]
    rw [fold_vsStep_hosts, h1]
    simp [Spec.tsClaims, hp', Spec.vsClaims, ingClaims_eq]

end Nic.Arb
