/-
  Rebuilding an unchanged object set emits no change and no problem.
-/
import Nic.Lemmas.Owner
import Nic.Lemmas.MapSorted
namespace Nic.Arb

theorem metaEq_refl (a : Meta) : metaEq a a = true := by simp [metaEq]
theorem metaEqAnn_refl (a : Meta) : metaEqAnn a a = true := by simp [metaEqAnn, metaEq_refl]

theorem listAll2_refl {α} (f : α → α → Bool) (hf : ∀ a, f a a = true) (l : List α) : listAll2 f l l = true := by
  induction l with
  | nil => rfl
  | cons a r ih => simp [listAll2, hf, ih]

theorem isEqual_refl (r : Res) : r.isEqual r = true := by
  cases r with
  | ing c =>
    have h := listAll2_refl (fun (x y : MinionCfg) => metaEqAnn x.md y.md) (fun x => metaEqAnn_refl x.md) c.minions
    simp [Res.isEqual, metaEqAnn_refl, h]
  | vs c => simp [Res.isEqual, metaEq_refl, listAll2_refl _ metaEq_refl]
  | ts c => simp [Res.isEqual, metaEq_refl]

/-! ### sortedness of everything the rebuild stores -/

theorem ostep_sorted (m : HMap) (c : Spec.Claim) (h : Map.Sorted m) : Map.Sorted (ostep m c) := by
  unfold ostep
  split
  · exact Map.set_sorted _ _ _ h
  · split
    · exact Map.set_sorted _ _ _ h
    · exact h

theorem fold_ostep_sorted (cl : List Spec.Claim) (m : HMap) (h : Map.Sorted m) : Map.Sorted (cl.foldl ostep m) := by
  induction cl generalizing m with
  | nil => exact h
  | cons c r ih => exact ih _ (ostep_sorted m c h)

theorem buildHosts_sorted (o : Objs) : Map.Sorted (buildHosts o).hosts := by
  rw [buildHosts_hosts]; exact fold_ostep_sorted _ _ Map.sorted_nil

theorem lwStep_hosts (gc : Option (List Listener)) (b : Build) (kv : String × Res) : (lwStep gc b kv).hosts = b.hosts := by
  unfold lwStep
  split
  · split
    · rfl
    · split
      · exact addWarning_hosts _ _ _
      · rfl
  · rfl

theorem listenerWarnings_hosts (o : Objs) (b : Build) : (listenerWarnings o b).hosts = b.hosts := by
  unfold listenerWarnings
  have : ∀ (l : List (String × Res)) (b0 : Build), (l.foldl (lwStep o.gc) b0).hosts = b0.hosts := by
    intro l
    induction l with
    | nil => intro b0; rfl
    | cons a r ih => intro b0; simp only [List.foldl_cons]; rw [ih, lwStep_hosts]
  exact this _ _

theorem resolveHosts_sorted (b : Build) (h : Map.Sorted b.hosts) : Map.Sorted (resolveHosts b) := by
  unfold resolveHosts
  exact Map.filterMap_sorted b.hosts (fun p => b.res.get? p.2.1) h

theorem fold_set_sorted {α β} (l : List β) (f : Map α → β → Map α)
    (hf : ∀ m x, Map.Sorted m → Map.Sorted (f m x)) (m : Map α) (h : Map.Sorted m) :
    Map.Sorted (l.foldl f m) := by
  induction l generalizing m with
  | nil => exact h
  | cons a r ih => exact ih _ (hf m a h)

theorem noActiveHostProblems_sorted (hosts : Map (String × Meta)) (res : Map Res) :
    Map.Sorted (noActiveHostProblems hosts res) := by
  unfold noActiveHostProblems
  apply fold_set_sorted _ _ _ _ Map.sorted_nil
  intro m x hm
  unfold noActiveStep
  split <;> split <;> first | exact hm | exact Map.set_sorted _ _ _ hm

theorem orphanMinionProblems_sorted (o : Objs) (hosts : Map (String × Meta)) (res : Map Res) (m : Map Problem)
    (h : Map.Sorted m) : Map.Sorted (orphanMinionProblems o hosts res m) := by
  unfold orphanMinionProblems
  apply fold_set_sorted _ _ _ _ h
  intro m x hm
  unfold orphanStep
  simp only
  repeat' split
  all_goals first | exact hm | exact Map.set_sorted _ _ _ hm

theorem vsrProblems_sorted (o : Objs) (hosts : Map (String × Meta)) (res : Map Res) (m : Map Problem)
    (h : Map.Sorted m) : Map.Sorted (vsrProblems o hosts res m) := by
  unfold vsrProblems
  apply fold_set_sorted _ _ _ _ h
  intro m x hm
  unfold vsrProbStep
  simp only
  split
  · split
    · exact hm
    · exact Map.set_sorted _ _ _ hm
  · exact Map.set_sorted _ _ _ hm

/-! ### diffing a sorted map against itself -/

theorem filter_not_contains_self {α} (m : Map α) : (m.filter fun kv => !(Map.contains m kv.1)) = [] := by
  rw [List.filter_eq_nil_iff]
  intro p hp
  simp [Map.contains_of_mem m p hp]

theorem updatedTimes_self (r : Res) : updatedTimes r r = 0 := by
  unfold updatedTimes
  simp only [isEqual_refl, Bool.not_true, Bool.false_eq_true, if_false]
  cases r <;> simp

theorem detectHostChanges_self (m : Map Res) (hs : Map.Sorted m) : detectHostChanges m m = ([], [], []) := by
  unfold detectHostChanges
  simp only [filter_not_contains_self, List.map_nil]
  have : ∀ (l : List (String × Res)) (acc : List String), (∀ p ∈ l, p ∈ m) →
      l.foldl (updStep m) acc = acc := by
    intro l
    induction l with
    | nil => intro acc _; rfl
    | cons a r ih =>
      intro acc hm
      simp only [List.foldl_cons]
      have ha : m.get? a.1 = some a.2 := Map.get?_of_mem m hs a.1 a.2 (hm a List.mem_cons_self)
      have : updStep m acc a = acc := by
        unfold updStep; rw [ha]; simp [updatedTimes_self]
      rw [this]
      exact ih acc (fun p hp => hm p (List.mem_cons_of_mem _ hp))
  rw [this m [] (fun p hp => hp)]

theorem detectProblemChanges_self (m : Map Problem) (hs : Map.Sorted m) : detectProblemChanges m m = [] := by
  unfold detectProblemChanges
  rw [List.filterMap_eq_nil_iff]
  intro p hp
  obtain ⟨k, pr⟩ := p
  have : m.get? k = some pr := Map.get?_of_mem m hs k pr hp
  simp [this]

theorem changesFor_nil (old new : Map Res) : changesFor [] [] [] old new = [] := by
  simp [changesFor]

theorem squash_nil : squash [] = [] := by simp [squash]

end Nic.Arb
