/-
  getValidListeners (model `admitAll`, with its bookkeeping maps that also record
  dropped entries) computes exactly the greedy admission spec `Spec.admitSpec`.
-/
import Nic.Model.Arb
import Nic.Spec.Arb
namespace Nic.Arb
open Spec

def validProto (p : String) : Prop := p = "TCP" ∨ p = "UDP" ∨ p = "HTTP"
def cls (p : String) : Nat := if p = "UDP" then 1 else 0

theorem conflicts_iff_cls {p q : String} (hp : validProto p) (hq : validProto q) :
    conflicts p q = true ↔ cls p = cls q := by
  rcases hp with rfl | rfl | rfl <;> rcases hq with rfl | rfl | rfl <;> decide

theorem selfOk_validProto {forb ok4 ok6} {l : Listener} (h : selfOk forb ok4 ok6 l = true) : validProto l.proto := by
  unfold selfOk at h
  simp only [Bool.and_eq_true, Bool.or_eq_true, decide_eq_true_eq] at h
  rcases h.1.1.2 with (h | h) | h
  · exact Or.inl h
  · exact Or.inr (Or.inl h)
  · exact Or.inr (Or.inr h)

/-- Bookkeeping invariant of `getValidListeners`. -/
structure AdmInv (forb : List Nat) (ok4 ok6 : String → Bool) (a : Adm) : Prop where
  names : ∀ n, n ∈ a.names ↔ ∃ o ∈ a.out, o.name = n
  valid : ∀ o ∈ a.out, selfOk forb ok4 ok6 o = true
  rec4 : ∀ r ∈ a.v4, validProto r.2.2 ∧ ∃ o ∈ a.out, ip4 o = r.1 ∧ o.port = r.2.1 ∧ cls o.proto = cls r.2.2
  rec6 : ∀ r ∈ a.v6, validProto r.2.2 ∧ ∃ o ∈ a.out, ip6 o = r.1 ∧ o.port = r.2.1 ∧ cls o.proto = cls r.2.2
  own4 : ∀ o ∈ a.out, (ip4 o, o.port, o.proto) ∈ a.v4
  own6 : ∀ o ∈ a.out, (ip6 o, o.port, o.proto) ∈ a.v6

theorem clashes_iff4 {forb ok4 ok6} {a : Adm} (hi : AdmInv forb ok4 ok6 a) {l : Listener} (hl : validProto l.proto) :
    clashes a.v4 (ip4 l) l.port l.proto = true ↔
      ∃ o ∈ a.out, ip4 o = ip4 l ∧ o.port = l.port ∧ conflicts l.proto o.proto = true := by
  unfold clashes
  rw [List.any_eq_true]
  constructor
  · rintro ⟨⟨i, p, pr⟩, hm, hc⟩
    simp only [Bool.and_eq_true, decide_eq_true_eq] at hc
    obtain ⟨hv, o, ho, h1, h2, h3⟩ := hi.rec4 _ hm
    refine ⟨o, ho, by rw [h1]; exact hc.1.1, by rw [h2]; exact hc.1.2, ?_⟩
    have hov := selfOk_validProto (hi.valid o ho)
    rw [conflicts_iff_cls hl hov, h3, ← conflicts_iff_cls hl hv]; exact hc.2
  · rintro ⟨o, ho, h1, h2, h3⟩
    exact ⟨_, hi.own4 o ho, by simp [h1, h2, h3]⟩

theorem clashes_iff6 {forb ok4 ok6} {a : Adm} (hi : AdmInv forb ok4 ok6 a) {l : Listener} (hl : validProto l.proto) :
    clashes a.v6 (ip6 l) l.port l.proto = true ↔
      ∃ o ∈ a.out, ip6 o = ip6 l ∧ o.port = l.port ∧ conflicts l.proto o.proto = true := by
  unfold clashes
  rw [List.any_eq_true]
  constructor
  · rintro ⟨⟨i, p, pr⟩, hm, hc⟩
    simp only [Bool.and_eq_true, decide_eq_true_eq] at hc
    obtain ⟨hv, o, ho, h1, h2, h3⟩ := hi.rec6 _ hm
    refine ⟨o, ho, by rw [h1]; exact hc.1.1, by rw [h2]; exact hc.1.2, ?_⟩
    have hov := selfOk_validProto (hi.valid o ho)
    rw [conflicts_iff_cls hl hov, h3, ← conflicts_iff_cls hl hv]; exact hc.2
  · rintro ⟨o, ho, h1, h2, h3⟩
    exact ⟨_, hi.own6 o ho, by simp [h1, h2, h3]⟩

/-- One step of the admission spec. -/
def specStep (forb : List Nat) (ok4 ok6 : String → Bool) (acc : List Listener) (l : Listener) : List Listener :=
  if selfOk forb ok4 ok6 l && acc.all (fun a => a.name ≠ l.name && !(clash a l)) then acc ++ [l] else acc

theorem specStep_admit {forb ok4 ok6} {acc : List Listener} {l : Listener} (h1 : selfOk forb ok4 ok6 l = true)
    (h2 : (acc.all (fun a => a.name ≠ l.name && !(clash a l))) = true) : specStep forb ok4 ok6 acc l = acc ++ [l] := by
  unfold specStep; simp only [h1, h2, Bool.and_self, if_true]

theorem specStep_drop {forb ok4 ok6} {acc : List Listener} {l : Listener}
    (h : selfOk forb ok4 ok6 l = false ∨ ¬ (acc.all (fun a => a.name ≠ l.name && !(clash a l))) = true) :
    specStep forb ok4 ok6 acc l = acc := by
  unfold specStep
  rcases h with h | h
  · simp only [h, Bool.false_and, Bool.false_eq_true, if_false]
  · have : (acc.all (fun a => a.name ≠ l.name && !(clash a l))) = false := by simpa using h
    simp only [this, Bool.and_false, Bool.false_eq_true, if_false]

theorem admitSpec_eq (forb ok4 ok6) (ls : List Listener) :
    admitSpec forb ok4 ok6 ls = ls.foldl (specStep forb ok4 ok6) [] := rfl

theorem ipOr_ip4 (l : Listener) : ipOr l.v4 "0.0.0.0" = ip4 l := rfl
theorem ipOr_ip6 (l : Listener) : ipOr l.v6 "::" = ip6 l := rfl

/-- Appending a record that is dominated by an admitted listener keeps the invariant. -/
theorem admInv_drop4 {forb ok4 ok6} {a : Adm} (hi : AdmInv forb ok4 ok6 a) (l : Listener) (d)
    (hl : validProto l.proto)
    (hc : ∃ o ∈ a.out, ip4 o = ip4 l ∧ o.port = l.port ∧ conflicts l.proto o.proto = true) :
    AdmInv forb ok4 ok6 { a with v4 := a.v4 ++ [(ip4 l, l.port, l.proto)], dropped := d } := by
  refine ⟨hi.names, hi.valid, ?_, hi.rec6, ?_, hi.own6⟩
  · intro r hr
    rcases List.mem_append.mp hr with hr | hr
    · exact hi.rec4 r hr
    · simp at hr; subst hr
      obtain ⟨o, ho, h1, h2, h3⟩ := hc
      exact ⟨hl, o, ho, h1, h2, ((conflicts_iff_cls hl (selfOk_validProto (hi.valid o ho))).mp h3).symm⟩
  · intro o ho; exact List.mem_append_left _ (hi.own4 o ho)

theorem admInv_drop6 {forb ok4 ok6} {a : Adm} (hi : AdmInv forb ok4 ok6 a) (l : Listener) (d)
    (hl : validProto l.proto)
    (hc : ∃ o ∈ a.out, ip6 o = ip6 l ∧ o.port = l.port ∧ conflicts l.proto o.proto = true) :
    AdmInv forb ok4 ok6 { a with v6 := a.v6 ++ [(ip6 l, l.port, l.proto)], dropped := d } := by
  refine ⟨hi.names, hi.valid, hi.rec4, ?_, hi.own4, ?_⟩
  · intro r hr
    rcases List.mem_append.mp hr with hr | hr
    · exact hi.rec6 r hr
    · simp at hr; subst hr
      obtain ⟨o, ho, h1, h2, h3⟩ := hc
      exact ⟨hl, o, ho, h1, h2, ((conflicts_iff_cls hl (selfOk_validProto (hi.valid o ho))).mp h3).symm⟩
  · intro o ho; exact List.mem_append_left _ (hi.own6 o ho)

theorem admInv_dropOnly {forb ok4 ok6} {a : Adm} (hi : AdmInv forb ok4 ok6 a) (d) :
    AdmInv forb ok4 ok6 { a with dropped := d } :=
  ⟨hi.names, hi.valid, hi.rec4, hi.rec6, hi.own4, hi.own6⟩

theorem admInv_admit {forb ok4 ok6} {a : Adm} (hi : AdmInv forb ok4 ok6 a) (l : Listener)
    (hs : selfOk forb ok4 ok6 l = true) :
    AdmInv forb ok4 ok6 { a with names := l.name :: a.names, v4 := a.v4 ++ [(ip4 l, l.port, l.proto)],
                                  v6 := a.v6 ++ [(ip6 l, l.port, l.proto)], out := a.out ++ [l] } := by
  have hl := selfOk_validProto hs
  refine ⟨?_, ?_, ?_, ?_, ?_, ?_⟩
  · intro n
    simp only [List.mem_cons, List.mem_append, List.not_mem_nil, or_false]
    constructor
    · rintro (rfl | h)
      · exact ⟨l, Or.inr rfl, rfl⟩
      · obtain ⟨o, ho, e⟩ := (hi.names n).mp h; exact ⟨o, Or.inl ho, e⟩
    · rintro ⟨o, ho | rfl, e⟩
      · exact Or.inr ((hi.names n).mpr ⟨o, ho, e⟩)
      · exact Or.inl e.symm
  · intro o ho
    rcases List.mem_append.mp ho with ho | ho
    · exact hi.valid o ho
    · simp at ho; subst ho; exact hs
  · intro r hr
    rcases List.mem_append.mp hr with hr | hr
    · obtain ⟨hv, o, ho, h⟩ := hi.rec4 r hr
      exact ⟨hv, o, List.mem_append_left _ ho, h⟩
    · simp at hr; subst hr
      exact ⟨hl, l, by simp, rfl, rfl, rfl⟩
  · intro r hr
    rcases List.mem_append.mp hr with hr | hr
    · obtain ⟨hv, o, ho, h⟩ := hi.rec6 r hr
      exact ⟨hv, o, List.mem_append_left _ ho, h⟩
    · simp at hr; subst hr
      exact ⟨hl, l, by simp, rfl, rfl, rfl⟩
  · intro o ho
    rcases List.mem_append.mp ho with ho | ho
    · exact List.mem_append_left _ (hi.own4 o ho)
    · simp at ho; subst ho; simp
  · intro o ho
    rcases List.mem_append.mp ho with ho | ho
    · exact List.mem_append_left _ (hi.own6 o ho)
    · simp at ho; subst ho; simp

/-- The spec's test, spelled out. -/
theorem specTest_iff (acc : List Listener) (l : Listener) :
    (acc.all (fun a => a.name ≠ l.name && !(clash a l))) = true ↔
      (∀ o ∈ acc, o.name ≠ l.name) ∧
      (¬ ∃ o ∈ acc, ip4 o = ip4 l ∧ o.port = l.port ∧ conflicts l.proto o.proto = true) ∧
      (¬ ∃ o ∈ acc, ip6 o = ip6 l ∧ o.port = l.port ∧ conflicts l.proto o.proto = true) := by
  rw [List.all_eq_true]
  constructor
  · intro h
    refine ⟨fun o ho => ?_, ?_, ?_⟩
    · have := h o ho; simp at this; exact this.1
    · rintro ⟨o, ho, h1, h2, h3⟩
      have := h o ho; simp [clash, h1, h2, h3] at this
    · rintro ⟨o, ho, h1, h2, h3⟩
      have := h o ho; simp [clash, h1, h2, h3] at this
  · rintro ⟨hn, h4, h6⟩ o ho
    simp only [Bool.and_eq_true, decide_eq_true_eq, Bool.not_eq_true', ne_eq]
    refine ⟨by simpa using hn o ho, ?_⟩
    cases hc : clash o l with
    | false => rfl
    | true =>
      unfold clash at hc
      simp only [Bool.and_eq_true, Bool.or_eq_true, decide_eq_true_eq] at hc
      rcases hc.2 with e | e
      · exact absurd ⟨o, ho, e, hc.1.1, hc.1.2⟩ h4
      · exact absurd ⟨o, ho, e, hc.1.1, hc.1.2⟩ h6

/-- **One step of the real bookkeeping = one step of the spec**, and the invariant is kept. -/
theorem admitOne_step {forb ok4 ok6} {a : Adm} (hi : AdmInv forb ok4 ok6 a) (l : Listener) :
    AdmInv forb ok4 ok6 (admitOne forb ok4 ok6 a l) ∧
    (admitOne forb ok4 ok6 a l).out = specStep forb ok4 ok6 a.out l := by
  unfold admitOne
  by_cases hs : selfOk forb ok4 ok6 l = true
  · have hl := selfOk_validProto hs
    simp only [hs, Bool.not_true, Bool.false_eq_true, if_false]
    by_cases hn : a.names.contains l.name = true
    · simp only [hn, if_true]
      refine ⟨admInv_dropOnly hi _, ?_⟩
      have hmem : l.name ∈ a.names := by simpa using hn
      obtain ⟨o, ho, e⟩ := (hi.names _).mp hmem
      rw [specStep_drop (Or.inr (by rw [specTest_iff]; intro h; exact h.1 o ho e))]
    · have hn' : a.names.contains l.name = false := by simpa using hn
      have hnot : ∀ o ∈ a.out, o.name ≠ l.name := by
        intro o ho e
        have : l.name ∈ a.names := (hi.names _).mpr ⟨o, ho, e⟩
        simp at hn'; exact hn' this
      simp only [hn', Bool.false_eq_true, if_false, ipOr_ip4, ipOr_ip6]
      by_cases h4 : clashes a.v4 (ip4 l) l.port l.proto = true
      · simp only [h4, if_true]
        have hc := (clashes_iff4 hi hl).mp h4
        refine ⟨admInv_drop4 hi l _ hl hc, ?_⟩
        rw [specStep_drop (Or.inr (by rw [specTest_iff]; intro h; exact h.2.1 hc))]
      · have h4' : clashes a.v4 (ip4 l) l.port l.proto = false := by simpa using h4
        simp only [h4', Bool.false_eq_true, if_false]
        by_cases h6 : clashes a.v6 (ip6 l) l.port l.proto = true
        · simp only [h6, if_true]
          have hc := (clashes_iff6 hi hl).mp h6
          refine ⟨admInv_drop6 hi l _ hl hc, ?_⟩
          rw [specStep_drop (Or.inr (by rw [specTest_iff]; intro h; exact h.2.2 hc))]
        · have h6' : clashes a.v6 (ip6 l) l.port l.proto = false := by simpa using h6
          simp only [h6', Bool.false_eq_true, if_false]
          refine ⟨admInv_admit hi l hs, ?_⟩
          rw [specStep_admit hs (by
            rw [specTest_iff]
            exact ⟨hnot, fun h => h4 ((clashes_iff4 hi hl).mpr h), fun h => h6 ((clashes_iff6 hi hl).mpr h)⟩)]
  · have hs' : selfOk forb ok4 ok6 l = false := by simpa using hs
    simp only [hs', Bool.not_false, if_true]
    exact ⟨admInv_dropOnly hi _, by rw [specStep_drop (Or.inl hs')]⟩

theorem admInv_init (forb ok4 ok6) : AdmInv forb ok4 ok6 {} :=
  ⟨by simp, by simp, by simp, by simp, by simp, by simp⟩

theorem fold_admitOne {forb ok4 ok6} (ls : List Listener) (a : Adm) (hi : AdmInv forb ok4 ok6 a) :
    AdmInv forb ok4 ok6 (ls.foldl (admitOne forb ok4 ok6) a) ∧
    (ls.foldl (admitOne forb ok4 ok6) a).out = ls.foldl (specStep forb ok4 ok6) a.out := by
  induction ls generalizing a with
  | nil => exact ⟨hi, rfl⟩
  | cons l r ih =>
    simp only [List.foldl_cons]
    obtain ⟨h1, h2⟩ := admitOne_step hi l
    obtain ⟨h3, h4⟩ := ih _ h1
    exact ⟨h3, by rw [h4, h2]⟩

end Nic.Arb
