import Nic.Lemmas.NgxLex
import Nic.Lemmas.Regex
/-!
  The lexical safety classes of C06 as small automata, so that `Dfa.check` can decide "every string this
  validator regex accepts is safe at its interpolation site", and the bridge from automaton acceptance to the
  classes the tokenizer theorems are stated for.
-/
namespace Nic.LexDfa
open Nic.Regex Nic.NgxLex

theorem ceq (c d : Char) : (c == d) = (c.toNat == d.toNat) := by
  rw [Bool.eq_iff_iff]; simp [Char.toNat_inj]

/-! ### inside a quoted token: states 0 = plain, 1 = after a backslash, 2 = an unescaped quote was seen -/

def quoteDfa (q : Nat) : Dfa where
  specials := [92, q]
  states := 3
  δ := fun p k =>
    if p == 0 then (if k == 0 then 1 else if k == 1 then 2 else 0)
    else if p == 1 then 0
    else 2

def dqDfa : Dfa := quoteDfa 34
def sqDfa : Dfa := quoteDfa 39

theorem quote_class (q : Nat) (c : Char) :
    (quoteDfa q).classOf c = if c.toNat = 92 then 0 else if c.toNat = q then 1 else 2 := by
  simp only [Dfa.classOf, quoteDfa, List.idxOf, List.findIdx_cons, List.findIdx_nil]
  by_cases h1 : c.toNat = 92
  · simp [h1]
  · by_cases h2 : c.toNat = q
    · have : (92 == c.toNat) = false := by simp; omega
      have h3 : ¬ 92 = q := by omega
      have h4 : ¬ q = 92 := by omega
      have h5 : (92 == q) = false := by simp; omega
      simp [h2, h4, h5]
    · have a : (92 == c.toNat) = false := by simp; omega
      have b : (q == c.toNat) = false := by simp; omega
      simp [h1, h2, a, b]

theorem quote_dead (q : Nat) (s : List Char) : (quoteDfa q).run 2 s = 2 := by
  induction s with
  | nil => rfl
  | cons c cs ih =>
    have : (quoteDfa q).δ 2 ((quoteDfa q).classOf c) = 2 := by simp [quoteDfa]
    simp only [Dfa.run, this]; exact ih

theorem toNat_eq (c d : Char) : (c == d) = decide (c.toNat = d.toNat) := by
  rw [Bool.eq_iff_iff]; simp [Char.toNat_inj]

theorem quote_run (qc : Char) (hq : qc ≠ '\\') (s : List Char) : ∀ esc : Bool,
    ((quoteDfa qc.toNat).run (if esc then 1 else 0) s == 0) = qGo qc esc s := by
  have hq92 : qc.toNat ≠ 92 := fun h => hq (Char.toNat_inj.mp (by simpa using h))
  induction s with
  | nil => intro esc; cases esc <;> simp [Dfa.run, qGo]
  | cons c cs ih =>
    intro esc
    cases esc
    · simp only [Bool.false_eq_true, if_false, Dfa.run, qGo, quote_class, toNat_eq c '\\', toNat_eq c qc]
      have e92 : '\\'.toNat = 92 := rfl
      rw [e92]
      by_cases h1 : c.toNat = 92
      · have := ih true
        simp only [if_true] at this
        simp only [h1, if_true, decide_true]
        have d : (quoteDfa qc.toNat).δ 0 0 = 1 := by simp [quoteDfa]
        rw [d]; exact this
      · by_cases h2 : c.toNat = qc.toNat
        · simp only [h2, hq92, if_false, if_true, decide_false, decide_true, Bool.false_eq_true]
          have d : (quoteDfa qc.toNat).δ 0 1 = 2 := by simp [quoteDfa]
          rw [d, quote_dead]; rfl
        · simp only [h1, h2, if_false, decide_false, Bool.false_eq_true]
          have d : (quoteDfa qc.toNat).δ 0 2 = 0 := by simp [quoteDfa]
          rw [d]
          have := ih false
          simpa using this
    · have := ih false
      have d : ∀ k, (quoteDfa qc.toNat).δ 1 k = 0 := by intro k; simp [quoteDfa]
      simp only [if_true, Dfa.run, qGo, d]
      simpa using this

theorem dq_accept (s : List Char) (h : (dqDfa.run 0 s == 0) = true) : qGo '"' false s = true := by
  have := quote_run '"' (by decide) s false
  simp only [Bool.false_eq_true, if_false] at this
  rw [← this]; exact h

theorem sq_accept (s : List Char) (h : (sqDfa.run 0 s == 0) = true) : qGo '\'' false s = true := by
  have := quote_run '\'' (by decide) s false
  simp only [Bool.false_eq_true, if_false] at this
  rw [← this]; exact h

/-! ### inside an unquoted word / at the start of a token
states 0 = nothing read yet, 1 = inside, no `$` pending, 2 = inside, `$` pending (a following `{` is literal),
3 = a structural character was read. -/

/-- classes: 0..3 whitespace, 4 `;`, 5 `{`, 6 backslash, 7 `$`, (token automaton: 8 `"`, 9 `'`, 10 `#`, 11 `}`), last = other -/
def wordDelta (p k : Nat) : Nat :=
  if p = 3 then 3 else if k = 5 then (if p = 2 then 2 else 3) else if k = 7 then 2 else if k < 7 then 3 else 1

def wordDfa : Dfa where
  specials := [32, 9, 13, 10, 59, 123, 92, 36]
  states := 4
  δ := wordDelta

def tokenDfa : Dfa where
  specials := [32, 9, 13, 10, 59, 123, 92, 36, 34, 39, 35, 125]
  states := 4
  δ := fun p k => if p = 0 ∧ 8 ≤ k ∧ k < 12 then 3 else wordDelta p k

/-- One step inside a word, in the tokenizer's own terms. -/
def wstep (p : Nat) (c : Char) : Nat :=
  if p = 3 then 3 else if c = '{' then (if p = 2 then 2 else 3) else if c = '\\' then 3 else if c = '$' then 2
  else if (isWs c || c == ';') = true then 3 else 1

theorem char_of (c : Char) (d : Char) (h : c.toNat = d.toNat) : c = d := Char.toNat_inj.mp h

theorem word_step (p : Nat) (c : Char) : wordDfa.δ p (wordDfa.classOf c) = wstep p c := by
  by_cases h : c.toNat ∈ wordDfa.specials
  · simp only [wordDfa, List.mem_cons, List.not_mem_nil, or_false] at h
    rcases h with h | h | h | h | h | h | h | h
    · have := char_of c ' ' h; subst this
      have hk : wordDfa.classOf ' ' = 0 := by decide
      rw [hk]; show wordDelta p 0 = _; unfold wordDelta wstep; simp [isWs]
    · have := char_of c '\t' h; subst this
      have hk : wordDfa.classOf '\t' = 1 := by decide
      rw [hk]; show wordDelta p 1 = _; unfold wordDelta wstep; simp [isWs]
    · have := char_of c '\r' h; subst this
      have hk : wordDfa.classOf '\r' = 2 := by decide
      rw [hk]; show wordDelta p 2 = _; unfold wordDelta wstep; simp [isWs]
    · have := char_of c '\n' h; subst this
      have hk : wordDfa.classOf '\n' = 3 := by decide
      rw [hk]; show wordDelta p 3 = _; unfold wordDelta wstep; simp [isWs]
    · have := char_of c ';' h; subst this
      have hk : wordDfa.classOf ';' = 4 := by decide
      rw [hk]; show wordDelta p 4 = _; unfold wordDelta wstep; simp [isWs]
    · have := char_of c '{' h; subst this
      have hk : wordDfa.classOf '{' = 5 := by decide
      rw [hk]; show wordDelta p 5 = _; unfold wordDelta wstep; simp [isWs]
    · have := char_of c '\\' h; subst this
      have hk : wordDfa.classOf '\\' = 6 := by decide
      rw [hk]; show wordDelta p 6 = _; unfold wordDelta wstep; simp [isWs]
    · have := char_of c '$' h; subst this
      have hk : wordDfa.classOf '$' = 7 := by decide
      rw [hk]; show wordDelta p 7 = _; unfold wordDelta wstep; simp [isWs]
  · have hidx : wordDfa.classOf c = 8 := List.idxOf_eq_length h
    simp only [wordDfa, List.mem_cons, List.not_mem_nil, or_false, not_or] at h
    obtain ⟨h1, h2, h3, h4, h5, h6, h7, h8⟩ := h
    have n1 : c ≠ ' ' := fun e => h1 (by rw [e]; rfl)
    have n2 : c ≠ '\t' := fun e => h2 (by rw [e]; rfl)
    have n3 : c ≠ '\r' := fun e => h3 (by rw [e]; rfl)
    have n4 : c ≠ '\n' := fun e => h4 (by rw [e]; rfl)
    have n5 : c ≠ ';' := fun e => h5 (by rw [e]; rfl)
    have n6 : c ≠ '{' := fun e => h6 (by rw [e]; rfl)
    have n7 : c ≠ '\\' := fun e => h7 (by rw [e]; rfl)
    have n8 : c ≠ '$' := fun e => h8 (by rw [e]; rfl)
    rw [hidx]
    simp [wstep, wordDfa, wordDelta, isWs, n1, n2, n3, n4, n5, n6, n7, n8]

/-- Encoding of `wordGo`'s answer as an automaton state. -/
def enc : Option Bool → Nat
  | none => 3
  | some false => 1
  | some true => 2

theorem word_dead (t : List Char) : wordDfa.run 3 t = 3 := by
  induction t with
  | nil => rfl
  | cons c cs ih => simp only [Dfa.run]; rw [show wordDfa.δ 3 (wordDfa.classOf c) = 3 by simp [wordDfa, wordDelta]]; exact ih

theorem word_run_go (v : List Char) : ∀ b : Bool, wordDfa.run (if b then 2 else 1) v = enc (wordGo b v) := by
  induction v with
  | nil => intro b; cases b <;> rfl
  | cons c cs ih =>
    intro b
    simp only [Dfa.run, word_step]
    unfold wordGo
    by_cases h1 : c = '{'
    · subst h1
      cases b
      · simp [wstep, word_dead, enc]
      · have := ih true
        simpa [wstep] using this
    · have e1 : (c == '{') = false := by simpa using h1
      by_cases h2 : c = '\\'
      · subst h2
        cases b <;> simp [wstep, word_dead, enc]
      · have e2 : (c == '\\') = false := by simpa using h2
        by_cases h3 : c = '$'
        · subst h3
          have := ih true
          cases b <;> simpa [wstep] using this
        · have e3 : (c == '$') = false := by simpa using h3
          by_cases h4 : (isWs c || c == ';') = true
          · have h4' : (isWs c || c == ';' || c == '{') = true := by simp [h4]
            cases b <;> simp [wstep, h1, h2, h3, h4, h4', e1, e2, e3, word_dead, enc]
          · have h4' : (isWs c || c == ';' || c == '{') = false := by
              simp only [Bool.or_eq_true, not_or, Bool.not_eq_true] at h4
              simp [h4.1, h4.2, e1]
            have := ih false
            cases b <;> simpa [wstep, h1, h2, h3, h4, h4', e1, e2, e3] using this

/-- from the start state the word automaton behaves as from state 1 (a leading `{` is structural either way) -/
theorem word_run_start (c : Char) (cs : List Char) : wordDfa.run 0 (c :: cs) = wordDfa.run 1 (c :: cs) := by
  simp only [Dfa.run, word_step]
  have : wstep 0 c = wstep 1 c := by simp [wstep]
  rw [this]

theorem word_accept_body (v : List Char) (h : wordDfa.run 0 v = 1 ∨ wordDfa.run 0 v = 2) : WordBody v := by
  cases v with
  | nil => simp [Dfa.run] at h
  | cons c cs =>
    rw [word_run_start] at h
    have hg := word_run_go (c :: cs) false
    simp only [Bool.false_eq_true, if_false] at hg
    rw [hg] at h
    refine ⟨by simp, ?_, ?_⟩
    · intro hh
      simp only [List.head?_cons, Option.some.injEq] at hh
      subst hh
      simp [wordGo, enc] at h
    · cases hw : wordGo false (c :: cs) with
      | none => rw [hw] at h; simp [enc] at h
      | some b => rfl

theorem word_accept (v : List Char) (h : (wordDfa.run 0 v == 1) = true) : WordSafe v := by
  have h : wordDfa.run 0 v = 1 := by simpa using h
  obtain ⟨hne, hhd, _⟩ := word_accept_body v (Or.inl h)
  refine ⟨hne, hhd, ?_⟩
  cases v with
  | nil => exact absurd rfl hne
  | cons c cs =>
    rw [word_run_start] at h
    have hg := word_run_go (c :: cs) false
    simp only [Bool.false_eq_true, if_false] at hg
    rw [hg] at h
    cases hw : wordGo false (c :: cs) with
    | none => rw [hw] at h; simp [enc] at h
    | some b => cases b
                · rfl
                · rw [hw] at h; simp [enc] at h

/-! token automaton -/

theorem token_class_compat (c : Char) (p : Nat) (hp : p ≠ 0) :
    tokenDfa.δ p (tokenDfa.classOf c) = wordDfa.δ p (wordDfa.classOf c) := by
  have hδ : ∀ k, tokenDfa.δ p k = wordDelta p k := by intro k; simp [tokenDfa, hp]
  rw [hδ]
  show wordDelta p _ = wordDelta p _
  by_cases h : c.toNat ∈ tokenDfa.specials
  · simp only [tokenDfa, List.mem_cons, List.not_mem_nil, or_false] at h
    rcases h with h | h | h | h | h | h | h | h | h | h | h | h
    · have := char_of c ' ' h; subst this; rfl
    · have := char_of c '\t' h; subst this; rfl
    · have := char_of c '\r' h; subst this; rfl
    · have := char_of c '\n' h; subst this; rfl
    · have := char_of c ';' h; subst this; rfl
    · have := char_of c '{' h; subst this; rfl
    · have := char_of c '\\' h; subst this; rfl
    · have := char_of c '$' h; subst this; rfl
    · have := char_of c '"' h; subst this
      have hk : tokenDfa.classOf '"' = 8 := by decide
      have hk' : wordDfa.classOf '"' = 8 := by decide
      rw [hk, hk'] <;> (unfold wordDelta; simp)
    · have := char_of c '\'' h; subst this
      have hk : tokenDfa.classOf '\'' = 9 := by decide
      have hk' : wordDfa.classOf '\'' = 8 := by decide
      rw [hk, hk'] <;> (unfold wordDelta; simp)
    · have := char_of c '#' h; subst this
      have hk : tokenDfa.classOf '#' = 10 := by decide
      have hk' : wordDfa.classOf '#' = 8 := by decide
      rw [hk, hk'] <;> (unfold wordDelta; simp)
    · have := char_of c '}' h; subst this
      have hk : tokenDfa.classOf '}' = 11 := by decide
      have hk' : wordDfa.classOf '}' = 8 := by decide
      rw [hk, hk'] <;> (unfold wordDelta; simp)
  · have hidx : tokenDfa.classOf c = 12 := List.idxOf_eq_length h
    have h' : c.toNat ∉ wordDfa.specials := by
      intro hm; apply h
      simp only [wordDfa, List.mem_cons, List.not_mem_nil, or_false] at hm
      simp only [tokenDfa, List.mem_cons, List.not_mem_nil, or_false]
      omega
    have hidx' : wordDfa.classOf c = 8 := List.idxOf_eq_length h'
    rw [hidx, hidx']; simp [wordDelta]

theorem wordDelta_ne0 (p k : Nat) (hp : p ≠ 0) : wordDelta p k ≠ 0 := by
  unfold wordDelta; split <;> (try split) <;> (try split) <;> (try split) <;> omega

theorem token_run_inside (s : List Char) : ∀ p, p ≠ 0 → tokenDfa.run p s = wordDfa.run p s := by
  induction s with
  | nil => intro p _; rfl
  | cons c cs ih =>
    intro p hp
    simp only [Dfa.run, token_class_compat c p hp]
    exact ih _ (wordDelta_ne0 p _ hp)

/-- the first character of a token -/
theorem token_first (c : Char) :
    tokenDfa.δ 0 (tokenDfa.classOf c) = if startChar c = true then (if c = '$' then 2 else 1) else 3 := by
  by_cases h : c.toNat ∈ tokenDfa.specials
  · simp only [tokenDfa, List.mem_cons, List.not_mem_nil, or_false] at h
    rcases h with h | h | h | h | h | h | h | h | h | h | h | h
    · have := char_of c ' ' h; subst this; decide
    · have := char_of c '\t' h; subst this; decide
    · have := char_of c '\r' h; subst this; decide
    · have := char_of c '\n' h; subst this; decide
    · have := char_of c ';' h; subst this; decide
    · have := char_of c '{' h; subst this; decide
    · have := char_of c '\\' h; subst this; decide
    · have := char_of c '$' h; subst this; decide
    · have := char_of c '"' h; subst this; decide
    · have := char_of c '\'' h; subst this; decide
    · have := char_of c '#' h; subst this; decide
    · have := char_of c '}' h; subst this; decide
  · have hidx : tokenDfa.classOf c = 12 := List.idxOf_eq_length h
    simp only [tokenDfa, List.mem_cons, List.not_mem_nil, or_false, not_or] at h
    obtain ⟨h1, h2, h3, h4, h5, h6, h7, h8, h9, h10, h11, h12⟩ := h
    have n1 : c ≠ ' ' := fun e => h1 (by rw [e]; rfl)
    have n2 : c ≠ '\t' := fun e => h2 (by rw [e]; rfl)
    have n3 : c ≠ '\r' := fun e => h3 (by rw [e]; rfl)
    have n4 : c ≠ '\n' := fun e => h4 (by rw [e]; rfl)
    have n5 : c ≠ ';' := fun e => h5 (by rw [e]; rfl)
    have n6 : c ≠ '{' := fun e => h6 (by rw [e]; rfl)
    have n7 : c ≠ '\\' := fun e => h7 (by rw [e]; rfl)
    have n8 : c ≠ '$' := fun e => h8 (by rw [e]; rfl)
    have n9 : c ≠ '"' := fun e => h9 (by rw [e]; rfl)
    have n10 : c ≠ '\'' := fun e => h10 (by rw [e]; rfl)
    have n11 : c ≠ '#' := fun e => h11 (by rw [e]; rfl)
    have n12 : c ≠ '}' := fun e => h12 (by rw [e]; rfl)
    have hw : startChar c = true := by simp [startChar, isWs, n1, n2, n3, n4, n5, n6, n7, n9, n10, n11, n12]
    rw [hidx]
    simp [tokenDfa, wordDelta, hw, n8]

theorem token_dead (t : List Char) : tokenDfa.run 3 t = 3 := by
  rw [token_run_inside t 3 (by omega)]; exact word_dead t

/-- what `wordGo` says about the first character of a token -/
theorem wordGo_first (c : Char) (cs : List Char) (hc : startChar c = true) :
    wordGo false (c :: cs) = wordGo (c == '$') cs := by
  simp only [startChar, Bool.not_eq_true', Bool.or_eq_false_iff] at hc
  obtain ⟨⟨⟨⟨⟨⟨⟨h1, h2⟩, h3⟩, h4⟩, _⟩, _⟩, _⟩, _⟩ := hc
  by_cases hd : c = '$'
  · subst hd; simp [wordGo]
  · have : (c == '$') = false := by simpa using hd
    simp [wordGo, h1, h2, h3, h4, this]

theorem token_accept_body (v : List Char) (h : tokenDfa.run 0 v = 1 ∨ tokenDfa.run 0 v = 2) : TokenBody v := by
  cases v with
  | nil => simp [Dfa.run] at h
  | cons c cs =>
    simp only [Dfa.run, token_first] at h
    by_cases hs : startChar c = true
    · refine ⟨c, cs, rfl, hs, ?_⟩
      simp only [hs, if_true] at h
      rw [wordGo_first c cs hs]
      by_cases hd : c = '$'
      · subst hd
        simp only [if_true] at h
        rw [token_run_inside cs 2 (by omega)] at h
        have := word_run_go cs true
        simp only [if_true] at this
        rw [this] at h
        cases hw : wordGo true cs with
        | none => rw [hw] at h; simp [enc] at h
        | some b => simp [hw]
      · simp only [hd, if_false] at h
        rw [token_run_inside cs 1 (by omega)] at h
        have := word_run_go cs false
        simp only [Bool.false_eq_true, if_false] at this
        rw [this] at h
        have e : (c == '$') = false := by simpa using hd
        rw [e]
        cases hw : wordGo false cs with
        | none => rw [hw] at h; simp [enc] at h
        | some b => rfl
    · simp only [hs, Bool.false_eq_true, if_false] at h
      rw [token_dead] at h; omega

theorem token_accept (v : List Char) (h : (tokenDfa.run 0 v == 1) = true) : TokenSafe v := by
  have h : tokenDfa.run 0 v = 1 := by simpa using h
  obtain ⟨c, cs, rfl, hs, hb⟩ := token_accept_body v (Or.inl h)
  refine ⟨c, cs, rfl, hs, ?_⟩
  simp only [Dfa.run, token_first, hs, if_true] at h
  rw [wordGo_first c cs hs]
  by_cases hd : c = '$'
  · subst hd
    simp only [if_true] at h
    rw [token_run_inside cs 2 (by omega)] at h
    have := word_run_go cs true
    simp only [if_true] at this
    rw [this] at h
    cases hw : wordGo true cs with
    | none => rw [hw] at h; simp [enc] at h
    | some b => cases b
                · simpa using hw
                · rw [hw] at h; simp [enc] at h
  · simp only [hd, if_false] at h
    rw [token_run_inside cs 1 (by omega)] at h
    have := word_run_go cs false
    simp only [Bool.false_eq_true, if_false] at this
    rw [this] at h
    have e : (c == '$') = false := by simpa using hd
    rw [e]
    cases hw : wordGo false cs with
    | none => rw [hw] at h; simp [enc] at h
    | some b => cases b
                · rfl
                · rw [hw] at h; simp [enc] at h

end Nic.LexDfa
