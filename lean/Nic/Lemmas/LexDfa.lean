import Nic.Lemmas.NgxLex
import Nic.Lemmas.Regex
/-!
  The lexical safety classes of C06 as small automata, so that `Dfa.check` can decide "every string this
  validator regex accepts is safe at its interpolation site", and the bridge from automaton acceptance to the
  classes the tokenizer theorems are stated for.
-/
namespace Nic.LexDfa
open Nic.Regex Nic.NgxLex

theorem ceq (c d : Char) : (c == d) = (c.toNat == d.toNat) := by
  rw [Bool.eq_iff_iff]; simp [Char.toNat_inj]

/-! ### inside a quoted token: states 0 = plain, 1 = after a backslash, 2 = an unescaped quote was seen -/

def quoteDfa (q : Nat) : Dfa where
  specials := [92, q]
  states := 3
  δ := fun p k =>
    if p == 0 then (if k == 0 then 1 else if k == 1 then 2 else 0)
    else if p == 1 then 0
    else 2

def dqDfa : Dfa := quoteDfa 34
def sqDfa : Dfa := quoteDfa 39

theorem quote_class (q : Nat) (c : Char) :
    (quoteDfa q).classOf c = if c.toNat = 92 then 0 else if c.toNat = q then 1 else 2 := by
  simp only [Dfa.classOf, quoteDfa, List.idxOf, List.findIdx_cons, List.findIdx_nil]
  by_cases h1 : c.toNat = 92
  · simp [h1]
  · by_cases h2 : c.toNat = q
    · have : (92 == c.toNat) = false := by simp; omega
      have h3 : ¬ 92 = q := by omega
      have h4 : ¬ q = 92 := by omega
      have h5 : (92 == q) = false := by simp; omega
      simp [h2, h4, h5]
    · have a : (92 == c.toNat) = false := by simp; omega
      have b : (q == c.toNat) = false := by simp; omega
      simp [h1, h2, a, b]

theorem quote_dead (q : Nat) (s : List Char) : (quoteDfa q).run 2 s = 2 := by
  induction s with
  | nil => rfl
  | cons c cs ih =>
    have : (quoteDfa q).δ 2 ((quoteDfa q).classOf c) = 2 := by simp [quoteDfa]
    simp only [Dfa.run, this]; exact ih

theorem toNat_eq (c d : Char) : (c == d) = decide (c.toNat = d.toNat) := by
  rw [Bool.eq_iff_iff]; simp [Char.toNat_inj]

theorem quote_run (qc : Char) (hq : qc ≠ '\\') (s : List Char) : ∀ esc : Bool,
    ((quoteDfa qc.toNat).run (if esc then 1 else 0) s == 0) = qGo qc esc s := by
  have hq92 : qc.toNat ≠ 92 := fun h => hq (Char.toNat_inj.mp (by simpa using h))
  induction s with
  | nil => intro esc; cases esc <;> simp [Dfa.run, qGo]
  | cons c cs ih =>
    intro esc
    cases esc
    · simp only [Bool.false_eq_true, if_false, Dfa.run, qGo, quote_class, toNat_eq c '\\', toNat_eq c qc]
      have e92 : '\\'.toNat = 92 := rfl
      rw [e92]
      by_cases h1 : c.toNat = 92
      · have := ih true
        simp only [if_true] at this
        simp only [h1, if_true, decide_true]
        have d : (quoteDfa qc.toNat).δ 0 0 = 1 := by simp [quoteDfa]
        rw [d]; exact this
      · by_cases h2 : c.toNat = qc.toNat
        · simp only [h2, hq92, if_false, if_true, decide_false, decide_true, Bool.false_eq_true]
          have d : (quoteDfa qc.toNat).δ 0 1 = 2 := by simp [quoteDfa]
          rw [d, quote_dead]; rfl
        · simp only [h1, h2, if_false, decide_false, Bool.false_eq_true]
          have d : (quoteDfa qc.toNat).δ 0 2 = 0 := by simp [quoteDfa]
          rw [d]
          have := ih false
          simpa using this
    · have := ih false
      have d : ∀ k, (quoteDfa qc.toNat).δ 1 k = 0 := by intro k; simp [quoteDfa]
      simp only [if_true, Dfa.run, qGo, d]
      simpa using this

theorem dq_accept (s : List Char) (h : (dqDfa.run 0 s == 0) = true) : qGo '"' false s = true := by
  have := quote_run '"' (by decide) s false
  simp only [Bool.false_eq_true, if_false] at this
  rw [← this]; exact h

theorem sq_accept (s : List Char) (h : (sqDfa.run 0 s == 0) = true) : qGo '\'' false s = true := by
  have := quote_run '\'' (by decide) s false
  simp only [Bool.false_eq_true, if_false] at this
  rw [← this]; exact h

/-! ### inside an unquoted word / at the start of a token
states 0 = nothing read yet, 1 = inside, last character is not `$`, 2 = inside, last character is `$`, 3 = a structural
character was read. -/

def wordG (k : Nat) : Nat := if k < 7 then 3 else if k = 7 then 2 else 1
/-- at the start of a token the classes 8..11 (`"`, `'`, `#`, `}`) are structural too -/
def tokenG (k : Nat) : Nat := if k < 7 then 3 else if k = 7 then 2 else if k < 12 then 3 else 1

def wordDfa : Dfa where
  specials := [32, 9, 13, 10, 59, 123, 92, 36]
  states := 4
  δ := fun p k => if p = 3 then 3 else wordG k

def tokenDfa : Dfa where
  specials := [32, 9, 13, 10, 59, 123, 92, 36, 34, 39, 35, 125]
  states := 4
  δ := fun p k => if p = 3 then 3 else if p = 0 then tokenG k else wordG k

theorem char_of (c : Char) (d : Char) (h : c.toNat = d.toNat) : c = d := Char.toNat_inj.mp h

/-- One step of `wordDfa`, in the tokenizer's own terms. -/
theorem word_step (c : Char) :
    wordG (wordDfa.classOf c) = if wordChar c = false then 3 else if c = '$' then 2 else 1 := by
  by_cases h : c.toNat ∈ wordDfa.specials
  · simp only [wordDfa, List.mem_cons, List.not_mem_nil, or_false] at h
    rcases h with h | h | h | h | h | h | h | h
    · have := char_of c ' ' h; subst this; decide
    · have := char_of c '\t' h; subst this; decide
    · have := char_of c '\r' h; subst this; decide
    · have := char_of c '\n' h; subst this; decide
    · have := char_of c ';' h; subst this; decide
    · have := char_of c '{' h; subst this; decide
    · have := char_of c '\\' h; subst this; decide
    · have := char_of c '$' h; subst this; decide
  · have hidx : wordDfa.classOf c = 8 := List.idxOf_eq_length h
    simp only [wordDfa, List.mem_cons, List.not_mem_nil, or_false, not_or] at h
    obtain ⟨h1, h2, h3, h4, h5, h6, h7, h8⟩ := h
    have n1 : c ≠ ' ' := fun e => h1 (by rw [e]; rfl)
    have n2 : c ≠ '\t' := fun e => h2 (by rw [e]; rfl)
    have n3 : c ≠ '\r' := fun e => h3 (by rw [e]; rfl)
    have n4 : c ≠ '\n' := fun e => h4 (by rw [e]; rfl)
    have n5 : c ≠ ';' := fun e => h5 (by rw [e]; rfl)
    have n6 : c ≠ '{' := fun e => h6 (by rw [e]; rfl)
    have n7 : c ≠ '\\' := fun e => h7 (by rw [e]; rfl)
    have n8 : c ≠ '$' := fun e => h8 (by rw [e]; rfl)
    have hw : wordChar c = true := by simp [wordChar, isWs, n1, n2, n3, n4, n5, n6, n7]
    simp [hidx, wordG, hw, n8]

theorem token_step (c : Char) :
    tokenG (tokenDfa.classOf c) = if startChar c = false then 3 else if c = '$' then 2 else 1 := by
  by_cases h : c.toNat ∈ tokenDfa.specials
  · simp only [tokenDfa, List.mem_cons, List.not_mem_nil, or_false] at h
    rcases h with h | h | h | h | h | h | h | h | h | h | h | h
    · have := char_of c ' ' h; subst this; decide
    · have := char_of c '\t' h; subst this; decide
    · have := char_of c '\r' h; subst this; decide
    · have := char_of c '\n' h; subst this; decide
    · have := char_of c ';' h; subst this; decide
    · have := char_of c '{' h; subst this; decide
    · have := char_of c '\\' h; subst this; decide
    · have := char_of c '$' h; subst this; decide
    · have := char_of c '"' h; subst this; decide
    · have := char_of c '\'' h; subst this; decide
    · have := char_of c '#' h; subst this; decide
    · have := char_of c '}' h; subst this; decide
  · have hidx : tokenDfa.classOf c = 12 := List.idxOf_eq_length h
    simp only [tokenDfa, List.mem_cons, List.not_mem_nil, or_false, not_or] at h
    obtain ⟨h1, h2, h3, h4, h5, h6, h7, h8, h9, h10, h11, h12⟩ := h
    have n1 : c ≠ ' ' := fun e => h1 (by rw [e]; rfl)
    have n2 : c ≠ '\t' := fun e => h2 (by rw [e]; rfl)
    have n3 : c ≠ '\r' := fun e => h3 (by rw [e]; rfl)
    have n4 : c ≠ '\n' := fun e => h4 (by rw [e]; rfl)
    have n5 : c ≠ ';' := fun e => h5 (by rw [e]; rfl)
    have n6 : c ≠ '{' := fun e => h6 (by rw [e]; rfl)
    have n7 : c ≠ '\\' := fun e => h7 (by rw [e]; rfl)
    have n8 : c ≠ '$' := fun e => h8 (by rw [e]; rfl)
    have n9 : c ≠ '"' := fun e => h9 (by rw [e]; rfl)
    have n10 : c ≠ '\'' := fun e => h10 (by rw [e]; rfl)
    have n11 : c ≠ '#' := fun e => h11 (by rw [e]; rfl)
    have n12 : c ≠ '}' := fun e => h12 (by rw [e]; rfl)
    have hw : startChar c = true := by simp [startChar, wordChar, isWs, n1, n2, n3, n4, n5, n6, n7, n9, n10, n11, n12]
    simp [hidx, tokenG, hw, n8]

/-- the word automaton and the token automaton classify the characters after the first alike -/
theorem token_word_class (c : Char) : wordG (tokenDfa.classOf c) = wordG (wordDfa.classOf c) := by
  by_cases h : c.toNat ∈ tokenDfa.specials
  · simp only [tokenDfa, List.mem_cons, List.not_mem_nil, or_false] at h
    rcases h with h | h | h | h | h | h | h | h | h | h | h | h
    · have := char_of c ' ' h; subst this; decide
    · have := char_of c '\t' h; subst this; decide
    · have := char_of c '\r' h; subst this; decide
    · have := char_of c '\n' h; subst this; decide
    · have := char_of c ';' h; subst this; decide
    · have := char_of c '{' h; subst this; decide
    · have := char_of c '\\' h; subst this; decide
    · have := char_of c '$' h; subst this; decide
    · have := char_of c '"' h; subst this; decide
    · have := char_of c '\'' h; subst this; decide
    · have := char_of c '#' h; subst this; decide
    · have := char_of c '}' h; subst this; decide
  · have hidx : tokenDfa.classOf c = 12 := List.idxOf_eq_length h
    have h' : c.toNat ∉ wordDfa.specials := by
      intro hm; apply h
      simp only [wordDfa, List.mem_cons, List.not_mem_nil, or_false] at hm
      simp only [tokenDfa, List.mem_cons, List.not_mem_nil, or_false]
      omega
    have hidx' : wordDfa.classOf c = 8 := List.idxOf_eq_length h'
    rw [hidx, hidx']; rfl

/-- Running the word automaton from an "inside" state (1 or 2). -/
theorem word_run_inside (s : List Char) : ∀ p, (p = 1 ∨ p = 2) →
    (wordDfa.run p s = 1 → s.all wordChar = true ∧ (s ≠ [] → endsDollar s = false) ∧ (s = [] → p = 1)) := by
  induction s with
  | nil => intro p _ h; simp [Dfa.run] at h; simp [h]
  | cons c cs ih =>
    intro p hp h
    have hp3 : p ≠ 3 := by omega
    simp only [Dfa.run] at h
    have hδ : wordDfa.δ p (wordDfa.classOf c) = wordG (wordDfa.classOf c) := by simp [wordDfa, hp3]
    rw [hδ, word_step] at h
    by_cases hw : wordChar c = false
    · simp only [hw, if_true] at h
      exfalso
      have : ∀ t, wordDfa.run 3 t = 3 := by
        intro t; induction t with
        | nil => rfl
        | cons d ds ih2 => simp only [Dfa.run]; have : wordDfa.δ 3 (wordDfa.classOf d) = 3 := by simp [wordDfa]
                           rw [this]; exact ih2
      rw [this] at h; omega
    · have hw : wordChar c = true := by simpa using hw
      simp only [hw, Bool.true_eq_false, if_false] at h
      by_cases hd : c = '$'
      · simp only [hd, if_true] at h
        obtain ⟨a, b, e⟩ := ih 2 (Or.inr rfl) h
        refine ⟨by simp [hw, a], fun _ => ?_, fun e0 => by cases e0⟩
        cases cs with
        | nil => exact absurd (e rfl) (by decide)
        | cons d ds => simpa [endsDollar] using b (by simp)
      · simp only [hd, if_false] at h
        obtain ⟨a, b, _⟩ := ih 1 (Or.inl rfl) h
        refine ⟨by simp [hw, a], fun _ => ?_, fun e0 => by cases e0⟩
        cases cs with
        | nil => simp [endsDollar, hd]
        | cons d ds => simpa [endsDollar] using b (by simp)

theorem dead_run (d : Dfa) (hd : ∀ k, d.δ 3 k = 3) (t : List Char) : d.run 3 t = 3 := by
  induction t with
  | nil => rfl
  | cons c cs ih => simp only [Dfa.run, hd]; exact ih

theorem word_accept (s : List Char) (h : (wordDfa.run 0 s == 1) = true) : WordSafe s := by
  have h : wordDfa.run 0 s = 1 := by simpa using h
  cases s with
  | nil => simp [Dfa.run] at h
  | cons c cs =>
    simp only [Dfa.run] at h
    have hδ : wordDfa.δ 0 (wordDfa.classOf c) = wordG (wordDfa.classOf c) := by simp [wordDfa]
    rw [hδ, word_step] at h
    by_cases hw : wordChar c = false
    · simp only [hw, if_true] at h
      rw [dead_run wordDfa (by intro k; simp [wordDfa])] at h; omega
    · have hw : wordChar c = true := by simpa using hw
      simp only [hw, Bool.true_eq_false, if_false] at h
      refine ⟨by simp, ?_, ?_⟩
      · by_cases hd : c = '$'
        · simp only [hd, if_true] at h
          simp [hw, (word_run_inside cs 2 (Or.inr rfl) h).1]
        · simp only [hd, if_false] at h
          simp [hw, (word_run_inside cs 1 (Or.inl rfl) h).1]
      · by_cases hd : c = '$'
        · simp only [hd, if_true] at h
          obtain ⟨_, b, e⟩ := word_run_inside cs 2 (Or.inr rfl) h
          cases cs with
          | nil => exact absurd (e rfl) (by decide)
          | cons d ds => simpa [endsDollar] using b (by simp)
        · simp only [hd, if_false] at h
          obtain ⟨_, b, _⟩ := word_run_inside cs 1 (Or.inl rfl) h
          cases cs with
          | nil => simp [endsDollar, hd]
          | cons d ds => simpa [endsDollar] using b (by simp)

theorem wordG_range (k : Nat) : wordG k = 1 ∨ wordG k = 2 ∨ wordG k = 3 := by
  unfold wordG; split
  · simp
  · split <;> simp

theorem token_delta_inside (p k : Nat) (hp : p = 1 ∨ p = 2) : tokenDfa.δ p k = wordG k := by
  rcases hp with rfl | rfl <;> simp [tokenDfa]

theorem word_delta_inside (p k : Nat) (hp : p = 1 ∨ p = 2) : wordDfa.δ p k = wordG k := by
  rcases hp with rfl | rfl <;> simp [wordDfa]

/-- after the first character the token automaton runs like the word automaton -/
theorem token_run_inside (s : List Char) : ∀ p, (p = 1 ∨ p = 2 ∨ p = 3) → tokenDfa.run p s = wordDfa.run p s := by
  induction s with
  | nil => intro p _; rfl
  | cons c cs ih =>
    intro p hp
    simp only [Dfa.run]
    rcases hp with hp | hp | hp
    · rw [token_delta_inside p _ (Or.inl hp), word_delta_inside p _ (Or.inl hp), token_word_class]
      exact ih _ (wordG_range _)
    · rw [token_delta_inside p _ (Or.inr hp), word_delta_inside p _ (Or.inr hp), token_word_class]
      exact ih _ (wordG_range _)
    · subst hp
      have a : tokenDfa.δ 3 (tokenDfa.classOf c) = 3 := by simp [tokenDfa]
      have b : wordDfa.δ 3 (wordDfa.classOf c) = 3 := by simp [wordDfa]
      rw [a, b]; exact ih 3 (by simp)

theorem token_accept (s : List Char) (h : (tokenDfa.run 0 s == 1) = true) : TokenSafe s := by
  have h : tokenDfa.run 0 s = 1 := by simpa using h
  cases s with
  | nil => simp [Dfa.run] at h
  | cons c cs =>
    simp only [Dfa.run] at h
    have hδ : tokenDfa.δ 0 (tokenDfa.classOf c) = tokenG (tokenDfa.classOf c) := by simp [tokenDfa]
    rw [hδ, token_step] at h
    by_cases hw : startChar c = false
    · simp only [hw, if_true] at h
      rw [dead_run tokenDfa (by intro k; simp [tokenDfa])] at h; omega
    · have hw : startChar c = true := by simpa using hw
      simp only [hw, Bool.true_eq_false, if_false] at h
      refine ⟨c, cs, rfl, hw, ?_, ?_⟩
      · by_cases hd : c = '$'
        · simp only [hd, if_true] at h
          rw [token_run_inside cs 2 (by simp)] at h
          exact (word_run_inside cs 2 (Or.inr rfl) h).1
        · simp only [hd, if_false] at h
          rw [token_run_inside cs 1 (by simp)] at h
          exact (word_run_inside cs 1 (Or.inl rfl) h).1
      · by_cases hd : c = '$'
        · simp only [hd, if_true] at h
          rw [token_run_inside cs 2 (by simp)] at h
          obtain ⟨_, b, e⟩ := word_run_inside cs 2 (Or.inr rfl) h
          cases cs with
          | nil => exact absurd (e rfl) (by decide)
          | cons d ds => simpa [endsDollar] using b (by simp)
        · simp only [hd, if_false] at h
          rw [token_run_inside cs 1 (by simp)] at h
          obtain ⟨_, b, _⟩ := word_run_inside cs 1 (Or.inl rfl) h
          cases cs with
          | nil => simp [endsDollar, hd]
          | cons d ds => simpa [endsDollar] using b (by simp)

end Nic.LexDfa
