import Nic.Model.Regex
/-!
  The executable matcher `matchB` (Brzozowski derivatives with smart constructors) decides exactly the
  language `Matches`: so what the `re` correspondence compares with Go's `regexp` is the semantics the C06
  theorems are stated for.
-/
namespace Nic.Regex

/-! ### inversion lemmas -/

theorem matches_eps_iff {s : List Char} : Matches .eps s ↔ s = [] := by
  constructor
  · intro h; cases h; rfl
  · intro h; subst h; exact .eps

theorem not_matches_nil {s : List Char} : ¬ Matches .nil s := by intro h; cases h

theorem matches_cls_iff {rs : Ranges} {s : List Char} : Matches (.cls rs) s ↔ ∃ c, s = [c] ∧ inRanges rs c.toNat = true := by
  constructor
  · intro h; cases h with | cls hc => exact ⟨_, rfl, hc⟩
  · rintro ⟨c, rfl, hc⟩; exact .cls hc

theorem matches_cat_iff {a b : Re} {s : List Char} : Matches (.cat a b) s ↔ ∃ s₁ s₂, s = s₁ ++ s₂ ∧ Matches a s₁ ∧ Matches b s₂ := by
  constructor
  · intro h; cases h with | cat h1 h2 => exact ⟨_, _, rfl, h1, h2⟩
  · rintro ⟨s₁, s₂, rfl, h1, h2⟩; exact .cat h1 h2

theorem matches_alt_iff {a b : Re} {s : List Char} : Matches (.alt a b) s ↔ Matches a s ∨ Matches b s := by
  constructor
  · intro h; cases h with
    | altL h => exact Or.inl h
    | altR h => exact Or.inr h
  · rintro (h | h)
    · exact .altL h
    · exact .altR h

/-- a non-empty match of a star starts with a non-empty match of the body -/
theorem star_cons_inv {a : Re} {r : Re} {t : List Char} (h : Matches r t) : r = .star a → ∀ c s, t = c :: s →
    ∃ s₁ s₂, s = s₁ ++ s₂ ∧ Matches a (c :: s₁) ∧ Matches (.star a) s₂ := by
  induction h with
  | eps => intro e; cases e
  | cls _ => intro e; cases e
  | cat _ _ _ _ => intro e; cases e
  | altL _ _ => intro e; cases e
  | altR _ _ => intro e; cases e
  | starNil => intro _ c s e; cases e
  | @starCons a' s' t' h1 h2 _ ih2 =>
    intro e c s est
    cases e
    cases s' with
    | nil =>
      simp only [List.nil_append] at est
      exact ih2 rfl c s est
    | cons d ds =>
      simp only [List.cons_append, List.cons.injEq] at est
      obtain ⟨rfl, rfl⟩ := est
      exact ⟨ds, t', rfl, h1, h2⟩

/-! ### nullable -/

theorem nullable_iff (r : Re) : nullable r = true ↔ Matches r [] := by
  induction r with
  | eps => simp [nullable, matches_eps_iff]
  | nil => simp [nullable, not_matches_nil]
  | cls rs => simp [nullable, matches_cls_iff]
  | cat a b iha ihb =>
    simp only [nullable, Bool.and_eq_true, iha, ihb, matches_cat_iff]
    constructor
    · rintro ⟨h1, h2⟩; exact ⟨[], [], rfl, h1, h2⟩
    · rintro ⟨s₁, s₂, e, h1, h2⟩
      have : s₁ = [] ∧ s₂ = [] := by simpa using e.symm
      rw [this.1] at h1; rw [this.2] at h2
      exact ⟨h1, h2⟩
  | alt a b iha ihb => simp [nullable, iha, ihb, matches_alt_iff]
  | star a _ => simp only [nullable, true_iff]; exact .starNil

/-! ### smart constructors preserve the language -/

theorem mkCat_iff (a b : Re) (s : List Char) : Matches (mkCat a b) s ↔ Matches (.cat a b) s := by
  unfold mkCat
  split
  · simp [not_matches_nil, matches_cat_iff]
  · simp [not_matches_nil, matches_cat_iff]
  · rw [matches_cat_iff]
    constructor
    · intro h; exact ⟨[], s, rfl, .eps, h⟩
    · rintro ⟨s₁, s₂, rfl, h1, h2⟩; rw [matches_eps_iff.mp h1]; simpa using h2
  · rw [matches_cat_iff]
    constructor
    · intro h; exact ⟨s, [], by simp, h, .eps⟩
    · rintro ⟨s₁, s₂, rfl, h1, h2⟩; rw [matches_eps_iff.mp h2]; simpa using h1
  · rfl

theorem mkAlt_iff (a b : Re) (s : List Char) : Matches (mkAlt a b) s ↔ Matches (.alt a b) s := by
  unfold mkAlt
  split
  · simp [not_matches_nil, matches_alt_iff]
  · simp [not_matches_nil, matches_alt_iff]
  · split
    · rename_i h; subst h; simp [matches_alt_iff]
    · rfl

/-! ### derivatives -/

theorem deriv_iff (c : Char) (r : Re) : ∀ s, Matches (deriv c r) s ↔ Matches r (c :: s) := by
  induction r with
  | eps => intro s; simp [deriv, not_matches_nil, matches_eps_iff]
  | nil => intro s; simp [deriv, not_matches_nil]
  | cls rs =>
    intro s
    simp only [deriv]
    split
    · rename_i h
      rw [matches_eps_iff, matches_cls_iff]
      constructor
      · intro e; subst e; exact ⟨c, rfl, h⟩
      · rintro ⟨d, e, _⟩; simpa using (List.cons.inj e).2
    · rename_i h
      simp only [not_matches_nil, false_iff, matches_cls_iff, not_exists, not_and]
      intro d e
      have : c = d := (List.cons.inj e).1
      subst this; exact h
  | cat a b iha ihb =>
    intro s
    simp only [deriv]
    have key : Matches (.cat a b) (c :: s) ↔ (∃ s₁ s₂, s = s₁ ++ s₂ ∧ Matches a (c :: s₁) ∧ Matches b s₂) ∨ (Matches a [] ∧ Matches b (c :: s)) := by
      rw [matches_cat_iff]
      constructor
      · rintro ⟨s₁, s₂, e, h1, h2⟩
        cases s₁ with
        | nil => right; simp only [List.nil_append] at e; rw [e]; exact ⟨h1, h2⟩
        | cons d ds =>
          left
          simp only [List.cons_append, List.cons.injEq] at e
          obtain ⟨rfl, rfl⟩ := e
          exact ⟨ds, s₂, rfl, h1, h2⟩
      · rintro (⟨s₁, s₂, rfl, h1, h2⟩ | ⟨h1, h2⟩)
        · exact ⟨c :: s₁, s₂, rfl, h1, h2⟩
        · exact ⟨[], c :: s, rfl, h1, h2⟩
    have left : Matches (mkCat (deriv c a) b) s ↔ ∃ s₁ s₂, s = s₁ ++ s₂ ∧ Matches a (c :: s₁) ∧ Matches b s₂ := by
      rw [mkCat_iff, matches_cat_iff]
      constructor
      · rintro ⟨s₁, s₂, e, h1, h2⟩; exact ⟨s₁, s₂, e, (iha s₁).mp h1, h2⟩
      · rintro ⟨s₁, s₂, e, h1, h2⟩; exact ⟨s₁, s₂, e, (iha s₁).mpr h1, h2⟩
    split
    · rename_i hn
      rw [mkAlt_iff, matches_alt_iff, left, ihb, key]
      have := (nullable_iff a).mp hn
      simp [this]
    · rename_i hn
      rw [left, key]
      have : ¬ Matches a [] := fun h => hn ((nullable_iff a).mpr h)
      simp [this]
  | alt a b iha ihb =>
    intro s
    simp only [deriv]
    rw [mkAlt_iff, matches_alt_iff, matches_alt_iff, iha, ihb]
  | star a iha =>
    intro s
    simp only [deriv]
    rw [mkCat_iff, matches_cat_iff]
    constructor
    · rintro ⟨s₁, s₂, rfl, h1, h2⟩
      exact .starCons ((iha s₁).mp h1) h2
    · intro h
      obtain ⟨s₁, s₂, e, h1, h2⟩ := star_cons_inv h rfl c s rfl
      exact ⟨s₁, s₂, e, (iha s₁).mpr h1, h2⟩

/-- The executable matcher decides the language. -/
theorem matchB_iff (s : List Char) : ∀ r : Re, matchB r s = true ↔ Matches r s := by
  induction s with
  | nil => intro r; simp [matchB, nullable_iff]
  | cons c cs ih => intro r; simp only [matchB]; rw [ih, deriv_iff]

end Nic.Regex
