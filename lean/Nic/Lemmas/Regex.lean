import Nic.Model.Regex
/-!
  Soundness of the abstract interpreter `Dfa.rel` / `Dfa.check`: if the check succeeds then every string of the
  regular expression's language drives the automaton from the start state into a good state.
-/
namespace Nic.Regex

/-! ### automaton runs -/

theorem Dfa.run_append (d : Dfa) (p : Nat) (s t : List Char) : d.run p (s ++ t) = d.run (d.run p s) t := by
  induction s generalizing p with
  | nil => rfl
  | cons c cs ih => simp [Dfa.run, ih]

theorem Dfa.classOf_le (d : Dfa) (c : Char) : d.classOf c < d.specials.length + 1 := by
  unfold Dfa.classOf
  exact Nat.lt_succ_of_le List.idxOf_le_length

theorem Dfa.step_lt (d : Dfa) (h : d.wf = true) (p k : Nat) (hp : p < d.states) (hk : k < d.specials.length + 1) :
    d.δ p k < d.states := by
  unfold Dfa.wf at h
  rw [List.all_eq_true] at h
  have h1 := h p (List.mem_range.mpr hp)
  rw [List.all_eq_true] at h1
  simpa using h1 k (List.mem_range.mpr hk)

theorem Dfa.run_lt (d : Dfa) (h : d.wf = true) (s : List Char) : ∀ p, p < d.states → d.run p s < d.states := by
  induction s with
  | nil => intro p hp; exact hp
  | cons c cs ih => intro p hp; exact ih _ (d.step_lt h p _ hp (d.classOf_le c))

/-! ### relations -/

theorem addNew_sub (X Y : Rel) {e : Nat × Nat} (he : e ∈ X) : e ∈ addNew X Y := by
  unfold addNew
  induction Y generalizing X with
  | nil => exact he
  | cons y ys ih =>
    simp only [List.foldl_cons]
    apply ih
    split
    · exact he
    · exact List.mem_append_left _ he

theorem addNew_right (X Y : Rel) {e : Nat × Nat} (he : e ∈ Y) : e ∈ addNew X Y := by
  unfold addNew
  induction Y generalizing X with
  | nil => cases he
  | cons y ys ih =>
    simp only [List.foldl_cons]
    rcases List.mem_cons.mp he with rfl | h
    · have : e ∈ (if X.contains e = true then X else X ++ [e]) := by
        split
        · rename_i hc; simpa using hc
        · simp
      exact addNew_sub _ ys this
    · exact ih _ h

theorem mem_comp {X Y : Rel} {p q r : Nat} (h1 : (p, q) ∈ X) (h2 : (q, r) ∈ Y) : (p, r) ∈ comp X Y := by
  unfold comp
  apply addNew_right
  rw [List.mem_flatMap]
  refine ⟨(p, q), h1, ?_⟩
  rw [List.mem_map]
  exact ⟨(q, r), by simp [List.mem_filter, h2], rfl⟩

theorem subRel_mem {X Y : Rel} (h : subRel X Y = true) {e : Nat × Nat} (he : e ∈ X) : e ∈ Y := by
  unfold subRel at h
  rw [List.all_eq_true] at h
  simpa using h e he

theorem starRel_spec (R : Rel) : ∀ (fuel : Nat) (X Z : Rel), starRel R fuel X = some Z →
    (∀ e, e ∈ X → e ∈ Z) ∧ subRel (comp R Z) Z = true := by
  intro fuel
  induction fuel with
  | zero =>
    intro X Z h
    unfold starRel at h
    split at h
    · rename_i hc
      cases h
      exact ⟨fun _ he => he, hc⟩
    · cases h
  | succ n ih =>
    intro X Z h
    unfold starRel at h
    split at h
    · rename_i hc
      cases h
      exact ⟨fun _ he => he, hc⟩
    · obtain ⟨h1, h2⟩ := ih _ _ h
      exact ⟨fun e he => h1 e (addNew_sub X _ he), h2⟩

theorem mem_idRel (d : Dfa) {p : Nat} (hp : p < d.states) : (p, p) ∈ d.idRel := by
  unfold Dfa.idRel
  rw [List.mem_map]
  exact ⟨p, List.mem_range.mpr hp, rfl⟩

theorem mem_clsRel (d : Dfa) {ks : List Nat} {p k : Nat} (hp : p < d.states) (hk : k ∈ ks) : (p, d.δ p k) ∈ d.clsRel ks := by
  unfold Dfa.clsRel
  rw [List.mem_flatMap]
  exact ⟨p, List.mem_range.mpr hp, List.mem_map.mpr ⟨k, hk, rfl⟩⟩

/-! ### character classes -/

theorem Dfa.hit_sound (d : Dfa) (rs : Ranges) (c : Char) (h : inRanges rs c.toNat = true) : d.classOf c ∈ d.hit rs := by
  unfold Dfa.hit
  rw [List.mem_append]
  by_cases hm : c.toNat ∈ d.specials
  · left
    rw [List.mem_filter]
    have hlt : d.classOf c < d.specials.length := List.idxOf_lt_length_of_mem hm
    refine ⟨List.mem_range.mpr hlt, ?_⟩
    have : d.specials.getD (d.classOf c) 0 = c.toNat := by
      unfold Dfa.classOf
      have hlt' : List.idxOf c.toNat d.specials < d.specials.length := hlt
      simp only [List.getD, List.getElem?_eq_getElem hlt', Option.getD_some]
      exact List.getElem_idxOf hlt' 
    rw [this]; exact h
  · right
    have hidx : d.classOf c = d.specials.length := by
      unfold Dfa.classOf
      exact List.idxOf_eq_length hm
    unfold inRanges at h
    rw [List.any_eq_true] at h
    obtain ⟨r, hr, hin⟩ := h
    have hany : rs.any (fun r => !(r.1 == r.2 && d.specials.contains r.1)) = true := by
      rw [List.any_eq_true]
      refine ⟨r, hr, ?_⟩
      simp only [Bool.and_eq_true, decide_eq_true_eq] at hin
      by_cases he : r.1 = r.2
      · have : c.toNat = r.1 := by omega
        have hnc : ¬ r.1 ∈ d.specials := by
          rw [← this]; exact hm
        simp [hnc]
      · simp [he]
    rw [hany, hidx]
    simp

/-! ### soundness -/

theorem Dfa.rel_sound (d : Dfa) (hwf : d.wf = true) {r : Re} {s : List Char} (hm : Matches r s) :
    ∀ X, d.rel r = some X → ∀ p, p < d.states → (p, d.run p s) ∈ X := by
  induction hm with
  | eps =>
    intro X hX p hp
    simp only [Dfa.rel, Option.some.injEq] at hX
    subst hX
    exact mem_idRel d hp
  | @cls rs c hin =>
    intro X hX p hp
    simp only [Dfa.rel, Option.some.injEq] at hX
    subst hX
    exact mem_clsRel d hp (d.hit_sound rs c hin)
  | @cat a b s t _ _ iha ihb =>
    intro X hX p hp
    simp only [Dfa.rel] at hX
    split at hX
    · rename_i Xa Xb ha hb
      cases hX
      rw [d.run_append]
      exact mem_comp (iha Xa ha p hp) (ihb Xb hb _ (d.run_lt hwf s p hp))
    · cases hX
  | @altL a b s _ ih =>
    intro X hX p hp
    simp only [Dfa.rel] at hX
    split at hX
    · rename_i Xa Xb ha hb
      cases hX
      exact addNew_sub _ _ (ih Xa ha p hp)
    · cases hX
  | @altR a b s _ ih =>
    intro X hX p hp
    simp only [Dfa.rel] at hX
    split at hX
    · rename_i Xa Xb ha hb
      cases hX
      exact addNew_right _ _ (ih Xb hb p hp)
    · cases hX
  | @starNil a =>
    intro X hX p hp
    simp only [Dfa.rel] at hX
    split at hX
    · rename_i R hR
      exact (starRel_spec R _ _ _ hX).1 _ (mem_idRel d hp)
    · cases hX
  | @starCons a s t _ _ iha ihs =>
    intro X hX p hp
    have hX' := hX
    simp only [Dfa.rel] at hX
    split at hX
    · rename_i R hR
      rw [d.run_append]
      have h1 := iha R hR p hp
      have h2 := ihs X hX' _ (d.run_lt hwf s p hp)
      exact subRel_mem (starRel_spec R _ _ _ hX).2 (mem_comp h1 h2)
    · cases hX

/-- The decision procedure is sound: a successful check is a statement about **every** string of the language. -/
theorem Dfa.check_sound (d : Dfa) (start : Nat) (good : Nat → Bool) (r : Re) (h : d.check start good r = true)
    (s : List Char) (hm : Matches r s) : good (d.run start s) = true := by
  unfold Dfa.check at h
  simp only [Bool.and_eq_true, decide_eq_true_eq] at h
  obtain ⟨⟨hwf, hst⟩, h⟩ := h
  split at h
  · rename_i X hX
    have := d.rel_sound hwf hm X hX start hst
    rw [List.all_eq_true] at h
    simpa using h _ this
  · cases h

end Nic.Regex
