import Nic.Model.NgxLex
/-!
  Helper lemmas about the NGINX tokenizer model: which strings are inert in which lexical context.
  Property theorems built on them are in `Nic/Props/C06.lean` and `Nic/Props/C07.lean`.
-/
namespace Nic.NgxLex

/-! ### run over concatenations -/

theorem run_nil (s : St) : run s [] = (s, []) := rfl

theorem run_cons (s : St) (c : Char) (cs : List Char) :
    run s (c :: cs) = ((run (step s c).1 cs).1, (step s c).2 ++ (run (step s c).1 cs).2) := rfl

theorem run_append (s : St) (a b : List Char) :
    run s (a ++ b) = ((run (run s a).1 b).1, (run s a).2 ++ (run (run s a).1 b).2) := by
  induction a generalizing s with
  | nil => simp [run_nil]
  | cons c cs ih => simp [run_cons, ih, List.append_assoc]

/-- Once in error, always in error and silent. -/
theorem step_err (s : St) (c : Char) (h : s.err = true) : step s c = (s, []) := by
  simp [step, h]

theorem run_err (s : St) (cs : List Char) (h : s.err = true) : run s cs = (s, []) := by
  induction cs with
  | nil => rfl
  | cons c cs ih => simp [run_cons, step_err s c h, ih]

/-! ### quoted contexts -/

/-- The language `([^q\\]|\\.)*` with `.` = any character, as an automaton with an escape flag: every
quote character `q` is escaped and the string does not end in the middle of an escape. -/
def qGo (q : Char) (esc : Bool) : List Char → Bool
  | [] => !esc
  | c :: cs =>
    if esc then qGo q false cs
    else if c == '\\' then qGo q true cs
    else if c == q then false
    else qGo q false cs

def dqSafe (cs : List Char) : Bool := qGo '"' false cs
def sqSafe (cs : List Char) : Bool := qGo '\'' false cs

/-- `s` is inside a string quoted by `q`. -/
def InQuote (s : St) (q : Char) : Prop := (s.mode = .dq ∧ q = '"') ∨ (s.mode = .sq ∧ q = '\'')

theorem step_quote_plain (s : St) (q c : Char) (hm : InQuote s q) (he : s.esc = false) (hr : s.err = false)
    (h1 : (c == '\\') = false) (h2 : (c == q) = false) :
    ∃ v, step s c = ({ s with var := v }, []) := by
  rcases hm with ⟨hm, hq⟩ | ⟨hm, hq⟩ <;> subst hq <;> unfold step <;> simp only [hm, he, hr, h1, h2]
  all_goals
    by_cases hv : (c == '{' && s.var) = true
    · refine ⟨s.var, ?_⟩
      cases s; simp_all
    · by_cases hd : (c == '$') = true
      · exact ⟨true, by simp [hv, hd]⟩
      · exact ⟨false, by simp [hv, hd]⟩

theorem step_quote_bslash (s : St) (q : Char) (hm : InQuote s q) (he : s.esc = false) (hr : s.err = false) :
    step s '\\' = ({ s with var := false, esc := true }, []) := by
  rcases hm with ⟨hm, _⟩ | ⟨hm, _⟩ <;> unfold step <;> simp [hm, he, hr]

theorem step_quote_esc (s : St) (q c : Char) (hm : InQuote s q) (he : s.esc = true) (hr : s.err = false) :
    step s c = ({ s with esc := false }, []) := by
  rcases hm with ⟨hm, _⟩ | ⟨hm, _⟩ <;> unfold step <;> simp [hm, he, hr]

/-- A `q`-safe string read inside a `q`-quoted token: no event, still inside the token, no pending escape. -/
theorem run_quote (q : Char) (cs : List Char) : ∀ (s : St), InQuote s q → s.err = false → qGo q s.esc cs = true →
    ∃ v, run s cs = ({ s with var := v, esc := false }, []) := by
  induction cs with
  | nil =>
    intro s _ _ h
    refine ⟨s.var, ?_⟩
    simp only [qGo, Bool.not_eq_true'] at h
    cases s; simp_all [run_nil]
  | cons c cs ih =>
    intro s hm hr h
    rw [run_cons]
    by_cases he : s.esc = true
    · rw [step_quote_esc s q c hm he hr]
      simp only [qGo, he, if_true] at h
      obtain ⟨v, hv⟩ := ih { s with esc := false } (by simpa [InQuote] using hm) (by simpa using hr) (by simpa using h)
      exact ⟨v, by simp [hv]⟩
    · have he : s.esc = false := by simpa using he
      simp only [qGo, he] at h
      by_cases hb : (c == '\\') = true
      · have : c = '\\' := by simpa using hb
        subst this
        rw [step_quote_bslash s q hm he hr]
        simp only [beq_self_eq_true, if_true, Bool.false_eq_true, if_false] at h
        obtain ⟨v, hv⟩ := ih { s with var := false, esc := true } (by simpa [InQuote] using hm) (by simpa using hr) (by simpa using h)
        exact ⟨v, by simp [hv]⟩
      · have hb : (c == '\\') = false := by simpa using hb
        by_cases hq : (c == q) = true
        · simp [hb, hq] at h
        · have hq : (c == q) = false := by simpa using hq
          simp only [hb, hq, Bool.false_eq_true, if_false] at h
          obtain ⟨v, hv⟩ := step_quote_plain s q c hm he hr hb hq
          rw [hv]
          obtain ⟨w, hw⟩ := ih { s with var := v } (by simpa [InQuote] using hm) (by simpa using hr) (by simpa [he] using h)
          refine ⟨w, ?_⟩
          simp only [he] at hw ⊢
          simp [hw]


/-! ### `var` is unobservable inside quotes -/

/-- Equal, or both inside the same quoted token and differing only in `var`. -/
def QSim (s t : St) : Prop :=
  s = t ∨ ((s.mode = .dq ∨ s.mode = .sq) ∧ t = { s with var := t.var })

theorem QSim.refl (s : St) : QSim s s := Or.inl rfl

theorem step_qsim (s t : St) (c : Char) (h : QSim s t) :
    QSim (step s c).1 (step t c).1 ∧ (step s c).2 = (step t c).2 := by
  rcases h with h | ⟨hm, ht⟩
  · subst h; exact ⟨Or.inl rfl, rfl⟩
  · obtain ⟨m, e, v, n, d, r⟩ := s
    obtain ⟨m', e', v', n', d', r'⟩ := t
    simp only [St.mk.injEq] at ht
    obtain ⟨rfl, rfl, -, rfl, rfl, rfl⟩ := ht
    simp only at hm
    rcases hm with rfl | rfl <;> cases r' <;> cases e' <;> cases v <;> cases v' <;>
      simp [step, QSim] <;>
      (repeat' split) <;> simp_all

theorem run_qsim (cs : List Char) : ∀ (s t : St), QSim s t →
    QSim (run s cs).1 (run t cs).1 ∧ (run s cs).2 = (run t cs).2 := by
  induction cs with
  | nil => intro s t h; exact ⟨h, rfl⟩
  | cons c cs ih =>
    intro s t h
    obtain ⟨h1, h2⟩ := step_qsim s t c h
    obtain ⟨h3, h4⟩ := ih _ _ h1
    simp only [run_cons]
    exact ⟨h3, by rw [h2, h4]⟩

/-- `eofOk` does not look at `var`, and a state inside a quote is not an acceptable end of file anyway. -/
theorem eofOk_qsim (s t : St) (h : QSim s t) : eofOk s = eofOk t ∧ s.err = t.err := by
  rcases h with h | ⟨_, ht⟩
  · subst h; exact ⟨rfl, rfl⟩
  · rw [ht]; simp [eofOk]

/-! ### reachable states: between tokens no `$` or backslash is pending -/

/-- Between tokens (`space`), after a closing quote (`need`) and in a comment, neither `var` nor `esc` is set. -/
def Between (s : St) : Prop := (s.mode = .space ∨ s.mode = .need ∨ s.mode = .comment) → s.var = false ∧ s.esc = false

theorem between_step (s : St) (c : Char) (h : Between s) : Between (step s c).1 := by
  obtain ⟨m, e, v, n, d, r⟩ := s
  unfold Between at h ⊢
  cases m <;> cases r <;> cases e <;> cases v <;> simp at h <;>
    simp [step, fresh, fail, endDir, openBlock] <;> (repeat' split) <;> simp_all

theorem between_run (cs : List Char) : ∀ s, Between s → Between (run s cs).1 := by
  induction cs with
  | nil => intro s h; exact h
  | cons c cs ih => intro s h; rw [run_cons]; exact ih _ (between_step s c h)

theorem reach_between (pre : List Char) : Between (run init pre).1 :=
  between_run pre init (fun _ => ⟨rfl, rfl⟩)

/-! ### classes of inert values -/

/-- What a string does when it is read inside an unquoted word whose `var` flag is `var`: `none` if it contains a
character that ends the word or starts an escape, `some b` if it is inert and leaves `var = b`.  `{` is inert exactly
after `$` (NGINX's `${name}` syntax). -/
def wordGo (var : Bool) : List Char → Option Bool
  | [] => some var
  | c :: cs =>
    if c == '{' && var then wordGo true cs
    else if c == '\\' then none
    else if c == '$' then wordGo true cs
    else if isWs c || c == ';' || c == '{' then none
    else wordGo false cs

theorem run_wordGo (v : List Char) : ∀ (s : St) (b : Bool), s.mode = .word → s.esc = false → s.err = false →
    wordGo s.var v = some b → run s v = ({ s with var := b }, []) := by
  induction v with
  | nil =>
    intro s b _ _ _ h
    simp only [wordGo, Option.some.injEq] at h
    subst h; rfl
  | cons c cs ih =>
    intro s b hm he hr h
    rw [run_cons]
    unfold wordGo at h
    by_cases h1 : (c == '{' && s.var) = true
    · simp only [h1, if_true] at h
      have hs : step s c = (s, []) := by unfold step; simp [hm, he, hr, h1]
      have hv : s.var = true := by simp at h1; exact h1.2
      rw [hs]
      have := ih s b hm he hr (by rw [hv]; exact h)
      simp [this]
    · simp only [h1, Bool.false_eq_true, if_false] at h
      by_cases h2 : (c == '\\') = true
      · simp [h2] at h
      · simp only [h2, Bool.false_eq_true, if_false] at h
        by_cases h3 : (c == '$') = true
        · simp only [h3, if_true] at h
          have hs : step s c = ({ s with var := true }, []) := by unfold step; simp [hm, he, hr, h1, h2, h3]
          rw [hs]
          have := ih { s with var := true } b hm he hr h
          simp [this]
        · simp only [h3, Bool.false_eq_true, if_false] at h
          by_cases h4 : (isWs c || c == ';' || c == '{') = true
          · simp [h4] at h
          · simp only [h4, Bool.false_eq_true, if_false] at h
            simp only [Bool.or_eq_true, not_or, Bool.not_eq_true] at h4
            obtain ⟨⟨h4a, h4b⟩, h4c⟩ := h4
            have hs : step s c = ({ s with var := false }, []) := by
              unfold step; simp [hm, he, hr, h2, h3, h4a, h4b, h4c]
            rw [hs]
            have := ih { s with var := false } b hm he hr h
            simp [this]

/-- `var` at the start only matters for a leading `{`. -/
theorem wordGo_var (v : List Char) (hv : v.head? ≠ some '{') (a : Bool) :
    v ≠ [] → wordGo a v = wordGo false v := by
  cases v with
  | nil => intro h; exact absurd rfl h
  | cons c cs =>
    intro _
    have hc : (c == '{') = false := by
      simp only [List.head?_cons, ne_eq, Option.some.injEq] at hv
      simpa using hv
    simp [wordGo, hc]

/-- Inert inside an unquoted word and leaving no `$` pending: whatever follows is read as it would be otherwise. -/
def WordSafe (v : List Char) : Prop := v ≠ [] ∧ v.head? ≠ some '{' ∧ wordGo false v = some false

/-- Inert inside an unquoted word; may end in `$`, so what follows must not start with `{`. -/
def WordBody (v : List Char) : Prop := v ≠ [] ∧ v.head? ≠ some '{' ∧ (wordGo false v).isSome = true

/-- May start a token: the first character is none of whitespace `;` `{` `}` `"` `'` `#` backslash. -/
def startChar (c : Char) : Bool :=
  !(isWs c || c == ';' || c == '{' || c == '\\' || c == '"' || c == '\'' || c == '#' || c == '}')

def TokenSafe (v : List Char) : Prop :=
  ∃ c cs, v = c :: cs ∧ startChar c = true ∧ wordGo false v = some false

def TokenBody (v : List Char) : Prop :=
  ∃ c cs, v = c :: cs ∧ startChar c = true ∧ (wordGo false v).isSome = true

/-- Inert inside a token quoted by `q` (`"` or `'`). -/
def QuoteSafe (q : Char) (v : List Char) : Prop := qGo q false v = true

instance (v : List Char) : Decidable (WordSafe v) := by unfold WordSafe; exact inferInstance
instance (v : List Char) : Decidable (WordBody v) := by unfold WordBody; exact inferInstance
instance (q : Char) (v : List Char) : Decidable (QuoteSafe q v) := by unfold QuoteSafe; exact inferInstance

end Nic.NgxLex
