/-
  Maps built with `Map.set` / `Map.erase` from the empty map have strictly
  increasing keys; on such maps lookup and membership agree.
-/
import Nic.Lemmas.MapLemmas
namespace Nic.Arb.Map

def Sorted {α} (m : Map α) : Prop := m.Pairwise (fun a b => a.1 < b.1)

theorem sorted_nil {α} : Sorted ([] : Map α) := List.Pairwise.nil

theorem mem_set {α} (m : Map α) (k : String) (v : α) (p : String × α) (h : p ∈ m.set k v) :
    p = (k, v) ∨ p ∈ m := by
  induction m with
  | nil => simp [set] at h; exact Or.inl h
  | cons a r ih =>
    obtain ⟨k', v'⟩ := a
    unfold set at h
    by_cases h1 : k < k'
    · simp only [h1, if_true] at h
      rcases List.mem_cons.mp h with h | h
      · exact Or.inl h
      · exact Or.inr h
    · by_cases h2 : k = k'
      · subst h2
        simp only [String.lt_irrefl, if_false, if_true] at h
        rcases List.mem_cons.mp h with h | h
        · exact Or.inl h
        · exact Or.inr (List.mem_cons_of_mem _ h)
      · simp only [h1, h2, if_false] at h
        rcases List.mem_cons.mp h with h | h
        · exact Or.inr (by rw [h]; exact List.mem_cons_self)
        · rcases ih h with h | h
          · exact Or.inl h
          · exact Or.inr (List.mem_cons_of_mem _ h)

theorem set_sorted {α} (m : Map α) (k : String) (v : α) (hs : Sorted m) : Sorted (m.set k v) := by
  induction m with
  | nil => simp [set, Sorted]
  | cons a r ih =>
    obtain ⟨k', v'⟩ := a
    unfold Sorted at hs ⊢
    rw [List.pairwise_cons] at hs
    unfold set
    by_cases h1 : k < k'
    · simp only [h1, if_true]
      rw [List.pairwise_cons]
      refine ⟨?_, List.pairwise_cons.mpr hs⟩
      intro p hp
      rcases List.mem_cons.mp hp with rfl | hp
      · exact h1
      · exact String.lt_trans h1 (hs.1 p hp)
    · by_cases h2 : k = k'
      · subst h2
        simp only [String.lt_irrefl, if_false, if_true]
        rw [List.pairwise_cons]
        exact ⟨hs.1, hs.2⟩
      · simp only [h1, h2, if_false]
        rw [List.pairwise_cons]
        refine ⟨?_, ih hs.2⟩
        intro p hp
        rcases mem_set r k v p hp with rfl | hp
        · -- ¬ k < k' and k ≠ k' gives k' < k
          have hle : k' ≤ k := String.not_lt.mp h1
          rcases Decidable.em (k' < k) with h | h
          · exact h
          · exact absurd (String.le_antisymm (String.not_lt.mp h) hle) h2
        · exact hs.1 p hp

theorem erase_sorted {α} (m : Map α) (k : String) (hs : Sorted m) : Sorted (m.erase k) :=
  List.Pairwise.filter _ hs

theorem get?_of_mem {α} (m : Map α) (hs : Sorted m) (k : String) (v : α) (h : (k, v) ∈ m) :
    m.get? k = some v := by
  induction m with
  | nil => cases h
  | cons a r ih =>
    obtain ⟨k', v'⟩ := a
    unfold Sorted at hs
    rw [List.pairwise_cons] at hs
    unfold get?
    rcases List.mem_cons.mp h with h | h
    · cases h; simp
    · have : k' < k := hs.1 (k, v) h
      have hne : ¬ k' = k := fun e => by rw [e] at this; exact String.lt_irrefl _ this
      simp [hne]; exact ih hs.2 h

theorem mem_of_get? {α} (m : Map α) (k : String) (v : α) (h : m.get? k = some v) : (k, v) ∈ m := by
  induction m with
  | nil => simp [get?] at h
  | cons a r ih =>
    obtain ⟨k', v'⟩ := a
    unfold get? at h
    by_cases e : k' = k
    · simp [e] at h; subst h; subst e; exact List.mem_cons_self
    · simp [e] at h; exact List.mem_cons_of_mem _ (ih h)

theorem contains_of_mem {α} (m : Map α) (p : String × α) (h : p ∈ m) : m.contains p.1 = true := by
  induction m with
  | nil => cases h
  | cons a r ih =>
    unfold contains get?
    rcases List.mem_cons.mp h with rfl | h
    · simp
    · by_cases e : a.1 = p.1
      · simp [e]
      · simp only [e, if_false]; exact ih h

/-- Mapping values keeps keys, hence sortedness. -/
theorem map_sorted {α β} (m : Map α) (f : String × α → β) (hs : Sorted m) :
    Sorted (m.map fun p => (p.1, f p)) := by
  unfold Sorted at *
  rw [List.pairwise_map]
  exact hs

theorem filterMap_sorted {α β} (m : Map α) (f : String × α → Option β) (hs : Sorted m) :
    Sorted (m.filterMap fun p => (f p).map fun b => (p.1, b)) := by
  unfold Sorted at *
  induction m with
  | nil => simp
  | cons a r ih =>
    rw [List.pairwise_cons] at hs
    simp only [List.filterMap_cons]
    cases hf : f a with
    | none => simp; exact ih hs.2
    | some b =>
      simp only [Option.map_some]
      rw [List.pairwise_cons]
      refine ⟨?_, ih hs.2⟩
      intro p hp
      obtain ⟨q, hq, he⟩ := List.mem_filterMap.mp hp
      cases hfq : f q with
      | none => simp [hfq] at he
      | some c => simp [hfq] at he; subst he; exact hs.1 q hq

end Nic.Arb.Map
