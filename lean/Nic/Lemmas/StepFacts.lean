/-
  Projections of `step` (the public operations) in terms of the rebuilds, so that
  invariants can be proved without unfolding the operations each time.
-/
import Nic.Model.Arb
namespace Nic.Arb

def ingState (s : State) (i : Ing) (cls valid : Bool) : State :=
  if cls && valid then { s with ings := s.ings.set i.md.key i } else { s with ings := s.ings.erase i.md.key }
def vsState (s : State) (v : VS) (cls valid : Bool) : State :=
  if cls && valid then { s with vss := s.vss.set v.md.key v } else { s with vss := s.vss.erase v.md.key }
def vsrState (s : State) (r : VSR) (cls valid : Bool) : State :=
  if cls && valid then { s with vsrs := s.vsrs.set r.md.key r } else { s with vsrs := s.vsrs.erase r.md.key }
def tsMap (s : State) (t : TS) (cls valid : Bool) : Map TS :=
  if cls && valid then s.tss.set t.md.key t else s.tss.erase t.md.key

theorem step_ing_fst (perm) (s : State) (i cls valid) :
    (step perm s (.ing i cls valid)).1 = (rebuildHosts (ingState s i cls valid)).1 := by
  simp only [step, ingState]; split <;> rfl
theorem step_vs_fst (perm) (s : State) (v cls valid) :
    (step perm s (.vs v cls valid)).1 = (rebuildHosts (vsState s v cls valid)).1 := by
  simp only [step, vsState]; split <;> rfl
theorem step_vsr_fst (perm) (s : State) (r cls valid) :
    (step perm s (.vsr r cls valid)).1 = (rebuildHosts (vsrState s r cls valid)).1 := by
  simp only [step, vsrState]; split <;> rfl
theorem step_ts_fst (perm) (s : State) (t cls valid) :
    (step perm s (.ts t cls valid)).1 =
      (tsBoth { s with tss := tsMap s t cls valid } (perm (tsMap s t cls valid))).1 := by
  simp only [step, tsMap]; split <;> rfl

theorem step_ing_changes (perm) (s : State) (i cls valid) :
    (step perm s (.ing i cls valid)).2.1 =
      if cls && !valid then (attachError ("Ingress/" ++ i.md.key) (rebuildHosts (ingState s i cls valid)).2.1
        (rebuildHosts (ingState s i cls valid)).2.2).1
      else (rebuildHosts (ingState s i cls valid)).2.1 := by
  simp only [step, ingState]; split <;> rfl
theorem step_vs_changes (perm) (s : State) (v cls valid) :
    (step perm s (.vs v cls valid)).2.1 =
      if cls && !valid then (attachError ("VirtualServer/" ++ v.md.key) (rebuildHosts (vsState s v cls valid)).2.1
        (rebuildHosts (vsState s v cls valid)).2.2).1
      else (rebuildHosts (vsState s v cls valid)).2.1 := by
  simp only [step, vsState]; split <;> rfl
theorem step_vsr_changes (perm) (s : State) (r cls valid) :
    (step perm s (.vsr r cls valid)).2.1 = (rebuildHosts (vsrState s r cls valid)).2.1 := by
  simp only [step, vsrState]; split <;> rfl
theorem step_ts_changes (perm) (s : State) (t cls valid) :
    (step perm s (.ts t cls valid)).2.1 =
      if cls && !valid then (attachError ("TransportServer/" ++ t.md.key)
        (tsBoth { s with tss := tsMap s t cls valid } (perm (tsMap s t cls valid))).2.1
        (tsBoth { s with tss := tsMap s t cls valid } (perm (tsMap s t cls valid))).2.2).1
      else (tsBoth { s with tss := tsMap s t cls valid } (perm (tsMap s t cls valid))).2.1 := by
  simp only [step, tsMap]; split <;> rfl

end Nic.Arb
