import Nic.Model.Tmpl
import Nic.Lemmas.NgxLex
/-!
  Building blocks of the soundness of the template analysis (`Nic/Model/Tmpl.lean`): the analysis reads literal text
  with argument counts clipped to {0, ≥1}; that abstraction is exact for errors and for every other component of the
  tokenizer state.
-/
namespace Nic.Tmpl
open Nic.NgxLex

theorem clip_idem (s : St) : clip (clip s) = clip s := by
  unfold clip; cases s; simp

theorem clip_fields (s : St) : (clip s).mode = s.mode ∧ (clip s).esc = s.esc ∧ (clip s).var = s.var ∧
    (clip s).depth = s.depth ∧ (clip s).err = s.err ∧ ((clip s).nargs = 0 ↔ s.nargs = 0) := by
  unfold clip; cases s; simp

/-- One tokenizer step commutes with clipping the argument count. -/
theorem clip_step (s : St) (c : Char) :
    clip (step (clip s) c).1 = clip (step s c).1 ∧ ((step (clip s) c).1.err = (step s c).1.err) := by
  obtain ⟨m, e, v, n, d, r⟩ := s
  have hz : (min n 1 == 0) = (n == 0) := by
    cases n with
    | zero => rfl
    | succ k => simp
  have hz' : (min n 1 != 0) = (n != 0) := by simp [bne, hz]
  cases m <;> cases r <;> cases e <;>
    simp [step, clip, fresh, fail, endDir, openBlock, hz, hz'] <;> (repeat' split) <;> simp_all <;> omega

/-- The analysis' reading of literal text agrees with the tokenizer: it fails exactly when the tokenizer reports an
error, and otherwise ends in the tokenizer's state up to the argument count. -/
theorem runText_sound (cs : List Char) : ∀ (s t : St), s.err = false → runText (clip s) cs = some t →
    (run s cs).1.err = false ∧ clip (run s cs).1 = t ∧ Ev.err ∉ (run s cs).2 := by
  induction cs with
  | nil =>
    intro s t hs h
    simp only [runText, Option.some.injEq] at h
    exact ⟨hs, h, by simp [run_nil]⟩
  | cons c cs ih =>
    intro s t hs h
    simp only [runText] at h
    obtain ⟨hc1, hc2⟩ := clip_step s c
    split at h
    · cases h
    · rename_i herr
      have herr' : (step s c).1.err = false := by rw [← hc2]; simpa using herr
      rw [hc1] at h
      obtain ⟨a, b, n⟩ := ih (step s c).1 t herr' h
      rw [run_cons]
      refine ⟨a, b, ?_⟩
      simp only [List.mem_append, not_or]
      refine ⟨?_, n⟩
      -- a step that does not set the error flag emits no error event
      intro hm
      have : (step s c).1.err = true := by
        obtain ⟨m, e, v, nn, d, r⟩ := s
        simp only at hs; subst hs
        revert hm
        cases m <;> cases e <;> simp [step, fresh, fail, endDir, openBlock] <;> (repeat' split) <;> simp_all
      rw [this] at herr'; cases herr'

/-- A template without interpolation sites: if the analysis accepts the text, the file is well formed. -/
theorem text_wellFormed (cs : List Char) (t : St) (h : runText init cs = some t) (hok : eofOk t = true) :
    wellFormed cs = true := by
  have hi : clip init = init := rfl
  obtain ⟨a, b, _⟩ := runText_sound cs init t rfl (by rw [hi]; exact h)
  unfold wellFormed
  have hf := clip_fields (run init cs).1
  rw [b] at hf
  unfold eofOk at hok ⊢
  obtain ⟨h1, _, _, h4, h5, h6⟩ := hf
  simp only [Bool.and_eq_true, Bool.not_eq_true', Bool.or_eq_true, beq_iff_eq] at hok ⊢
  obtain ⟨⟨⟨e1, e2⟩, e3⟩, e4⟩ := hok
  refine ⟨⟨⟨a, ?_⟩, ?_⟩, ?_⟩
  · rw [← h1]; exact e2
  · exact h6.mp e3
  · rw [← h4]; exact e4

end Nic.Tmpl
