import Nic.Model.Arb
namespace Nic.Arb.Map

theorem get?_set_self {α} (m : Map α) (k : String) (v : α) : (m.set k v).get? k = some v := by
  induction m with
  | nil => simp [set, get?]
  | cons a r ih =>
    obtain ⟨k', v'⟩ := a
    unfold set
    by_cases h1 : k < k'
    · simp [h1, get?]
    · by_cases h2 : k = k'
      · simp [h1, h2, get?]
      · have h3 : ¬ k' = k := fun e => h2 e.symm
        simp [h1, h2, get?, h3, ih]

theorem get?_set_ne {α} (m : Map α) (k k2 : String) (v : α) (hne : k2 ≠ k) :
    (m.set k v).get? k2 = m.get? k2 := by
  induction m with
  | nil =>
    have : ¬ k = k2 := fun e => hne e.symm
    simp [set, get?, this]
  | cons a r ih =>
    obtain ⟨k', v'⟩ := a
    have hk : ¬ k = k2 := fun e => hne e.symm
    unfold set
    by_cases h1 : k < k'
    · simp [h1, get?, hk]
    · by_cases h2 : k = k'
      · subst h2; simp [h1, get?, hk]
      · simp only [h1, h2, if_false, get?]
        by_cases h3 : k' = k2
        · simp [h3]
        · simp [h3, ih]

theorem get?_set {α} (m : Map α) (k k2 : String) (v : α) :
    (m.set k v).get? k2 = if k2 = k then some v else m.get? k2 := by
  by_cases h : k2 = k
  · subst h; simp [get?_set_self]
  · simp [h, get?_set_ne m k k2 v h]

theorem get?_erase {α} (m : Map α) (k k2 : String) :
    (m.erase k).get? k2 = if k2 = k then none else m.get? k2 := by
  induction m with
  | nil => simp [erase, get?]
  | cons a r ih =>
    unfold erase at ih ⊢
    by_cases e : a.1 = k
    · have hf : List.filter (fun p : String × α => decide (p.1 ≠ k)) (a :: r) =
          List.filter (fun p : String × α => decide (p.1 ≠ k)) r := by
        rw [List.filter_cons]; simp [e]
      rw [hf, ih]
      by_cases e2 : k2 = k
      · simp [e2]
      · have : ¬ a.1 = k2 := fun x => e2 (by rw [← x, e])
        simp [e2, get?, this]
    · have hf : List.filter (fun p : String × α => decide (p.1 ≠ k)) (a :: r) =
          a :: List.filter (fun p : String × α => decide (p.1 ≠ k)) r := by
        rw [List.filter_cons]; simp [e]
      rw [hf]
      simp only [get?]
      by_cases e3 : a.1 = k2
      · have : ¬ k2 = k := fun x => e (by rw [e3, x])
        simp [e3, this]
      · simp only [e3, if_false]; exact ih

end Nic.Arb.Map
