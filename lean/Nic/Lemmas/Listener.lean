/-
  Listener ownership: the (listener,host) holder fold over any iteration order of
  the TransportServer map is the ostep fold over `Spec.lclaimsOf`, and every
  TransportServerConfiguration in the build is bound to the listener with its
  name and protocol.
-/
import Nic.Lemmas.Owner
namespace Nic.Arb
open Spec

theorem laddWarning_lhosts (b : LBuild) (k w : String) : (b.addWarning k w).lhosts = b.lhosts := by
  unfold LBuild.addWarning; split <;> rfl

def lclaimOf (gc : Option (List Listener)) (kv : String × TS) : Option Claim :=
  if kv.2.proto = "TLS_PASSTHROUGH" then none else
  (listenerFor gc kv.2).map fun l => ⟨lkey l.name kv.2.host, tsKey kv.2, kv.2.md⟩

theorem lclaimsOf_eq (gc : Option (List Listener)) (tss : List (String × TS)) :
    Spec.lclaimsOf gc tss = tss.filterMap (lclaimOf gc) := rfl

theorem lstep_lhosts (gc : Option (List Listener)) (b : LBuild) (kv : String × TS) :
    (lstep gc b kv).lhosts = (lclaimOf gc kv).toList.foldl ostep b.lhosts := by
  unfold lstep lclaimOf
  by_cases hp : kv.2.proto = "TLS_PASSTHROUGH"
  · simp [hp]
  · simp only [hp, if_false]
    cases hl : listenerFor gc kv.2 with
    | none => simp
    | some l =>
      simp only [Option.map_some, Option.toList_some, List.foldl_cons, List.foldl_nil]
      unfold ostep
      simp only [pairOf]
      cases hg : b.lhosts.get? (lkey l.name kv.2.host) with
      | none => simp
      | some p =>
        obtain ⟨hk, hmd⟩ := p
        by_cases hb : beats hmd kv.2.md = true
        · simp [hb, laddWarning_lhosts]
        · have hb' : beats hmd kv.2.md = false := by simpa using hb
          simp [hb', laddWarning_lhosts]

theorem fold_lstep_lhosts (gc : Option (List Listener)) (l : List (String × TS)) (b : LBuild) :
    (l.foldl (lstep gc) b).lhosts = (l.filterMap (lclaimOf gc)).foldl ostep b.lhosts := by
  induction l generalizing b with
  | nil => rfl
  | cons a r ih =>
    simp only [List.foldl_cons]
    rw [ih, lstep_lhosts]
    cases h : lclaimOf gc a <;> simp [h]

theorem buildListenerHosts_lhosts (o : Objs) (ord : List (String × TS)) :
    (buildListenerHosts o ord).lhosts = (Spec.lclaimsOf o.gc ord).foldl ostep [] := by
  unfold buildListenerHosts
  rw [fold_lstep_lhosts, lclaimsOf_eq]

/-! ### binding -/

/-- Every snapshot in the build carries exactly the port and addresses of the listener
that has its TransportServer's name and protocol (or none). -/
def Bound (gc : Option (List Listener)) (c : TSCfg) : Prop :=
  match gc.bind (fun ls => ls.find? (fun l => c.lname = l.name && c.proto = l.proto)) with
  | some l => c.port = l.port ∧ c.v4 = l.v4 ∧ c.v6 = l.v6
  | none => c.port = 0 ∧ c.v4 = "" ∧ c.v6 = ""

theorem tsCfgOf_lname (gc : Option (List Listener)) (t : TS) : (tsCfgOf gc t).lname = t.lname := by
  unfold tsCfgOf; split <;> rfl
theorem tsCfgOf_proto (gc : Option (List Listener)) (t : TS) : (tsCfgOf gc t).proto = t.proto := by
  unfold tsCfgOf; split <;> rfl

theorem tsCfgOf_bound (gc : Option (List Listener)) (t : TS) : Bound gc (tsCfgOf gc t) := by
  unfold Bound
  rw [tsCfgOf_lname, tsCfgOf_proto]
  have : (gc.bind fun ls => ls.find? fun l => t.lname = l.name && t.proto = l.proto) = listenerFor gc t := by
    unfold listenerFor; cases gc <;> rfl
  rw [this]
  unfold tsCfgOf
  cases h : listenerFor gc t <;> simp

def AllBound (gc : Option (List Listener)) (b : LBuild) : Prop :=
  ∀ k c, b.cfgs.get? k = some c → Bound gc c

theorem addWarning_allBound (gc) (b : LBuild) (k w : String) (h : AllBound gc b) : AllBound gc (b.addWarning k w) := by
  unfold LBuild.addWarning
  cases hg : b.cfgs.get? k with
  | none => exact h
  | some c =>
    intro k' c' hc'
    simp only at hc'
    rw [Map.get?_set] at hc'
    by_cases e : k' = k
    · simp [e] at hc'; subst hc'
      have := h k c hg
      unfold Bound at *; exact this
    · simp [e] at hc'; exact h k' c' hc'

theorem set_allBound (gc) (b : LBuild) (k : String) (c : TSCfg) (hc : Bound gc c) (h : AllBound gc b) :
    AllBound gc { b with cfgs := b.cfgs.set k c } := by
  intro k' c' hc'
  simp only at hc'
  rw [Map.get?_set] at hc'
  by_cases e : k' = k
  · simp [e] at hc'; subst hc'; exact hc
  · simp [e] at hc'; exact h k' c' hc'

theorem lhosts_allBound (gc) (b : LBuild) (m : Map (String × Meta)) (h : AllBound gc b) :
    AllBound gc { b with lhosts := m } := h

theorem lstep_allBound (gc) (b : LBuild) (kv : String × TS) (h : AllBound gc b) : AllBound gc (lstep gc b kv) := by
  unfold lstep
  by_cases hp : kv.2.proto = "TLS_PASSTHROUGH"
  · simp [hp]; exact h
  · simp only [hp, if_false]
    have h1 := set_allBound gc b (tsKey kv.2) _ (tsCfgOf_bound gc kv.2) h
    cases hl : listenerFor gc kv.2 with
    | none => exact h1
    | some l =>
      simp only
      split
      · exact h1
      · split
        · exact addWarning_allBound gc _ _ _ h1
        · exact addWarning_allBound gc _ _ _ h1

theorem buildListenerHosts_allBound (o : Objs) (ord : List (String × TS)) :
    AllBound o.gc (buildListenerHosts o ord) := by
  unfold buildListenerHosts
  have : ∀ (l : List (String × TS)) (b : LBuild), AllBound o.gc b → AllBound o.gc (l.foldl (lstep o.gc) b) := by
    intro l
    induction l with
    | nil => intro b hb; exact hb
    | cons a r ih => intro b hb; exact ih _ (lstep_allBound o.gc b a hb)
  exact this ord {} (by intro k c hc; simp [Map.get?] at hc)

end Nic.Arb
