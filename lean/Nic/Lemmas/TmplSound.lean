import Nic.Lemmas.Tmpl
import Nic.Props.C06
/-!
  Soundness of the template analysis.  `RenderTL t s cs` says that `cs` is a possible output of template `t` when
  rendering starts with the tokenizer in state `s`: every branch combination, any number of range iterations, and at
  every interpolation site any value admissible for the lexical context the site stands in (`HoleVal`) or, for
  fragment sites, any closed piece of configuration (`FragVal`).  `soundTL`: if the analysis maps a state set
  containing (the clipped) `s` to `ss'`, then reading `cs` from `s` produces no error and ends in a state of `ss'`.
-/
namespace Nic.Tmpl
open Nic.NgxLex Nic.Props.C06

/-! ### what may be written at an interpolation site -/

def HoleVal (s : St) (v : List Char) : Prop :=
  match s.mode with
  | .space => (s.nargs ≠ 0 ∧ v = []) ∨ TokenSafe v
  | .word => v = [] ∨ WordSafe v
  | .dq => QuoteSafe '"' v
  | .sq => QuoteSafe '\'' v
  | .need => v = []
  | .comment => '\n' ∉ v

def FragVal (s : St) (v : List Char) : Prop := ∃ evs, run s v = (s, evs) ∧ Ev.err ∉ evs

/-- `n` consecutive renderings by `P`, each starting where the previous one left the tokenizer -/
def Iter (P : St → List Char → Prop) : Nat → St → List Char → Prop
  | 0, _, cs => cs = []
  | n + 1, s, cs => ∃ a b, cs = a ++ b ∧ P s a ∧ Iter P n (run s a).1 b

mutual
def RenderT : T → St → List Char → Prop
  | .text str, _, cs => cs = str.toList
  | .hole false _, s, cs => HoleVal s cs
  | .hole true _, s, cs => FragVal s cs
  | .ite a b, s, cs => RenderTL a s cs ∨ RenderTL b s cs
  | .loop body els, s, cs => RenderTL els s cs ∨ ∃ n, Iter (fun s' cs' => RenderTL body s' cs') (n + 1) s cs
def RenderTL : TL → St → List Char → Prop
  | .nil, _, cs => cs = []
  | .cons t r, s, cs => ∃ a b, cs = a ++ b ∧ RenderT t s a ∧ RenderTL r (run s a).1 b
end

/-! ### state sets -/

theorem mem_addState (acc : List St) (s x : St) : x ∈ addState acc s ↔ x ∈ acc ∨ x = s := by
  unfold addState
  split
  · rename_i h
    constructor
    · intro hx; exact Or.inl hx
    · rintro (hx | rfl)
      · exact hx
      · simpa using h
  · simp [List.mem_append]

theorem mem_union (a b : List St) (x : St) : x ∈ union a b ↔ x ∈ a ∨ x ∈ b := by
  unfold union
  induction b generalizing a with
  | nil => simp
  | cons y ys ih =>
    simp only [List.foldl_cons, ih, mem_addState, List.mem_cons]
    constructor
    · rintro ((h | h) | h)
      · exact Or.inl h
      · exact Or.inr (Or.inl h)
      · exact Or.inr (Or.inr h)
    · rintro (h | h | h)
      · exact Or.inl (Or.inl h)
      · exact Or.inl (Or.inr h)
      · exact Or.inr h

theorem addState_length (acc : List St) (s : St) : acc.length ≤ (addState acc s).length := by
  unfold addState; split <;> simp

theorem addState_same_length (acc : List St) (s : St) (h : (addState acc s).length = acc.length) : s ∈ acc := by
  unfold addState at h
  split at h
  · rename_i hc; simpa using hc
  · simp at h

theorem union_length_le (a b : List St) : a.length ≤ (union a b).length := by
  unfold union
  induction b generalizing a with
  | nil => simp
  | cons y ys ih => simp only [List.foldl_cons]; exact Nat.le_trans (addState_length a y) (ih _)

/-- if adding `b` to `a` does not make it longer, `b` was already inside -/
theorem union_same_length (a b : List St) (h : (union a b).length = a.length) : ∀ x ∈ b, x ∈ a := by
  unfold union at h
  induction b generalizing a with
  | nil => intro x hx; cases hx
  | cons y ys ih =>
    simp only [List.foldl_cons] at h
    have h1 := addState_length a y
    have h2 := union_length_le (addState a y) ys
    unfold union at h2
    have e1 : (addState a y).length = a.length := by omega
    have hy := addState_same_length a y e1
    have e2 : (List.foldl addState (addState a y) ys).length = (addState a y).length := by omega
    intro x hx
    rcases List.mem_cons.mp hx with rfl | hx'
    · exact hy
    · have := ih (addState a y) e2 x hx'
      rcases (mem_addState a y x).mp this with h | rfl
      · exact h
      · exact hy

theorem mapStates_mem (f : St → Option (List St)) : ∀ (ss out : List St), mapStates f ss = some out →
    ∀ q ∈ ss, ∃ r, f q = some r ∧ ∀ x ∈ r, x ∈ out := by
  intro ss
  induction ss with
  | nil => intro out _ q hq; cases hq
  | cons s rest ih =>
    intro out h q hq
    simp only [mapStates] at h
    split at h
    · rename_i a b ha hb
      cases h
      rcases List.mem_cons.mp hq with rfl | hq'
      · exact ⟨a, ha, fun x hx => (mem_union a b x).mpr (Or.inl hx)⟩
      · obtain ⟨r, hr, hsub⟩ := ih b hb q hq'
        exact ⟨r, hr, fun x hx => (mem_union a b x).mpr (Or.inr (hsub x hx))⟩
    · cases h

/-! ### invariants of concrete states -/

def Good (s : St) : Prop := s.err = false ∧ Between s

theorem good_run (s : St) (cs : List Char) (hg : Good s) (he : (run s cs).1.err = false) : Good (run s cs).1 :=
  ⟨he, between_run cs s hg.2⟩

theorem run_comment (v : List Char) : ∀ s : St, s.mode = .comment → s.err = false → '\n' ∉ v → run s v = (s, []) := by
  induction v with
  | nil => intro s _ _ _; rfl
  | cons c cs ih =>
    intro s hm hr hn
    have hc : (c == '\n') = false := by
      have : c ≠ '\n' := fun e => hn (by simp [e])
      simpa using this
    have hs : step s c = (s, []) := by unfold step; simp [hm, hr, hc]
    rw [run_cons, hs]
    have := ih s hm hr (fun h => hn (List.mem_cons_of_mem _ h))
    simp [this]

/-- The states the analysis lists after a value site contain what any admissible value does. -/
theorem holeVal_sound (s : St) (v : List Char) (hg : Good s) (hv : HoleVal s v) (out : List St)
    (ho : holeStates false (clip s) = some out) :
    (run s v).1.err = false ∧ Ev.err ∉ (run s v).2 ∧ clip (run s v).1 ∈ out := by
  obtain ⟨hr, hb⟩ := hg
  obtain ⟨cm, ce, cv, cd, cr, cn⟩ := clip_fields s
  have hesc : s.esc = false := by
    unfold holeStates at ho
    rw [ce] at ho
    cases h : s.esc
    · rfl
    · simp [h] at ho
  unfold holeStates at ho
  simp only [ce, hesc, Bool.false_eq_true, if_false, cm] at ho
  unfold HoleVal at hv
  cases hm : s.mode <;> simp only [hm] at hv ho
  · -- space
    obtain ⟨hvar, _⟩ := hb (Or.inl hm)
    rcases hv with ⟨hn, rfl⟩ | hv
    · have hcn : ¬ (clip s).nargs = 0 := fun h => hn (cn.mp h)
      simp only [run_nil]
      have : ((clip s).nargs == 0) = false := by simpa using hcn
      simp only [this, Bool.false_eq_true, if_false, Option.some.injEq] at ho
      subst ho
      exact ⟨hr, by simp, by simp⟩
    · rw [token_hole_inert s v hm hesc hr hvar hv]
      refine ⟨hr, by simp, ?_⟩
      have hw : clip { s with mode := .word, var := false } = { clip s with mode := .word } := by
        unfold clip; cases s; simp_all
      rw [hw]
      by_cases hz : ((clip s).nargs == 0) = true
      · simp only [hz, if_true, Option.some.injEq] at ho
        subst ho; (cases s; simp_all [clip])
      · simp only [hz, Bool.false_eq_true, if_false, Option.some.injEq] at ho
        subst ho; (cases s; simp_all [clip])
  · -- word
    rcases hv with rfl | hv
    · simp only [run_nil]
      refine ⟨hr, by simp, ?_⟩
      by_cases hvv : (clip s).var = true
      · simp only [hvv, if_true, Option.some.injEq] at ho; subst ho; (cases s; simp_all [clip])
      · simp only [hvv, Bool.false_eq_true, if_false, Option.some.injEq] at ho; subst ho; (cases s; simp_all [clip])
    · rw [word_hole_inert s v hm hesc hr hv]
      refine ⟨hr, by simp, ?_⟩
      have hw : clip { s with var := false } = { clip s with var := false } := by unfold clip; cases s; simp
      rw [hw]
      by_cases hvv : (clip s).var = true
      · simp only [hvv, if_true, Option.some.injEq] at ho; subst ho; (cases s; simp_all [clip])
      · simp only [hvv, Bool.false_eq_true, if_false, Option.some.injEq] at ho; subst ho
        (cases s; simp_all [clip])
  · -- dq
    obtain ⟨b, hb'⟩ := quote_hole_inert '"' s v (Or.inl ⟨hm, rfl⟩) hesc hr hv
    rw [hb']
    refine ⟨hr, by simp, ?_⟩
    have hw : clip { s with var := b } = { clip s with var := b } := by unfold clip; cases s; simp
    rw [hw]
    simp only [Option.some.injEq] at ho; subst ho
    cases b
    · (cases s; simp_all [clip])
    · (cases s; simp_all [clip])
  · -- sq
    obtain ⟨b, hb'⟩ := quote_hole_inert '\'' s v (Or.inr ⟨hm, rfl⟩) hesc hr hv
    rw [hb']
    refine ⟨hr, by simp, ?_⟩
    have hw : clip { s with var := b } = { clip s with var := b } := by unfold clip; cases s; simp
    rw [hw]
    simp only [Option.some.injEq] at ho; subst ho
    cases b
    · (cases s; simp_all [clip])
    · (cases s; simp_all [clip])
  · -- need
    subst hv
    simp only [run_nil, Option.some.injEq] at ho ⊢
    subst ho
    exact ⟨hr, by simp, by simp⟩
  · -- comment
    rw [run_comment v s hm hr hv]
    simp only [Option.some.injEq] at ho; subst ho
    exact ⟨hr, by simp, by simp⟩

theorem fragVal_sound (s : St) (v : List Char) (hg : Good s) (hv : FragVal s v) (out : List St)
    (ho : holeStates true (clip s) = some out) :
    (run s v).1.err = false ∧ Ev.err ∉ (run s v).2 ∧ clip (run s v).1 ∈ out := by
  obtain ⟨evs, hrun, hne⟩ := hv
  rw [hrun]
  unfold holeStates at ho
  split at ho
  · cases ho
  · simp only [if_true] at ho
    split at ho
    · simp only [Option.some.injEq] at ho; subst ho
      exact ⟨hg.1, hne, by simp⟩
    · cases ho

/-! ### the analysis is sound -/

/-- what soundness means for one node (`R` = its possible outputs, `f` = what the analysis computes for it) -/
def Sound (R : St → List Char → Prop) (f : List St → Option (List St)) : Prop :=
  ∀ (s : St) (cs : List Char) (ss ss' : List St), Good s → clip s ∈ ss → f ss = some ss' → R s cs →
    (run s cs).1.err = false ∧ Ev.err ∉ (run s cs).2 ∧ clip (run s cs).1 ∈ ss'

theorem good_init : Good init := ⟨rfl, fun _ => ⟨rfl, rfl⟩⟩

/-- one or more iterations of a loop body whose analysis is closed on `X` -/
theorem iter_sound (R : St → List Char → Prop) (f : List St → Option (List St)) (hs : Sound R f)
    (X F : List St) (hrun : f X = some F) (hsub : ∀ x ∈ F, x ∈ X) :
    ∀ (n : Nat) (s : St) (cs : List Char), Good s → clip s ∈ X → Iter R (n + 1) s cs →
      (run s cs).1.err = false ∧ Ev.err ∉ (run s cs).2 ∧ clip (run s cs).1 ∈ F := by
  intro n
  induction n with
  | zero =>
    intro s cs hg hin hit
    obtain ⟨a, b, rfl, hP, hrest⟩ := hit
    simp only [Iter] at hrest
    subst hrest
    simpa using hs s a X F hg hin hrun hP
  | succ k ih =>
    intro s cs hg hin hit
    obtain ⟨a, b, rfl, hP, hrest⟩ := hit
    obtain ⟨e1, n1, m1⟩ := hs s a X F hg hin hrun hP
    have hg1 : Good (run s a).1 := good_run s a hg e1
    obtain ⟨e2, n2, m2⟩ := ih (run s a).1 b hg1 (hsub _ m1) hrest
    rw [run_append]
    exact ⟨e2, by simp [n1, n2], m2⟩

mutual
theorem soundT : ∀ t : T, Sound (RenderT t) (runT t)
  | .text str => by
    intro s cs ss ss' hg hin hf hR
    simp only [RenderT] at hR
    subst hR
    simp only [runT] at hf
    obtain ⟨r, hr, hsub⟩ := mapStates_mem _ ss ss' hf (clip s) hin
    cases hrt : runText (clip s) str.toList with
    | none => simp [hrt] at hr
    | some t =>
      simp only [hrt, Option.map_some, Option.some.injEq] at hr
      obtain ⟨a, b, c⟩ := runText_sound str.toList s t hg.1 hrt
      exact ⟨a, c, hsub _ (by rw [← hr, b]; simp)⟩
  | .hole false _ => by
    intro s cs ss ss' hg hin hf hR
    simp only [RenderT] at hR
    simp only [runT] at hf
    obtain ⟨r, hr, hsub⟩ := mapStates_mem _ ss ss' hf (clip s) hin
    obtain ⟨a, b, c⟩ := holeVal_sound s cs hg hR r hr
    exact ⟨a, b, hsub _ c⟩
  | .hole true _ => by
    intro s cs ss ss' hg hin hf hR
    simp only [RenderT] at hR
    simp only [runT] at hf
    obtain ⟨r, hr, hsub⟩ := mapStates_mem _ ss ss' hf (clip s) hin
    obtain ⟨a, b, c⟩ := fragVal_sound s cs hg hR r hr
    exact ⟨a, b, hsub _ c⟩
  | .ite a b => by
    intro s cs ss ss' hg hin hf hR
    simp only [RenderT] at hR
    simp only [runT] at hf
    split at hf
    · rename_i x y hx hy
      cases hf
      rcases hR with hR | hR
      · obtain ⟨e, n, m⟩ := soundTL a s cs ss x hg hin hx hR
        exact ⟨e, n, (mem_union x y _).mpr (Or.inl m)⟩
      · obtain ⟨e, n, m⟩ := soundTL b s cs ss y hg hin hy hR
        exact ⟨e, n, (mem_union x y _).mpr (Or.inr m)⟩
    · cases hf
  | .loop body els => by
    intro s cs ss ss' hg hin hf hR
    simp only [RenderT] at hR
    simp only [runT] at hf
    split at hf
    · rename_i z f0 hz hf0
      split at hf
      · cases hf
      · rename_i f1 hf1
        split at hf
        · cases hf
        · rename_i f2 hf2
          split at hf
          · cases hf
          · rename_i f3 hf3
            split at hf
            · rename_i hlen
              cases hf
              rcases hR with hR | ⟨n, hR⟩
              · obtain ⟨e, nn, m⟩ := soundTL els s cs ss z hg hin hz hR
                exact ⟨e, nn, (mem_union z f3 _).mpr (Or.inl m)⟩
              · have hlen' : (union (union (union (union ss f0) f1) f2) f3).length = (union (union (union ss f0) f1) f2).length := by
                  simpa using hlen
                have hsub := union_same_length _ _ hlen'
                have hin3 : clip s ∈ union (union (union ss f0) f1) f2 :=
                  (mem_union _ _ _).mpr (Or.inl ((mem_union _ _ _).mpr (Or.inl ((mem_union _ _ _).mpr (Or.inl hin)))))
                obtain ⟨e, nn, m⟩ := iter_sound _ _ (soundTL body) _ f3 hf3 hsub n s cs hg hin3 hR
                exact ⟨e, nn, (mem_union z f3 _).mpr (Or.inr m)⟩
            · cases hf
    · cases hf
theorem soundTL : ∀ t : TL, Sound (RenderTL t) (runTL t)
  | .nil => by
    intro s cs ss ss' hg hin hf hR
    simp only [RenderTL] at hR
    subst hR
    simp only [runTL, Option.some.injEq] at hf
    subst hf
    exact ⟨hg.1, by simp [run_nil], hin⟩
  | .cons t r => by
    intro s cs ss ss' hg hin hf hR
    simp only [RenderTL] at hR
    obtain ⟨a, b, rfl, hRa, hRb⟩ := hR
    simp only [runTL] at hf
    split at hf
    · cases hf
    · rename_i ss1 h1
      obtain ⟨e1, n1, m1⟩ := soundT t s a ss ss1 hg hin h1 hRa
      have hg1 : Good (run s a).1 := good_run s a hg e1
      obtain ⟨e2, n2, m2⟩ := soundTL r (run s a).1 b ss1 ss' hg1 m1 hf hRb
      rw [run_append]
      exact ⟨e2, by simp [n1, n2], m2⟩
end

/-- **The analysis is sound**: if it accepts a template, every file the template can produce — whatever the
resource, with admissible values at the interpolation sites — is lexically well formed. -/
theorem analysis_sound (t : TL) (h : wellFormedForAll t = true) (cs : List Char) (hr : RenderTL t init cs) :
    wellFormed cs = true := by
  unfold wellFormedForAll at h
  split at h
  · rename_i ss hss
    obtain ⟨e, _, m⟩ := soundTL t init cs [init] ss good_init (by simp [clip, init]) hss hr
    rw [List.all_eq_true] at h
    have hok := h _ m
    unfold wellFormed
    have hf := clip_fields (run init cs).1
    obtain ⟨h1, _, _, h4, h5, h6⟩ := hf
    unfold eofOk at hok ⊢
    simp only [Bool.and_eq_true, Bool.not_eq_true', Bool.or_eq_true, beq_iff_eq] at hok ⊢
    obtain ⟨⟨⟨e1, e2⟩, e3⟩, e4⟩ := hok
    refine ⟨⟨⟨e, ?_⟩, ?_⟩, ?_⟩
    · rw [← h1]; exact e2
    · exact h6.mp e3
    · rw [← h4]; exact e4
  · cases h

end Nic.Tmpl
