def hello := "world"
