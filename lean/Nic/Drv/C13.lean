import Nic.Proto
import Nic.Model.Verify
import Nic.Spec.Verify
namespace Nic.Drv.C13
open Nic.Proto Nic.Verify

def parsePoll (t : String) : Poll :=
  match splitOn t ":" with
  | ["b", h, c] => ⟨.body (unhex h.toList), nat c⟩
  | ["n", c] => ⟨.non200, nat c⟩
  | ["e", c] => ⟨.err, nat c⟩
  | _ => ⟨.err, 0⟩

def parseSched (s : String) : List Poll :=
  if s == "-" || s == "" then [] else (splitOn s ",").map parsePoll

def resStr : Res → String
  | .ok => "ok" | .fail => "fail"

def interval : Nat := 25

def runWait (fs : List String) : String × String :=
  let e := int (kv fs "exp"); let T := nat (kv fs "timeout"); let s := parseSched (kv fs "sched")
  let tr := waitT e T interval 0 0 (T + 1) s
  (s!"{resStr tr.res} polls={tr.polls} margin={tr.margin}",
   if Spec.specOk e T interval s then "ok" else "fail")

def runAtoi (fs : List String) : String × String :=
  match parseSched (kv fs "ans") with
  | [⟨.body s, _⟩] => match atoi s with
    | some v => (s!"some:{v}", "-")
    | none => ("none", "-")
  | _ => ("none", "-")

def runMgr (fs : List String) : String × String :=
  let T := nat (kv fs "timeout")
  let ops := splitOn (kv fs "ops") ";"
  let step := fun (acc : Mgr × List String × Nat × Bool) (op : String) =>
    let (m, out, mg, mono) := acc
    match splitOn op "/" with
    | ["r", b, sc] =>
      let (m', o) := reload T interval m (b == "1") (parseSched sc)
      (m', out ++ [s!"r:{resStr o.res}:{m'.ver}:{versionText o.file}:{versionText o.file}:{o.polls}"],
        min mg o.margin, mono && decide (m.ver < o.tag))
    | ["U", ws] | ["S", ws] =>
      let workers : List (Option Nat) := (splitOn ws "+").map fun w =>
        if w == "cur" then some m.ver else if w == "old" then none else some (nat w)
      let o := updateConn m workers
      (m, out ++ [s!"{(op.take 1).toString}:{resStr o.res}:{o.unconfirmed}:{if o.apiSeen then 1 else 0}"], mg, mono)
    | [k, w] =>
      let worker : Option Nat := if w == "err" then none else if w == "cur" then some m.ver else some (nat w)
      let o := update m worker
      (m, out ++ [s!"{k}:{resStr o.res}:{o.header}:{if o.apiCalled then 1 else 0}"], mg, mono)
    | _ => (m, out ++ ["bad-op"], mg, mono)
  let (_, out, mg, mono) := ops.foldl step (({} : Mgr), [], T + 1, true)
  (joinWith ";" out ++ s!" margin={mg}", if mono then "ok" else "fail")

def run (kind : String) (fs : List String) : Option (String × String) :=
  match kind with
  | "wait" => some (runWait fs)
  | "atoi" => some (runAtoi fs)
  | "mgr" => some (runMgr fs)
  | _ => none

end Nic.Drv.C13
