import Nic.Proto
import Nic.Model.NgxLex
/-! Driver for the NGINX tokenizer model: `lex <id> hex=<bytes>` prints the event list in the canonical form
of `verifio.NgxEventsString` (`depth:kind:hexarg,hexarg;...`). Bytes are carried as `Char`s below 256. -/
namespace Nic.Drv.Lex
open Nic.Proto Nic.NgxLex

def hexDigit (n : Nat) : Char := if n < 10 then Char.ofNat (48 + n) else Char.ofNat (87 + n)

def hexOf (s : String) : String :=
  String.ofList (s.toList.flatMap fun c => [hexDigit (c.toNat / 16 % 16), hexDigit (c.toNat % 16)])

def showEv : TEv → String
  | .dir d as => s!"{d}:dir:" ++ joinWith "," (as.map hexOf)
  | .opn d as => s!"{d}:open:" ++ joinWith "," (as.map hexOf)
  | .cls d => s!"{d}:close:"
  | .err d => s!"{d}:error:"

def run (kind : String) (fs : List String) : Option (String × String) :=
  if kind == "lex" then
    let bytes := unhex (kv fs "hex").toList
    let evs := tevents bytes
    let wf := if wellFormed bytes then "wf=1" else "wf=0"
    some (joinWith ";" (evs.map showEv) ++ "#" ++ wf, "-")
  else none

end Nic.Drv.Lex
