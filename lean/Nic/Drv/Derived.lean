import Nic.Proto
import Nic.Model.Derived
namespace Nic.Drv.Derived
open Nic.Proto Nic.Derived

def actStr : Action String → String
  | .create n _ => "C:" ++ n | .update n _ => "U:" ++ n | .delete n => "D:" ++ n

/-- essence of the desired Certificate for a VS line `secret,host,issuer,cn,dur,renew,usages,group,kind,temp,label,cm` -/
def desiredCert (s : String) : Option (String × String) :=
  match s.splitOn "," with
  | [secret, host, iss, cn, dur, ren, us, grp, kind, temp, lab, cm] =>
    if cm == "1" then some (secret, joinWith "|" [secret, host, iss, cn, dur, ren, us, grp, kind, temp, lab]) else none
  | _ => none

def runCert (fs : List String) : String × String :=
  let seq := splitOn (kv fs "seq") ";"
  let pre := kv fs "pre"
  let firstSecret := if kv fs "prename" != "" then kv fs "prename" else ((seq.head?.getD "").splitOn ",").head?.getD ""
  let c0 : Nic.Arb.Map (Obj String) :=
    if pre == "unowned" then [(firstSecret, ⟨.none, "foreign"⟩)]
    else if pre == "foreign" then [(firstSecret, ⟨.other, "foreign"⟩)]
    else if pre == "ownedstale" then [(if kv fs "prename" != "" then kv fs "prename" else "s0", ⟨.own, "stale"⟩)] else []
  let (_, outs) := seq.foldl (fun (acc : Nic.Arb.Map (Obj String) × List String) s =>
    let c := acc.1
    let d := desiredCert s
    let as := syncCert c d
    let c' := Nic.Derived.run c as
    let owned := (c'.filter fun kv => kv.2.owner = .own).map (·.1)
    (c', acc.2 ++ [s!"a={joinWith "+" (as.map actStr)}#owned={joinWith "+" owned}"])) (c0, [])
  (joinWith ";;" outs, "-")

/-- essence of the desired DNSEndpoint for `host,ttl,rtype,label,plabel,targets,enable` (none: disabled) -/
def desiredDns (s : String) : Option String :=
  match s.splitOn "," with
  | [host, ttl, rt, lab, plab, tg, en] =>
    -- an unset record type is derived from the targets (the generator only uses IPv4 targets: "A")
    if en == "1" then some (joinWith "|" [host, ttl, if rt == "_" then "A" else rt, lab, plab, tg]) else none
  | _ => none

def runDns (fs : List String) : String × String :=
  let seq := splitOn (kv fs "seq") ";"
  let pre := kv fs "pre"
  let c0 : Nic.Arb.Map (Obj String) :=
    if pre == "unowned" then [("vs", ⟨.none, "foreign"⟩)]
    else if pre == "foreign" then [("vs", ⟨.other, "foreign"⟩)] else []
  let (_, outs) := seq.foldl (fun (acc : Nic.Arb.Map (Obj String) × List String) s =>
    let c := acc.1
    let as := syncDns c "vs" (desiredDns s)
    let c' := Nic.Derived.run c as
    let owned := (c'.filter fun kv => kv.2.owner = .own).map (·.1)
    (c', acc.2 ++ [s!"a={joinWith "+" (as.map actStr)}#owned={joinWith "+" owned}"])) (c0, [])
  (joinWith ";;" outs, "-")

def run (kind : String) (fs : List String) : Option (String × String) :=
  if kind == "crt" then some (runCert fs) else if kind == "dns" then some (runDns fs) else none

end Nic.Drv.Derived
