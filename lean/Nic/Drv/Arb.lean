import Nic.Proto
import Nic.Model.Arb
import Nic.Model.Report
import Nic.Spec.Arb
/-! Driver for the arbitration model: parses the op encoding shared with the Go
harness (harness/internal/k8s/zz_verif_arb.go) and prints observations in the
same canonical form. -/
namespace Nic.Drv.Arb
open Nic.Proto Nic.Arb

def unq (s : String) : String := if s == "_" then "" else s

def uidNat (s : String) : Nat := nat (String.ofList (s.toList.filter Char.isDigit))

def mkMeta (ns name uid ts gen : String) (ann : String := "") : Meta :=
  { ns := ns, name := name, uid := uidNat uid, ts := nat ts, gen := nat gen, ann := ann }

def parseRules (s : String) : List (String × List String) :=
  (splitOn s "&").map fun r =>
    match r.splitOn ">" with
    | [h, ps] => (h, (splitOn ps "+").map fun p => if p == "E" then "" else p)      -- `E` = the empty path
    | [h] => (h, [])
    | _ => ("", [])

def parseListeners (s : String) : List Listener :=
  (splitOn s "&").filterMap fun l =>
    match l.splitOn ">" with
    | [n, p, pr, ssl, v4, v6] => some ⟨unq n, nat p, unq pr, ssl == "1", unq v4, unq v6⟩
    | _ => none

/-- Class designator → verdict of the class predicate (C16 re-derives this from the raw fields). -/
def clsIng (c : String) : Bool := c == "1" || c == "a"
def clsCr (c : String) : Bool := c == "1" || c == "n"

def okIp4 (s : String) : Bool :=
  match s.splitOn "." with
  | [a, b, c, d] => [a, b, c, d].all fun x =>
      !x.isEmpty && x.toList.all Char.isDigit && x.length ≤ 3 && nat x ≤ 255 && (x.length == 1 || !x.startsWith "0")
  | _ => false
def okIp6 (s : String) : Bool :=
  s.contains ':' && s.toList.all (fun c => c == ':' || c.isDigit || ('a' ≤ c && c ≤ 'f') || ('A' ≤ c && c ≤ 'F'))
def okIp (s : String) : Bool := okIp4 s || okIp6 s

/-- Indices (into the input) of the admitted listeners, matched greedily as a subsequence. -/
def idxOf (input out : List Listener) : List Nat :=
  let rec go (inp : List Listener) (i : Nat) (out : List Listener) : List Nat :=
    match out with
    | [] => []
    | o :: os =>
      match inp with
      | [] => []
      | x :: xs => if x = o then i :: go xs (i + 1) os else go xs (i + 1) (o :: os)
  go input 0 out

inductive POp where
  | op (o : Op)
  | gcRaw (ls : List Listener)
  | bad

def parseOp (s : String) : POp :=
  match s.splitOn "|" with
  | ["ing", ns, name, uid, ts, gen, ann, cls, valid, typ, chal, rules] =>
    let k := if typ == "M" then IngKind.master else if typ == "m" then IngKind.minion else IngKind.regular
    -- the class designators `a` / `b` put the deprecated class annotation on the object: it is part of the annotation map
    -- that IsEqual compares (the suffix after '#' is not printed by `snap`)
    let clsAnn := if cls == "a" then "#nginx" else if cls == "b" then "#other" else ""
    .op (.ing { md := mkMeta ns name uid ts gen (unq ann ++ clsAnn), kind := k, chal := chal == "1", rules := parseRules rules } (clsIng cls) (valid == "1"))
  | ["vs", ns, name, uid, ts, gen, cls, valid, host, routes, lh, ls] =>
    let rts := (splitOn routes "&").map fun r => match r.splitOn ">" with
      | [p, ref] => (p, unq ref) | _ => ("", "")
    let l := if lh == "-" && ls == "-" then none else some (unq lh, unq ls)
    .op (.vs { md := mkMeta ns name uid ts gen, host := host, routes := rts, listener := l } (clsCr cls) (valid == "1"))
  | ["vsr", ns, name, uid, ts, gen, cls, valid, host, subs] =>
    .op (.vsr { md := mkMeta ns name uid ts gen, host := host, subs := splitOn subs "+" } (clsCr cls) (valid == "1"))
  | ["ts", ns, name, uid, ts, gen, cls, valid, lname, proto, host] =>
    .op (.ts { md := mkMeta ns name uid ts gen, lname := lname, proto := proto, host := unq host } (clsCr cls) (valid == "1"))
  | ["gc", ls] => .gcRaw (parseListeners ls)
  | ["gc"] => .gcRaw []
  | ["del", "ing", k] => .op (.delIng k)
  | ["del", "vs", k] => .op (.delVs k)
  | ["del", "vsr", k] => .op (.delVsr k)
  | ["del", "ts", k] => .op (.delTs k)
  | ["delgc"] => .op .delGc
  | _ => .bad

def sortStr (l : List String) : List String := l.mergeSort (fun a b => decide (a ≤ b))

def codes (ws : List String) : String := joinWith "+" (sortStr ws)

def b01 (b : Bool) : String := if b then "1" else "0"

def boolMap (m : Map Bool) : String := joinWith "+" (m.map fun (k, v) => k ++ "=" ++ b01 v)

def snap : Res → String
  | .ing c =>
    let mins := c.minions.map fun m => s!"{m.md.key}@g{m.md.gen}u{m.md.uid}({boolMap m.validPaths})"
    let cw := c.childWarnings.filterMap fun (k, ws) => if ws.isEmpty then none else some s!"{k}({codes ws})"
    s!"Ingress/{c.md.key}\{g{c.md.gen}u{c.md.uid}!a{(c.md.ann.splitOn "#").headD ""}!M{b01 c.isMaster}!vh:{boolMap c.validHosts}!min:{joinWith "+" mins}!w:{codes c.warnings}!cw:{joinWith "+" cw}}"
  | .vs c =>
    let vsrs := c.vsrs.map fun v => s!"{v.key}@g{v.gen}u{v.uid}"
    s!"VirtualServer/{c.md.key}\{g{c.md.gen}u{c.md.uid}!h:{c.host}!vsr:{joinWith "+" vsrs}!p:{c.httpPort}/{c.httpsPort}!ip:{c.httpV4},{c.httpV6},{c.httpsV4},{c.httpsV6}!w:{codes c.warnings}}"
  | .ts c =>
    s!"TransportServer/{c.md.key}\{g{c.md.gen}u{c.md.uid}!h:{c.host}!l:{c.lname}!p:{c.port}!ip:{c.v4},{c.v6}!w:{codes c.warnings}}"

def obs (s : State) (cs : List Change) (ps : List Problem) : String :=
  let c := cs.map fun ch => s!"{if ch.op = .delete then "D" else "U"}~{snap ch.res}~e{b01 ch.err}"
  let p := sortStr (ps.map fun p => s!"{p.key}~{if p.isError then "E" else "W"}~{p.reason}~{p.msg.replace " " "_"}")
  let r := (resources s).map fun kv => snap kv.2
  s!"C={joinWith "," c}#P={joinWith "," p}#R={joinWith "," r}"

def goneOf (o : String) : String :=
  match o.splitOn "|" with
  | ["del", "ing", k] => "Ingress/" ++ k
  | ["del", "vs", k] => "VirtualServer/" ++ k
  | ["del", "vsr", k] => "VirtualServerRoute/" ++ k
  | ["del", "ts", k] => "TransportServer/" ++ k
  | _ => ""

def evStr (o : String) (cs : List Change) (ps : List Problem) : String :=
  "#EV=" ++ joinWith "," ((eventsOf (goneOf o) cs ps).map fun e =>
    s!"{e.key}~{e.typ}~{e.reason}~{(codes e.codes).replace " " "_"}")

def runArb (fs : List String) : String × String :=
  let cfg : Cfg := { passthrough := kv fs "pt" == "1", certManager := kv fs "cm" == "1" }
  let forb := (splitOn (kv fs "forb") "+").map nat
  let ops := splitOn (kv fs "ops") ";"
  let (_, outs, specs) := ops.foldl (fun (acc : State × List String × List String) (o : String) =>
    let (s, outs, specs) := acc
    match parseOp o with
    | .bad => (s, outs ++ ["bad-op"], specs ++ ["bad-op"])
    | .op op =>
      let (s', cs, ps) := step id s op
      (s', outs ++ [obs s' cs ps ++ evStr o cs ps], specs ++ [Spec.render s'.toObjs])
    | .gcRaw raw =>
      let a := admitAll forb okIp4 okIp6 raw
      let (s', cs, ps) := step id s (.gc a.out)
      (s', outs ++ [obs s' cs ps ++ evStr o cs ps ++ s!"#L={joinWith "+" ((idxOf raw a.out).map toString)}#E={b01 (!a.dropped.isEmpty)}"],
        specs ++ [Spec.render s'.toObjs ++ s!"#A={joinWith "+" ((idxOf raw (Spec.admitSpec forb okIp4 okIp6 raw)).map toString)}"])) (({ toObjs := { cfg := cfg } } : State), [], [])
  (joinWith ";;" outs, joinWith ";;" specs)

def run (kind : String) (fs : List String) : Option (String × String) :=
  match kind with
  | "arb" => some (runArb fs)
  | _ => none

end Nic.Drv.Arb
