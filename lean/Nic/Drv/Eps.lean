import Nic.Proto
import Nic.Model.Endpoints
namespace Nic.Drv.Eps
open Nic.Proto Nic.Eps

def unq (s : String) : String := if s == "_" then "" else s

def labels (s : String) : List (String × String) :=
  (splitOn (unq s) ",").filterMap fun kv => match kv.splitOn "=" with
    | [k, v] => some (k, v) | _ => none

def parseTp (s : String) : TargetPort :=
  if s == "-" then .unset
  else if s.startsWith "i" then .int (nat (s.drop 1).toString)
  else .named (s.drop 1).toString

def parseSvc (s : String) : Svc :=
  match s.splitOn "|" with
  | [name, ns, ext, sel, ports] =>
    { name := name, ns := ns, external := ext != "-", extName := if ext == "-" then "" else ext, selector := labels sel,
      ports := (splitOn ports "&").filterMap fun p => match p.splitOn ">" with
        | [n, pt, tp, pr] => some ⟨unq n, nat pt, parseTp tp, pr⟩ | _ => none }
  | _ => { name := "", ns := "", external := false, extName := "", selector := [], ports := [] }

def parseSlices (s : String) : List Slice :=
  (splitOn (unq s) "&").filterMap fun x => match x.splitOn ">" with
    | [svc, ns, ports, eps] =>
      some { svc := svc, ns := ns,
             ports := (splitOn ports "+").map fun p => if p == "nil" then none else some (nat p),
             eps := (splitOn eps "+").filterMap fun e => match e.splitOn "!" with
               | [a, r] => some ⟨splitOn a ",", if r == "t" then some true else if r == "f" then some false else none⟩
               | _ => none }
    | _ => none

def parsePods (s : String) : List Pod :=
  (splitOn (unq s) "&").filterMap fun x => match x.splitOn ">" with
    | [name, ip, ls, cps] =>
      some { name := name, ip := ip, labels := labels ls,
             cports := (splitOn ((unq cps).replace "~" "+") "+").filterMap fun c => match c.splitOn "/" with
               | [n, pr, num] => some (unq n, pr, nat num) | _ => none }
    | _ => none

def sortStr (l : List String) : List String := l.mergeSort (fun a b => decide (a ≤ b))

def errStr : Err → String
  | .noPort => "noPort" | .noSlices => "noSlices" | .noPods => "noPods"
  | .noNamedPort => "noNamedPort" | .externalOss => "externalOss" | .noService => "noService"

/-- the cluster of a `reseps` case: si:<state> (see harness/internal/k8s/zz_verif_eps.go VerifResEps) -/
def resCluster (s : String) : List (Svc × String) × List Slice :=
  (splitOn s "&").foldl (fun (acc : List (Svc × String) × List Slice) x =>
    match x.splitOn ":" with
    | [name, st] =>
      let i := nat (name.drop 1).toString
      let svc : Svc := { name := name, ns := "d", ports := [⟨"", 80, .int 8080, "TCP"⟩], selector := [], external := st == "x",
                         extName := if st == "x" then s!"ext{i}.example.com" else "" }
      let k := if st.startsWith "r" then nat (st.drop 1).toString else if st == "m" then 1 else 0
      let eps : List Ep := (List.range k).map (fun j => ⟨[s!"10.{i+1}.0.{j+1}"], some true⟩) ++ [⟨[s!"10.{i+1}.9.9"], some false⟩]
      let sl : List Slice := if st == "e" || st == "x" then [] else [{ svc := name, ns := "d", ports := [some 8080], eps := eps }]
      ((if st == "m" then acc.1 else acc.1 ++ [(svc, if st == "x" then "" else s!"10.96.0.{i+1}")]), acc.2 ++ sl)
    | _ => acc) ([], [])

def resBackends (kind s : String) : List Backend :=
  (splitOn s ",").flatMap fun b =>
    let b := if b.startsWith "D:" then (b.drop 2).toString else b
    if kind == "ing" then [⟨b, 80⟩] else (b.splitOn "+").map fun x => ⟨x, 80⟩

def runRes (fs : List String) : String :=
  let (svcs, sl) := resCluster (kv fs "svcs")
  let kind := kv fs "kind"
  let r := resolveAll (kv fs "plus" == "1") (kind == "ing" && kv fs "cip" == "1") sl svcs [] (resBackends kind (kv fs "be"))
  joinWith ";" ((List.range r.length).zip r |>.map fun (n, l) => s!"b{n}=" ++ joinWith "," (sortStr l))

def run (kind : String) (fs : List String) : Option (String × String) :=
  if kind == "reseps" then some (runRes fs, "-") else
  if kind != "eps" then none else
  let svc := parseSvc (kv fs "svc")
  let sl := parseSlices (kv fs "slices")
  let pods := parsePods (kv fs "pods")
  let r := if kv fs "sub" == "1" then
      endpointsForSubselector sl (nat (kv fs "bnum")) svc (labels (kv fs "subsel")) pods
    else endpointsForBackend (kv fs "plus" == "1") sl (unq (kv fs "bname")) (nat (kv fs "bnum")) svc pods
  some (match r with
    | .ok l => "ok " ++ joinWith "," (sortStr l)
    | .error e => "err " ++ errStr e, "-")

end Nic.Drv.Eps
