import Nic.Proto
import Nic.Model.Refs
namespace Nic.Drv.Refs
open Nic.Proto Nic.Refs

def sortStr (l : List String) : List String := l.mergeSort (fun a b => decide (a ≤ b))

def depStr : Dep → String
  | .secret ns n => s!"secret:{ns}/{n}"
  | .service ns n => s!"service:{ns}/{n}"
  | .policy ns n => s!"policy:{ns}/{n}"
  | .apPolicy k => s!"APPolicy:{k}"
  | .apLogConf k => s!"APLogConf:{k}"

def dedup (l : List String) : List String := l.foldl (fun acc x => if acc.contains x then acc else acc ++ [x]) []

/-- The fixture policy of the harness (`verifRefPolicy`) for a policy kind. -/
def fixturePolicy (ns name kind : String) : Policy :=
  match kind with
  | "jwt" => ⟨ns, name, ["jwk-" ++ name], "", []⟩
  | "basic" => ⟨ns, name, ["htp-" ++ name], "", []⟩
  | "imtls" => ⟨ns, name, ["ca-" ++ name], "", []⟩
  | "emtls" => ⟨ns, name, ["tls-" ++ name, "ca-" ++ name], "", []⟩
  | "oidc" => ⟨ns, name, ["oidc-" ++ name], "", []⟩
  | "apikey" => ⟨ns, name, ["api-" ++ name], "", []⟩
  | "waf" => ⟨ns, name, [], "ap-" ++ name, ["lc-" ++ name]⟩
  | "wafold" => ⟨ns, name, [], "ap-" ++ name, ["lc-" ++ name]⟩
  | "wafboth" => ⟨ns, name, [], "ap-" ++ name, ["lc-" ++ name, "lc2-" ++ name]⟩      -- the list wins over the deprecated field
  | _ => ⟨ns, name, [], "", []⟩

def run (kind : String) (fs : List String) : Option (String × String) :=
  if kind != "refs" then none else
  let k := kv fs "kind"; let pos := kv fs "pos"; let form := kv fs "form"
  let vsrns := if kv fs "vsrns" == "" then "d" else kv fs "vsrns"
  let pk := pos.splitOn "."
  let p0 := pk.head?.getD ""; let p1 := (pk.drop 1).head?.getD ""
  let polNs := if form == "qual" then "e" else (if p0 == "subroutepolicy" then vsrns else "d")
  let prefs : List PolRef := if form == "both" then [⟨"p1", ""⟩, ⟨"p1", "e"⟩] else [⟨"p1", if form == "qual" then "e" else ""⟩]
  let isPol := p0 == "specpolicy" || p0 == "routepolicy" || p0 == "subroutepolicy"
  let pols : List Policy := if isPol then [fixturePolicy polNs "p1" p1] ++ (if form == "both" then [fixturePolicy "e" "p1" p1] else []) else []
  let (deps, rev) : List Dep × (Dep → Bool) :=
    if k == "vs" || k == "vsr" then
      let u0 : Upstream :=
        if p0 == "upstream" then ⟨"svc-x", "", false⟩ else if p0 == "clusterip" then ⟨"svc-x", "", true⟩
        else if p0 == "backup" then ⟨"svc-main", "svc-b", false⟩ else ⟨"svc-main", "", false⟩
      let v : VS := { ns := "d", tlsSecret := (if p0 == "tls" then "tls-main" else ""), upstreams := [u0], specPolicies := (if p0 == "specpolicy" then prefs else []), routePolicies := [if p0 == "routepolicy" then prefs else []] ++ (if k == "vsr" then [[]] else []) }
      let rs : List VSR := if k == "vsr" then
          [{ ns := vsrns, upstreams := [if p0 == "vsrupstream" then ⟨"svc-y", "", false⟩ else if p0 == "vsrbackup" then ⟨"svc-route", "svc-rb", false⟩ else ⟨"svc-route", "", false⟩], subroutePolicies := [if p0 == "subroutepolicy" then prefs else []] }] else []
      (forwardVS pols v rs, reverseVS pols v rs)
    else if k == "ts" then
      let t : TS := { ns := "d", tlsSecret := (if p0 == "tls" then "tls-ts" else ""), upstreams := [if p0 == "upstream" then ⟨"svc-x", "", false⟩ else if p0 == "backup" then ⟨"svc-ts", "svc-b", false⟩ else ⟨"svc-ts", "", false⟩] }
      (forwardTS t, reverseTS t)
    else
      let q := fun (s : String) => if form == "qual" then "e/" ++ s else s
      let subject : Ing := { ns := "d", tlsSecrets := (if p0 == "tls" then ["tls-ing"] else []), services := (if p0 == "defaultbackend" then ["svc-def"] else []) ++ [if p0 == "backend" then "svc-x" else (if k == "ing" then "svc-i" else "svc-n")], jwtKey := (if p0 == "jwt" then "jwk-ing" else ""), basicAuth := (if p0 == "basic" then "htp-ing" else ""), apPolicy := (if p0 == "appolicy" then q "ap1" else ""), apLogConfs := (if p0 == "aplogconf" then [q "lc1"] else []) }
      if k == "ing" then (forwardIng subject [], reverseIng subject [])
      else
        let master : Ing := { ns := "d", tlsSecrets := [], services := [], jwtKey := "", basicAuth := "", apPolicy := "", apLogConfs := [] }
        -- App Protect annotations of a minion are not read (only the master's are)
        let m := { subject with apPolicy := "", apLogConfs := [], tlsSecrets := [] }
        (forwardIng master [m], reverseIng master [m])
  let isDos := (pos.splitOn "dos").length > 1
  let dosKey := "dos:" ++ (if form == "qual" then "e" else (if pos == "subroutedos" then vsrns else "d")) ++ "/prot"
  let cons := sortStr (dedup (deps.map depStr) ++ (if isDos then [dosKey] else []))
  let miss := sortStr (dedup ((deps.filter fun d => !(rev d)).map depStr))
  some (s!"consulted={joinWith "," cons}#missing={joinWith "," miss}", "-")

end Nic.Drv.Refs
