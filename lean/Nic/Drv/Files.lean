import Nic.Proto
import Nic.Model.Files
import Nic.Model.Secrets
namespace Nic.Drv.Files
open Nic.Proto

def unq (s : String) : String := if s == "_" then "" else s

def parseFilesOp (o : String) : Option Nic.Files.Op :=
  match o.splitOn "|" with
  | ["ai", ns, name, uid] => some (.addIng ns name (nat uid))
  | ["av", ns, name, uid] => some (.addVs ns name (nat uid))
  | ["at", ns, name, uid, host] => some (.addTs ns name (nat uid) (unq host))
  | ["di", k] => some (.delIng k)
  | ["dv", k] => some (.delVs k)
  | ["dt", k] => some (.delTs k)
  | ["bi", ks] => some (.batchIng (splitOn ks "+"))
  | ["bv", ks] => some (.batchVs (splitOn ks "+"))
  | ["bt", ks] => some (.batchTs (splitOn ks "+"))
  | ["rs"] => some .restart
  | _ => none

def listing (m : Nic.Arb.Map Nat) : String := joinWith "," (m.map fun (f, u) => s!"{f}.conf@{u}")

def runFiles (fs : List String) : String × String :=
  let ops := splitOn (kv fs "ops") ";"
  let (_, outs) := ops.foldl (fun (acc : Nic.Files.St × List String) o =>
    match parseFilesOp o with
    | none => (acc.1, acc.2 ++ ["bad-op"])
    | some op =>
      let s := Nic.Files.step acc.1 op
      let pt := match s.ptFile with
        | none => "nofile"
        | some m => joinWith "," (m.map fun (h, sock) => h ++ "=" ++ sock)
      (s, acc.2 ++ [s!"ok#conf={listing s.conf}#stream={listing s.stream}#pt={pt}"])) (({} : Nic.Files.St), [])
  (joinWith ";;" outs, "-")

def parseTyp (t : String) : Nic.Sec.Typ :=
  match t with
  | "tls" => .tls | "jwk" => .jwk | "htp" => .htp | "ca" => .ca | "oidc" => .oidc | "api" => .api | _ => .other

/-- Validity of a generated payload (what the real ValidateSecret says about it; cross-checked: the
harness prints the real verdict and the correspondence compares it). -/
def payloadValid (t payload : String) : Bool :=
  match t with
  | "tls" => payload == "ok"
  | "jwk" | "htp" | "oidc" => payload != "missing"
  | "ca" => payload == "ok"
  | "api" => payload != "dup"
  | _ => false

def runSec (fs : List String) : String × String :=
  let ops := splitOn (kv fs "ops") ";"
  let (_, outs) := ops.foldl (fun (acc : Nic.Sec.St × List String) o =>
    let (op, tag) : Option Nic.Sec.Op × String := match o.splitOn "|" with
      -- the optional 7th field is the object's metadata.uid: the store does not look at it (a re-created object is an update)
      | ["a", ns, name, t, payload, ver] | ["a", ns, name, t, payload, ver, _] =>
        let v := payloadValid t payload
        (some (.add (ns ++ "/" ++ name) (parseTyp t) (nat ver) v), if v then "valid" else "invalid")
      | ["d", k] => (some (.del k), "-")
      | ["g", k] => (some (.get k), "")
      | _ => (none, "bad-op")
    match op with
    | none => (acc.1, acc.2 ++ ["bad-op"])
    | some op =>
      let (s, g) := Nic.Sec.step acc.1 op
      let res := match g with
        | some g => (if g.hasPath then "path" else "nopath") ++ "+" ++ (if g.isError then "error" else "ok")
        | none => tag
      let files := s.dir.map fun (f, x) => s!"{f}={x.key}@{x.ver}{if x.part == "" then "" else ":" ++ x.part}!{x.mode}"
      (s, acc.2 ++ [res ++ "#" ++ joinWith "," files])) (({} : Nic.Sec.St), [])
  (joinWith ";;" outs, "-")

def run (kind : String) (fs : List String) : Option (String × String) :=
  match kind with
  | "files" => some (runFiles fs)
  | "sec" => some (runSec fs)
  | _ => none

end Nic.Drv.Files
