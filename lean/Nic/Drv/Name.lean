import Nic.Proto
import Nic.Model.Naming
/-! Driver for the identifier constructors: `nm <id> f=<function> a=<hex>,<hex>,...` -/
namespace Nic.Drv.Name
open Nic.Proto Nic.NamingModel

def arg (h : String) : String := String.ofList (unhex h.toList)

def run (kind : String) (fs : List String) : Option (String × String) :=
  if kind == "nm" then
    let as := (splitOn (kv fs "a") ",").map arg
    let r := match kv fs "f", as with
      | "vsup", [a, b, c] => vsUpstream a b c
      | "vsrup", [a, b, c, d, e] => vsrUpstream a b c d e
      | "tsup", [a, b, c] => tsUpstream a b c
      | "ingup", [a, b, c, d, e] => ingUpstream a b c d e
      | "rlzone", [a, b, c, d] => rlZone a b c d
      | "safe", [a, b] => safeNsName a b
      | _, _ => "bad-op"
    some (r, "-")
  else none

end Nic.Drv.Name
