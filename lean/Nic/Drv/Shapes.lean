import Nic.Proto
import Nic.Model.Shapes
namespace Nic.Drv.Shapes
open Nic.Proto Nic.Shapes

def backendOf (s : String) : Backend :=
  match s with
  | "B" => ⟨some ⟨"s", "", 80⟩, some "r"⟩
  | "R" => ⟨none, some "r"⟩
  | "N" => ⟨none, none⟩
  | "S1" => ⟨some ⟨"s", "p", 0⟩, none⟩
  | _ => ⟨some ⟨"s", "", 80⟩, none⟩

def ruleOf (s : String) : Rule :=
  if s == "n" then ⟨"h", none⟩
  else if s == "e" then ⟨"h", some []⟩
  else ⟨"h", some ((s.splitOn ".").map fun b => ⟨backendOf b⟩)⟩

def ingOf (s : String) : Ing :=
  let f := s.splitOn ";"
  let g := fun (i : Nat) => (f.drop i).head?.getD ""
  { challenge := g 0 == "c1",
    mtype := (if g 1 == "M" then .master else if g 1 == "m" then .minion else .regular),
    tls := nat ((g 2).drop 1).toString,
    defaultBackend := (if g 3 == "d-" then none else some (backendOf ((g 3).drop 1).toString)),
    rules := (if g 4 == "" then [] else (g 4).splitOn ",").map ruleOf }

def verdict (i : Ing) : String :=
  match validate i with
  | .error _ => "panic-in-validation"
  | .ok n =>
    if n > 0 then "rejected"
    else match generate i with
      | .error _ => (if i.admissible then "panic-in-generation" else "inadmissible")
      | .ok _ => "accepted"

def run (kind : String) (fs : List String) : Option (String × String) :=
  if kind != "crash" then none else
  let sh := kv fs "ishape"
  if sh == "" || sh == "_" then some ("-", "-") else
  some (joinWith "+" ((sh.splitOn "+").map fun s => verdict (ingOf s)), "-")

end Nic.Drv.Shapes
