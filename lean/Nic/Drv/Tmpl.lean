import Nic.Proto
import Nic.Model.Tmpl
import Nic.Gen.Templates
/-! Driver for the template analysis: `tmpl <id> name=<template>` prints `ok` if, for all environments, no lexical error is
reachable and the file ends closed (`wellFormedForAll`), else the first place where the analysis fails. Evaluated by compiled
code: the analysis is an executable model run on the regenerated template terms, not a kernel-checked theorem. -/
namespace Nic.Drv.Tmpl
open Nic.Proto Nic.Tmpl Nic.NgxLex

def showSt (s : St) : String := s!"{repr s.mode}/args{s.nargs}/depth{s.depth}"

def clean (s : String) : String :=
  String.ofList (s.toList.map fun c => if c == ' ' || c == '\n' || c == '\t' || c == '#' then '_' else c)

mutual
partial def dT (t : T) (ss : List St) : Except String (List St) :=
  match runT t ss with
  | some r => .ok r
  | none =>
    match t with
    | .text s => .error s!"text:{(s.take 50).toString}:from:{ss.map showSt}"
    | .hole f l => .error s!"hole(frag={f}):{l}:from:{ss.map showSt}"
    | .ite a b => match dTL a ss with
      | .error e => .error ("if>" ++ e)
      | .ok _ => match dTL b ss with
        | .error e => .error ("else>" ++ e)
        | .ok _ => .error "if?"
    | .loop body els => match dTL els ss with
      | .error e => .error ("range-else>" ++ e)
      | .ok _ => match dTL body ss with
        | .error e => .error ("range>" ++ e)
        | .ok f0 => match dTL body (union ss f0) with
          | .error e => .error ("range(2nd-iteration)>" ++ e)
          | .ok f1 => match dTL body (union (union ss f0) f1) with
            | .error e => .error ("range(3rd-iteration)>" ++ e)
            | .ok _ => .error s!"range-body-is-not-neutral:start:{ss.map showSt}:after-one:{f0.map showSt}"
partial def dTL (t : TL) (ss : List St) : Except String (List St) :=
  match t with
  | .nil => .ok ss
  | .cons x r => match dT x ss with
    | .error e => .error e
    | .ok ss' => dTL r ss'
end

/-! `tmplsites <id> name=<template>`: the hole-site table — for every value interpolation site of the template, the lexical
contexts (tokenizer modes) it can be reached in over all environments: `space` = between tokens (the value forms tokens of its own:
it has to be token-safe), `word` = inside an unquoted word, `dq` / `sq` = inside a quoted token, `comment`. Computed from the same
reachable-state sets as `wellFormedForAll`. -/

def closure (body : TL) (ss : List St) : List St :=
  match runTL body ss with
  | none => ss
  | some f0 =>
    let x1 := union ss f0
    match runTL body x1 with
    | none => x1
    | some f1 =>
      let x2 := union x1 f1
      match runTL body x2 with
      | none => x2
      | some f2 => union x2 f2

def modeName : Mode → String
  | .space => "space" | .word => "word" | .dq => "dq" | .sq => "sq" | .need => "need" | .comment => "comment"

mutual
partial def sitesT (t : T) (ss : List St) : List (String × String) :=
  match t with
  | .text _ => []
  | .hole frag l => ss.map fun s => ((if frag then "frag:" else "") ++ l, modeName s.mode)
  | .ite a b => sitesTL a ss ++ sitesTL b ss
  | .loop body els => sitesTL els ss ++ sitesTL body (closure body ss)
partial def sitesTL (t : TL) (ss : List St) : List (String × String) :=
  match t with
  | .nil => []
  | .cons x r => sitesT x ss ++ (match runT x ss with | some ss' => sitesTL r ss' | none => [])
end

def siteTable (t : TL) : String :=
  let raw := sitesTL t [init]
  let labels := (raw.map (·.1)).foldl (fun acc l => if acc.contains l then acc else acc ++ [l]) ([] : List String)
  let rows := labels.map fun l =>
    let ms := (raw.filter (·.1 == l)).map (·.2)
    let ms := ms.foldl (fun acc m => if acc.contains m then acc else acc ++ [m]) ([] : List String)
    clean l ++ "=" ++ joinWith "+" (ms.mergeSort (fun a b => decide (a ≤ b)))
  joinWith "," (rows.mergeSort (fun a b => decide (a ≤ b)))

def run (kind : String) (fs : List String) : Option (String × String) :=
  if kind == "tmplsites" then
    match Nic.Gen.Templates.table.find? (fun e => e.1 == kv fs "name") with
    | none => some ("no-template", "-")
    | some (_, t) => some (siteTable t, "-")
  else if kind == "tmpl" then
    let name := kv fs "name"
    match Nic.Gen.Templates.table.find? (fun e => e.1 == name) with
    | none => some ("no-template", "-")
    | some (_, t) =>
      if wellFormedForAll t then some ("ok", "-")
      else match dTL t [init] with
        | .error e => some ("FAIL:" ++ clean e, "-")
        | .ok ss => some ("FAIL:end-of-file-not-closed:" ++ clean (toString (ss.map showSt)), "-")
  else none

end Nic.Drv.Tmpl
