import Nic.Proto
import Nic.Model.AppProtect
import Nic.Spec.AppProtect
import Nic.Model.Dos
namespace Nic.Drv.AP
open Nic.Proto Nic.AP

def sortStr (l : List String) : List String := l.mergeSort (fun a b => decide (a ≤ b))
def b01 (b : Bool) : String := if b then "1" else "0"
def dash (s : String) : String := if s == "" then "-" else s

def stateStr (s : St) : String :=
  let sg := s.sigs.map fun (k, e) => s!"{k}:{b01 e.valid}:{dash e.err}"
  let pl := s.pols.map fun (k, e) => s!"{k}:{b01 e.valid}:{dash e.err}"
  let lg := s.logs.map fun (k, v) => s!"{k}:{b01 v}:{if v then "-" else "validation"}"
  s!"S={joinWith "," sg}#P={joinWith "," pl}#L={joinWith "," lg}"

def keys (l : List String) : String := joinWith "+" (sortStr l)
def probs (l : List (String × String)) : String := joinWith "+" (sortStr (l.map fun (k, m) => k ++ "~" ++ m))

def sigOut (o : SigOut) : String := s!"PD={keys o.polDel}#PA={keys o.polAdd}#US={keys o.userSigs}#PR={probs o.problems}"
def chOut (o : ChOut) : String := s!"CH={keys (o.changes.map fun (a, k) => a ++ k)}#PR={probs o.problems}"

def uidNat (s : String) : Nat := nat (String.ofList (s.toList.filter Char.isDigit))

def parseReqs (s : String) : List Req :=
  (splitOn s "+").filterMap fun r => match r.splitOn ":" with
    | [t, mn, mx] => some ⟨t, if mn == "-" then none else some (nat mn), if mx == "-" then none else some (nat mx)⟩
    | _ => none

/-- The Spec's view of the current objects. -/
def specStr (s : St) : String :=
  let sigs := s.sigs.map (·.2.sig)
  let sg := s.sigs.map fun (k, e) => s!"{k}:{b01 (Spec.sigUsable sigs e.sig)}"
  let pl := s.pols.map fun (k, e) => s!"{k}:{b01 (Spec.polUsable sigs e.pol)}"
  s!"S={joinWith "," sg}#P={joinWith "," pl}"

def runAP (fs : List String) : String × String :=
  let ops := splitOn (kv fs "ops") ";"
  let (_, outs, specs) := ops.foldl (fun (acc : St × List String × List String) o =>
    let (s, outs, specs) := acc
    let (s', out) : St × String := match o.splitOn "|" with
      | ["sig", ns, name, uid, ts, tag, rev, form] =>
        let x : Sig := { md := { ns := ns, name := name, uid := uidNat uid, ts := nat ts, gen := 0 },
                         tag := if tag == "_" then "" else tag, rev := if rev == "-" then none else some (nat rev),
                         wellFormed := form != "nosigs", tsOk := form != "badts" }
        let (s', o) := addSig s x; (s', sigOut o)
      | ["dsig", k] =>
        let (s', o) := delSig s k
        (s', match o with | some o => sigOut o | none => "PD=#PA=#US=#PR=")
      | ["pol", ns, name, form, reqs] =>
        let p : Pol := { key := ns ++ "/" ++ name, wellFormed := form != "nopolicy", tsOk := form != "badts" || (parseReqs reqs).isEmpty,
                         reqs := if form == "nopolicy" then [] else parseReqs reqs }
        let (s', o) := addPol s p; (s', chOut o)
      | ["dpol", k] => let (s', o) := delPol s k; (s', chOut o)
      | ["log", ns, name, form] => let (s', o) := addLog s (ns ++ "/" ++ name) (form == "ok"); (s', chOut o)
      | ["dlog", k] => let (s', o) := delLog s k; (s', chOut o)
      | ["get", kind, k] => (s, "G=" ++ b01 (usable s kind k))
      | _ => (s, "bad-op")
    (s', outs ++ [out ++ "#" ++ stateStr s'], specs ++ [specStr s'])) (({} : St), [], [])
  (joinWith ";;" outs, joinWith ";;" specs)

def unq (s : String) : String := if s == "_" then "" else s

def runDos (fs : List String) : String × String :=
  let ops := splitOn (kv fs "ops") ";"
  let fmt := fun (c p : List String) => s!"CH={keys c}#PR={keys p}"
  let (_, outs) := ops.foldl (fun (acc : Nic.Dos.St × List String) o =>
    let s := acc.1
    let (s', out) : Nic.Dos.St × String := match o.splitOn "|" with
      | ["pol", ns, name, f] => let (s', c, p) := Nic.Dos.addPol s (ns ++ "/" ++ name) (f == "ok"); (s', fmt c p)
      | ["log", ns, name, f] => let (s', c, p) := Nic.Dos.addLog s (ns ++ "/" ++ name) (f == "ok"); (s', fmt c p)
      | ["prot", ns, name, f, pr, lr] =>
        let (s', c, p) := Nic.Dos.addProt s ⟨ns, name, f == "ok", unq pr, unq lr⟩; (s', fmt c p)
      | ["dpol", k] => let (s', c, p) := Nic.Dos.delPol s k; (s', fmt c p)
      | ["dlog", k] => let (s', c, p) := Nic.Dos.delLog s k; (s', fmt c p)
      | ["dprot", k] => let (s', c, p) := Nic.Dos.delProt s k; (s', fmt c p)
      | ["get", pns, ref] =>
        (s, match Nic.Dos.getValid s pns ref with
          | some (a, b, c) => s!"G=1:{a}:{b}:{c}"
          | none => "G=0")
      | _ => (s, "bad-op")
    (s', acc.2 ++ [out])) (({} : Nic.Dos.St), [])
  (joinWith ";;" outs, "-")

def run (kind : String) (fs : List String) : Option (String × String) :=
  if kind == "ap" then some (runAP fs) else if kind == "dos" then some (runDos fs) else none

end Nic.Drv.AP
