import Nic.Proto
import Nic.Model.Reload
import Nic.Spec.Reload
namespace Nic.Drv.Reload
open Nic.Proto Nic.Reload

def idxSet (s : String) : Nat → Bool :=
  let l := (if s == "_" || s == "" then [] else s.splitOn "+").map nat
  fun n => l.contains n

def ids (s : String) : List String := if s == "_" || s == "" then [] else s.splitOn "+"

/-- upstreams an endpoints operation pushes for a fixture resource -/
def upsOf (id : String) : Nat := if id.startsWith "w" then 2 else 1

def mkRes (idl : List String) (facts : String) : List Res :=
  let cs := (if facts == "" then [] else facts.splitOn ".").map (· == "1")
  (idl.zip (cs ++ List.replicate idl.length false)).map fun p => ⟨p.2, upsOf p.1⟩

/-- Translate an operation of the harness (with the change bits observed for its resources) to the model's `Op`. -/
def toOp (dw : Bool) (op facts : String) : Option Op :=
  let f := op.splitOn "|"
  let a := fun (i : Nat) => (f.drop i).head?.getD ""
  match a 0 with
  | "en" => some .enable
  | "dis" => some .disable
  | "ai" | "am" | "at" => some (.always (mkRes [a 1] facts))
  | "av" => (mkRes [a 1] facts).head?.map fun r => .single r (dw && (a 1).startsWith "w")
  | "avs" => some (.always (mkRes (ids (a 1)) facts))
  | "di" | "dv" => (mkRes [a 1] facts).head?.map fun r => .delete r (a 2 == "1")
  | "dt" => some (.always (mkRes [a 1] facts))
  | "ei" | "em" | "ev" | "et" => some (.endpoints (mkRes (ids (a 1)) facts))
  | "ar" => some (.resources (mkRes (ids (a 1)) facts) (a 4 == "1"))
  | "uc" => some (.always (mkRes ("main" :: ids (a 1)) facts))
  | "uv" | "ut" => some (.always (mkRes (ids (a 1) ++ ids (a 2)) facts))
  | "bv" | "bi" => some (.always (mkRes (ids (a 1)) facts))
  | "br" => some (.batchReload (a 1 == "1"))
  | "sec" | "dsec" => some (.delete ⟨facts == "1", 0⟩ true)    -- a bare write, no reload
  | _ => none

def tok : Ev → Option String
  | .write _ _ => none
  | .reload ok => some (if ok then "r1" else "r0")
  | .api _ ok => some (if ok then "a1" else "a0")
  | .ret ok => some (if ok then "ret1" else "ret0")

def runModel (plus dw : Bool) (f : Faults) : CS → List (String × String) → List String
  | _, [] => []
  | cs, (op, facts) :: rest =>
    match toOp dw op facts with
    | none => ["bad-op"]
    | some o =>
      let out := exec plus f cs o
      joinWith "." (out.evs.filterMap tok) :: runModel plus dw f out.cs rest

def run (kind : String) (fs : List String) : Option (String × String) :=
  if kind == "rel" then
    let plus := kv fs "plus" == "1"
    let dw := kv fs "dw" == "1"
    let f : Faults := ⟨idxSet (kv fs "rf"), idxSet (kv fs "af")⟩
    let ops := (kv fs "ops").splitOn ";"
    let facts := (kv fs "facts").splitOn ";"
    let model := runModel plus dw f ⟨false, 0, 0⟩ (ops.zip (facts ++ List.replicate ops.length ""))
    let segs := ((kv fs "trace").splitOn ";;").map fun seg => (seg.splitOn ",").map Spec.Reload.parseEv
    let verdict := match Spec.Reload.checkOps {} (ops.zip segs) 0 with
      | some c => c
      | none => "ok"
    some (joinWith ";" model, verdict)
  else if kind == "lbc" then
    let evs := ((kv fs "trace").splitOn ",").flatMap fun s =>
      match Spec.Reload.parseEvs s with
      | [] => [Spec.Reload.parseEv s]
      | l => l
    let cs := Spec.Reload.checkTasks evs
    some ("-", if cs.isEmpty then "ok" else joinWith ";" cs)
  else none

end Nic.Drv.Reload
