import Nic.Proto
import Nic.Model.Policies
namespace Nic.Drv.Policies
open Nic.Proto Nic.Policies

def kindOf : String → Kind
  | "acl" => .acl | "rl" => .rl | "jwt" => .jwt | "basic" => .basic | "imtls" => .imtls
  | "emtls" => .emtls | "oidc" => .oidc | "apikey" => .apikey | _ => .waf

def depOf : String → Dep
  | "secret-missing" | "ap-missing" => .missing
  | "secret-invalid" => .invalid
  | "secret-wrongtype" => .wrongType
  | _ => .ok

def run (kind : String) (fs : List String) : Option (String × String) :=
  if kind == "fc" then
    let k := kindOf (kv fs "kind")
    let mode := kv fs "mode"
    let d1 : Dep := if mode.startsWith "secret-" || mode == "ap-missing" then depOf mode else .ok
    let d2 : Dep := if mode == "dep2-missing" then .missing else if mode == "dep2-wrongtype" then .wrongType
                    else if mode == "dep2-invalid" then .invalid else if mode == "aplog-missing" then .missing else .ok
    -- kinds without the dependency cannot fail that way: the harness leaves them usable
    let p : Pol := match k with
      | .acl | .rl => { kind := k, dep1 := .ok, dep2 := .ok }
      | .emtls => { kind := k, dep1 := d1, dep2 := d2 }
      | .waf => { kind := k, dep1 := d1, dep2 := d2,
                  extra := [if mode == "bundle-missing" then .missing else .ok, if mode == "logbundle-missing" then .missing else .ok] }
      | _ => { kind := k, dep1 := d1, dep2 := .ok }
    let table : String → Option Pol := fun r =>
      if r == "nb1" then some { kind := .rl, dep1 := .ok, dep2 := .ok } else if r == "nb2" then some { kind := .acl, dep1 := .ok, dep2 := .ok }
      else if r == "target" then (if mode == "policy-missing" then none else some p) else none
    let nb := kv fs "nb"
    let refs := (if nb == "before" || nb == "both" then ["nb1"] else []) ++ ["target"] ++ (if nb == "after" || nb == "both" then ["nb2"] else [])
    let scope := kv fs "scope"
    let ctx : Ctx := if scope == "spec" then .spec else if scope == "route" then .route else .subroute
    let err := errorReturn ctx true table refs []
    some (s!"srv={if scope == "spec" && err then 1 else 0}#loc={if scope != "spec" && err then 1 else 0}", "-")
  else if kind == "fctls" then
    let s := sslConfig (depOf (kv fs "mode")) "/etc/nginx/secrets/d-tls"
    let auth := kv fs "auth"
    let a := ingressAuthConfigured (auth != "none" && kv fs "res" != "vs") (depOf (kv fs "amode"))
    some (s!"reject={if s.reject then 1 else 0}#cert={s.certificate.getD "-"}#auth={if a then 1 else 0}", "-")
  else none

end Nic.Drv.Policies
