import Nic.Proto
import Nic.Model.Class
namespace Nic.Drv.Cls
open Nic.Proto Nic.Class

def opt (s : String) : Option String := if s == "-" then none else if s == "_" then some "" else some s

def clsVal (c : String) : Option String :=
  if c == "1" then some "nginx" else if c == "0" then some "other" else some ""

def run (kind : String) (fs : List String) : Option (String × String) :=
  if kind == "polst" then
    let st := if kv fs "stored" == "-" then none else clsVal (kv fs "stored")
    some (if policyStatusWrite "nginx" st then "write" else "none", "-")
  else
  if kind != "cls" then none else
  let k := match kv fs "kind" with
    | "ing" => Kind.ingress | "vs" => .vs | "vsr" => .vsr | "ts" => .ts | "pol" => .policy | _ => .other
  let r := hasCorrectClass "nginx" k (opt (kv fs "ann")) (opt (kv fs "field"))
  some (if r then "1" else "0", "-")

end Nic.Drv.Cls
