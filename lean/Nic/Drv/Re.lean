import Nic.Proto
import Nic.Model.Regex
import Nic.Gen.Regexes
/-! Driver for the regex matcher: `re <id> name=<generated regex name> s=<hex utf-8>` prints 1 / 0 — the derivative
matcher run on the term regenerated from /repo's source, compared with Go's regexp on the same pattern and string. -/
namespace Nic.Drv.Re
open Nic.Proto Nic.Regex

/-- hex of UTF-8 -> String -/
def unhexUtf8 (h : String) : String :=
  let bytes := (unhex h.toList).map fun c => c.toNat.toUInt8
  match String.fromUTF8? ⟨bytes.toArray⟩ with
  | some s => s
  | none => ""

def run (kind : String) (fs : List String) : Option (String × String) :=
  if kind == "re" then
    let name := kv fs "name"
    match Nic.Gen.Regexes.table.find? (fun e => e.1 == name) with
    | none => some ("no-regex", "-")
    | some (_, r) => some (if matchB r (unhexUtf8 (kv fs "s")).toList then "1" else "0", "-")
  else none

end Nic.Drv.Re
