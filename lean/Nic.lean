import Nic.Proto
