-- This module serves as the root of the `Nic` library.
-- Import modules here that should be built as part of the library.
import Nic.Basic
