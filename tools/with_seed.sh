#!/bin/bash
# usage: with_seed.sh <patch.diff> <command...> : apply a seeded change to /repo, run the command, always undo.
set -u
P=$1; shift
if [ -n "$(git -C /repo status --porcelain)" ]; then echo "/repo is dirty; refusing"; exit 2; fi
git -C /repo apply "$P" 2>/dev/null || git -C /repo apply --3way "$P" || { echo "patch does not apply"; git -C /repo reset -q --hard HEAD; exit 3; }
"$@"; rc=$?
git -C /repo reset -q --hard HEAD
exit $rc
