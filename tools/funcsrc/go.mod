module verif/funcsrc

go 1.23
