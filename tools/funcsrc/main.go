// Command funcsrc prints, for each requested "file:Func" (Func may be Recv.Method), the sha256 of the function's source as
// re-printed by go/printer (comments dropped), so that a model written from that function can tell when the function changed.
package main

import (
	"crypto/sha256"
	"encoding/hex"
	"encoding/json"
	"go/ast"
	"go/parser"
	"go/printer"
	"go/token"
	"os"
	"strings"
)

func main() {
	root := os.Args[1]
	out := map[string]string{}
	for _, spec := range os.Args[2:] {
		p := strings.SplitN(spec, ":", 2)
		fset := token.NewFileSet()
		f, err := parser.ParseFile(fset, root+"/"+p[0], nil, 0)
		if err != nil {
			out[spec] = "parse-error"
			continue
		}
		out[spec] = "missing"
		for _, d := range f.Decls {
			fd, ok := d.(*ast.FuncDecl)
			if !ok {
				continue
			}
			name := fd.Name.Name
			if fd.Recv != nil && len(fd.Recv.List) > 0 {
				var b strings.Builder
				_ = printer.Fprint(&b, fset, fd.Recv.List[0].Type)
				name = strings.TrimPrefix(b.String(), "*") + "." + name
			}
			if name == p[1] {
				var b strings.Builder
				_ = printer.Fprint(&b, fset, fd)
				h := sha256.Sum256([]byte(b.String()))
				out[spec] = hex.EncodeToString(h[:8])
			}
		}
	}
	enc := json.NewEncoder(os.Stdout)
	enc.SetIndent("", " ")
	_ = enc.Encode(out)
}
