#!/usr/bin/env python3
"""usage: tools/seedrows.py <seed id>... : print DESIGN.md §15 rows for seeded changes from their meta.json."""
import json, sys, os
V = os.path.dirname(os.path.dirname(os.path.abspath(__file__)))
for sid in sys.argv[1:]:
    m = json.load(open(os.path.join(V, "seeded", sid, "meta.json")))
    clean = lambda t: " ".join(str(t).replace("|", "/").split())
    print("| %s | %s | %s | %s check (quick tier); see §16b |" % (sid, clean(m["summary"]), clean(m["needs"]), m["property"]))
