#!/bin/bash
# usage: confirm_seed2.sh <worktree> <seed id, e.g. C07-3>   (the worktree holds _seed/{patch.diff,meta.json,<demo>_test.go})
# Confirms in the scratch worktree: demo passes on the clean tree, fails with the patch, the existing tests pass with the patch;
# then stores the seed under /verif/seeded/<id>/.
set -u
WT=$1; ID=$2
export GOFLAGS=-mod=mod GOPROXY=off
cd $WT || exit 2
S=$WT/_seed
meta=$S/meta.json
demo_dir=$(python3 -c "import json;print(json.load(open('$meta'))['demo_dir'])")
demo_run=$(python3 -c "import json;print(json.load(open('$meta'))['demo_run'])" | sed "s#/tmp/seedwt-s[0-9]*#$WT#g")
LOG=$S/confirm.log; : > $LOG
git checkout -q -- . 
demos=$(ls $S | grep -E '_test\.go$')
for f in $demos; do cp $S/$f $WT/$demo_dir/; done
echo "## demo on clean tree: $demo_run" >> $LOG
( cd $WT && eval "$demo_run" ) >> $LOG 2>&1; clean_rc=$?
git apply $S/patch.diff || { echo "patch does not apply" | tee -a $LOG; exit 3; }
echo "## demo with patch" >> $LOG
( cd $WT && eval "$demo_run" ) >> $LOG 2>&1; patched_rc=$?
for f in $demos; do rm -f $WT/$demo_dir/$f; done
echo "## existing tests with patch" >> $LOG
go test -vet=off -count=1 ./internal/... ./pkg/... ./cmd/... >> $LOG 2>&1; suite_rc=$?
echo "clean_rc=$clean_rc patched_rc=$patched_rc suite_rc=$suite_rc" | tee -a $LOG
if [ $clean_rc -eq 0 ] && [ $patched_rc -ne 0 ] && [ $suite_rc -eq 0 ]; then
  D=/verif/seeded/$ID; mkdir -p $D
  cp $S/patch.diff $D/; for f in $demos; do cp $S/$f $D/; done
  python3 - <<PY
import json
m=json.load(open('$meta'))
m['confirmed']={'demo_on_clean_tree':'pass','demo_with_patch':'fail','existing_tests_with_patch':'pass (go test ./internal/... ./pkg/... ./cmd/...)','how':'tools/confirm_seed2.sh in scratch worktree $WT at /repo HEAD'}
json.dump(m,open('$D/meta.json','w'),indent=1)
PY
  tail -4 $LOG > $D/confirm.txt
  echo CONFIRMED $ID
else
  echo REJECTED $ID; tail -30 $LOG
fi
