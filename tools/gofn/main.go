// Command gofn translates a reviewed list of small, side-effect-free Go functions of /repo into Lean 4 definitions
// (lean/Nic/Gen/Fns.lean), so that theorems are stated about what the source says now rather than about a hand-written copy.
//
//	gofn <repo root> <spec.json>      spec: [{"file": "internal/k8s/configuration.go", "ns": "K8s", "funcs": ["f", "Recv.m"], "structs": ["T"]}]
//
// The translation is syntactic (go/parser only) and deliberately small. Supported: parameters and results of type string, bool, int,
// map[string]string, pointers / values of the twinned API types (Nic/Model/GoTypes.lean) and of package-local structs listed under
// "structs"; statements: return, if / else (without init), short variable declaration, var declaration, assignment to a local,
// type switch with a binding, calls to logging packages (dropped); expressions: field selection (promoted ObjectMeta fields are made
// explicit), == != && || ! < > <= >= +, string and integer literals, package-level string constants, index into a string map,
// fmt.Sprintf with %s %v %d %%, strings.Replace(…, -1) / ReplaceAll / Contains / HasPrefix / HasSuffix, reflect.DeepEqual, nil
// comparisons and dereference of optional fields, calls to other translated functions, method calls on twinned types (Time.Equal,
// Time.Before), composite literals of listed structs. Anything else makes the translator fail with the position of the construct:
// a function that grows out of the subset is a broken tie, reported as such, never silently approximated.
package main

import (
	"encoding/json"
	"fmt"
	"go/ast"
	"go/parser"
	"go/token"
	"os"
	"path/filepath"
	"sort"
	"strconv"
	"strings"
)

type fileSpec struct {
	File    string   `json:"file"`
	NS      string   `json:"ns"`
	Funcs   []string `json:"funcs"` // "f", "Recv.m", or "dispatch:Iface.m" (emit the dynamic dispatch of method m over the implementers)
	Structs []string `json:"structs"`
	// interface name -> implementing struct types (all listed under structs): the interface becomes a Lean sum type
	Interfaces map[string][]string `json:"interfaces"`
}

type failure struct{ msg string }

func failf(fset *token.FileSet, n ast.Node, format string, a ...interface{}) {
	pos := ""
	if n != nil {
		pos = fset.Position(n.Pos()).String() + ": "
	}
	panic(failure{pos + fmt.Sprintf(format, a...)})
}

var leanKeywords = map[string]bool{"exists": true, "class": true, "instance": true, "structure": true, "end": true, "from": true, "at": true, "do": true,
	"then": true, "match": true, "with": true, "fun": true, "let": true, "in": true, "namespace": true, "open": true, "section": true,
	"variable": true, "universe": true, "theorem": true, "def": true, "meta": true, "have": true, "show": true, "by": true, "if": true,
	"else": true, "where": true, "deriving": true, "mutual": true, "import": true, "export": true, "prefix": true, "infix": true,
	"notation": true, "macro": true, "syntax": true, "example": true, "axiom": true, "inductive": true, "private": true, "protected": true,
	"partial": true, "unsafe": true, "return": true, "for": true, "unless": true, "try": true, "catch": true, "finally": true, "mut": true,
	"Type": true, "Prop": true, "Sort": true, "abbrev": true, "local": true, "scoped": true, "attribute": true, "set_option": true, "using": true,
	"extends": true, "true": false, "false": false, "nomatch": true, "nofun": true, "calc": true, "obtain": true, "suffices": true, "initialize": true}

func id(s string) string {
	if leanKeywords[s] {
		return s + "_"
	}
	return s
}

// API types that have a hand-written twin in Nic/Model/GoTypes.lean, and which of them embed ObjectMeta.
var twinned = map[string]bool{"ObjectMeta": true, "Ingress": true, "VirtualServer": true, "VirtualServerRoute": true, "TransportServer": true,
	"Policy": true, "Time": true, "LoadBalancerController": true, "IngressBackend": true, "Action": true, "Secret": true, "ConfigurationProblem": true}
// package-level helpers that are not translated but stand for a twin definition (their bodies are loops over Go maps)
var standIn = map[string]string{"getSortedProblemKeys": "Go.sortedKeys"}
var embedsMeta = map[string]bool{"Ingress": true, "VirtualServer": true, "VirtualServerRoute": true, "TransportServer": true, "Policy": true, "Secret": true}
var metaFields = map[string]bool{"Namespace": true, "Name": true, "UID": true, "Generation": true, "CreationTimestamp": true, "Annotations": true, "Labels": true}
var logPkgs = map[string]bool{"nl": true, "glog": true, "log": true, "klog": true}

type tr struct {
	fset    *token.FileSet
	consts  map[string]string // package-level string constants
	funcs   map[string]string // translated function name (Go, possibly Recv.m) -> Lean name
	structs map[string]bool   // package-local structs that are translated
	env     map[string]string // local variable -> Lean type ("" if unknown)
	recvOf  map[string]string // method name -> receiver type for translated methods (to resolve x.m(...))
	ifaces  map[string][]string // package-local interface -> the struct types that implement it (from the spec)
}

func (t *tr) leanType(e ast.Expr) string {
	switch x := e.(type) {
	case *ast.Ident:
		switch x.Name {
		case "string":
			return "String"
		case "bool":
			return "Bool"
		case "int", "int32", "int64":
			return "Int"
		}
		if t.structs[x.Name] || twinned[x.Name] {
			return x.Name
		}
	case *ast.StarExpr:
		return t.leanType(x.X)
	case *ast.SelectorExpr:
		if twinned[x.Sel.Name] {
			return x.Sel.Name
		}
	case *ast.ArrayType:
		if x.Len == nil {
			return "(List " + t.leanType(x.Elt) + ")"
		}
	case *ast.MapType:
		if k, ok := x.Key.(*ast.Ident); ok && k.Name == "string" {
			if v, ok := x.Value.(*ast.Ident); ok && v.Name == "string" {
				return "StrMap"
			}
			// any other map with string keys: an association list (the twins keep it sorted by key, so that == is map equality)
			return "(List (String × " + t.leanType(x.Value) + "))"
		}
	case *ast.InterfaceType:
		if x.Methods == nil || len(x.Methods.List) == 0 {
			return "Obj"
		}
	}
	if id, ok := e.(*ast.Ident); ok && t.ifaces[id.Name] != nil {
		return id.Name
	}
	failf(t.fset, e, "unsupported type")
	return ""
}

func leanString(s string) string {
	var b strings.Builder
	b.WriteByte('"')
	for _, r := range s {
		switch {
		case r == '"':
			b.WriteString("\\\"")
		case r == '\\':
			b.WriteString("\\\\")
		case r == '\n':
			b.WriteString("\\n")
		case r == '\t':
			b.WriteString("\\t")
		case r < 0x20 || r == 0x7f:
			fmt.Fprintf(&b, "\\x%02x", r)
		default:
			b.WriteRune(r)
		}
	}
	b.WriteByte('"')
	return b.String()
}

func (t *tr) typeOfExpr(e ast.Expr) string {
	if i, ok := e.(*ast.Ident); ok {
		return t.env[i.Name]
	}
	if u, ok := e.(*ast.UnaryExpr); ok && u.Op == token.AND {
		return t.typeOfExpr(u.X)
	}
	if p, ok := e.(*ast.ParenExpr); ok {
		return t.typeOfExpr(p.X)
	}
	return ""
}

func (t *tr) sprintf(call *ast.CallExpr) string {
	if len(call.Args) == 0 {
		failf(t.fset, call, "Sprintf without format")
	}
	lit, ok := call.Args[0].(*ast.BasicLit)
	if !ok || lit.Kind != token.STRING {
		failf(t.fset, call, "Sprintf with a non-literal format")
	}
	format, err := strconv.Unquote(lit.Value)
	if err != nil {
		failf(t.fset, call, "bad format literal")
	}
	args := call.Args[1:]
	var parts []string
	var cur strings.Builder
	flush := func() {
		if cur.Len() > 0 {
			parts = append(parts, leanString(cur.String()))
			cur.Reset()
		}
	}
	ai := 0
	rs := []rune(format)
	for i := 0; i < len(rs); i++ {
		if rs[i] != '%' {
			cur.WriteRune(rs[i])
			continue
		}
		i++
		if i >= len(rs) {
			failf(t.fset, call, "dangling %% in format")
		}
		switch rs[i] {
		case '%':
			cur.WriteRune('%')
		case 's', 'v', 'd':
			if ai >= len(args) {
				failf(t.fset, call, "too few Sprintf arguments")
			}
			flush()
			parts = append(parts, "Go.fmt "+t.expr(args[ai]))
			ai++
		default:
			failf(t.fset, call, "unsupported verb %%%c", rs[i])
		}
	}
	flush()
	if ai != len(args) {
		failf(t.fset, call, "too many Sprintf arguments")
	}
	if len(parts) == 0 {
		return "\"\""
	}
	return "(" + strings.Join(parts, " ++ ") + ")"
}

func isNil(e ast.Expr) bool {
	i, ok := e.(*ast.Ident)
	return ok && i.Name == "nil"
}

func (t *tr) expr(e ast.Expr) string {
	switch x := e.(type) {
	case *ast.ParenExpr:
		return t.expr(x.X)
	case *ast.BasicLit:
		switch x.Kind {
		case token.STRING:
			s, err := strconv.Unquote(x.Value)
			if err != nil {
				failf(t.fset, x, "bad string literal")
			}
			return leanString(s)
		case token.INT:
			return "(" + x.Value + " : Int)"
		}
		failf(t.fset, x, "unsupported literal")
	case *ast.Ident:
		switch x.Name {
		case "true", "false":
			return x.Name
		}
		if _, ok := t.env[x.Name]; ok {
			return id(x.Name)
		}
		if c, ok := t.consts[x.Name]; ok {
			return leanString(c)
		}
		failf(t.fset, x, "unknown identifier %s", x.Name)
	case *ast.SelectorExpr:
		base := t.expr(x.X)
		if embedsMeta[t.typeOfExpr(x.X)] && metaFields[x.Sel.Name] {
			return base + ".ObjectMeta." + x.Sel.Name
		}
		return base + "." + id(x.Sel.Name)
	case *ast.StarExpr:
		return "(Go.deref " + t.expr(x.X) + ")"
	case *ast.UnaryExpr:
		switch x.Op {
		case token.NOT:
			return "(!" + t.expr(x.X) + ")"
		case token.AND:
			if cl, ok := x.X.(*ast.CompositeLit); ok {
				return t.composite(cl)
			}
			return t.expr(x.X)
		case token.SUB:
			return "(-" + t.expr(x.X) + ")"
		}
		failf(t.fset, x, "unsupported unary operator %s", x.Op)
	case *ast.BinaryExpr:
		if x.Op == token.NEQ && isNil(x.Y) {
			return "(Go.notNil " + t.expr(x.X) + ")"
		}
		if x.Op == token.EQL && isNil(x.Y) {
			return "(!Go.notNil " + t.expr(x.X) + ")"
		}
		a, b := t.expr(x.X), t.expr(x.Y)
		switch x.Op {
		case token.EQL:
			return "(" + a + " == " + b + ")"
		case token.NEQ:
			return "(" + a + " != " + b + ")"
		case token.LAND:
			return "(" + a + " && " + b + ")"
		case token.LOR:
			return "(" + a + " || " + b + ")"
		case token.LSS:
			return "(decide (" + a + " < " + b + "))"
		case token.GTR:
			return "(decide (" + a + " > " + b + "))"
		case token.LEQ:
			return "(decide (" + a + " ≤ " + b + "))"
		case token.GEQ:
			return "(decide (" + a + " ≥ " + b + "))"
		case token.ADD:
			return "(Go.add " + a + " " + b + ")"
		}
		failf(t.fset, x, "unsupported binary operator %s", x.Op)
	case *ast.IndexExpr:
		return "(Go.idx " + t.expr(x.X) + " " + t.expr(x.Index) + ")"
	case *ast.CompositeLit:
		return t.composite(x)
	case *ast.CallExpr:
		return t.call(x)
	}
	failf(t.fset, e, "unsupported expression %T", e)
	return ""
}

func (t *tr) composite(cl *ast.CompositeLit) string {
	name := ""
	if i, ok := cl.Type.(*ast.Ident); ok {
		name = i.Name
	}
	if !t.structs[name] {
		failf(t.fset, cl, "composite literal of a type that is not translated")
	}
	var fs []string
	for _, el := range cl.Elts {
		kv, ok := el.(*ast.KeyValueExpr)
		if !ok {
			failf(t.fset, el, "positional composite literal")
		}
		fs = append(fs, id(kv.Key.(*ast.Ident).Name)+" := "+t.expr(kv.Value))
	}
	return "({ " + strings.Join(fs, ", ") + " } : " + name + ")"
}

func (t *tr) call(c *ast.CallExpr) string {
	args := func() []string {
		var out []string
		for _, a := range c.Args {
			out = append(out, t.expr(a))
		}
		return out
	}
	switch f := c.Fun.(type) {
	case *ast.Ident:
		if f.Name == "string" && len(c.Args) == 1 {
			return t.expr(c.Args[0])
		}
		if f.Name == "len" && len(c.Args) == 1 {
			return "(Go.len " + t.expr(c.Args[0]) + ")"
		}
		if f.Name == "append" && len(c.Args) == 2 && !c.Ellipsis.IsValid() {
			return "(" + t.expr(c.Args[0]) + " ++ [" + t.expr(c.Args[1]) + "])"
		}
		if standIn[f.Name] != "" {
			// a helper of the same package whose meaning is fixed by a twin in GoTypes.lean (recorded in the trusted base)
			return "(" + standIn[f.Name] + " " + strings.Join(args(), " ") + ")"
		}
		if ln, ok := t.funcs[f.Name]; ok {
			return "(" + ln + " " + strings.Join(args(), " ") + ")"
		}
		failf(t.fset, c, "call of %s, which is not translated", f.Name)
	case *ast.SelectorExpr:
		if p, ok := f.X.(*ast.Ident); ok {
			if _, isVar := t.env[p.Name]; !isVar {
				full := p.Name + "." + f.Sel.Name
				a := args
				switch full {
				case "fmt.Sprintf":
					return t.sprintf(c)
				case "strings.ReplaceAll":
					as := a()
					return "(Go.replaceAll " + strings.Join(as, " ") + ")"
				case "strings.Replace":
					if len(c.Args) == 4 {
						if u, ok := c.Args[3].(*ast.UnaryExpr); ok && u.Op == token.SUB {
							if l, ok := u.X.(*ast.BasicLit); ok && l.Value == "1" {
								as := a()
								return "(Go.replaceAll " + strings.Join(as[:3], " ") + ")"
							}
						}
					}
					failf(t.fset, c, "strings.Replace with a count other than -1")
				case "strings.Contains":
					return "(Go.contains " + strings.Join(a(), " ") + ")"
				case "strings.HasPrefix":
					return "(Go.hasPrefix " + strings.Join(a(), " ") + ")"
				case "strings.HasSuffix":
					return "(Go.hasSuffix " + strings.Join(a(), " ") + ")"
				case "reflect.DeepEqual":
					as := a()
					return "(" + as[0] + " == " + as[1] + ")"
				}
				failf(t.fset, c, "call of %s is outside the translated subset", full)
			}
		}
		// method call on a value
		recv := t.expr(f.X)
		if rt := t.typeOfExpr(f.X); rt != "" {
			if ln, ok := t.funcs[rt+"."+f.Sel.Name]; ok {
				return "(" + ln + " " + strings.Join(append([]string{recv}, args()...), " ") + ")"
			}
		}
		if rt := t.typeOfExpr(f.X); rt != "" && t.ifaces[rt] != nil {
			if ln, ok := t.funcs["dispatch:"+rt+"."+f.Sel.Name]; ok {
				return "(" + ln + " " + strings.Join(append([]string{recv}, args()...), " ") + ")"
			}
			failf(t.fset, c, "method %s of interface %s is not dispatched (add dispatch:%s.%s before this function)", f.Sel.Name, rt, rt, f.Sel.Name)
		}
		switch f.Sel.Name { // methods of twinned types (defined in GoTypes.lean)
		case "Equal", "Before":
			return "(" + recv + "." + f.Sel.Name + " " + strings.Join(args(), " ") + ")"
		}
		failf(t.fset, c, "method call .%s is outside the translated subset", f.Sel.Name)
	}
	failf(t.fset, c, "unsupported call")
	return ""
}

func isLogCall(s ast.Stmt) bool {
	es, ok := s.(*ast.ExprStmt)
	if !ok {
		return false
	}
	c, ok := es.X.(*ast.CallExpr)
	if !ok {
		return false
	}
	sel, ok := c.Fun.(*ast.SelectorExpr)
	if !ok {
		return false
	}
	p, ok := sel.X.(*ast.Ident)
	return ok && logPkgs[p.Name]
}

// assertWithGuard recognises   v, ok := x.(*T)   followed by   if !ok { return R }   (R a constant expression).
func (t *tr) assertWithGuard(a, b ast.Stmt) (v string, subj ast.Expr, typ ast.Expr, ret ast.Expr, ok bool) {
	as, isAs := a.(*ast.AssignStmt)
	if !isAs || as.Tok != token.DEFINE || len(as.Lhs) != 2 || len(as.Rhs) != 1 {
		return
	}
	ta, isTa := as.Rhs[0].(*ast.TypeAssertExpr)
	if !isTa || ta.Type == nil {
		return
	}
	okName := as.Lhs[1].(*ast.Ident).Name
	ifs, isIf := b.(*ast.IfStmt)
	if !isIf || ifs.Init != nil || ifs.Else != nil || len(ifs.Body.List) != 1 {
		return
	}
	un, isUn := ifs.Cond.(*ast.UnaryExpr)
	if !isUn || un.Op != token.NOT {
		return
	}
	if id, isId := un.X.(*ast.Ident); !isId || id.Name != okName {
		return
	}
	rs, isRet := ifs.Body.List[0].(*ast.ReturnStmt)
	if !isRet || len(rs.Results) != 1 {
		return
	}
	return as.Lhs[0].(*ast.Ident).Name, ta.X, ta.Type, rs.Results[0], true
}

func (t *tr) block(stmts []ast.Stmt, ind string, out *[]string) {
	var live []ast.Stmt
	for _, s := range stmts {
		if !isLogCall(s) {
			live = append(live, s)
		}
	}
	if len(live) == 0 {
		*out = append(*out, ind+"pure ()")
		return
	}
	for i := 0; i < len(live); i++ {
		if i+1 < len(live) {
			if v, subj, typ, ret, ok := t.assertWithGuard(live[i], live[i+1]); ok {
				// the rest of the block runs under the successful assertion
				lt := t.leanType(typ)
				*out = append(*out, ind+"match "+t.expr(subj)+" with")
				saved, had := t.env[v]
				t.env[v] = lt
				*out = append(*out, ind+"| ."+lt+" "+id(v)+" =>")
				t.block(live[i+2:], ind+"  ", out)
				if had {
					t.env[v] = saved
				} else {
					delete(t.env, v)
				}
				*out = append(*out, ind+"| _ => return "+t.expr(ret))
				return
			}
		}
		t.stmt(live[i], ind, out)
	}
}

func zeroOf(lt string) string {
	switch lt {
	case "String":
		return "\"\""
	case "Bool":
		return "false"
	case "Int":
		return "0"
	}
	return "default"
}

func (t *tr) stmt(s ast.Stmt, ind string, out *[]string) {
	emit := func(l string) { *out = append(*out, ind+l) }
	switch x := s.(type) {
	case *ast.ReturnStmt:
		if len(x.Results) != 1 {
			failf(t.fset, x, "return of %d values", len(x.Results))
		}
		emit("return " + t.expr(x.Results[0]))
	case *ast.DeclStmt:
		gd, ok := x.Decl.(*ast.GenDecl)
		if !ok || gd.Tok != token.VAR {
			failf(t.fset, x, "unsupported declaration")
		}
		for _, sp := range gd.Specs {
			vs := sp.(*ast.ValueSpec)
			for i, nm := range vs.Names {
				lt := ""
				if vs.Type != nil {
					lt = t.leanType(vs.Type)
				}
				val := zeroOf(lt)
				if i < len(vs.Values) {
					val = t.expr(vs.Values[i])
				}
				t.env[nm.Name] = lt
				if lt != "" {
					emit("let mut " + id(nm.Name) + " : " + lt + " := " + val)
				} else {
					emit("let mut " + id(nm.Name) + " := " + val)
				}
			}
		}
	case *ast.AssignStmt:
		if len(x.Lhs) == 2 && len(x.Rhs) == 1 && x.Tok == token.DEFINE {
			// v, ok := m[k]
			if ix, isIx := x.Rhs[0].(*ast.IndexExpr); isIx {
				v, ok1 := x.Lhs[0].(*ast.Ident)
				okv, ok2 := x.Lhs[1].(*ast.Ident)
				if ok1 && ok2 {
					t.env[v.Name], t.env[okv.Name] = "", "Bool"
					if v.Name != "_" {
						emit("let mut " + id(v.Name) + " := (Go.idx " + t.expr(ix.X) + " " + t.expr(ix.Index) + ")")
					}
					emit("let mut " + id(okv.Name) + " := (Go.has " + t.expr(ix.X) + " " + t.expr(ix.Index) + ")")
					return
				}
			}
		}
		if len(x.Lhs) != 1 || len(x.Rhs) != 1 {
			failf(t.fset, x, "multi-value assignment")
		}
		l, ok := x.Lhs[0].(*ast.Ident)
		if !ok {
			failf(t.fset, x, "assignment to something other than a local variable")
		}
		switch x.Tok {
		case token.DEFINE:
			v := t.expr(x.Rhs[0])
			t.env[l.Name] = ""
			emit("let mut " + id(l.Name) + " := " + v)
		case token.ASSIGN:
			if _, ok := t.env[l.Name]; !ok {
				failf(t.fset, x, "assignment to non-local %s", l.Name)
			}
			emit(id(l.Name) + " := " + t.expr(x.Rhs[0]))
		default:
			failf(t.fset, x, "unsupported assignment operator")
		}
	case *ast.IfStmt:
		if x.Init != nil {
			failf(t.fset, x, "if with init statement")
		}
		emit("if " + t.expr(x.Cond) + " then")
		t.block(x.Body.List, ind+"  ", out)
		for x.Else != nil {
			if ei, ok := x.Else.(*ast.IfStmt); ok {
				if ei.Init != nil {
					failf(t.fset, ei, "if with init statement")
				}
				emit("else if " + t.expr(ei.Cond) + " then")
				t.block(ei.Body.List, ind+"  ", out)
				x = ei
				continue
			}
			emit("else")
			t.block(x.Else.(*ast.BlockStmt).List, ind+"  ", out)
			break
		}
	case *ast.TypeSwitchStmt:
		as, ok := x.Assign.(*ast.AssignStmt)
		if !ok || x.Init != nil {
			failf(t.fset, x, "type switch without binding")
		}
		bind := as.Lhs[0].(*ast.Ident).Name
		subj := as.Rhs[0].(*ast.TypeAssertExpr).X
		emit("match " + t.expr(subj) + " with")
		hasDefault := false
		for _, cc := range x.Body.List {
			cl := cc.(*ast.CaseClause)
			if cl.List == nil {
				hasDefault = true
				emit("| _ =>")
				t.block(cl.Body, ind+"  ", out)
				continue
			}
			if len(cl.List) != 1 {
				failf(t.fset, cl, "type switch case with several types")
			}
			lt := t.leanType(cl.List[0])
			saved, had := t.env[bind]
			t.env[bind] = lt
			emit("| ." + lt + " " + id(bind) + " =>")
			t.block(cl.Body, ind+"  ", out)
			if had {
				t.env[bind] = saved
			} else {
				delete(t.env, bind)
			}
		}
		if !hasDefault {
			emit("| _ => pure ()")
		}
	case *ast.BranchStmt:
		switch x.Tok {
		case token.CONTINUE:
			emit("continue")
		case token.BREAK:
			emit("break")
		default:
			failf(t.fset, x, "unsupported branch statement")
		}
	case *ast.RangeStmt:
		if k, isId := x.Key.(*ast.Ident); isId && k.Name == "_" && x.Value != nil && x.Tok == token.DEFINE {
			// for _, v := range xs { ... }  with assignments to outer variables, continue, break and return in the body:
			// Lean's `for v in xs do` in the Id monad, statement for statement
			v := x.Value.(*ast.Ident).Name
			saved, had := t.env[v]
			t.env[v] = ""
			emit("for " + id(v) + " in " + t.expr(x.X) + " do")
			t.block(x.Body.List, ind+"  ", out)
			if had {
				t.env[v] = saved
			} else {
				delete(t.env, v)
			}
			return
		}
		// only the universally quantified check:   for i := range xs { if cond { return R } }   with no other effect;
		// it becomes   if (List.range (len xs)).any (fun i => cond) then return R
		if x.Value != nil || x.Key == nil || x.Tok != token.DEFINE || len(x.Body.List) != 1 {
			failf(t.fset, x, "range loop outside the supported form (for i := range xs { if c { return r } })")
		}
		ifs, ok := x.Body.List[0].(*ast.IfStmt)
		if !ok || ifs.Init != nil || ifs.Else != nil || len(ifs.Body.List) != 1 {
			failf(t.fset, x, "range loop body is not a single guarded return")
		}
		rs, ok := ifs.Body.List[0].(*ast.ReturnStmt)
		if !ok || len(rs.Results) != 1 {
			failf(t.fset, x, "range loop body is not a single guarded return")
		}
		iv := x.Key.(*ast.Ident).Name
		saved, had := t.env[iv]
		t.env[iv] = "Nat"
		cond := t.expr(ifs.Cond)
		if had {
			t.env[iv] = saved
		} else {
			delete(t.env, iv)
		}
		emit("if (List.range (Go.len " + t.expr(x.X) + ").toNat).any (fun " + id(iv) + " => " + cond + ") then")
		emit("  return " + t.expr(rs.Results[0]))
	case *ast.BlockStmt:
		t.block(x.List, ind, out)
	default:
		failf(t.fset, s, "unsupported statement %T", s)
	}
}

func target0(pkgs map[string]*ast.Package, root, file string) *ast.File {
	for _, p := range pkgs {
		for n, f := range p.Files {
			if filepath.Clean(n) == filepath.Clean(filepath.Join(root, file)) {
				return f
			}
		}
	}
	return &ast.File{}
}

func recvName(fd *ast.FuncDecl) string {
	if fd.Recv == nil || len(fd.Recv.List) == 0 {
		return ""
	}
	ty := fd.Recv.List[0].Type
	if st, ok := ty.(*ast.StarExpr); ok {
		ty = st.X
	}
	if i, ok := ty.(*ast.Ident); ok {
		return i.Name
	}
	return ""
}

func main() {
	root := os.Args[1]
	var specs []fileSpec
	raw, err := os.ReadFile(os.Args[2])
	if err != nil {
		fmt.Fprintln(os.Stderr, err)
		os.Exit(2)
	}
	if err := json.Unmarshal(raw, &specs); err != nil {
		fmt.Fprintln(os.Stderr, err)
		os.Exit(2)
	}
	type result struct {
		Lean   string            `json:"lean"`
		Failed map[string]string `json:"failed"`
		Done   []string          `json:"done"`
	}
	res := result{Failed: map[string]string{}}
	var b strings.Builder
	b.WriteString("/- GENERATED by tools/gofn from /repo — do not edit. One definition per translated Go function. -/\nimport Nic.Model.GoTypes\nset_option linter.unusedVariables false\nnamespace Nic.Gen.Fns\nopen Nic.Go\n\n")
	// group by namespace, keep spec order
	for _, sp := range specs {
		fset := token.NewFileSet()
		dir := filepath.Dir(filepath.Join(root, sp.File))
		pkgs, err := parser.ParseDir(fset, dir, func(fi os.FileInfo) bool {
			return !strings.HasSuffix(fi.Name(), "_test.go") && !strings.HasPrefix(fi.Name(), "zz_verif")
		}, 0)
		if err != nil {
			for _, f := range sp.Funcs {
				res.Failed[sp.File+":"+f] = "parse error: " + err.Error()
			}
			continue
		}
		t := &tr{fset: fset, consts: map[string]string{}, funcs: map[string]string{}, structs: map[string]bool{}, ifaces: sp.Interfaces}
		if t.ifaces == nil {
			t.ifaces = map[string][]string{}
		}
		for _, s := range sp.Structs {
			t.structs[s] = true
		}
		var target *ast.File
		for _, p := range pkgs {
			var names []string
			for n := range p.Files {
				names = append(names, n)
			}
			sort.Strings(names)
			for _, n := range names {
				f := p.Files[n]
				if filepath.Clean(n) == filepath.Clean(filepath.Join(root, sp.File)) {
					target = f
				}
				for _, d := range f.Decls {
					gd, ok := d.(*ast.GenDecl)
					if !ok || gd.Tok != token.CONST {
						continue
					}
					for _, s := range gd.Specs {
						vs := s.(*ast.ValueSpec)
						for i, nm := range vs.Names {
							if i < len(vs.Values) {
								if l, ok := vs.Values[i].(*ast.BasicLit); ok && l.Kind == token.STRING {
									if v, err := strconv.Unquote(l.Value); err == nil {
										t.consts[nm.Name] = v
									}
								}
							}
						}
					}
				}
			}
		}
		if target == nil {
			for _, f := range sp.Funcs {
				res.Failed[sp.File+":"+f] = "file not found"
			}
			continue
		}
		for _, f := range sp.Funcs {
			if strings.HasPrefix(f, "dispatch:") {
				t.funcs[f] = sp.NS + "." + strings.ReplaceAll(strings.TrimPrefix(f, "dispatch:"), ".", "_")
				continue
			}
			t.funcs[f] = sp.NS + "." + strings.ReplaceAll(f, ".", "_")
		}
		fmt.Fprintf(&b, "namespace %s\n\n", sp.NS)
		// structs
		for _, sn := range sp.Structs {
			found := false
			for _, d := range target.Decls {
				gd, ok := d.(*ast.GenDecl)
				if !ok || gd.Tok != token.TYPE {
					continue
				}
				for _, s := range gd.Specs {
					ts := s.(*ast.TypeSpec)
					st, ok := ts.Type.(*ast.StructType)
					if ts.Name.Name != sn || !ok {
						continue
					}
					found = true
					func() {
						defer func() {
							if r := recover(); r != nil {
								if fl, ok := r.(failure); ok {
									res.Failed[sp.File+":type "+sn] = fl.msg
									return
								}
								panic(r)
							}
						}()
						var fs []string
						for _, fld := range st.Fields.List {
							lt := t.leanType(fld.Type)
							for _, nm := range fld.Names {
								fs = append(fs, fmt.Sprintf("  %s : %s := %s", id(nm.Name), lt, zeroOf(lt)))
							}
						}
						fmt.Fprintf(&b, "structure %s where\n%s\n  deriving Repr, BEq, DecidableEq, Inhabited\n\n", sn, strings.Join(fs, "\n"))
						res.Done = append(res.Done, sp.File+":type "+sn)
					}()
				}
			}
			if !found {
				res.Failed[sp.File+":type "+sn] = "struct not found"
			}
		}
		// interfaces as sum types over their implementers
		var inames []string
		for in := range sp.Interfaces {
			inames = append(inames, in)
		}
		sort.Strings(inames)
		for _, in := range inames {
			fmt.Fprintf(&b, "inductive %s where\n", in)
			for _, impl := range sp.Interfaces[in] {
				fmt.Fprintf(&b, "  | %s (c : %s)\n", impl, impl)
			}
			fmt.Fprintf(&b, "  deriving Repr\n\n")
		}
		// functions, in the order of the spec (callees must be listed before callers)
		for _, fn := range sp.Funcs {
			if strings.HasPrefix(fn, "dispatch:") {
				// dynamic dispatch of an interface method over the implementers' translated methods
				im := strings.SplitN(strings.TrimPrefix(fn, "dispatch:"), ".", 2)
				impls := sp.Interfaces[im[0]]
				var target *ast.FuncDecl
				for _, d := range target0(pkgs, root, sp.File).Decls {
					if x, ok := d.(*ast.FuncDecl); ok && x.Body != nil && x.Name.Name == im[1] && len(impls) > 0 && recvName(x) == impls[0] {
						target = x
					}
				}
				if target == nil || len(impls) == 0 {
					res.Failed[sp.File+":"+fn] = "no implementer method found"
					continue
				}
				func() {
					defer func() {
						if r := recover(); r != nil {
							if fl, ok := r.(failure); ok {
								res.Failed[sp.File+":"+fn] = fl.msg
								return
							}
							panic(r)
						}
					}()
					var ps, as []string
					if target.Type.Params != nil {
						for _, p := range target.Type.Params.List {
							lt := t.leanType(p.Type)
							for _, nm := range p.Names {
								ps = append(ps, fmt.Sprintf("(%s : %s)", id(nm.Name), lt))
								as = append(as, id(nm.Name))
							}
						}
					}
					rt := t.leanType(target.Type.Results.List[0].Type)
					ln := im[0] + "_" + im[1]
					fmt.Fprintf(&b, "/-- dynamic dispatch of %s.%s -/\ndef %s (self : %s) %s : %s :=\n  match self with\n", im[0], im[1], ln, im[0], strings.Join(ps, " "), rt)
					for _, impl := range impls {
						callee, ok := t.funcs[impl+"."+im[1]]
						if !ok {
							failf(fset, target, "%s.%s is not translated", impl, im[1])
						}
						fmt.Fprintf(&b, "  | .%s c => %s c %s\n", impl, callee, strings.Join(as, " "))
					}
					b.WriteString("\n")
					res.Done = append(res.Done, sp.File+":"+fn)
				}()
				continue
			}
			var fd *ast.FuncDecl
			for _, d := range target.Decls {
				if x, ok := d.(*ast.FuncDecl); ok && x.Body != nil {
					nm := x.Name.Name
					if r := recvName(x); r != "" {
						nm = r + "." + nm
					}
					if nm == fn {
						fd = x
					}
				}
			}
			if fd == nil {
				res.Failed[sp.File+":"+fn] = "function not found"
				continue
			}
			func() {
				defer func() {
					if r := recover(); r != nil {
						if fl, ok := r.(failure); ok {
							res.Failed[sp.File+":"+fn] = fl.msg
							return
						}
						panic(r)
					}
				}()
				t.env = map[string]string{}
				var params []string
				add := func(fl *ast.FieldList) {
					if fl == nil {
						return
					}
					for _, p := range fl.List {
						lt := t.leanType(p.Type)
						for _, nm := range p.Names {
							t.env[nm.Name] = lt
							params = append(params, fmt.Sprintf("(%s : %s)", id(nm.Name), lt))
						}
					}
				}
				add(fd.Recv)
				add(fd.Type.Params)
				if fd.Type.Results == nil || len(fd.Type.Results.List) != 1 || len(fd.Type.Results.List[0].Names) > 1 {
					failf(fset, fd, "function must have exactly one result")
				}
				rt := t.leanType(fd.Type.Results.List[0].Type)
				leanName := strings.ReplaceAll(fn, ".", "_")
				var body []ast.Stmt
				for _, st := range fd.Body.List {
					if !isLogCall(st) {
						body = append(body, st)
					}
				}
				if ret, ok := body[0].(*ast.ReturnStmt); ok && len(body) == 1 && len(ret.Results) == 1 {
					// a function that is one expression is translated to that expression
					fmt.Fprintf(&b, "/-- %s: %s -/\ndef %s %s : %s :=\n  %s\n\n", sp.File, fn, leanName, strings.Join(params, " "), rt, t.expr(ret.Results[0]))
				} else {
					var lines []string
					// Go lets a function assign to its parameters: shadow those by mutable locals
					assigned := map[string]bool{}
					ast.Inspect(fd.Body, func(n ast.Node) bool {
						if as, ok := n.(*ast.AssignStmt); ok && as.Tok == token.ASSIGN {
							for _, l := range as.Lhs {
								if idn, ok := l.(*ast.Ident); ok {
									assigned[idn.Name] = true
								}
							}
						}
						return true
					})
					var pnames []string
					for _, fl := range []*ast.FieldList{fd.Recv, fd.Type.Params} {
						if fl != nil {
							for _, p := range fl.List {
								for _, nm := range p.Names {
									pnames = append(pnames, nm.Name)
								}
							}
						}
					}
					for _, nm := range pnames {
						if assigned[nm] {
							lines = append(lines, "  let mut "+id(nm)+" := "+id(nm))
						}
					}
					t.block(fd.Body.List, "  ", &lines)
					fmt.Fprintf(&b, "/-- %s: %s -/\ndef %s %s : %s := Id.run do\n%s\n\n", sp.File, fn, leanName, strings.Join(params, " "), rt, strings.Join(lines, "\n"))
				}
				res.Done = append(res.Done, sp.File+":"+fn)
			}()
		}
		fmt.Fprintf(&b, "end %s\n\n", sp.NS)
	}
	b.WriteString("end Nic.Gen.Fns\n")
	res.Lean = b.String()
	enc := json.NewEncoder(os.Stdout)
	enc.SetIndent("", " ")
	_ = enc.Encode(res)
}
