module verif/gofn

go 1.23
