#!/bin/bash
# usage: tools/sweep_seeds.sh [tier] [ids...] : apply each seeded change to /repo in turn, run the quick check of its property,
# undo it, and print one line per seed: <seed> <property> caught|MISSED|no-apply  <first VIOLATION line>
set -u
TIER=${1:-quick}; shift || true
cd /verif
IDS=${@:-$(ls seeded)}
if [ -n "$(git -C /repo status --porcelain)" ]; then echo "/repo is dirty; refusing"; exit 2; fi
for s in $IDS; do
  P=$(jq -r .property seeded/$s/meta.json)
  if [ "$(jq -r '.superseded // empty' seeded/$s/meta.json)" != "" ]; then echo "$s $P superseded (no longer breaks the property on the repaired tree)"; continue; fi
  if ! git -C /repo apply --check /verif/seeded/$s/patch.diff 2>/dev/null; then
    if ! git -C /repo apply --3way /verif/seeded/$s/patch.diff >/dev/null 2>&1; then
      git -C /repo reset -q --hard HEAD; echo "$s $P no-apply"; continue
    fi
    git -C /repo reset -q; 
  else
    git -C /repo apply /verif/seeded/$s/patch.diff
  fi
  OUT=$(./check $P --tier $TIER 2>&1); RC=$?
  git -C /repo reset -q --hard HEAD
  V=$(echo "$OUT" | grep '^VIOLATION' | head -1 | cut -c1-160)
  if [ $RC -ne 0 ] && [ -n "$V" ]; then echo "$s $P caught $V"; else echo "$s $P MISSED rc=$RC $(echo "$OUT" | tail -1 | cut -c1-120)"; fi
done
