#!/bin/bash
# usage: confirm_seed.sh <prop> <i>   — confirms a seeded change in the scratch worktree /tmp/seed/<prop>-wt
# (demo fails with the patch, passes without; existing tests of touched packages pass with the patch),
# then stores it under /verif/seeded/<prop>-<i>/ with the log.
set -u
P=$1; I=$2
WT=/tmp/seed/$P-wt; OUT=/tmp/seed/$P-out/$I
export GOFLAGS=-mod=mod GOPROXY=off
cd $WT || exit 2
git checkout -q -- . ; git clean -fdq
git checkout -q --detach $(git -C /repo rev-parse HEAD)   # confirm against the current tree (fix: commits included)
meta=$OUT/meta.json
demo_dir=$(python3 -c "import json;print(json.load(open('$meta'))['demo_dir'])")
demo_run=$(python3 -c "import json;print(json.load(open('$meta'))['demo_run'])")
LOG=$OUT/confirm.log; : > $LOG
demos=$(ls $OUT | grep -E '_test\.go$|\.go$' )
for f in $demos; do cp $OUT/$f $WT/$demo_dir/; done
echo "## demo on clean tree: $demo_run" >> $LOG
( cd $WT && eval "$demo_run" ) >> $LOG 2>&1; clean_rc=$?
git apply $OUT/patch.diff 2>/dev/null || git apply --3way $OUT/patch.diff || { echo "patch does not apply" >> $LOG; exit 3; }
echo "## demo with patch" >> $LOG
( cd $WT && eval "$demo_run" ) >> $LOG 2>&1; patched_rc=$?
for f in $demos; do rm -f $WT/$demo_dir/$f; done
pkgs=$(git diff --name-only | xargs -n1 dirname | sort -u | sed 's#^#./#' | tr '\n' ' ')
echo "## existing tests with patch: $pkgs ./internal/k8s/... ./internal/configs/... ./internal/nginx/..." >> $LOG
go test -vet=off -count=1 $pkgs ./internal/k8s/... ./internal/configs/... ./internal/nginx/... ./pkg/apis/... >> $LOG 2>&1; suite_rc=$?
git checkout -q -- . ; git clean -fdq
echo "clean_rc=$clean_rc patched_rc=$patched_rc suite_rc=$suite_rc" | tee -a $LOG
if [ $clean_rc -eq 0 ] && [ $patched_rc -ne 0 ] && [ $suite_rc -eq 0 ]; then
  D=/verif/seeded/$P-$I; mkdir -p $D
  cp $OUT/patch.diff $D/; for f in $demos; do cp $OUT/$f $D/; done
  python3 - <<PY
import json
m=json.load(open('$meta'))
m['confirmed']={'demo_on_clean_tree':'pass','demo_with_patch':'fail','existing_tests_with_patch':'pass','how':'tools/confirm_seed.sh $P $I in scratch worktree $WT'}
json.dump(m,open('$D/meta.json','w'),indent=1)
PY
  tail -5 $LOG > $D/confirm.txt
  echo CONFIRMED $P-$I
else
  echo REJECTED $P-$I
fi
