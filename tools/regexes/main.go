// Command regexes re-reads every regular expression the controller compiles (regexp.MustCompile with a constant
// argument) in the given packages of /repo and prints them as JSON: where it is, the name it is bound to, the
// pattern, and the pattern translated into a Lean term of type Nic.Regex.Re (parsed with regexp/syntax, the parser
// Go's regexp package itself uses).
//
// Anchoring: `^...$` at the top level is stripped (the Lean language is that of the whole string); a pattern without
// `^` / `$` matches anywhere and is wrapped accordingly. Zero-width assertions elsewhere (\b, inner ^ $) are
// over-approximated by the empty string and flagged approx=true.
package main

import (
	"encoding/json"
	"fmt"
	"go/ast"
	"go/constant"
	"go/token"
	"os"
	"regexp/syntax"
	"sort"
	"strings"

	"golang.org/x/tools/go/packages"
)

type site struct {
	Name    string `json:"name"`
	File    string `json:"file"`
	Pattern string `json:"pattern"`
	Lean    string `json:"lean"`
	Approx  bool   `json:"approx"`
	Anchors string `json:"anchors"` // both | start | end | none
}

var approx bool

func ranges(rs []rune) string {
	var parts []string
	for i := 0; i+1 < len(rs); i += 2 {
		lo, hi := rs[i], rs[i+1]
		if hi-lo <= 16 {
			for c := lo; c <= hi; c++ {
				parts = append(parts, fmt.Sprintf("(%d, %d)", c, c))
			}
		} else {
			parts = append(parts, fmt.Sprintf("(%d, %d)", lo, hi))
		}
	}
	return "(.cls [" + strings.Join(parts, ", ") + "])"
}

func lean(re *syntax.Regexp) string {
	switch re.Op {
	case syntax.OpNoMatch:
		return ".nil"
	case syntax.OpEmptyMatch:
		return ".eps"
	case syntax.OpLiteral:
		var parts []string
		for _, r := range re.Rune {
			if re.Flags&syntax.FoldCase != 0 {
				rs := []rune{r, r}
				for f := simpleFold(r); f != r; f = simpleFold(f) {
					rs = append(rs, f, f)
				}
				parts = append(parts, ranges(rs))
			} else {
				parts = append(parts, fmt.Sprintf("(.cls [(%d, %d)])", r, r))
			}
		}
		return catAll(parts)
	case syntax.OpCharClass:
		return ranges(re.Rune)
	case syntax.OpAnyCharNotNL:
		return "(.cls [(0, 9), (11, 1114111)])"
	case syntax.OpAnyChar:
		return "(.cls [(0, 1114111)])"
	case syntax.OpBeginLine, syntax.OpEndLine, syntax.OpBeginText, syntax.OpEndText, syntax.OpWordBoundary, syntax.OpNoWordBoundary:
		approx = true
		return ".eps"
	case syntax.OpCapture:
		return lean(re.Sub[0])
	case syntax.OpStar:
		return "(.star " + lean(re.Sub[0]) + ")"
	case syntax.OpPlus:
		return "(plus " + lean(re.Sub[0]) + ")"
	case syntax.OpQuest:
		return "(opt " + lean(re.Sub[0]) + ")"
	case syntax.OpRepeat:
		if re.Max < 0 {
			return fmt.Sprintf("(repeatMin %d %s)", re.Min, lean(re.Sub[0]))
		}
		return fmt.Sprintf("(repeatRange %d %d %s)", re.Min, re.Max, lean(re.Sub[0]))
	case syntax.OpConcat:
		var parts []string
		for _, s := range re.Sub {
			parts = append(parts, lean(s))
		}
		return catAll(parts)
	case syntax.OpAlternate:
		var parts []string
		for _, s := range re.Sub {
			parts = append(parts, lean(s))
		}
		out := parts[len(parts)-1]
		for i := len(parts) - 2; i >= 0; i-- {
			out = "(.alt " + parts[i] + " " + out + ")"
		}
		return out
	}
	approx = true
	return ".nil"
}

func simpleFold(r rune) rune {
	// ASCII is all the controller uses with (?i)
	switch {
	case 'a' <= r && r <= 'z':
		return r - 32
	case 'A' <= r && r <= 'Z':
		return r + 32
	}
	return r
}

func catAll(parts []string) string {
	if len(parts) == 0 {
		return ".eps"
	}
	out := parts[len(parts)-1]
	for i := len(parts) - 2; i >= 0; i-- {
		out = "(.cat " + parts[i] + " " + out + ")"
	}
	return out
}

func translate(pattern string) (string, bool, string, error) {
	re, err := syntax.Parse(pattern, syntax.Perl)
	if err != nil {
		return "", false, "", err
	}
	approx = false
	start, end := false, false
	if re.Op == syntax.OpConcat && len(re.Sub) > 0 {
		subs := re.Sub
		if subs[0].Op == syntax.OpBeginText {
			start = true
			subs = subs[1:]
		}
		if len(subs) > 0 && subs[len(subs)-1].Op == syntax.OpEndText {
			end = true
			subs = subs[:len(subs)-1]
		}
		re = &syntax.Regexp{Op: syntax.OpConcat, Sub: subs}
		if len(subs) == 0 {
			re = &syntax.Regexp{Op: syntax.OpEmptyMatch}
		}
	} else if re.Op == syntax.OpBeginText {
		start = true
		re = &syntax.Regexp{Op: syntax.OpEmptyMatch}
	}
	body := lean(re)
	anch := "none"
	switch {
	case start && end:
		anch = "both"
	case start:
		anch = "start"
		body = "(.cat " + body + " (.star anyChar))"
	case end:
		anch = "end"
		body = "(.cat (.star anyChar) " + body + ")"
	default:
		body = "(anywhere " + body + ")"
	}
	return body, approx, anch, nil
}

func main() {
	dir := os.Args[1]
	cfg := &packages.Config{Mode: packages.NeedName | packages.NeedFiles | packages.NeedSyntax | packages.NeedTypes | packages.NeedTypesInfo | packages.NeedImports | packages.NeedDeps, Dir: dir}
	pkgs, err := packages.Load(cfg, os.Args[2:]...)
	if err != nil {
		fmt.Fprintln(os.Stderr, err)
		os.Exit(2)
	}
	var sites []site
	for _, p := range pkgs {
		if len(p.Errors) > 0 {
			fmt.Fprintln(os.Stderr, p.Errors)
			os.Exit(2)
		}
		for _, f := range p.Syntax {
			fname := p.Fset.Position(f.Pos()).Filename
			if strings.HasSuffix(fname, "_test.go") || strings.Contains(fname, "zz_verif") {
				continue
			}
			rel := strings.TrimPrefix(fname, dir+"/")
			counter := 0
			dyn := map[string]int{}
			var stack []ast.Node
			ast.Inspect(f, func(n ast.Node) bool {
				if n == nil {
					stack = stack[:len(stack)-1]
					return true
				}
				stack = append(stack, n)
				call, ok := n.(*ast.CallExpr)
				if !ok || len(call.Args) != 1 {
					return true
				}
				sel, ok := call.Fun.(*ast.SelectorExpr)
				if !ok || (sel.Sel.Name != "MustCompile" && sel.Sel.Name != "Compile" && sel.Sel.Name != "MatchString") {
					return true
				}
				if id, ok := sel.X.(*ast.Ident); !ok || id.Name != "regexp" {
					return true
				}
				tv, ok := p.TypesInfo.Types[call.Args[0]]
				if !ok || tv.Value == nil || tv.Value.Kind() != constant.String {
					fn := "init"
					for i := len(stack) - 1; i >= 0; i-- {
						if fd, ok := stack[i].(*ast.FuncDecl); ok {
							fn = fd.Name.Name
							break
						}
					}
					dyn[fn]++
					sites = append(sites, site{Name: fmt.Sprintf("%s_dynamic_%s_%d", p.Name, fn, dyn[fn]), File: rel, Pattern: "(not a constant)", Lean: "(.star anyChar)", Approx: true, Anchors: "none"})
					return true
				}
				pattern := constant.StringVal(tv.Value)
				name := ""
				// the name it is bound to: var x = regexp.MustCompile(..) / x := ...
				for i := len(stack) - 2; i >= 0 && name == ""; i-- {
					switch s := stack[i].(type) {
					case *ast.ValueSpec:
						for j, v := range s.Values {
							if v == ast.Expr(call) && j < len(s.Names) {
								name = s.Names[j].Name
							}
						}
					case *ast.AssignStmt:
						for j, v := range s.Rhs {
							if v == ast.Expr(call) && j < len(s.Lhs) {
								if id, ok := s.Lhs[j].(*ast.Ident); ok {
									name = id.Name
								}
							}
						}
					case *ast.FuncDecl:
						counter++
						name = fmt.Sprintf("%s_re%d", s.Name.Name, counter)
					}
				}
				if name == "" {
					counter++
					name = fmt.Sprintf("anon%d", counter)
				}
				body, ap, anch, err := translate(pattern)
				if err != nil {
					body, ap = ".star anyChar", true
				}
				sites = append(sites, site{Name: p.Name + "_" + name, File: rel, Pattern: pattern, Lean: body, Approx: ap, Anchors: anch})
				return true
			})
		}
	}
	sort.Slice(sites, func(i, j int) bool { return sites[i].Name < sites[j].Name })
	_ = token.NoPos
	out, _ := json.MarshalIndent(sites, "", " ")
	fmt.Println(string(out))
}
