#!/bin/bash
# usage: tools/regen_evidence.sh [Cnn ...] : run the quick check of each property on the CLEAN /repo tree so that evidence/Cnn.json
# describes the unchanged tree (seed sweeps rewrite it with the run on the changed tree). Prints one line per property.
set -u
cd /verif
if [ -n "$(git -C /repo status --porcelain)" ]; then echo "/repo is dirty; refusing"; exit 2; fi
IDS=${@:-$(seq -f 'C%02g' 1 20)}
rc=0
for p in $IDS; do
  out=$(./check $p --tier quick 2>&1); r=$?
  echo "$p rc=$r $(echo "$out" | tail -1 | cut -c1-150)"
  [ $r -ne 0 ] && rc=1
done
tools/audit_level_texts.py || rc=1
exit $rc
