// Command valcalls lists, for every function of the validation code of /repo, the library parsers / checkers it calls
// (packages net, net/netip, net/url, strconv, time, mime, path, k8s.io/apimachinery/pkg/util/validation and the like): a validator
// that *parses* a value instead of matching it against a pattern is invisible to the regex theorems, so which parser decides
// acceptance is pinned (expect/c06_valcalls.json) together with a reviewed statement of what that parser lets through.
//
//	valcalls <repo root> <dir>...      prints {"<file>:<func>": ["pkg.Func", ...]} (sorted, deduplicated)
package main

import (
	"encoding/json"
	"go/ast"
	"go/parser"
	"go/token"
	"os"
	"path/filepath"
	"sort"
	"strconv"
	"strings"
)

var watched = map[string]bool{"net": true, "net/netip": true, "net/url": true, "strconv": true, "time": true, "mime": true, "path": true,
	"path/filepath": true, "net/mail": true, "encoding/base64": true, "unicode": true, "unicode/utf8": true,
	"k8s.io/apimachinery/pkg/util/validation": true, "k8s.io/apimachinery/pkg/api/validation": true, "golang.org/x/net/idna": true,
	"github.com/dlclark/regexp2": true}

func main() {
	root := os.Args[1]
	out := map[string][]string{}
	for _, dir := range os.Args[2:] {
		fset := token.NewFileSet()
		pkgs, err := parser.ParseDir(fset, filepath.Join(root, dir), func(fi os.FileInfo) bool {
			return !strings.HasSuffix(fi.Name(), "_test.go") && !strings.HasPrefix(fi.Name(), "zz_verif")
		}, 0)
		if err != nil {
			os.Stderr.WriteString(err.Error() + "\n")
			os.Exit(2)
		}
		for _, p := range pkgs {
			for fname, f := range p.Files {
				imports := map[string]string{} // local name -> path
				for _, im := range f.Imports {
					path, _ := strconv.Unquote(im.Path.Value)
					name := path[strings.LastIndex(path, "/")+1:]
					if im.Name != nil {
						name = im.Name.Name
					}
					imports[name] = path
				}
				rel := strings.TrimPrefix(fname, root+"/")
				for _, d := range f.Decls {
					fd, ok := d.(*ast.FuncDecl)
					if !ok || fd.Body == nil {
						continue
					}
					name := fd.Name.Name
					if fd.Recv != nil && len(fd.Recv.List) > 0 {
						t := fd.Recv.List[0].Type
						if st, ok := t.(*ast.StarExpr); ok {
							t = st.X
						}
						if id, ok := t.(*ast.Ident); ok {
							name = id.Name + "." + name
						}
					}
					set := map[string]bool{}
					ast.Inspect(fd.Body, func(n ast.Node) bool {
						c, ok := n.(*ast.CallExpr)
						if !ok {
							return true
						}
						sel, ok := c.Fun.(*ast.SelectorExpr)
						if !ok {
							return true
						}
						id, ok := sel.X.(*ast.Ident)
						if !ok || id.Obj != nil { // a local variable, not a package
							return true
						}
						if path, ok := imports[id.Name]; ok && watched[path] {
							set[path+"."+sel.Sel.Name] = true
						}
						return true
					})
					if len(set) == 0 {
						continue
					}
					var l []string
					for k := range set {
						l = append(l, k)
					}
					sort.Strings(l)
					out[rel+":"+name] = l
				}
			}
		}
	}
	enc := json.NewEncoder(os.Stdout)
	enc.SetIndent("", " ")
	_ = enc.Encode(out)
}
