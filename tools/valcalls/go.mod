module verif/valcalls

go 1.23
