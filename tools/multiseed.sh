#!/bin/bash
# usage: tools/multiseed.sh <tier> <seed>... : on the UNCHANGED tree, run every property's check under each VERIF_SEED and print one
# line per (property, seed). Any FAIL here is a false alarm of the machinery (or a new finding) and has to be looked at.
# Meant for `vp run -- tools/multiseed.sh quick 2 3 4 5` (works from a snapshot: builds its own .build and lean/.lake first).
set -u
cd "$(dirname "$0")/.."
# under `vp run --with-repo` use the snapshot of /repo, so that seed sweeps in /repo itself do not disturb this run
[ -n "${VP_RUN_REPO:-}" ] && export VERIF_REPO=$VP_RUN_REPO
TIER=$1; shift
./check --setup > multiseed-setup.log 2>&1 || { echo "setup failed"; tail -20 multiseed-setup.log; exit 2; }
rc=0
for seed in "$@"; do
  for i in $(seq -f 'C%02g' 1 20); do
    out=$(VERIF_SEED=$seed ./check $i --tier $TIER 2>&1); r=$?
    echo "seed=$seed $i rc=$r $(echo "$out" | grep -v '^KNOWN-FINDING' | tail -2 | tr '\n' ' ' | cut -c1-260)"
    [ $r -ne 0 ] && rc=1
  done
done
exit $rc
