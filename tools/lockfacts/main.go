// Command lockfacts lists, for every method of the given receiver types, whether its body starts by taking the receiver's
// mutex (`x.lock.Lock()` / `x.lock.RLock()`, possibly through `defer … Unlock()`), and which fields of the receiver it reads
// and writes (syntactically: a field that is assigned, indexed-and-assigned, passed to delete() or appended to is written).
// usage: lockfacts <repo> <file>:<Type> ...
package main

import (
	"encoding/json"
	"go/ast"
	"go/parser"
	"go/token"
	"os"
	"sort"
	"strings"
)

type fact struct {
	Type   string   `json:"type"`
	Method string   `json:"method"`
	Lock   string   `json:"lock"` // none | r | w
	Reads  []string `json:"reads"`
	Writes []string `json:"writes"`
	Calls  []string `json:"calls"` // methods of the same receiver that the body calls
	// fields of the receiver that the body touches at a source position BEFORE its first recv.lock.Lock()/RLock() call (only for
	// methods that take the lock themselves): an access the mutex does not cover although the method looks disciplined
	PreLock []string `json:"prelock"`
}

func recvField(e ast.Expr, recv string) string {
	// recv.f  or  recv.f[...]
	for {
		switch x := e.(type) {
		case *ast.IndexExpr:
			e = x.X
			continue
		case *ast.SelectorExpr:
			if id, ok := x.X.(*ast.Ident); ok && id.Name == recv {
				return x.Sel.Name
			}
			return ""
		default:
			return ""
		}
	}
}

func main() {
	root := os.Args[1]
	var out []fact
	for _, spec := range os.Args[2:] {
		p := strings.SplitN(spec, ":", 2)
		fset := token.NewFileSet()
		f, err := parser.ParseFile(fset, root+"/"+p[0], nil, 0)
		if err != nil {
			os.Exit(2)
		}
		for _, d := range f.Decls {
			fd, ok := d.(*ast.FuncDecl)
			if !ok || fd.Recv == nil || fd.Body == nil || len(fd.Recv.List) == 0 || len(fd.Recv.List[0].Names) == 0 {
				continue
			}
			t := fd.Recv.List[0].Type
			if st, ok := t.(*ast.StarExpr); ok {
				t = st.X
			}
			id, ok := t.(*ast.Ident)
			if !ok || id.Name != p[1] {
				continue
			}
			recv := fd.Recv.List[0].Names[0].Name
			fa := fact{Type: p[1], Method: fd.Name.Name, Lock: "none"}
			reads, writes := map[string]bool{}, map[string]bool{}
			calls := map[string]bool{}
			lockPos := token.NoPos
			firstAccess := map[string]token.Pos{}
			ast.Inspect(fd.Body, func(n ast.Node) bool {
				switch x := n.(type) {
				case *ast.CallExpr:
					if sel, ok := x.Fun.(*ast.SelectorExpr); ok {
						if rid, ok := sel.X.(*ast.Ident); ok && rid.Name == recv {
							calls[sel.Sel.Name] = true
						}
						if inner, ok := sel.X.(*ast.SelectorExpr); ok {
							if rid, ok := inner.X.(*ast.Ident); ok && rid.Name == recv && (inner.Sel.Name == "lock" || inner.Sel.Name == "mu" || strings.HasSuffix(strings.ToLower(inner.Sel.Name), "lock")) {
								switch sel.Sel.Name {
								case "Lock":
									fa.Lock = "w"
									if lockPos == token.NoPos || x.Pos() < lockPos {
										lockPos = x.Pos()
									}
								case "RLock":
									if fa.Lock == "none" {
										fa.Lock = "r"
									}
									if lockPos == token.NoPos || x.Pos() < lockPos {
										lockPos = x.Pos()
									}
								}
							}
						}
					}
					if fid, ok := x.Fun.(*ast.Ident); ok && fid.Name == "delete" && len(x.Args) > 0 {
						if fl := recvField(x.Args[0], recv); fl != "" {
							writes[fl] = true
						}
					}
				case *ast.AssignStmt:
					for _, l := range x.Lhs {
						if fl := recvField(l, recv); fl != "" {
							writes[fl] = true
						}
					}
				case *ast.IncDecStmt:
					if fl := recvField(x.X, recv); fl != "" {
						writes[fl] = true
					}
				case *ast.SelectorExpr:
					if rid, ok := x.X.(*ast.Ident); ok && rid.Name == recv {
						reads[x.Sel.Name] = true
						if p, ok := firstAccess[x.Sel.Name]; !ok || x.Pos() < p {
							firstAccess[x.Sel.Name] = x.Pos()
						}
					}
				}
				return true
			})
			for k := range reads {
				if k != "lock" && !writes[k] {
					fa.Reads = append(fa.Reads, k)
				}
			}
			for k := range writes {
				fa.Writes = append(fa.Writes, k)
			}
			for k := range calls {
				fa.Calls = append(fa.Calls, k)
			}
			if lockPos != token.NoPos {
				for k, p := range firstAccess {
					if k != "lock" && p < lockPos && !calls[k] {
						fa.PreLock = append(fa.PreLock, k)
					}
				}
				sort.Strings(fa.PreLock)
			}
			sort.Strings(fa.Calls)
			sort.Strings(fa.Reads)
			sort.Strings(fa.Writes)
			out = append(out, fa)
		}
	}
	sort.Slice(out, func(i, j int) bool {
		if out[i].Type != out[j].Type {
			return out[i].Type < out[j].Type
		}
		return out[i].Method < out[j].Method
	})
	enc := json.NewEncoder(os.Stdout)
	enc.SetIndent("", " ")
	_ = enc.Encode(out)
}
