#!/usr/bin/env python3
"""Regenerate MANIFEST.json from the property modules that exist (props/Cnn.py)."""
import importlib, json, os, sys
HERE = os.path.dirname(os.path.dirname(os.path.abspath(__file__)))
sys.path.insert(0, HERE); sys.path.insert(0, os.path.join(HERE, "lib"))
props = [json.loads(l) for l in open(os.path.join(HERE, "properties.jsonl"))]
checks, na = [], []
for p in props:
    pid = p["id"]
    if os.path.exists(os.path.join(HERE, "props", pid + ".py")):
        m = importlib.import_module("props." + pid)
        checks.append({
            "property_id": pid,
            "quick_cmd": "./check %s --tier quick" % pid,
            "thorough_cmd": "./check %s --tier thorough" % pid,
            "evidence_file": "/verif/evidence/%s.json" % pid,
            "replay_cmd_template": "./check %s --replay {path}" % pid,
            "engine": "lean4-proof+correspondence",
            "level_claimed": {"category": "proof", "text": m.LEVEL_TEXT, "design_ref": "DESIGN.md section 4, " + pid},
            "level_note": m.LEVEL_NOTE,
            "technique": m.TECHNIQUE,
        })
    else:
        na.append({"property_id": pid, "reason": "check not built yet (work in progress; plan in DESIGN.md section 4)"})
man = {
    "version": 1,
    "setup_cmd": "./check --setup",
    "hooks": {"guard": "verif",
              "enable": "go build -tags verif -overlay /verif/.build/overlay.json ./cmd/vh-* (harness files live in /verif/harness and are injected at build time; /repo itself carries no hook code)",
              "baseline_off_cmd": "cd /repo && go test -vet=off -count=1 ./...",
              "source_commits": [], "add_only": True},
    "engines": [{"name": "lean4-proof+correspondence", "path": "/verif/lean (theorems, models, driver), /verif/harness (Go, real code), /verif/check",
                 "serves_properties": [c["property_id"] for c in checks],
                 "kind_free_text": "Lean 4 theorems over an executable model; model tied to /repo by differential correspondence runs and regenerated fact tables on every run"}],
    "checks": checks,
    "notes": "All checks rebuild the harness from /repo's working tree (go build -overlay), re-check the Lean theorems and the axiom audit, then run correspondence + direct Spec check. See DESIGN.md.",
    "not_applicable": na,
}
json.dump(man, open(os.path.join(HERE, "MANIFEST.json"), "w"), indent=1)
print("claimed:", [c["property_id"] for c in checks])
