// Command templates parses the NGINX configuration templates of /repo with text/template/parse (the parser the
// templates are executed with) and prints them as Lean terms of type Nic.Tmpl.TL: literal text, interpolation sites
// (value holes, or fragment holes for the helper functions that return whole directives), if / with (two branches),
// range (body, else). Variable declarations and comments produce no output and are dropped.
package main

import (
	"encoding/json"
	"fmt"
	"os"
	"path/filepath"
	"sort"
	"strings"
	"text/template/parse"
)

// helper functions that return zero or more whole directives (checked by their own rendering in the C06/C07 search)
var fragFuncs = map[string]bool{"makeHTTPListener": true, "makeHTTPSListener": true, "makeTransportListener": true,
	"generateProxySetHeaders": true, "makeResolver": true, "makeServerName": true}

type out struct {
	Name  string `json:"name"`
	File  string `json:"file"`
	Lean  string `json:"lean"`
	Holes int    `json:"holes"`
	Texts int    `json:"texts"`
	Ifs   int    `json:"ifs"`
	Loops int    `json:"loops"`
}

var holes, texts, ifs, loops int

// variables that hold whole directives: assigned from a fragment function, or the loop variable of a range over snippets
var fragVars = map[string]bool{}

// inside `{{with <fragment function> …}}` the dot is a fragment
var dotIsFrag bool

func callsFrag(p *parse.PipeNode) bool {
	for _, c := range p.Cmds {
		if len(c.Args) > 0 {
			if id, ok := c.Args[0].(*parse.IdentifierNode); ok && fragFuncs[id.Ident] {
				return true
			}
		}
	}
	return false
}

func esc(s string) string {
	var b strings.Builder
	for _, r := range s {
		switch r {
		case '\\':
			b.WriteString("\\\\")
		case '"':
			b.WriteString("\\\"")
		case '\n':
			b.WriteString("\\n")
		case '\t':
			b.WriteString("\\t")
		case '\r':
			b.WriteString("\\r")
		default:
			b.WriteRune(r)
		}
	}
	return b.String()
}

func list(l *parse.ListNode) string {
	if l == nil {
		return ".nil"
	}
	var items []string
	for _, n := range l.Nodes {
		if s := node(n); s != "" {
			items = append(items, s)
		}
	}
	res := ".nil"
	for i := len(items) - 1; i >= 0; i-- {
		res = "(.cons " + items[i] + " " + res + ")"
	}
	return res
}

func node(n parse.Node) string {
	switch x := n.(type) {
	case *parse.TextNode:
		texts++
		return "(.text \"" + esc(string(x.Text)) + "\")"
	case *parse.ActionNode:
		frag := false
		for _, c := range x.Pipe.Cmds {
			if len(c.Args) > 0 {
				if id, ok := c.Args[0].(*parse.IdentifierNode); ok && fragFuncs[id.Ident] {
					frag = true
				}
				for _, a := range c.Args {
					if _, ok := a.(*parse.DotNode); ok && dotIsFrag {
						frag = true
					}
				}
				if v, ok := c.Args[0].(*parse.VariableNode); ok && len(c.Args) == 1 && len(v.Ident) == 1 && fragVars[v.Ident[0]] {
					frag = true
				}
			}
		}
		if len(x.Pipe.Decl) > 0 {
			if frag {
				for _, d := range x.Pipe.Decl {
					fragVars[d.Ident[0]] = true
				}
			}
			return ""
		}
		holes++
		f := "false"
		if frag {
			f = "true"
		}
		return "(.hole " + f + " \"" + esc(x.Pipe.String()) + "\")"
	case *parse.IfNode:
		ifs++
		return "(.ite " + list(x.List) + " " + list(x.ElseList) + ")"
	case *parse.WithNode:
		ifs++
		old := dotIsFrag
		if callsFrag(x.Pipe) {
			dotIsFrag = true
		}
		a := list(x.List)
		dotIsFrag = old
		return "(.ite " + a + " " + list(x.ElseList) + ")"
	case *parse.RangeNode:
		loops++
		var scoped []string
		if strings.Contains(x.Pipe.String(), "Snippets") {
			for _, d := range x.Pipe.Decl {
				if !fragVars[d.Ident[0]] {
					fragVars[d.Ident[0]] = true
					scoped = append(scoped, d.Ident[0])
				}
			}
		}
		res := "(.loop " + list(x.List) + " " + list(x.ElseList) + ")"
		for _, v := range scoped {
			delete(fragVars, v)
		}
		return res
	case *parse.CommentNode:
		return ""
	case *parse.TemplateNode:
		holes++
		return "(.hole true \"template " + esc(x.Name) + "\")"
	}
	return "(.text \"\")"
}

func main() {
	var res []out
	files := os.Args[1:]
	sort.Strings(files)
	for _, f := range files {
		b, err := os.ReadFile(f)
		if err != nil {
			fmt.Fprintln(os.Stderr, err)
			os.Exit(2)
		}
		t := parse.New(filepath.Base(f))
		t.Mode = parse.SkipFuncCheck
		set := map[string]*parse.Tree{}
		tree, err := t.Parse(string(b), "", "", set)
		if err != nil {
			fmt.Fprintln(os.Stderr, f, err)
			os.Exit(2)
		}
		holes, texts, ifs, loops = 0, 0, 0, 0
		fragVars = map[string]bool{}
		lean := list(tree.Root)
		name := strings.NewReplacer(".", "_", "-", "_").Replace(strings.TrimSuffix(filepath.Base(f), ".tmpl"))
		res = append(res, out{Name: name, File: f, Lean: lean, Holes: holes, Texts: texts, Ifs: ifs, Loops: loops})
	}
	o, _ := json.MarshalIndent(res, "", " ")
	fmt.Println(string(o))
}
