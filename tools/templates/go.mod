module verif/templates

go 1.23
