#!/usr/bin/env python3
"""Every identifier with an underscore that a property's LEVEL_TEXT mentions must be a theorem / def of lean/Nic (or a file under expect/).
Exit 1 and list the strays otherwise. Run by tools/regen_evidence.sh."""
import re, glob, os, sys
V = os.path.dirname(os.path.dirname(os.path.abspath(__file__)))
lean = ""
for f in glob.glob(os.path.join(V, "lean", "Nic", "**", "*.lean"), recursive=True):
    lean += open(f).read()
bad = 0
for p in sorted(glob.glob(os.path.join(V, "props", "C*.py"))):
    s = open(p).read()
    m = re.search(r'LEVEL_TEXT = \((.*?)\)\nLEVEL_NOTE', s, re.S)
    if not m:
        continue
    for w in sorted(set(re.findall(r'\b[a-zA-Z][a-zA-Z0-9]*_[a-zA-Z0-9_]+\b', m.group(1)))):
        if re.search(r'(theorem|def|lemma)\s+(\w+\.)*' + re.escape(w) + r'\b', lean):
            continue
        if os.path.exists(os.path.join(V, "expect", w + ".json")) or w.endswith("_"):
            continue
        print("%s: level text mentions %s, which is not a theorem or definition of lean/Nic" % (os.path.basename(p), w))
        bad += 1
sys.exit(1 if bad else 0)
